package sizeclass

// C07(c): statistics are eventually written to the Initial Size Class Cache
// and a later update is never dropped in favour of an earlier one.
//
// Engine A (mc.Scenario) on the REAL blobAccessMutableProtoStore over a fake
// ISCC BlobAccess whose Get/Put are scheduling points and may fail.

import (
	"context"
	"fmt"
	"runtime"
	"sort"
	"strconv"
	"strings"
	"sync"

	"verif/mc"

	remoteexecution "github.com/bazelbuild/remote-apis/build/bazel/remote/execution/v2"
	re_blobstore "github.com/buildbarn/bb-remote-execution/pkg/blobstore"
	"github.com/buildbarn/bb-remote-execution/pkg/verifsync"
	"github.com/buildbarn/bb-storage/pkg/blobstore/buffer"
	"github.com/buildbarn/bb-storage/pkg/blobstore/slicing"
	"github.com/buildbarn/bb-storage/pkg/digest"
	"github.com/buildbarn/bb-storage/pkg/proto/iscc"
	"google.golang.org/grpc/codes"
	"google.golang.org/grpc/status"
	"google.golang.org/protobuf/proto"
	"google.golang.org/protobuf/types/known/durationpb"
)

type statsHandle = re_blobstore.MutableProtoHandle[*iscc.PreviousExecutionStats]

func mkDigest(s string) digest.Digest {
	g := digestFunction.NewGenerator(int64(len(s)))
	g.Write([]byte(s))
	return g.Sum()
}

var (
	dA, dB, dC  = mkDigest("A"), mkDigest("B"), mkDigest("C")
	digestNames = map[string]string{dA.String(): "A", dB.String(): "B", dC.String(): "C"}
)

func nameOf(d digest.Digest) string { return digestNames[d.String()] }

// Tokens: every update appends a globally unique "execution time" to the
// statistics of size class 1; the token list of a message is its content.
func tokensOf(m *iscc.PreviousExecutionStats) string {
	var out []string
	for _, pe := range m.GetSizeClasses()[1].GetPreviousExecutions() {
		out = append(out, strconv.FormatInt(pe.GetSucceeded().GetSeconds(), 10))
	}
	return strings.Join(out, ",")
}

func tokensOfBytes(b []byte) string {
	var m iscc.PreviousExecutionStats
	if err := proto.Unmarshal(b, &m); err != nil {
		return "UNPARSABLE"
	}
	return tokensOf(&m)
}

func appendToken(m *iscc.PreviousExecutionStats, tok int64) {
	if m.SizeClasses == nil {
		m.SizeClasses = map[uint32]*iscc.PerSizeClassStats{}
	}
	if m.SizeClasses[1] == nil {
		m.SizeClasses[1] = &iscc.PerSizeClassStats{}
	}
	m.SizeClasses[1].PreviousExecutions = append(m.SizeClasses[1].PreviousExecutions, &iscc.PreviousExecution{
		Outcome: &iscc.PreviousExecution_Succeeded{Succeeded: &durationpb.Duration{Seconds: tok}},
	})
}

// extends reports whether token list a starts with token list b.
func extends(a, b string) bool {
	return a == b || b == "" || strings.HasPrefix(a, b+",")
}

func strictPrefix(shorter, longer string) bool {
	return shorter != longer && extends(longer, shorter)
}

// ---------------------------------------------------------------------------
// Fake Initial Size Class Cache

type tidKey struct{}

type putRec struct {
	d, toks  string
	tid      int
	step     int // decision count when the copy reached the fake
	done     bool
	ok       bool
	landed   int // order in which successful writes took effect (1, 2, ...)
	doneStep int // decision count when the Put call left the fake
	// handle is the message object of the handle that was registered for
	// the digest when the copy reached the fake (identity only; nil if
	// none): queued handles are registered handles.
	handle *iscc.PreviousExecutionStats
}

// callRec is what an in-progress store.Get() call of a harness thread has
// learned through the goroutines it spawned (they die before the thread
// takes its next step, so the engine cannot attribute it to the thread).
type callRec struct {
	read   string
	failed bool
}

type fakeISCC struct {
	x  *mc.X
	mu sync.Mutex // plain bookkeeping lock, never held across a scheduling point

	data       map[string][]byte
	content    map[string]string // digest name -> rendered token list of data
	puts       []*putRec
	calls      map[int]*callRec
	inFake     map[int]int // per harness thread: sub-calls currently parked in the fake
	putsInFake map[int]int // ... of which Put calls
	getFaults  bool
	putFaults  bool
	faultFree  bool // set during the drain
	landed     int
	// registeredMessage returns the message object of the handle that is
	// currently registered for a digest (installed once the store exists).
	registeredMessage func(d digest.Digest) *iscc.PreviousExecutionStats
}

func (f *fakeISCC) enter(tid, n int) {
	f.mu.Lock()
	f.inFake[tid] += n
	f.mu.Unlock()
}

// waiting reports whether the store.Get() call of a harness thread is
// waiting for sub-calls that are parked in the fake.
func (f *fakeISCC) waiting(tid int, forPut bool) bool {
	f.mu.Lock()
	defer f.mu.Unlock()
	if forPut {
		return f.putsInFake[tid] > 0
	}
	return f.inFake[tid] > 0
}

func (f *fakeISCC) call(tid int) *callRec {
	c := f.calls[tid]
	if c == nil {
		c = &callRec{read: "-"}
		f.calls[tid] = c
	}
	return c
}

func tidOf(ctx context.Context) int {
	if v, ok := ctx.Value(tidKey{}).(int); ok {
		return v
	}
	return -1
}

func (f *fakeISCC) Get(ctx context.Context, d digest.Digest) buffer.Buffer {
	tid := tidOf(ctx)
	label := fmt.Sprintf("iscc.Get(%s) by T%d", nameOf(d), tid)
	fail := false
	f.enter(tid, 1)
	if f.getFaults && !f.faultFree {
		fail = f.x.Choose(label, 2) == 1
	} else {
		f.x.Point(label)
	}
	f.mu.Lock()
	defer f.mu.Unlock()
	f.inFake[tid]--
	c := f.call(tid)
	if ctx.Err() != nil {
		c.failed = true
		return buffer.NewBufferFromError(status.Error(codes.Canceled, "context cancelled"))
	}
	if fail {
		c.failed = true
		f.x.Logf("iscc.Get(%s) by T%d FAILS", nameOf(d), tid)
		return buffer.NewBufferFromError(status.Error(codes.Unavailable, "ISCC unavailable"))
	}
	b, ok := f.data[d.String()]
	if !ok {
		c.read = "absent"
		f.x.Logf("iscc.Get(%s) by T%d = NotFound", nameOf(d), tid)
		return buffer.NewBufferFromError(status.Error(codes.NotFound, "not found"))
	}
	c.read = "[" + f.content[nameOf(d)] + "]"
	f.x.Logf("iscc.Get(%s) by T%d = %s", nameOf(d), tid, c.read)
	return buffer.NewProtoBufferFromByteSlice(&iscc.PreviousExecutionStats{}, append([]byte(nil), b...), buffer.UserProvided)
}

func (f *fakeISCC) Put(ctx context.Context, d digest.Digest, b buffer.Buffer) error {
	tid := tidOf(ctx)
	data, err := b.ToByteSlice(1 << 20)
	if err != nil {
		return err
	}
	rec := &putRec{d: nameOf(d), toks: tokensOfBytes(data), tid: tid, step: f.x.Steps()}
	if !f.x.Free() && f.registeredMessage != nil {
		// Safe: all other goroutines are parked outside the store's
		// critical sections or have not passed their first hook yet.
		rec.handle = f.registeredMessage(d)
	}
	f.mu.Lock()
	f.puts = append(f.puts, rec)
	f.inFake[tid]++
	f.putsInFake[tid]++
	f.mu.Unlock()
	label := fmt.Sprintf("iscc.Put(%s=[%s]) by T%d", rec.d, rec.toks, tid)
	fail := false
	if f.putFaults && !f.faultFree {
		fail = f.x.Choose(label, 2) == 1
	} else {
		f.x.Point(label)
	}
	f.mu.Lock()
	defer f.mu.Unlock()
	f.inFake[tid]--
	f.putsInFake[tid]--
	rec.done = true
	rec.doneStep = f.x.Steps()
	// All the writing goroutine knows from here on is which copy it wrote
	// and whether that succeeded.
	defer func() { f.x.ResetLocal(fmt.Sprintf("put %s=[%s] by T%d ok=%v", rec.d, rec.toks, tid, rec.ok)) }()
	if ctx.Err() != nil {
		f.call(tid).failed = true
		f.x.Logf("iscc.Put(%s=[%s]) by T%d cancelled", rec.d, rec.toks, tid)
		return status.Error(codes.Canceled, "context cancelled")
	}
	if fail {
		f.call(tid).failed = true
		f.x.Logf("iscc.Put(%s=[%s]) by T%d FAILS", rec.d, rec.toks, tid)
		return status.Error(codes.Unavailable, "ISCC unavailable")
	}
	rec.ok = true
	f.landed++
	rec.landed = f.landed
	f.data[d.String()] = data
	f.content[rec.d] = rec.toks
	f.x.Logf("iscc.Put(%s=[%s]) by T%d stored", rec.d, rec.toks, tid)
	return nil
}

func (f *fakeISCC) GetFromComposite(ctx context.Context, parentDigest, childDigest digest.Digest, slicer slicing.BlobSlicer) buffer.Buffer {
	panic("unexpected GetFromComposite")
}

func (f *fakeISCC) FindMissing(ctx context.Context, digests digest.Set) (digest.Set, error) {
	panic("unexpected FindMissing")
}

func (f *fakeISCC) GetCapabilities(ctx context.Context, instanceName digest.InstanceName) (*remoteexecution.ServerCapabilities, error) {
	panic("unexpected GetCapabilities")
}

// ---------------------------------------------------------------------------
// Environment of one execution

type relRec struct {
	d, toks string
	tid     int
	step    int
}

type heldRec struct {
	tid int
	d   string
	h   statsHandle
}

type storeEnv struct {
	x     *mc.X
	iscc  *fakeISCC
	store re_blobstore.MutableProtoStore[*iscc.PreviousExecutionStats]
	dump  func() []re_blobstore.VerifSizeclassHandleInfo

	// glock plays the role of the scheduler's global lock, under which
	// all methods of handles must be called.
	glock verifsync.Mutex

	mu       sync.Mutex // plain bookkeeping lock
	releases []relRec
	held     []heldRec
	draining bool
	getErrs  int
	arrived  int // sequenced scenarios: number of requests that have arrived
	done     []bool
}

// Predicates for the gates of directed scenarios (evaluated by the
// controller at quiescent points).
func (e *storeEnv) isDone(tid int) bool {
	e.mu.Lock()
	defer e.mu.Unlock()
	return e.done[tid]
}

func (e *storeEnv) holds(tid int) bool {
	e.mu.Lock()
	defer e.mu.Unlock()
	for _, o := range e.held {
		if o.tid == tid {
			return true
		}
	}
	return false
}

func (e *storeEnv) registered(d digest.Digest) bool {
	if e.x.Free() {
		// Race pass: the dump hook reads without the store's lock.
		return false
	}
	for _, i := range e.dump() {
		if i.Registered && i.Digest == d.String() {
			return true
		}
	}
	return false
}

type callKind int

const (
	update callKind = iota // Get, append a unique token, Release(true)
	touch                  // Get, Release(false)
)

type scriptCall struct {
	kind callKind
	d    digest.Digest
}

func upd(d digest.Digest) scriptCall { return scriptCall{update, d} }
func tch(d digest.Digest) scriptCall { return scriptCall{touch, d} }

func (c scriptCall) String() string {
	if c.kind == update {
		return "update(" + nameOf(c.d) + ")"
	}
	return "touch(" + nameOf(c.d) + ")"
}

// get obtains a handle and applies the oracle on simultaneously held
// handles: whoever holds a handle for a digest at the same time as somebody
// else must see the very same message, otherwise one of the two updates is
// necessarily dropped in favour of the other.
func (e *storeEnv) get(tid int, d digest.Digest) (statsHandle, bool) {
	h, err := e.store.Get(context.WithValue(context.Background(), tidKey{}, tid), d)
	e.iscc.mu.Lock()
	delete(e.iscc.calls, tid)
	e.iscc.mu.Unlock()
	if err != nil {
		e.x.Logf("T%d: Get(%s) = %v", tid, nameOf(d), err)
		e.mu.Lock()
		e.getErrs++
		e.mu.Unlock()
		return nil, false
	}
	e.mu.Lock()
	defer e.mu.Unlock()
	if e.x.Verbose() {
		e.x.Logf("T%d: Get(%s) = handle with [%s]", tid, nameOf(d), tokensOf(h.GetMutableProto()))
	}
	if !e.x.Free() {
		for _, o := range e.held {
			if o.d == nameOf(d) && o.h.GetMutableProto() != h.GetMutableProto() {
				e.x.FailP(prop, "store/distinct-copies-held-simultaneously", "T%d obtained a handle for %s holding [%s] while T%d still holds a handle for the same digest with a different message object holding [%s]: the two holders do not see each other's updates, one of them will be lost", tid, nameOf(d), tokensOf(h.GetMutableProto()), o.tid, tokensOf(o.h.GetMutableProto()))
			}
		}
	}
	e.held = append(e.held, heldRec{tid: tid, d: nameOf(d), h: h})
	return h, true
}

func (e *storeEnv) unhold(tid int) {
	e.mu.Lock()
	defer e.mu.Unlock()
	for i, o := range e.held {
		if o.tid == tid {
			e.held = append(e.held[:i], e.held[i+1:]...)
			return
		}
	}
}

func (e *storeEnv) run(tid int, c scriptCall, tok int64) {
	h, ok := e.get(tid, c.d)
	if !ok {
		return
	}
	// All the thread knows at this point is which call it is executing and
	// which handle it holds; the latter is part of the global key ("held").
	e.x.ResetLocal(fmt.Sprintf("T%d holds a handle for %s, about to %v", tid, nameOf(c.d), c))
	e.glock.Lock()
	if c.kind == update {
		m := h.GetMutableProto()
		appendToken(m, tok)
		e.mu.Lock()
		e.releases = append(e.releases, relRec{d: nameOf(c.d), toks: tokensOf(m), tid: tid, step: e.x.Steps()})
		e.mu.Unlock()
		e.x.Logf("T%d: Release(dirty) of %s with [%s]", tid, nameOf(c.d), tokensOf(m))
	} else {
		e.x.Logf("T%d: Release(clean) of %s", tid, nameOf(c.d))
	}
	e.unhold(tid)
	h.Release(c.kind == update)
	e.glock.Unlock()
}

// key is the canonical global state: store bookkeeping, ISCC contents,
// in-flight writes, what in-progress Get calls have read, and everything the
// oracles remember.
func (e *storeEnv) key() string {
	var b strings.Builder
	infos := e.dump()
	for _, i := range infos {
		fmt.Fprintf(&b, "h(%s reg=%v q=%d use=%d w=%d c=%d [%s]) ", digestNames[i.Digest], i.Registered, i.QueueIndex, i.UseCount, i.WrittenVersion, i.CurrentVersion, tokensOf(i.Message.(*iscc.PreviousExecutionStats)))
	}
	e.iscc.mu.Lock()
	var ds []string
	for d, toks := range e.iscc.content {
		ds = append(ds, d+"=["+toks+"]")
	}
	sort.Strings(ds)
	fmt.Fprintf(&b, "| iscc %s ", strings.Join(ds, " "))
	var inflight []string
	maximal := map[string][]string{}
	addMaximal := func(d, toks string) {
		l := maximal[d]
		for i, o := range l {
			if extends(o, toks) {
				return
			}
			if extends(toks, o) {
				l[i] = toks
				return
			}
		}
		maximal[d] = append(l, toks)
	}
	for _, p := range e.iscc.puts {
		if !p.done {
			inflight = append(inflight, p.d+"["+p.toks+"]T"+strconv.Itoa(p.tid))
		}
		if !p.done || p.ok {
			addMaximal("put "+p.d, p.toks)
		}
	}
	sort.Strings(inflight)
	fmt.Fprintf(&b, "| inflight %s ", strings.Join(inflight, " "))
	var calls []string
	for tid, c := range e.iscc.calls {
		calls = append(calls, fmt.Sprintf("T%d:%s/%v", tid, c.read, c.failed))
	}
	sort.Strings(calls)
	fmt.Fprintf(&b, "| calls %s ", strings.Join(calls, " "))
	e.mu.Lock()
	var unsat []string
	for _, r := range e.releases {
		addMaximal("rel "+r.d, r.toks)
		if !e.satisfied(r) {
			unsat = append(unsat, r.d+"["+r.toks+"]")
		}
	}
	sort.Strings(unsat)
	fmt.Fprintf(&b, "| unwritten %s ", strings.Join(unsat, " "))
	var mx []string
	for d, l := range maximal {
		sort.Strings(l)
		mx = append(mx, d+":"+strings.Join(l, "/"))
	}
	sort.Strings(mx)
	fmt.Fprintf(&b, "| max %s ", strings.Join(mx, " "))
	var held []string
	for _, o := range e.held {
		slot := "orphan[" + tokensOf(o.h.GetMutableProto()) + "]"
		for k, i := range infos {
			if i.Message.(*iscc.PreviousExecutionStats) == o.h.GetMutableProto() {
				slot = strconv.Itoa(k)
			}
		}
		held = append(held, fmt.Sprintf("T%d:%s", o.tid, slot))
	}
	sort.Strings(held)
	fmt.Fprintf(&b, "| held %s | drain=%v errs=%d arrived=%d", strings.Join(held, " "), e.draining, e.getErrs, e.arrived)
	e.mu.Unlock()
	e.iscc.mu.Unlock()
	return b.String()
}

// satisfied: oracle (i) for one dirty release. Caller holds e.iscc.mu.
func (e *storeEnv) satisfied(r relRec) bool {
	for _, p := range e.iscc.puts {
		if p.ok && p.d == r.d && p.step >= r.step && extends(p.toks, r.toks) {
			return true
		}
	}
	return false
}

// invariants: oracle (iv) and the non-negative use counts of (iii), at
// every quiescent point. No goroutine is ever parked inside a critical
// section of the store's lock, so the dump is consistent.
func (e *storeEnv) invariants() {
	for _, i := range e.dump() {
		d := digestNames[i.Digest]
		if i.WrittenVersion > i.CurrentVersion {
			e.x.FailP(prop, "store/written-version-exceeds-current", "handle of %s: writtenVersion %d > currentVersion %d (use count %d, queue index %d)", d, i.WrittenVersion, i.CurrentVersion, i.UseCount, i.QueueIndex)
		}
		if i.UseCount < 0 {
			e.x.FailP(prop, "store/negative-use-count", "handle of %s: use count %d", d, i.UseCount)
		}
	}
}

func (e *storeEnv) finish() {
	x := e.x
	e.iscc.mu.Lock()
	defer e.iscc.mu.Unlock()
	e.mu.Lock()
	defer e.mu.Unlock()
	final := func(d string) string {
		if toks, ok := e.iscc.content[d]; ok {
			return "[" + toks + "]"
		}
		return "absent"
	}
	// (i) every recorded state is eventually written.
	for _, r := range e.releases {
		if !e.satisfied(r) {
			x.FailP(prop, "store/dirty-release-never-written", "T%d released the handle of %s dirty with [%s] (step %d), but after the drain no successful Put of %s taken at or after that release carries these statistics; puts: %s; final ISCC contents: %s", r.tid, r.d, r.toks, r.step, r.d, e.renderPuts(r.d), final(r.d))
		}
	}
	// (ii) never an older version after a newer one. (Copies that reach the
	// fake in the same step were taken by the same Get() call under the
	// store's lock; the order of those Put() calls carries no meaning.)
	for i, p1 := range e.iscc.puts {
		for _, p2 := range e.iscc.puts[i+1:] {
			if p1.ok && p2.ok && p1.d == p2.d && p2.step > p1.step && strictPrefix(p2.toks, p1.toks) {
				x.FailP(prop, "store/older-version-written-after-newer", "Put of %s=[%s] (copy taken at step %d) was followed by a successful Put of the older version [%s] (copy taken at step %d)", p1.d, p1.toks, p1.step, p2.toks, p2.step)
			}
		}
	}
	// (v) the cache does not end up with an older version of released statistics.
	for _, r := range e.releases {
		if f := final(r.d); f != "absent" && strictPrefix(strings.Trim(f, "[]"), r.toks) {
			// Which write left the older version behind, and was its copy
			// taken before the copy of a write that carried the release?
			var last, newer *putRec
			for _, p := range e.iscc.puts {
				if p.ok && p.d == r.d {
					if last == nil || p.landed > last.landed {
						last = p
					}
					if newer == nil && extends(p.toks, r.toks) {
						newer = p
					}
				}
			}
			// Known finding F5, precisely: two write-backs of the same
			// handle object were in flight at the same time (the older
			// copy was taken first and its Put had not returned when the
			// newer copy reached the cache) and the older one took effect
			// last. Anything else that leaves an older version behind is
			// reported under the general fingerprint below.
			if last != nil && newer != nil && last != newer &&
				last.step < newer.step && last.doneStep > newer.step && last.landed > newer.landed &&
				strictPrefix(last.toks, newer.toks) &&
				last.handle != nil && last.handle == newer.handle {
				x.FailP(prop, "store/overlapping-write-backs-landed-out-of-order", "two write-backs of %s were in flight at the same time: the copy [%s] (taken at step %d) took effect after the newer copy [%s] (taken at step %d), and nothing wrote the newer version again: after the drain the ISCC holds %s=%s although T%d released [%s]; puts: %s", r.d, last.toks, last.step, newer.toks, newer.step, r.d, f, r.tid, r.toks, e.renderPuts(r.d))
			}
			x.FailP(prop, "store/final-contents-older-than-release", "after the drain the ISCC holds %s=%s, an older version of the statistics [%s] that T%d released; puts: %s", r.d, f, r.toks, r.tid, e.renderPuts(r.d))
		}
	}
	// (iii) nothing is left behind.
	if infos := e.dump(); len(infos) != 0 {
		var l []string
		for _, i := range infos {
			l = append(l, fmt.Sprintf("%s(use=%d written=%d current=%d queue=%d)", digestNames[i.Digest], i.UseCount, i.WrittenVersion, i.CurrentVersion, i.QueueIndex))
		}
		x.FailP(prop, "store/handles-left-after-drain", "after all handles were released and the write queue was drained the store still tracks: %s", strings.Join(l, " "))
	}
	cross := 0
	for _, r := range e.releases {
		f := "," + strings.Trim(final(r.d), "[]") + ","
		for _, t := range strings.Split(r.toks, ",") {
			if !strings.Contains(f, ","+t+",") {
				cross++
				break
			}
		}
	}
	x.Outcome("A=%s B=%s releases=%d puts=%d get_errors=%d cross_handle_races=%d", final("A"), final("B"), len(e.releases), len(e.iscc.puts), e.getErrs, cross)
}

func (e *storeEnv) renderPuts(d string) string {
	var l []string
	for _, p := range e.iscc.puts {
		if p.d == d {
			l = append(l, fmt.Sprintf("[%s]@%d ok=%v landed=%d", p.toks, p.step, p.ok, p.landed))
		}
	}
	return strings.Join(l, " ")
}

// ---------------------------------------------------------------------------
// Scenarios

type arrivalMode int

const (
	allAtOnce arrivalMode = iota
	afterWait
	afterPut
)

type storeScenario struct {
	name    string
	scripts [][]scriptCall
	// sequenced: request k+1 arrives only once request k has completed
	// or is waiting for the cache: afterWait = any of its sub-calls is
	// parked in the fake ISCC, afterPut = one of its write-backs is. This
	// concentrates the exploration on in-flight reads and write-backs;
	// thread-against-thread races at lock granularity are covered by the
	// scenarios in which all threads start at once (allAtOnce).
	sequenced arrivalMode
	// gates (directed scenarios): gates[k] decides when request k+2 may
	// arrive, instead of the arrival mode.
	gates       []func(e *storeEnv) bool
	getFaults   bool
	putFaults   bool
	preemptFree bool
	bounds      map[string]int
	shards      int
}

var singleP sync.Once

func (sc *storeScenario) scenario() *mc.Scenario {
	// Executions of one scenario run one after the other in a process.
	var current *storeEnv
	return &mc.Scenario{
		Name:     sc.name,
		Props:    []string{prop},
		Liveness: []string{prop},
		Livelock: []string{prop},
		Panics:   []string{prop},
		Bounds:   sc.bounds,
		Shards:   sc.shards,

		PreemptFree: sc.preemptFree,
		Build: func(x *mc.X) {
			if !x.Free() {
				// Goroutines spawned by the store reach their first hook in
				// spawn order only if they cannot run in parallel.
				singleP.Do(func() { runtime.GOMAXPROCS(1) })
			}
			x.AdoptAnonymous()
			f := &fakeISCC{x: x, data: map[string][]byte{}, content: map[string]string{}, calls: map[int]*callRec{}, inFake: map[int]int{}, putsInFake: map[int]int{}, getFaults: sc.getFaults, putFaults: sc.putFaults}
			e := &storeEnv{x: x, iscc: f}
			e.store = re_blobstore.NewBlobAccessMutableProtoStore[iscc.PreviousExecutionStats](f, 1<<20)
			e.dump = e.store.(interface {
				VerifSizeclassDump() []re_blobstore.VerifSizeclassHandleInfo
			}).VerifSizeclassDump
			f.registeredMessage = func(d digest.Digest) *iscc.PreviousExecutionStats {
				for _, i := range e.dump() {
					if i.Registered && i.Digest == d.String() {
						return i.Message.(*iscc.PreviousExecutionStats)
					}
				}
				return nil
			}
			done := make([]bool, len(sc.scripts)+1)
			spawn := func(tid int) {
				script := sc.scripts[tid-1]
				name := fmt.Sprintf("T%d", tid)
				x.Go(name, func() {
					for ci, c := range script {
						x.ResetLocal(fmt.Sprintf("%s#%d", name, ci))
						e.run(tid, c, int64(10*tid+ci))
					}
					x.ResetLocal(name + "#end")
					e.mu.Lock()
					done[tid] = true
					e.mu.Unlock()
				})
			}
			e.done = done
			if sc.sequenced != allAtOnce || sc.gates != nil {
				e.arrived = 1
				spawn(1)
				x.AddEvent(&mc.Event{
					Name: "next request arrives",
					Free: true,
					Enabled: func() bool {
						if e.arrived >= len(sc.scripts) {
							return false
						}
						if sc.gates != nil {
							return sc.gates[e.arrived-1](e)
						}
						e.mu.Lock()
						d := done[e.arrived]
						e.mu.Unlock()
						return d || f.waiting(e.arrived, sc.sequenced == afterPut)
					},
					Fire: func() {
						e.arrived++
						spawn(e.arrived)
					},
				})
			} else {
				for ti := range sc.scripts {
					spawn(ti + 1)
				}
			}
			x.AddEvent(&mc.Event{
				Name:     "drain",
				Teardown: true,
				Enabled:  func() bool { return !e.draining },
				Fire: func() {
					e.draining = true
					f.faultFree = true
					x.Go("D", func() {
						// Every Get() writes back up to three queued
						// handles; nothing can fail any more.
						for i := 0; i < 6 && (x.Free() || len(e.dump()) > 0); i++ {
							x.ResetLocal(fmt.Sprintf("D#%d", i))
							e.run(99, tch(dC), 0)
						}
						x.ResetLocal("D#end")
					})
				},
			})
			x.SetKey(e.key)
			x.Monitor(prop, e.invariants)
			current = e
		},
		Finish: func(x *mc.X) {
			if current != nil && current.x == x {
				current.finish()
			}
		},
	}
}

func storeScenarios() []*mc.Scenario {
	unbounded := func(quick int) map[string]int { return map[string]int{"quick": quick, "thorough": -1} }
	scs := []*storeScenario{
		{
			// The 4-step history: a write-back of A is in flight while A's
			// handle is re-acquired, modified, released dirty and
			// re-acquired again; the write completes; released clean.
			name:      "store-reacquire-during-writeback",
			scripts:   [][]scriptCall{{upd(dA)}, {tch(dB)}, {upd(dA)}, {tch(dA)}},
			sequenced: afterPut,
			putFaults: true,
			bounds:    unbounded(1),
		},
		{
			// Two requests for the same digest whose Get() calls overlap from
			// the start (both parked in the ISCC read before either registers
			// a handle), with read and write failures.
			name:      "store-overlap-2-faults",
			scripts:   [][]scriptCall{{upd(dA), tch(dB)}, {upd(dA)}},
			getFaults: true,
			putFaults: true,
			bounds:    unbounded(2),
		},
		{
			// Three overlapping requests on two colliding digests.
			name:    "store-overlap-3",
			scripts: [][]scriptCall{{upd(dA), tch(dB)}, {upd(dA)}, {tch(dA)}},
			// Unbounded needs more than 2.5 million executions.
			bounds: map[string]int{"quick": 0, "thorough": 2},
			shards: 8,
		},
		{
			// Requests arriving while a write-back started by the previous
			// one is in flight, with read and write failures. (This is the
			// scenario in which two write-backs of one handle overlap.)
			name:      "store-arrivals-3-faults",
			scripts:   [][]scriptCall{{upd(dA)}, {tch(dB)}, {upd(dA), tch(dB)}},
			sequenced: afterPut,
			putFaults: true,
			getFaults: true,
			bounds:    unbounded(1),
		},
		{
			// The same arrival pattern with dirty handles of both digests.
			name:      "store-arrivals-two-digests",
			scripts:   [][]scriptCall{{upd(dA)}, {upd(dB), tch(dA)}, {upd(dA)}},
			sequenced: afterPut,
			putFaults: true,
			bounds:    unbounded(1),
		},
		{
			// Directed: a handle is released clean, hence queued a second
			// time, while its write-back is in flight; that write completes
			// (the handle is destroyed); another Get() drains the queue while
			// a new handle for the digest is obtained and held, and yet
			// another request for the digest arrives. All six requests run
			// in any case; the gates only order their arrival.
			name:    "store-requeued-during-writeback-directed",
			scripts: [][]scriptCall{{upd(dA)}, {tch(dB)}, {tch(dA)}, {tch(dB)}, {upd(dA)}, {upd(dA)}},
			gates: []func(e *storeEnv) bool{
				func(e *storeEnv) bool { return e.isDone(1) },
				func(e *storeEnv) bool { return e.iscc.waiting(2, true) || e.isDone(2) },
				func(e *storeEnv) bool { return e.isDone(3) && e.isDone(2) },
				func(e *storeEnv) bool { return (e.iscc.waiting(4, true) && !e.registered(dA)) || e.isDone(4) },
				func(e *storeEnv) bool { return e.holds(5) || e.isDone(5) },
			},
			bounds: map[string]int{"quick": 2, "thorough": -1},
		},
	}
	var out []*mc.Scenario
	for _, sc := range scs {
		out = append(out, sc.scenario())
	}
	return out
}
