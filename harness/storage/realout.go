package storage

import (
	"context"
	"fmt"
	"sort"
	"syscall"
	"time"

	"verif/mc"

	remoteexecution "github.com/bazelbuild/remote-apis/build/bazel/remote/execution/v2"
	"github.com/buildbarn/bb-remote-execution/pkg/builder"
	"github.com/buildbarn/bb-remote-execution/pkg/filesystem/access"
	"github.com/buildbarn/bb-remote-execution/pkg/filesystem/pool"
	"github.com/buildbarn/bb-remote-execution/pkg/proto/remoteworker"
	"github.com/buildbarn/bb-storage/pkg/blobstore"
	"github.com/buildbarn/bb-storage/pkg/blobstore/buffer"
	"github.com/buildbarn/bb-storage/pkg/clock"
	"github.com/buildbarn/bb-storage/pkg/digest"
	"github.com/buildbarn/bb-storage/pkg/filesystem"
	"github.com/buildbarn/bb-storage/pkg/filesystem/path"

	"golang.org/x/sync/semaphore"
	"google.golang.org/grpc/codes"
	"google.golang.org/grpc/status"
)

// ---------------------------------------------------------------------------
// Pipeline options

type pipeOpts struct {
	// inner builds the innermost executor around the batching writer
	// (default: fakeLocal).
	inner func(w *world, writer blobstore.BlobAccess) builder.BuildExecutor
	// timestamped puts the real NewTimestampedBuildExecutor between the
	// storage flushing and the caching executor, where cmd/bb_worker/main.go
	// has it (it runs the inner chain on a goroutine of its own).
	timestamped bool
}

type constClock struct{}

var _ clock.Clock = constClock{}

func (constClock) Now() time.Time { return time.Unix(1000, 0) }
func (constClock) NewContextWithTimeout(parent context.Context, d time.Duration) (context.Context, context.CancelFunc) {
	panic("harness: NewContextWithTimeout is not expected")
}
func (constClock) NewTimer(d time.Duration) (clock.Timer, <-chan time.Time) {
	panic("harness: NewTimer is not expected")
}
func (constClock) NewTicker(d time.Duration) (clock.Ticker, <-chan time.Time) {
	panic("harness: NewTicker is not expected")
}

// ---------------------------------------------------------------------------
// Real OutputHierarchy as the innermost executor's upload phase
//
// The results that reach the flushing/caching layers are produced by the
// real builder.OutputHierarchy.UploadOutputs() walking a small fake output
// directory, for every Command.output_directory_format value and the
// worker's force flag, writing through the batching writer - instead of an
// ActionResult filled in by the harness. What the AC-entry oracle judges is
// therefore what the real upload code lists: "every digest referenced by the
// stored ActionResult is in the CAS at the time of the AC Put".

// register gives d a stable name: the name of a known blob, or "M<k>" in
// order of first appearance (Tree / Directory messages computed by the code
// under test; UploadOutputs is sequential, so the order is deterministic).
func (w *world) registerBlob(dg digest.Digest) string {
	w.mu.Lock()
	defer w.mu.Unlock()
	k := w.key(dg)
	if n, ok := w.names[k]; ok {
		return n
	}
	n := fmt.Sprintf("M%d", w.nextMsg)
	w.nextMsg++
	w.names[k] = n
	w.digests[n] = dg
	return n
}

// namingWriter sits between the upload code and the batching writer: names
// the blobs and records the acknowledgements.
type namingWriter struct {
	blobstore.BlobAccess
	w *world
}

func (n *namingWriter) Put(ctx context.Context, dg digest.Digest, b buffer.Buffer) error {
	w := n.w
	name := w.registerBlob(dg)
	w.scope(ctx, 1)
	err := n.BlobAccess.Put(ctx, dg, b)
	w.scope(ctx, -1)
	if err == nil {
		w.ackedPut(ctx, name)
	}
	return err
}

// outNode: file (blob name), or directory.
type outNode struct {
	blob     string
	children map[string]*outNode
}

// The produced outputs: output file "f", output directory "d" with a file, a
// duplicate of f's contents one level deeper and an empty subdirectory.
func producedTree() *outNode {
	return &outNode{children: map[string]*outNode{
		"f": {blob: "A"},
		"d": {children: map[string]*outNode{
			"g": {blob: "B"},
			"s": {children: map[string]*outNode{"h": {blob: "A"}}},
		}},
	}}
}

type outDir struct {
	w      *world
	writer blobstore.BlobAccess
	n      *outNode
}

var _ builder.UploadableDirectory = (*outDir)(nil)

func (d *outDir) Close() error { return nil }

func (d *outDir) EnterUploadableDirectory(name path.Component) (builder.UploadableDirectory, error) {
	c := d.n.children[name.String()]
	if c == nil {
		return nil, syscall.ENOENT
	}
	if c.children == nil {
		return nil, syscall.ENOTDIR
	}
	return &outDir{w: d.w, writer: d.writer, n: c}, nil
}

func (d *outDir) info(name string, c *outNode) filesystem.FileInfo {
	t := filesystem.FileTypeRegularFile
	if c.children != nil {
		t = filesystem.FileTypeDirectory
	}
	return filesystem.NewFileInfo(path.MustNewComponent(name), t, false)
}

func (d *outDir) Lstat(name path.Component) (filesystem.FileInfo, error) {
	c := d.n.children[name.String()]
	if c == nil {
		return filesystem.FileInfo{}, syscall.ENOENT
	}
	return d.info(name.String(), c), nil
}

func (d *outDir) ReadDir() ([]filesystem.FileInfo, error) {
	var names []string
	for k := range d.n.children {
		names = append(names, k)
	}
	sort.Strings(names)
	var l []filesystem.FileInfo
	for _, k := range names {
		l = append(l, d.info(k, d.n.children[k]))
	}
	return l, nil
}

func (d *outDir) Readlink(name path.Component) (path.Parser, error) {
	return nil, syscall.EINVAL
}

func (d *outDir) UploadFile(ctx context.Context, name path.Component, digestFunction digest.Function, writableFileUploadDelay <-chan struct{}) (digest.Digest, error) {
	c := d.n.children[name.String()]
	if c == nil || c.children != nil {
		return digest.BadDigest, syscall.ENOENT
	}
	dg := d.w.digests[c.blob]
	if err := d.writer.Put(ctx, dg, d.w.newBuffer(ctx, c.blob)); err != nil {
		return digest.BadDigest, err
	}
	return dg, nil
}

// realOutputsLocal stands in for LocalBuildExecutor's upload phase: the real
// OutputHierarchy over the fake directory, errors attached to the response
// the way LocalBuildExecutor does.
type realOutputsLocal struct {
	w      *world
	writer blobstore.BlobAccess
}

func (e *realOutputsLocal) CheckReadiness(ctx context.Context) error { return nil }

func (e *realOutputsLocal) Execute(ctx context.Context, filePool pool.FilePool, monitor access.UnreadDirectoryMonitor, digestFunction digest.Function, request *remoteworker.DesiredState_Executing, executionStateUpdates chan<- *remoteworker.CurrentState_Executing) *remoteexecution.ExecuteResponse {
	w := e.w
	cfg := actionOf(ctx).cfg
	resp := builder.NewDefaultExecuteResponse(request)
	oh, err := builder.NewOutputHierarchy(&remoteexecution.Command{
		OutputPaths:           []string{"f", "d", "missing"},
		OutputDirectoryFormat: remoteexecution.Command_OutputDirectoryFormat(cfg.format),
	})
	if err != nil {
		panic(fmt.Sprintf("harness: NewOutputHierarchy: %v", err))
	}
	nw := &namingWriter{BlobAccess: e.writer, w: w}
	if err := oh.UploadOutputs(ctx, &outDir{w: w, writer: nw, n: producedTree()}, nw, digestFunction, nil, resp.Result, cfg.force); err != nil {
		attach(resp, err)
	}
	switch cfg.outcome {
	case outcomeExit1:
		resp.Result.ExitCode = 1
	case outcomeStatusError:
		attach(resp, status.Error(codes.Internal, "injected failure of the action itself"))
	}
	return resp
}

// realOutputs: one action whose result is produced by the real
// OutputHierarchy; free choices: output_directory_format {TREE_ONLY,
// DIRECTORY_ONLY, TREE_AND_DIRECTORY, undefined value 3} x force flag x
// outcome {exit 0, exit 1} x do_not_cache; every fault position as in
// one-action.
func realOutputs(batchSize, semWeight int) *mc.Scenario {
	sc := base(fmt.Sprintf("real-outputs/batch=%d/sem=%d", batchSize, semWeight))
	var g leakGuard
	sc.Build = func(x *mc.X) {
		g.start()
		x.AdoptAnonymous()
		w := newWorld(x)
		w.addCancelEvents(x)
		x.Go("worker", func() {
			var c actionCfg
			c.real = true
			c.format = int32(x.ChooseFree("output_directory_format", 4))
			c.force = x.ChooseFree("forceUploadTreesAndDirectories", 2) == 1
			c.outcome = x.ChooseFree("outcome", 2)
			c.dnc = x.ChooseFree("do_not_cache", 2) == 1
			c.attach = true
			c.blobs = []string{"A", "B", "A"}
			p := newPipeline(w, &fakeCAS{w}, &fakeAC{fakeCAS{w}}, batchSize, semaphore.NewWeighted(int64(semWeight)), pipeOpts{
				inner: func(w *world, writer blobstore.BlobAccess) builder.BuildExecutor {
					return &realOutputsLocal{w: w, writer: writer}
				},
			})
			p.runAction(c)
		})
	}
	sc.Finish = g.finish
	return sc
}

// twoActionsTimestamped: two consecutive actions on one worker thread (one
// batching writer / flusher / semaphore) through the real
// NewTimestampedBuildExecutor, which runs the inner chain (local < storage
// flushing) on a goroutine of its own and waits for it. The first action can
// be cancelled by the environment while its uploads are in flight; its inner
// chain then unwinds at the scheduler's pace (parked at its storage calls),
// i.e. arbitrarily slowly relative to whatever the worker thread does next.
// The flush-contract and AC oracles judge both actions: nothing of the first
// action's unwinding may touch the second action's pending writes.
func twoActionsTimestamped(batchSize, semWeight int) *mc.Scenario {
	sc := base(fmt.Sprintf("two-actions-timestamped/batch=%d/sem=%d", batchSize, semWeight))
	first := [][]string{{"A", "B"}}
	second := [][]string{{"C"}, {"B", "D"}}
	var g leakGuard
	sc.Build = func(x *mc.X) {
		g.start()
		x.AdoptAnonymous()
		w := newWorld(x)
		w.addCancelEvents(x)
		w.multi = true // labels carry the action index
		x.Go("worker", func() {
			c1 := chooseCfg(x, first, 1, 1, 2)
			c2 := chooseCfg(x, second, 1, 1, 1)
			p := newPipeline(w, &fakeCAS{w}, &fakeAC{fakeCAS{w}}, batchSize, semaphore.NewWeighted(int64(semWeight)), pipeOpts{timestamped: true})
			p.runAction(c1)
			p.runAction(c2)
		})
	}
	sc.Finish = g.finish
	return sc
}
