package mc

import (
	"crypto/sha256"
	"encoding/json"
	"fmt"
	"math/rand"
	"os"
	"sort"
	"strconv"
	"strings"
	"sync/atomic"
	"testing"
	"testing/synctest"
	"time"

	"github.com/buildbarn/bb-remote-execution/pkg/verifsync"
)

// Scenario is a closed driver around the code under test.
type Scenario struct {
	Name string
	// Props lists the property ids this scenario serves.
	Props []string
	// Build constructs a fresh system under test, its fakes, threads
	// (X.Go), events, monitors and state key.
	Build func(x *X)
	// Finish runs final oracles after all threads completed.
	Finish func(x *X)
	// Liveness lists the properties for which a deadlock (unfinished
	// threads, nothing enabled, teardown exhausted) is a violation.
	Liveness []string
	// Livelock lists the properties for which hitting the step horizon is
	// a violation.
	Livelock []string
	// Panics lists the properties for which a panic in a harness thread
	// is a violation.
	Panics []string
	// MaxSteps is the step horizon (default 2000).
	MaxSteps int
	// PreemptFree makes thread switches cost nothing: only
	// Choose/Event deviations are bounded.
	PreemptFree bool
	// YieldAfterUnlock adds a scheduling point after every release of a
	// shim lock (default: only acquisitions are scheduling points). Use
	// it in small scenarios that target code touching shared state
	// right after dropping a lock (lost wake-ups on re-read channels).
	YieldAfterUnlock bool
	// Bounds overrides the deviation bound per tier ("quick",
	// "thorough"); -1 is unbounded (needs a state key).
	Bounds map[string]int
	// Weight is a hint for the orchestrator (shards to use in thorough mode).
	Shards int
}

func has(list []string, s string) bool {
	for _, e := range list {
		if e == s {
			return true
		}
	}
	return false
}

// Options of one exploration.
type Options struct {
	Prop      string
	Bound     int // -1 = unbounded
	MaxExecs  int64
	TimeLimit time.Duration
	Shard     int
	Shards    int
	Known     map[string]bool
	Verbose   bool
}

// Found is a violation together with its replay.
type Found struct {
	Violation
	Property string   `json:"property"`
	Scenario string   `json:"scenario"`
	Choices  []int    `json:"choices"`
	Labels   []string `json:"labels"`
	Known    bool     `json:"known"`
}

// Result of one exploration of one scenario.
type Result struct {
	Scenario                string     `json:"scenario"`
	Property                string     `json:"property"`
	Engine                  string     `json:"engine"`
	Bound                   int        `json:"bound"`
	Shard                   string     `json:"shard"`
	Executions              int64      `json:"executions"`
	Transitions             int64      `json:"transitions"`
	States                  int        `json:"states"`
	MaxDepth                int        `json:"max_depth"`
	PrunedExecutions        int64      `json:"pruned_executions"`
	DistinctOutcomes        int        `json:"distinct_outcomes"`
	Exhaustive              bool       `json:"exhaustive"`
	CapsHit                 []string   `json:"caps_hit"`
	NondeterministicReplays int        `json:"nondeterministic_replays"`
	HorizonHits             int64      `json:"horizon_hits"`
	OtherPropertyDeadlocks  int64      `json:"other_property_deadlocks"`
	Violations              []Found    `json:"violations"`
	Samples                 [][]string `json:"samples"`
	OutcomeSamples          []string   `json:"outcome_samples"`
	WallS                   float64    `json:"wall_s"`
	EngineError             string     `json:"engine_error,omitempty"`
}

type execResult struct {
	trace     []Point
	violation *Violation
	outcome   string
	diverged  string
	horizon   bool
	log       []string
	stuckLeak bool
}

var activeProp string

// crashFile, when set (MC_CRASHFILE), receives the choice prefix of the
// execution that is about to run.
var crashFile = os.Getenv("MC_CRASHFILE")

// Active reports whether oracles of property prop are enabled in this run.
func Active(prop string) bool { return activeProp == "" || activeProp == prop }

// FailP records a violation of property prop; ignored when another
// property is being checked.
func (x *X) FailP(prop, fingerprint, format string, args ...any) {
	if !Active(prop) {
		return
	}
	x.Failf(prop+"/"+fingerprint, format, args...)
}

// Monitor registers a quiescent-point monitor for one property.
func (x *X) Monitor(prop string, fn func()) {
	if Active(prop) {
		x.OnQuiescent(fn)
	}
}

func runOnce(t *testing.T, sc *Scenario, prefix []int, expect []Point, branchFrom int, onStuck func(execResult), visit func(string, int) bool, verbose bool) execResult {
	var res execResult
	defer func() {
		verifsync.H = nil
	}()
	synctest.Test(t, func(t *testing.T) {
		x := &X{
			T: t, byG: map[int64]*Thread{}, locks: map[any]*lockState{},
			prefix: prefix, expect: expect, branchFrom: branchFrom, visit: visit,
			maxSteps: sc.MaxSteps, verbose: verbose, preemptFree: sc.PreemptFree,
			yieldAfterUnlock: sc.YieldAfterUnlock,
		}
		if x.maxSteps == 0 {
			x.maxSteps = 2000
		}
		x.curCost = 0
		verifsync.H = x
		sc.Build(x)
		x.run()
		if x.deadlock {
			msg := x.describeStuck()
			fp := StripLines(x.stuckFingerprint())
			if has(sc.Liveness, activeProp) || activeProp == "" {
				p := activeProp
				if p == "" && len(sc.Liveness) > 0 {
					p = sc.Liveness[0]
				}
				x.Failf(p+"/deadlock/"+fp, "deadlock / lost wake-up: no thread or event enabled but unfinished threads remain: %s", msg)
			} else if x.violation == nil {
				x.violation = &Violation{Fingerprint: "other/deadlock/" + fp, Message: msg, Step: len(x.trace)}
			}
		} else if x.horizon {
			res.horizon = true
			if has(sc.Livelock, activeProp) {
				x.Failf(activeProp+"/livelock", "step horizon of %d reached", x.maxSteps)
			}
		} else if x.violation == nil && sc.Finish != nil {
			sc.Finish(x)
		}
		if x.violation != nil && strings.HasPrefix(x.violation.Fingerprint, "panic/") {
			p := activeProp
			if !(has(sc.Panics, p) || p == "") {
				p = "other"
			}
			x.violation.Fingerprint = p + "/" + x.violation.Fingerprint
		}
		res.trace = x.trace
		res.violation = x.violation
		res.outcome = strings.Join(x.outcome, ";")
		res.diverged = x.diverged
		res.log = x.log
		if x.deadlock || x.horizon {
			// Threads are parked or blocked for good: the bubble
			// cannot be left in an orderly way (aborting them would
			// run deferred unlocks of locks they never got). The
			// worker process reports and exits.
			onStuck(res)
		}
	})
	return res
}

func hashKey(s string) [16]byte {
	h := sha256.Sum256([]byte(s))
	var r [16]byte
	copy(r[:], h[:16])
	return r
}

type workItem struct {
	prefix []int
	expect []Point
	cost   int
}

// Explore enumerates all executions of a scenario within the bound. flush
// is called with the (partial) result right before the process has to exit
// because an execution ended in a deadlock that cannot be unwound.
func Explore(t *testing.T, sc *Scenario, opt Options, flush func(*Result)) *Result {
	start := time.Now()
	res := &Result{Scenario: sc.Name, Property: opt.Prop, Engine: "A", Bound: opt.Bound, Exhaustive: true,
		Shard: fmt.Sprintf("%d/%d", opt.Shard, max(opt.Shards, 1))}
	visited := map[[16]byte]int{}
	outcomes := map[string]struct{}{}
	seenFP := map[string]bool{}
	visit := func(key string, cost int) bool {
		k := hashKey(key)
		rem := 1 << 30
		if opt.Bound >= 0 {
			rem = opt.Bound - cost
		}
		if old, ok := visited[k]; ok && old >= rem {
			return false
		}
		visited[k] = rem
		return true
	}
	finalize := func() {
		res.States = len(visited)
		if res.States == 0 {
			res.States = int(res.Executions)
		}
		res.DistinctOutcomes = len(outcomes)
		res.WallS = time.Since(start).Seconds()
	}
	// account folds one execution into the result; it returns false if the
	// exploration must stop.
	account := func(r execResult) bool {
		res.Executions++
		res.Transitions += int64(len(r.trace))
		if len(r.trace) > res.MaxDepth {
			res.MaxDepth = len(r.trace)
		}
		if r.horizon {
			res.HorizonHits++
		}
		if _, ok := outcomes[r.outcome]; !ok {
			outcomes[r.outcome] = struct{}{}
			if len(res.OutcomeSamples) < 8 {
				res.OutcomeSamples = append(res.OutcomeSamples, r.outcome)
			}
		}
		if len(res.Samples) < 3 {
			var l []string
			for _, p := range r.trace {
				l = append(l, p.Label)
			}
			res.Samples = append(res.Samples, l)
		}
		if v := r.violation; v != nil {
			if strings.HasPrefix(v.Fingerprint, "other/") {
				res.OtherPropertyDeadlocks++
			} else if !seenFP[v.Fingerprint] {
				seenFP[v.Fingerprint] = true
				f := Found{Violation: *v, Scenario: sc.Name, Known: opt.Known[v.Fingerprint]}
				if i := strings.IndexByte(v.Fingerprint, '/'); i > 0 {
					f.Property = v.Fingerprint[:i]
				}
				for _, p := range r.trace {
					f.Choices = append(f.Choices, p.Choice)
					f.Labels = append(f.Labels, p.Label)
				}
				res.Violations = append(res.Violations, f)
				if !f.Known {
					// An unknown violation ends the exploration:
					// the check fails anyway.
					res.Exhaustive = false
					res.CapsHit = append(res.CapsHit, "stopped_at_first_violation")
					return false
				}
			}
		}
		return true
	}
	onStuck := func(r execResult) {
		if r.diverged != "" {
			res.EngineError = "replay diverged into a stuck execution: " + r.diverged
		}
		account(r)
		res.Exhaustive = false
		res.CapsHit = append(res.CapsHit, "worker_ended_by_stuck_execution(deadlock_or_horizon)")
		finalize()
		flush(res)
		os.Exit(0)
	}
	// Watchdog: a real hang (e.g. a thread blocked on an un-shimmed
	// mutex held by a parked thread) is an engine error, not a verdict.
	var lastStart atomic.Int64
	var curPrefix atomic.Value
	lastStart.Store(time.Now().UnixNano())
	stopDog := make(chan struct{})
	defer close(stopDog)
	go func() {
		for {
			select {
			case <-stopDog:
				return
			case <-time.After(5 * time.Second):
			}
			if time.Since(time.Unix(0, lastStart.Load())) > 120*time.Second {
				res.EngineError = fmt.Sprintf("execution hung for 120s (un-shimmed lock held across a scheduling point?) prefix=%v", curPrefix.Load())
				res.Exhaustive = false
				finalize()
				flush(res)
				os.Exit(0)
			}
		}
	}()
	stack := []workItem{{}}
	rootDone := false
	for len(stack) > 0 {
		if opt.MaxExecs > 0 && res.Executions >= opt.MaxExecs {
			res.Exhaustive = false
			res.CapsHit = append(res.CapsHit, fmt.Sprintf("max_execs=%d", opt.MaxExecs))
			break
		}
		if opt.TimeLimit > 0 && time.Since(start) > opt.TimeLimit {
			res.Exhaustive = false
			res.CapsHit = append(res.CapsHit, fmt.Sprintf("time_limit=%s", opt.TimeLimit))
			break
		}
		w := stack[len(stack)-1]
		stack = stack[:len(stack)-1]
		var r execResult
		lastStart.Store(time.Now().UnixNano())
		curPrefix.Store(append([]int(nil), w.prefix...))
		if crashFile != "" {
			// Lets the dispatcher emit a replay if a goroutine spawned by
			// the code under test crashes the whole process.
			b, _ := json.Marshal(w.prefix)
			os.WriteFile(crashFile, b, 0o644)
		}
		for attempt := 0; ; attempt++ {
			r = runOnce(t, sc, w.prefix, w.expect, len(w.prefix), onStuck, visit, false)
			if r.diverged == "" {
				break
			}
			res.NondeterministicReplays++
			if attempt >= 3 {
				res.EngineError = "replay diverged 4 times: " + r.diverged + " prefix=" + fmt.Sprint(w.prefix)
				res.Exhaustive = false
				finalize()
				return res
			}
		}
		if !account(r) {
			break
		}
		// Expand alternatives beyond the prefix.
		cost := 0
		var children []workItem
		for i, p := range r.trace {
			if i >= len(w.prefix) {
				if p.costs == nil {
					break
				}
				for a := 1; a < p.N; a++ {
					c := cost + int(p.costs[a])
					if opt.Bound >= 0 && c > opt.Bound {
						continue
					}
					np := make([]int, i+1)
					for j := 0; j < i; j++ {
						np[j] = r.trace[j].Choice
					}
					np[i] = a
					children = append(children, workItem{prefix: np, expect: r.trace[:i], cost: c})
				}
			}
			if p.costs != nil {
				cost += int(p.costs[p.Choice])
			}
		}
		if !rootDone {
			rootDone = true
			if opt.Shards > 1 {
				var mine []workItem
				for k, c := range children {
					if k%opt.Shards == opt.Shard {
						mine = append(mine, c)
					}
				}
				children = mine
			}
		}
		// push in reverse so that the earliest alternative is explored first
		for i := len(children) - 1; i >= 0; i-- {
			stack = append(stack, children[i])
		}
	}
	finalize()
	return res
}

// FreeRun executes the scenario n times without the controlled scheduler
// (threads run truly concurrently, choices and event order are random from
// seed). Used by the separate -race pass; no oracle is evaluated.
func FreeRun(t *testing.T, sc *Scenario, n int, seed int64) (runs, stuck int) {
	for i := 0; i < n; i++ {
		isStuck := false
		func() {
			defer func() {
				if r := recover(); r != nil {
					isStuck = true
				}
			}()
			synctest.Test(t, func(t *testing.T) {
				x := &X{
					T: t, byG: map[int64]*Thread{}, locks: map[any]*lockState{},
					maxSteps: 500, free: true, rng: rand.New(rand.NewSource(seed + int64(i))),
				}
				sc.Build(x)
				x.run()
				if x.deadlock || x.horizon {
					isStuck = true
				}
			})
		}()
		runs++
		if isStuck {
			stuck++
			if stuck > 20 {
				return
			}
		}
	}
	return
}

// Replay runs one recorded schedule verbosely.
func Replay(t *testing.T, sc *Scenario, choices []int) (execResult, []string) {
	r := runOnce(t, sc, choices, nil, 1<<30, func(r execResult) {
		for _, l := range r.log {
			fmt.Println(l)
		}
		if r.violation != nil {
			fmt.Printf("REPLAY-VIOLATION %s: %s\n", r.violation.Fingerprint, r.violation.Message)
		} else {
			fmt.Println("REPLAY-STUCK (no violation recorded)")
		}
		os.Exit(0)
	}, nil, true)
	return r, r.log
}

// ---------------------------------------------------------------------------
// Process entry point

type replayFile struct {
	Property    string   `json:"property"`
	Harness     string   `json:"harness"`
	Scenario    string   `json:"scenario"`
	Engine      string   `json:"engine"`
	Fingerprint string   `json:"fingerprint"`
	Message     string   `json:"message"`
	Choices     []int    `json:"choices"`
	Labels      []string `json:"labels"`
	Ops         []string `json:"ops,omitempty"`
}

func envInt(name string, def int) int {
	if s := os.Getenv(name); s != "" {
		if v, err := strconv.Atoi(s); err == nil {
			return v
		}
	}
	return def
}

// Main is the entry point of a harness test binary. It is configured by
// environment variables set by /verif/check:
//
//	MC_PROP       property id being checked
//	MC_SCENARIO   scenario name
//	MC_TIER       quick|thorough
//	MC_BOUND      deviation bound (-1 unbounded); default from scenario
//	MC_MAX_EXECS, MC_TIME_LIMIT_S   caps (exit 0, exhaustive:false)
//	MC_SHARD      "i/n"
//	MC_OUT        result file (JSON)
//	MC_KNOWN      comma separated known fingerprints
//	MC_REPLAY     replay file: run that schedule verbosely instead
//	MC_LIST       if set, print "scenario props..." lines and return
func Main(t *testing.T, scenarios []*Scenario, seqs []*Seq) {
	if os.Getenv("MC_LIST") != "" {
		type entry struct {
			Name   string   `json:"name"`
			Engine string   `json:"engine"`
			Props  []string `json:"props"`
			Shards int      `json:"shards"`
		}
		var l []entry
		for _, s := range scenarios {
			l = append(l, entry{s.Name, "A", s.Props, s.Shards})
		}
		for _, s := range seqs {
			l = append(l, entry{s.Name, "B", s.Props, 0})
		}
		b, _ := json.Marshal(l)
		fmt.Printf("MC_LIST %s\n", b)
		return
	}
	activeProp = os.Getenv("MC_PROP")
	name := os.Getenv("MC_SCENARIO")
	tier := os.Getenv("MC_TIER")
	if tier == "" {
		tier = "quick"
	}
	known := map[string]bool{}
	for _, k := range strings.Split(os.Getenv("MC_KNOWN"), ",") {
		if k != "" {
			known[k] = true
		}
	}
	if rp := os.Getenv("MC_REPLAY"); rp != "" {
		var rf replayFile
		b, err := os.ReadFile(rp)
		if err != nil {
			t.Fatal(err)
		}
		if err := json.Unmarshal(b, &rf); err != nil {
			t.Fatal(err)
		}
		activeProp = rf.Property
		for _, s := range scenarios {
			if s.Name == rf.Scenario {
				r, log := Replay(t, s, rf.Choices)
				for _, l := range log {
					fmt.Println(l)
				}
				if r.violation != nil {
					fmt.Printf("REPLAY-VIOLATION %s: %s\n", r.violation.Fingerprint, r.violation.Message)
				} else {
					fmt.Printf("REPLAY-OK outcome=%s\n", r.outcome)
				}
				return
			}
		}
		for _, s := range seqs {
			if s.Name == rf.Scenario {
				replaySeq(s, rf.Ops)
				return
			}
		}
		t.Fatalf("scenario %q not found", rf.Scenario)
	}
	if n := envInt("MC_FREE", 0); n > 0 {
		for _, s := range scenarios {
			if s.Name == name || name == "" {
				runs, stuck := FreeRun(t, s, n, int64(envInt("VERIF_SEED", 0)))
				fmt.Printf("MC_FREE scenario=%s runs=%d stuck=%d\n", s.Name, runs, stuck)
			}
		}
		return
	}
	var res *Result
	for _, s := range scenarios {
		if s.Name != name {
			continue
		}
		opt := Options{Prop: activeProp, Known: known}
		opt.Bound = 2
		if b, ok := s.Bounds[tier]; ok {
			opt.Bound = b
		}
		opt.Bound = envInt("MC_BOUND", opt.Bound)
		opt.MaxExecs = int64(envInt("MC_MAX_EXECS", 0))
		opt.TimeLimit = time.Duration(envInt("MC_TIME_LIMIT_S", 0)) * time.Second
		if sh := os.Getenv("MC_SHARD"); sh != "" {
			fmt.Sscanf(sh, "%d/%d", &opt.Shard, &opt.Shards)
		}
		res = Explore(t, s, opt, writeResult)
	}
	for _, s := range seqs {
		if s.Name != name {
			continue
		}
		res = ExploreSeq(s, SeqOptions{
			Prop: activeProp, Known: known, Tier: tier,
			MaxStates: envInt("MC_MAX_STATES", 0),
			TimeLimit: time.Duration(envInt("MC_TIME_LIMIT_S", 0)) * time.Second,
			Depth:     envInt("MC_DEPTH", 0),
		})
	}
	if res == nil {
		t.Fatalf("scenario %q not found", name)
	}
	writeResult(res)
}

func writeResult(res *Result) {
	sort.Slice(res.Violations, func(i, j int) bool { return res.Violations[i].Fingerprint < res.Violations[j].Fingerprint })
	b, _ := json.MarshalIndent(res, "", " ")
	if out := os.Getenv("MC_OUT"); out != "" {
		if err := os.WriteFile(out, b, 0o644); err != nil {
			panic(err)
		}
	} else {
		fmt.Println(string(b))
	}
}
