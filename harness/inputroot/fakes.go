package inputroot

// Hand-written fakes: CAS BlobAccess with one injectable Get failure,
// deterministic random number generator, LRU eviction set with a dumpable
// order, in-memory file pool, counting symlink factory, error logger.

import (
	"context"
	"fmt"
	"io"
	"strings"
	"sync"
	"time"

	remoteexecution "github.com/bazelbuild/remote-apis/build/bazel/remote/execution/v2"
	"github.com/buildbarn/bb-remote-execution/pkg/cas"
	"github.com/buildbarn/bb-remote-execution/pkg/filesystem/access"
	"github.com/buildbarn/bb-remote-execution/pkg/filesystem/pool"
	"github.com/buildbarn/bb-remote-execution/pkg/filesystem/virtual"
	"github.com/buildbarn/bb-storage/pkg/blobstore/buffer"
	"github.com/buildbarn/bb-storage/pkg/blobstore/slicing"
	"github.com/buildbarn/bb-storage/pkg/clock"
	"github.com/buildbarn/bb-storage/pkg/digest"
	"github.com/buildbarn/bb-storage/pkg/filesystem"
	"github.com/buildbarn/bb-storage/pkg/filesystem/path"
	"github.com/buildbarn/bb-storage/pkg/util"
	"google.golang.org/grpc/codes"
	"google.golang.org/grpc/status"
)

// ---------------------------------------------------------------------
// Fake Content Addressable Storage.

const (
	faultUnused = 0
	faultArmed  = 1
	faultSpent  = 2
)

const (
	corruptNone  = 0
	corruptShort = 1
	corruptBytes = 2
)

type fakeCAS struct {
	mu    sync.Mutex        // the naive build directory downloads from several goroutines
	blobs map[string][]byte // private copy, compared against the catalogue at the end
	isDir map[string]bool   // shared, read-only
	fault int
	// faultKind restricts the armed failure: 0 next Get, 1 next Get of a
	// Directory, 2 next Get of a file, 3 the caller's context is cancelled
	// when the (faultSkip+1)-th Get of a file from now on is entered (that
	// Get, like every later request on the cancelled context, fails with
	// the context's error).
	faultKind int
	faultSkip int
	// cancelCaller cancels the context of the call in progress (set by
	// the driver around MergeDirectoryContents).
	cancelCaller func()
	// corrupt: how non-empty FILE blobs are served from now on (storage
	// corruption): corruptShort = a prefix of the object, through a buffer
	// that does not re-validate (what a local block device backed store
	// hands out for ReadAt); corruptBytes = bytes of the right length but
	// with different contents, through a CAS buffer, whose validation
	// detects the mismatch. corruptServed counts such answers.
	corrupt       int
	corruptServed int
	// Number of injected failures that hit a Directory / a file request.
	firedDir, firedFile int
	gets                int
	puts                []string
	composite           int
}

func newFakeCAS(c *compiled) *fakeCAS {
	f := &fakeCAS{blobs: make(map[string][]byte, len(c.blobs)), isDir: c.isDir}
	for k, v := range c.blobs {
		f.blobs[k] = append([]byte(nil), v...)
	}
	return f
}

func (f *fakeCAS) fired() int { return f.firedDir + f.firedFile }

func (f *fakeCAS) Get(ctx context.Context, d digest.Digest) buffer.Buffer {
	key := casKey(d)
	f.mu.Lock()
	defer f.mu.Unlock()
	f.gets++
	if f.fault == faultArmed && f.faultKind == 3 && !f.isDir[key] {
		if f.faultSkip > 0 {
			f.faultSkip--
		} else {
			f.fault = faultSpent
			if f.cancelCaller != nil {
				f.cancelCaller()
			}
		}
	}
	if err := util.StatusFromContext(ctx); err != nil {
		// The caller went away: the request fails.
		if f.isDir[key] {
			f.firedDir++
		} else {
			f.firedFile++
		}
		return buffer.NewBufferFromError(err)
	}
	if f.fault == faultArmed && f.faultKind != 3 && (f.faultKind == 0 || (f.faultKind == 1) == f.isDir[key]) {
		f.fault = faultSpent
		if f.isDir[key] {
			f.firedDir++
		} else {
			f.firedFile++
		}
		return buffer.NewBufferFromError(status.Error(codes.Unavailable, "injected CAS failure"))
	}
	data, ok := f.blobs[key]
	if !ok {
		return buffer.NewBufferFromError(status.Errorf(codes.NotFound, "blob %s not found", d))
	}
	if f.corrupt != corruptNone && !f.isDir[key] && len(data) > 0 {
		f.corruptServed++
		if f.corrupt == corruptShort {
			return buffer.NewValidatedBufferFromByteSlice(data[:len(data)/2])
		}
		other := make([]byte, len(data))
		for i, c := range data {
			other[i] = c ^ 0x20
		}
		return buffer.NewCASBufferFromByteSlice(d, other, buffer.UserProvided)
	}
	return buffer.NewValidatedBufferFromByteSlice(data)
}

func (f *fakeCAS) GetFromComposite(ctx context.Context, parentDigest, childDigest digest.Digest, slicer slicing.BlobSlicer) buffer.Buffer {
	f.composite++
	return buffer.NewBufferFromError(status.Error(codes.Unimplemented, "fake CAS: no composite objects"))
}

func (f *fakeCAS) Put(ctx context.Context, d digest.Digest, b buffer.Buffer) error {
	f.mu.Lock()
	defer f.mu.Unlock()
	f.puts = append(f.puts, d.String())
	b.Discard()
	return nil
}

func (f *fakeCAS) FindMissing(ctx context.Context, digests digest.Set) (digest.Set, error) {
	return digest.EmptySet, nil
}

func (f *fakeCAS) GetCapabilities(ctx context.Context, instanceName digest.InstanceName) (*remoteexecution.ServerCapabilities, error) {
	return nil, status.Error(codes.Unimplemented, "fake CAS")
}

// ---------------------------------------------------------------------
// Deterministic random number generator (splitmix64).

type detRNG struct{ s uint64 }

func (r *detRNG) Uint64() uint64 {
	r.s += 0x9e3779b97f4a7c15
	z := r.s
	z = (z ^ (z >> 30)) * 0xbf58476d1ce4e5b9
	z = (z ^ (z >> 27)) * 0x94d049bb133111eb
	return z ^ (z >> 31)
}
func (r *detRNG) Uint32() uint32       { return uint32(r.Uint64() >> 32) }
func (r *detRNG) Float64() float64     { return float64(r.Uint64()>>11) / (1 << 53) }
func (r *detRNG) Int64N(n int64) int64 { return int64(r.Uint64() % uint64(n)) }
func (r *detRNG) IntN(n int) int       { return int(r.Uint64() % uint64(n)) }
func (r *detRNG) Read(p []byte) (int, error) {
	for i := range p {
		p[i] = byte(r.Uint64())
	}
	return len(p), nil
}
func (r *detRNG) Shuffle(n int, swap func(i, j int)) {
	for i := n - 1; i > 0; i-- {
		swap(i, r.IntN(i+1))
	}
}
func (r *detRNG) IsThreadSafe() {}

// ---------------------------------------------------------------------
// LRU eviction set whose order can be dumped.

type lruSet struct {
	order []cas.CachingDirectoryFetcherKey
} // oldest first

func (s *lruSet) Insert(k cas.CachingDirectoryFetcherKey) { s.order = append(s.order, k) }
func (s *lruSet) Touch(k cas.CachingDirectoryFetcherKey) {
	for i, o := range s.order {
		if o == k {
			s.order = append(append(s.order[:i:i], s.order[i+1:]...), k)
			return
		}
	}
	panic("lruSet: Touch of a key that is not in the set")
}
func (s *lruSet) Peek() cas.CachingDirectoryFetcherKey { return s.order[0] }
func (s *lruSet) Remove()                              { s.order = s.order[1:] }
func (s *lruSet) dump() string {
	var b strings.Builder
	for _, k := range s.order {
		fmt.Fprintf(&b, "%s/%t,", k.DigestKey, k.IsTreeRoot)
	}
	return b.String()
}

// ---------------------------------------------------------------------
// Clock with a constant time (directories only record it).

type fixedClock struct{ clock.Clock }

func (fixedClock) Now() time.Time { return time.Unix(1000000000, 0) }

// ---------------------------------------------------------------------
// Error logger that remembers what was logged.

type errLog struct{ msgs []string }

func (l *errLog) Log(err error) { l.msgs = append(l.msgs, err.Error()) }

// ---------------------------------------------------------------------
// In-memory file pool for files created by the action.

type memPool struct {
	created, closed int
}

type memFile struct {
	p      *memPool
	data   []byte
	closed bool
}

func (p *memPool) NewFile(holeSource pool.HoleSource, size uint64) (filesystem.FileReadWriter, error) {
	p.created++
	return &memFile{p: p, data: make([]byte, size)}, nil
}

func (f *memFile) Close() error {
	if f.closed {
		panic("memFile: closed twice")
	}
	f.closed = true
	f.p.closed++
	return nil
}

func (f *memFile) ReadAt(p []byte, off int64) (int, error) {
	if off >= int64(len(f.data)) {
		return 0, io.EOF
	}
	n := copy(p, f.data[off:])
	if n < len(p) {
		return n, io.EOF
	}
	return n, nil
}

func (f *memFile) WriteAt(p []byte, off int64) (int, error) {
	if end := int(off) + len(p); end > len(f.data) {
		f.data = append(f.data, make([]byte, end-len(f.data))...)
	}
	copy(f.data[off:], p)
	return len(p), nil
}

func (f *memFile) Truncate(size int64) error {
	if int(size) <= len(f.data) {
		f.data = f.data[:size]
	} else {
		f.data = append(f.data, make([]byte, int(size)-len(f.data))...)
	}
	return nil
}

func (f *memFile) Sync() error         { return nil }
func (f *memFile) Len() (int64, error) { return int64(len(f.data)), nil }
func (f *memFile) GetNextRegionOffset(offset int64, regionType filesystem.RegionType) (int64, error) {
	if offset >= int64(len(f.data)) {
		return 0, io.EOF
	}
	if regionType == filesystem.Data {
		return offset, nil
	}
	return int64(len(f.data)), nil
}

// ---------------------------------------------------------------------
// Symlink factory whose leaves count Link()/Unlink().

type countingSymlinkFactory struct {
	base   virtual.SymlinkFactory
	leaves []*countingLeaf
}

type countingLeaf struct {
	virtual.LinkableLeaf
	what     string
	refs     int
	underrun bool
}

func (l *countingLeaf) Link() virtual.Status {
	if s := l.LinkableLeaf.Link(); s != virtual.StatusOK {
		return s
	}
	l.refs++
	return virtual.StatusOK
}

func (l *countingLeaf) Unlink() {
	l.refs--
	if l.refs < 0 {
		l.underrun = true
		return
	}
	l.LinkableLeaf.Unlink()
}

func (sf *countingSymlinkFactory) LookupSymlink(target path.Parser) (virtual.LinkableLeaf, error) {
	leaf, err := sf.base.LookupSymlink(target)
	if err != nil {
		return nil, err
	}
	l := &countingLeaf{LinkableLeaf: leaf, what: fmt.Sprintf("symlink#%d", len(sf.leaves)), refs: 1}
	sf.leaves = append(sf.leaves, l)
	return l, nil
}

// ---------------------------------------------------------------------
// Access monitor (the worker passes one when file system access profiling
// is enabled): only counts.

type fakeMonitor struct{ dirsRead, filesRead *int }

func newFakeMonitor() *fakeMonitor { return &fakeMonitor{dirsRead: new(int), filesRead: new(int)} }

func (m *fakeMonitor) ReadDirectory() access.ReadDirectoryMonitor { *m.dirsRead++; return m }
func (m *fakeMonitor) ResolvedDirectory(name path.Component) access.UnreadDirectoryMonitor {
	return m
}
func (m *fakeMonitor) ReadFile(name path.Component) { *m.filesRead++ }
