package mc

import "testing"

func TestFastGoid(t *testing.T) {
	if goidOffset == 0 {
		t.Skip("goid offset not found; slow path in use")
	}
	done := make(chan bool)
	for i := 0; i < 50; i++ {
		go func() { done <- goid() == slowGoid() }()
	}
	for i := 0; i < 50; i++ {
		if !<-done {
			t.Fatal("fast goid disagrees with runtime.Stack")
		}
	}
	t.Logf("goid offset %d", goidOffset)
}

func BenchmarkGoid(b *testing.B) {
	for i := 0; i < b.N; i++ {
		goid()
	}
}
