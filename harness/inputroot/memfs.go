package inputroot

// In-memory fake of filesystem.Directory with inode semantics (hard links
// share contents and permission bits), used for the non-virtual ("naive")
// build directory and the cache directory of the HardlinkingFileFetcher.
// Only the methods that the code under test calls are implemented; the rest
// panics so that an unexpected use is noticed.

import (
	"fmt"
	"io"
	"os"
	"sort"
	"sync"
	"syscall"
	"time"

	"github.com/buildbarn/bb-storage/pkg/filesystem"
	"github.com/buildbarn/bb-storage/pkg/filesystem/path"
)

const (
	inoFile = iota
	inoDir
	inoSymlink
)

type memInode struct {
	kind    int
	id      int
	mode    os.FileMode
	data    []byte
	target  string
	entries map[string]*memInode
	nlink   int
	mtime   time.Time
}

type memFS struct {
	mu       sync.Mutex
	nextID   int
	openDirs int
}

func (fs *memFS) newInode(kind int, mode os.FileMode) *memInode {
	fs.nextID++
	n := &memInode{kind: kind, id: fs.nextID, mode: mode}
	if kind == inoDir {
		n.entries = map[string]*memInode{}
	}
	return n
}

type memDir struct {
	fs *memFS
	n  *memInode
}

var _ filesystem.DirectoryCloser = (*memDir)(nil)

func (d *memDir) Close() error {
	d.fs.mu.Lock()
	d.fs.openDirs--
	d.fs.mu.Unlock()
	return nil
}

func (d *memDir) EnterDirectory(name path.Component) (filesystem.DirectoryCloser, error) {
	d.fs.mu.Lock()
	defer d.fs.mu.Unlock()
	c, ok := d.n.entries[name.String()]
	if !ok {
		return nil, syscall.ENOENT
	}
	if c.kind != inoDir {
		return nil, syscall.ENOTDIR
	}
	d.fs.openDirs++
	return &memDir{fs: d.fs, n: c}, nil
}

// decodeCreationMode recovers the unexported fields of a CreationMode.
func decodeCreationMode(cm filesystem.CreationMode) (flags int, perm os.FileMode) {
	var p uint32
	if _, err := fmt.Sscanf(fmt.Sprint(cm), "{%d %d}", &flags, &p); err != nil {
		panic("memfs: cannot decode CreationMode " + fmt.Sprint(cm))
	}
	return flags, os.FileMode(p)
}

type memAppender struct {
	fs *memFS
	n  *memInode
}

func (a *memAppender) Write(p []byte) (int, error) {
	a.fs.mu.Lock()
	a.n.data = append(a.n.data, p...)
	a.fs.mu.Unlock()
	return len(p), nil
}
func (a *memAppender) Close() error { return nil }
func (a *memAppender) Sync() error  { return nil }

func (d *memDir) OpenAppend(name path.Component, creationMode filesystem.CreationMode) (filesystem.FileAppender, error) {
	flags, perm := decodeCreationMode(creationMode)
	d.fs.mu.Lock()
	defer d.fs.mu.Unlock()
	c, ok := d.n.entries[name.String()]
	switch {
	case ok && flags&os.O_EXCL != 0:
		return nil, syscall.EEXIST
	case ok && c.kind != inoFile:
		return nil, syscall.EISDIR
	case !ok && flags&os.O_CREATE == 0:
		return nil, syscall.ENOENT
	case !ok:
		c = d.fs.newInode(inoFile, perm)
		c.nlink = 1
		d.n.entries[name.String()] = c
	}
	return &memAppender{fs: d.fs, n: c}, nil
}

func unwrapMemDir(dir filesystem.Directory) *memDir {
	for {
		switch x := dir.(type) {
		case *memDir:
			return x
		case *filesystem.ReferenceCountedDirectoryCloser:
			dir = x.DirectoryCloser
		default:
			panic(fmt.Sprintf("memfs: foreign directory %T", dir))
		}
	}
}

func (d *memDir) Link(oldName path.Component, newDirectory filesystem.Directory, newName path.Component) error {
	nd := unwrapMemDir(newDirectory)
	d.fs.mu.Lock()
	defer d.fs.mu.Unlock()
	c, ok := d.n.entries[oldName.String()]
	if !ok {
		return syscall.ENOENT
	}
	if c.kind == inoDir {
		return syscall.EPERM
	}
	if _, ok := nd.n.entries[newName.String()]; ok {
		return syscall.EEXIST
	}
	nd.n.entries[newName.String()] = c
	c.nlink++
	return nil
}

func (d *memDir) Mkdir(name path.Component, perm os.FileMode) error {
	d.fs.mu.Lock()
	defer d.fs.mu.Unlock()
	if _, ok := d.n.entries[name.String()]; ok {
		return syscall.EEXIST
	}
	c := d.fs.newInode(inoDir, perm)
	c.nlink = 1
	d.n.entries[name.String()] = c
	return nil
}

func (d *memDir) Symlink(oldName path.Parser, newName path.Component) error {
	d.fs.mu.Lock()
	defer d.fs.mu.Unlock()
	if _, ok := d.n.entries[newName.String()]; ok {
		return syscall.EEXIST
	}
	c := d.fs.newInode(inoSymlink, 0o777)
	c.nlink = 1
	c.target = targetString(oldName)
	d.n.entries[newName.String()] = c
	return nil
}

func (d *memDir) Remove(name path.Component) error {
	d.fs.mu.Lock()
	defer d.fs.mu.Unlock()
	c, ok := d.n.entries[name.String()]
	if !ok {
		return syscall.ENOENT
	}
	if c.kind == inoDir && len(c.entries) != 0 {
		return syscall.ENOTEMPTY
	}
	delete(d.n.entries, name.String())
	c.nlink--
	return nil
}

func (d *memDir) Chtimes(name path.Component, atime, mtime time.Time) error {
	d.fs.mu.Lock()
	defer d.fs.mu.Unlock()
	c, ok := d.n.entries[name.String()]
	if !ok {
		return syscall.ENOENT
	}
	c.mtime = mtime
	return nil
}

func (d *memDir) Lstat(name path.Component) (filesystem.FileInfo, error) {
	d.fs.mu.Lock()
	defer d.fs.mu.Unlock()
	c, ok := d.n.entries[name.String()]
	if !ok {
		return filesystem.FileInfo{}, syscall.ENOENT
	}
	switch c.kind {
	case inoDir:
		return filesystem.NewFileInfo(name, filesystem.FileTypeDirectory, false), nil
	case inoSymlink:
		return filesystem.NewFileInfo(name, filesystem.FileTypeSymlink, false), nil
	}
	return filesystem.NewFileInfo(name, filesystem.FileTypeRegularFile, c.mode&0o111 != 0), nil
}

func (d *memDir) ReadDir() ([]filesystem.FileInfo, error) {
	d.fs.mu.Lock()
	names := make([]string, 0, len(d.n.entries))
	for n := range d.n.entries {
		names = append(names, n)
	}
	d.fs.mu.Unlock()
	sort.Strings(names)
	var r []filesystem.FileInfo
	for _, n := range names {
		fi, err := d.Lstat(path.MustNewComponent(n))
		if err == nil {
			r = append(r, fi)
		}
	}
	return r, nil
}

func (d *memDir) Sync() error { return nil }

func unexpected(what string) error { panic("memfs: unexpected call of " + what) }

func (d *memDir) OpenRead(name path.Component) (filesystem.FileReader, error) {
	return nil, unexpected("OpenRead")
}
func (d *memDir) OpenReadWrite(name path.Component, creationMode filesystem.CreationMode) (filesystem.FileReadWriter, error) {
	return nil, unexpected("OpenReadWrite")
}
func (d *memDir) OpenWrite(name path.Component, creationMode filesystem.CreationMode) (filesystem.FileWriter, error) {
	return nil, unexpected("OpenWrite")
}
func (d *memDir) Clonefile(oldName path.Component, newDirectory filesystem.Directory, newName path.Component) error {
	return unexpected("Clonefile")
}
func (d *memDir) Mknod(name path.Component, perm os.FileMode, deviceNumber filesystem.DeviceNumber) error {
	return unexpected("Mknod")
}
func (d *memDir) Readlink(name path.Component) (path.Parser, error) {
	return nil, unexpected("Readlink")
}
func (d *memDir) RemoveAll(name path.Component) error { return unexpected("RemoveAll") }
func (d *memDir) RemoveAllChildren() error            { return unexpected("RemoveAllChildren") }
func (d *memDir) Rename(oldName path.Component, newDirectory filesystem.Directory, newName path.Component) error {
	return unexpected("Rename")
}
func (d *memDir) IsWritable() (bool, error) { return false, unexpected("IsWritable") }
func (d *memDir) IsWritableChild(name path.Component) (bool, error) {
	return false, unexpected("IsWritableChild")
}
func (d *memDir) Apply(arg interface{}) error { return unexpected("Apply") }
func (d *memDir) Mount(mountpoint path.Component, source, fstype string) error {
	return unexpected("Mount")
}
func (d *memDir) Unmount(mountpoint path.Component) error { return unexpected("Unmount") }

var _ io.Closer = (*memDir)(nil)
