package sched

import (
	"runtime/debug"
	"testing"

	"verif/mc"
)

func TestMC(t *testing.T) {
	// Executions are short-lived and allocate little live data: trade
	// memory for fewer GC cycles.
	debug.SetGCPercent(800)
	var scenarios []*mc.Scenario
	for _, c := range scenarioConfigs() {
		scenarios = append(scenarios, c.scenario())
	}
	mc.Main(t, scenarios, nil)
}
