package outputs

import (
	"context"
	"fmt"
	"sort"
	"strings"

	remoteexecution "github.com/bazelbuild/remote-apis/build/bazel/remote/execution/v2"
	"github.com/buildbarn/bb-remote-execution/pkg/builder"
	"github.com/buildbarn/bb-storage/pkg/digest"
)

const prop = "C10"

var sha256Function = digest.MustNewFunction("inst", remoteexecution.DigestFunction_SHA256)

// put is one step of the fake action: replace whatever is at location loc
// by a copy of thing (nil = remove). Skipped when the parent of loc is not
// a directory at that moment.
type put struct {
	loc   []string
	thing *node
}

// input is one complete test input.
type input struct {
	wd      string
	paths   []string // Command.output_paths
	legacyF []string // Command.output_files (REv2.0)
	legacyD []string // Command.output_directories (REv2.0)
	format  int32    // Command.output_directory_format (0..2 defined, 3 = unknown value)
	force   bool     // forceUploadTreesAndDirectories
	pre     *node    // input root contents before CreateParentDirectories (nil = empty)
	action  []put    // what the action does between CreateParentDirectories and UploadOutputs
	decoys  bool     // the action additionally drops marker files at unrelated locations
	fault   fault
}

func (in *input) String() string {
	var sb strings.Builder
	fmt.Fprintf(&sb, "wd=%q paths=%q", in.wd, in.paths)
	if len(in.legacyF)+len(in.legacyD) > 0 {
		fmt.Fprintf(&sb, " output_files=%q output_directories=%q", in.legacyF, in.legacyD)
	}
	fmt.Fprintf(&sb, " format=%d force=%v pre=%s action=[", in.format, in.force, in.pre.dump())
	for i, a := range in.action {
		if i > 0 {
			sb.WriteString(" ")
		}
		fmt.Fprintf(&sb, "%s:=%s", locString(a.loc), a.thing.dump())
	}
	fmt.Fprintf(&sb, "] decoys=%v fault=%s", in.decoys, in.fault)
	return sb.String()
}

// decoyUniverse: every location a declared path of the alphabets can
// resolve to, plus the locations a sloppy normalisation would pick.
var decoyUniverse = [][]string{
	{"x"}, {"a"}, {"a", "x"}, {"x", "y"}, {"a", "a"}, {"a", "a", "x"}, {"a", "x", "y"}, {"a", "b"}, {"a", "b", "x"},
	{"a", "b", "a"}, {"a", "b", "a", "x"}, {"a", "b", "x", "y"}, {"b"}, {"b", "x"}, {"y"}, {"a", "y"}, {"a", "b", "y"},
	{"a", "b", "b"}, {"a", "a", "b"},
}

func related(a, b []string) bool {
	n := min(len(a), len(b))
	for i := 0; i < n; i++ {
		if a[i] != b[i] {
			return false
		}
	}
	return true
}

func applyPut(root *node, p put) {
	if len(p.loc) == 0 {
		return
	}
	parent := root.lookup(p.loc[:len(p.loc)-1])
	if parent == nil || parent.kind != kDir {
		return
	}
	name := p.loc[len(p.loc)-1]
	if p.thing == nil {
		delete(parent.children, name)
	} else {
		parent.children[name] = p.thing.clone()
	}
}

type outcome struct {
	rejected  bool
	createErr error
	uploadErr error
	result    *remoteexecution.ActionResult
	puts      []string // CAS keys written, call order
	readDirs  []string
	mkdirs    []string
	lstats    []string
}

// runOne executes the real OutputHierarchy on one input and evaluates all
// C10 oracles. It returns what happened so that callers can derive fault
// positions from the fault-free run.
func runOne(fail failFn, in *input) *outcome {
	out := &outcome{}
	ffail := func(fp, format string, args ...any) {
		fail(fp, "%s\n  input: %s", fmt.Sprintf(format, args...), in)
	}

	// Specification: which declared paths are legal.
	_, wdOK := resolveFrom(nil, in.wd)
	escapes := !wdOK
	var locs [][]string
	for _, p := range in.paths {
		l, ok := resolveDeclared(in.wd, p)
		if !ok {
			escapes = true
		}
		locs = append(locs, l)
	}

	cmd := &remoteexecution.Command{
		WorkingDirectory:      in.wd,
		OutputPaths:           in.paths,
		OutputFiles:           in.legacyF,
		OutputDirectories:     in.legacyD,
		OutputDirectoryFormat: remoteexecution.Command_OutputDirectoryFormat(in.format),
	}
	// REv2.0 fields: this implementation documents that it only supports
	// output_paths. Commands that use only the legacy fields are observed,
	// not judged, except that whatever is listed must be right.
	declared := in.paths
	legacyOnly := len(in.paths) == 0 && len(in.legacyF)+len(in.legacyD) > 0
	legacyEscapes := false
	for _, p := range append(append([]string(nil), in.legacyF...), in.legacyD...) {
		if _, ok := resolveDeclared(in.wd, p); !ok {
			legacyEscapes = true
		}
	}
	if legacyOnly {
		declared = append(append([]string(nil), in.legacyF...), in.legacyD...)
	}
	oh, err := builder.NewOutputHierarchy(cmd)
	if err != nil && legacyEscapes {
		out.rejected = true
		return out // rejecting because of an escaping legacy path is acceptable
	}
	if escapes {
		out.rejected = true
		if err == nil {
			ffail("escape-accepted", "working directory or an output path escapes the input root (or is absolute) but NewOutputHierarchy accepted the command")
		}
		// Rejected: nothing was touched (the constructor has no access to
		// the file system; nothing else is called).
		return out
	}
	if err != nil {
		out.rejected = true
		ffail("spurious-reject", "all paths stay inside the input root but NewOutputHierarchy failed: %v", err)
		return out
	}

	root := newDir()
	if in.pre != nil {
		root = in.pre.clone()
	}
	w := newWorld(root, in.fault)

	// Phase 1: parent directories.
	rd := w.rootDir()
	out.createErr = oh.CreateParentDirectories(rd)
	rd.Close()
	out.mkdirs = w.mkdirs
	parents := map[string]bool{}
	for _, l := range locs {
		for i := 1; i < len(l); i++ {
			parents[locString(l[:i])] = true
		}
	}
	if legacyOnly {
		for _, p := range declared {
			if l, ok := resolveDeclared(in.wd, p); ok {
				for i := 1; i < len(l); i++ {
					parents[locString(l[:i])] = true
				}
			}
		}
	}
	// A pre-existing non-directory at a parent location makes the command
	// contradictory; the parent oracle does not apply then.
	conflict := false
	for p := range parents {
		loc := strings.Split(p, "/")
		for i := 1; i <= len(loc); i++ {
			if n := root.lookup(loc[:i]); n != nil && n.kind != kDir {
				conflict = true
			}
		}
	}
	for _, m := range w.mkdirs {
		if !parents[m] {
			ffail("mkdir-non-parent", "CreateParentDirectories called Mkdir(%q), which is not a proper parent of any declared output (a directory made by the worker would later be reported as an output of the action)", m)
			return out
		}
	}
	if out.createErr != nil {
		// The action is not run. The only legitimate reasons in this
		// world: the injected fault, or a pre-existing non-directory where
		// a parent is needed.
		if !w.hit && !conflict {
			ffail("create-parents-spurious-error", "CreateParentDirectories failed although every Mkdir/Enter on the directory tree succeeded or reported EEXIST for a directory: %v; tree=%s", out.createErr, w.root.dump())
		}
		return out
	}
	ps := make([]string, 0, len(parents))
	for p := range parents {
		ps = append(ps, p)
	}
	sort.Strings(ps)
	for _, p := range ps {
		n := w.root.lookup(strings.Split(p, "/"))
		if (n == nil || n.kind != kDir) && !conflict && !legacyOnly {
			ffail("parent-missing", "CreateParentDirectories returned nil but parent directory %q of a declared output does not exist (found %s); tree=%s", p, n.dump(), w.root.dump())
			return out
		}
	}

	// Phase 2: the action.
	for _, a := range in.action {
		applyPut(w.root, a)
	}
	if in.decoys {
		for _, u := range decoyUniverse {
			rel := false
			for _, l := range locs {
				if related(u, l) {
					rel = true
				}
			}
			if !rel && w.root.lookup(u) == nil {
				applyPut(w.root, put{loc: u, thing: newFile("decoy:"+locString(u), len(u)%2 == 0)})
			}
		}
	}

	// Phase 3: upload.
	ar := &remoteexecution.ActionResult{}
	rd = w.rootDir()
	out.uploadErr = oh.UploadOutputs(context.Background(), rd, w.cas, sha256Function, nil, ar, in.force)
	rd.Close()
	out.result = ar
	out.puts = w.cas.puts
	out.readDirs = w.readDirs
	out.lstats = w.lstats
	// Every stored blob is stored under its own digest.
	if !casConsistent(ffail, w) {
		return out
	}
	if out.uploadErr != nil && !w.hit && !legacyOnly {
		// Legitimate reasons for an error without an injected fault: a
		// declared path is (or contains) a special file, or a proper
		// ancestor of a declared location is not a directory.
		legit := false
		for _, l := range locs {
			if n := w.root.lookup(l); n != nil && hasSpecial(n) {
				legit = true
			}
			for i := 1; i < len(l); i++ {
				if n := w.root.lookup(l[:i]); n != nil && n.kind != kDir {
					legit = true
				}
			}
		}
		if !legit {
			ffail("upload-spurious-error", "UploadOutputs failed although every declared path is missing or a regular file, directory or symlink and no operation of the directory tree or the CAS failed: %v; tree=%s", out.uploadErr, w.root.dump())
			return out
		}
	}
	wantRoot := in.force || in.format == 1 || in.format == 2
	verifyResult(ffail, w, in.wd, declared, ar, wantRoot, out.uploadErr == nil && !legacyOnly)
	return out
}

func hasSpecial(n *node) bool {
	if n.kind == kFifo {
		return true
	}
	for _, c := range n.children {
		if hasSpecial(c) {
			return true
		}
	}
	return false
}

func dedupSorted(l []string) []string {
	s := append([]string(nil), l...)
	sort.Strings(s)
	var r []string
	for i, e := range s {
		if i == 0 || e != s[i-1] {
			r = append(r, e)
		}
	}
	return r
}

// runWithFaults runs the input fault-free and then once per single-fault
// position derived from the fault-free run: every distinct CAS blob (all its
// Puts fail / only its first Put fails), every ReadDir location, every Mkdir
// location, every Lstat location. Returns the number of executions.
func runWithFaults(fail failFn, in *input, kinds ...faultKind) int {
	failed := false
	f := func(fp, format string, args ...any) { failed = true; fail(fp, format, args...) }
	base := *in
	base.fault = fault{}
	o := runOne(f, &base)
	n := 1
	if failed || o.rejected {
		return n
	}
	for _, k := range kinds {
		var args []string
		switch k {
		case faultPutAll, faultPutFirst:
			args = dedupSorted(o.puts)
		case faultReadDir:
			args = dedupSorted(o.readDirs)
		case faultMkdir:
			args = dedupSorted(o.mkdirs)
		case faultLstat:
			args = dedupSorted(o.lstats)
		}
		for _, a := range args {
			v := *in
			v.fault = fault{kind: k, arg: a}
			runOne(f, &v)
			n++
			if failed {
				return n
			}
		}
	}
	return n
}
