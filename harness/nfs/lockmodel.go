package nfs

import (
	"fmt"
	"math"
	"sort"
	"strings"

	"github.com/buildbarn/go-xdr/pkg/protocols/nfsv4"
)

// lockModel is the reference for C20b: POSIX record locks per file, keyed
// by the PROTOCOL level owner (protocol version, client, owner bytes) and
// not by any server object.
type lockModel struct {
	// files maps a leaf id to the locks held on it.
	files map[string][]modelLock
}

type modelLock struct {
	owner      string // "<version>:<client>/<owner bytes>"
	start, end uint64 // [start, end)
	shared     bool
}

func newLockModel() *lockModel { return &lockModel{files: map[string][]modelLock{}} }

// rangeOf converts an (offset, length) pair the way RFC 7530 section
// 16.10.4 prescribes. ok is false for ranges the server must reject with
// NFS4ERR_INVAL.
func rangeOf(offset, length uint64) (start, end uint64, ok bool) {
	switch {
	case length == 0:
		return 0, 0, false
	case length == math.MaxUint64:
		return offset, math.MaxUint64, true
	case length > math.MaxUint64-offset:
		return 0, 0, false
	}
	return offset, offset + length, true
}

func ownerKey(version int, client, owner string) string {
	return fmt.Sprintf("4%d:%s/%s", version, client, owner)
}

// conflict returns a lock of another owner that prevents owner from
// locking [start, end), or nil.
func (m *lockModel) conflict(file, owner string, start, end uint64, shared bool) *modelLock {
	for i := range m.files[file] {
		l := &m.files[file][i]
		if l.owner != owner && l.start < end && start < l.end && !(l.shared && shared) {
			return l
		}
	}
	return nil
}

// set replaces the state of [start, end) for owner: mode 0 unlocks, 1
// locks exclusively, 2 locks shared.
func (m *lockModel) set(file, owner string, start, end uint64, mode int) {
	var out []modelLock
	for _, l := range m.files[file] {
		if l.owner != owner || l.end <= start || end <= l.start {
			out = append(out, l)
			continue
		}
		if l.start < start {
			out = append(out, modelLock{owner, l.start, start, l.shared})
		}
		if end < l.end {
			out = append(out, modelLock{owner, end, l.end, l.shared})
		}
	}
	if mode != 0 {
		out = append(out, modelLock{owner, start, end, mode == 2})
	}
	if len(out) == 0 {
		delete(m.files, file)
	} else {
		m.files[file] = out
	}
}

func (m *lockModel) releaseOwner(file, owner string) { m.set(file, owner, 0, math.MaxUint64, 0) }

// releaseClient drops every lock of every owner of the client.
func (m *lockModel) releaseClient(version int, client string) {
	prefix := fmt.Sprintf("4%d:%s/", version, client)
	for file, ls := range m.files {
		var out []modelLock
		for _, l := range ls {
			if !strings.HasPrefix(l.owner, prefix) {
				out = append(out, l)
			}
		}
		if len(out) == 0 {
			delete(m.files, file)
		} else {
			m.files[file] = out
		}
	}
}

func (m *lockModel) holds(owner string) bool {
	for _, ls := range m.files {
		for _, l := range ls {
			if l.owner == owner {
				return true
			}
		}
	}
	return false
}

func (m *lockModel) holdsOn(file, owner string) bool {
	for _, l := range m.files[file] {
		if l.owner == owner {
			return true
		}
	}
	return false
}

// segments renders, for one file, who holds what on every elementary
// segment between lock end points: the canonical per-byte view.
func segments(ls []modelLock) string {
	pts := map[uint64]bool{}
	for _, l := range ls {
		pts[l.start] = true
		pts[l.end] = true
	}
	var ps []uint64
	for p := range pts {
		ps = append(ps, p)
	}
	sort.Slice(ps, func(i, j int) bool { return ps[i] < ps[j] })
	type seg struct {
		start, end uint64
		holders    string
	}
	var segs []seg
	for i := 0; i+1 < len(ps); i++ {
		var holders []string
		for _, l := range ls {
			if l.start <= ps[i] && ps[i+1] <= l.end {
				holders = append(holders, fmt.Sprintf("%s:%s", l.owner, map[bool]string{true: "S", false: "X"}[l.shared]))
			}
		}
		if len(holders) == 0 {
			continue
		}
		sort.Strings(holders)
		// The same owner may appear twice if the lists overlap;
		// keep duplicates visible, they are a defect of whoever
		// produced the list.
		cur := strings.Join(holders, ",")
		if n := len(segs); n > 0 && segs[n-1].end == ps[i] && segs[n-1].holders == cur {
			segs[n-1].end = ps[i+1]
		} else {
			segs = append(segs, seg{ps[i], ps[i+1], cur})
		}
	}
	var b strings.Builder
	for _, s := range segs {
		fmt.Fprintf(&b, "[%d,%d)=%s;", s.start, s.end, s.holders)
	}
	return b.String()
}

func (m *lockModel) dump() string {
	var files []string
	for f := range m.files {
		files = append(files, f)
	}
	sort.Strings(files)
	var b strings.Builder
	b.WriteString("LOCKMODEL\n")
	for _, f := range files {
		fmt.Fprintf(&b, " %s %s\n", f, segments(m.files[f]))
	}
	return b.String()
}

// compare checks that the server's lock tables hold exactly the model's
// locks (C20: "unlocking or closing releases precisely the owner's
// bytes"; "own locks never conflict" shows up as one protocol owner
// being represented by two distinct objects holding overlapping ranges).
func (m *lockModel) compare(w *world, f failer) {
	impl := map[string][]modelLock{}
	for _, of := range w.pool.VerifNFSPool() {
		leaf := w.fs.leafByHandle([]byte(of.Handle))
		if leaf == nil {
			f.FailP("C18", "pool-unknown-handle", "the opened files pool tracks unknown handle %q", of.Handle)
			continue
		}
		for _, l := range of.Locks {
			name, ok := w.protocolOwner(l.Clientid, l.Owner)
			if !ok {
				name = fmt.Sprintf("unknown:%x/%s", l.Clientid, l.Owner)
			}
			impl[leaf.id] = append(impl[leaf.id], modelLock{name, l.Start, l.End, l.Shared})
		}
	}
	files := map[string]bool{}
	for k := range impl {
		files[k] = true
	}
	for k := range m.files {
		files[k] = true
	}
	var names []string
	for k := range files {
		names = append(names, k)
	}
	sort.Strings(names)
	for _, file := range names {
		a, b := segments(impl[file]), segments(m.files[file])
		if a != b {
			f.FailP("C20", "table-differs-from-model", "byte-range locks on %s: server table %q, reference model (keyed by protocol owner) %q", file, a, b)
		}
	}
}

// protocolOwner maps a (short client ID, owner bytes) pair found in a
// lock table or a LOCK4denied reply to the protocol level owner.
func (w *world) protocolOwner(clientID uint64, owner string) (string, bool) {
	for _, c := range sortedClients40(w) {
		if c.haveID && c.id == clientID {
			return ownerKey(0, c.long, owner), true
		}
	}
	for _, c := range sortedClients41(w) {
		if c.haveID && c.id == clientID {
			return ownerKey(1, c.owner, owner), true
		}
	}
	return "", false
}

// lock ranges offered by the alphabets.
type lockRange struct {
	name           string
	offset, length uint64
}

var (
	rangeB0   = lockRange{"[0,1)", 0, 1}
	rangeB1   = lockRange{"[1,2)", 1, 1}
	rangeB01  = lockRange{"[0,2)", 0, 2}
	rangeAll  = lockRange{"[0,EOF)", 0, math.MaxUint64}
	rangeTail = lockRange{"[1,EOF)", 1, math.MaxUint64}
	rangeHigh = lockRange{"[2^64-2,+1)", math.MaxUint64 - 1, 1}
	rangeOvfl = lockRange{"[2,+2^64-2)overflow", 2, math.MaxUint64 - 1}
	rangeZero = lockRange{"[0,+0)empty", 0, 0}
)

// checkDenied validates a LOCK4denied reply: it must name another owner
// that really holds a conflicting lock intersecting the requested range.
func (m *lockModel) checkDenied(w *world, f failer, what, file, owner string, start, end uint64, shared bool, d *nfsv4.Lock4denied) {
	if fp, msg := m.deniedProblem(w, what, file, owner, start, end, shared, d); fp != "" {
		f.FailP("C20", fp, "%s", msg)
	}
}

// deniedProblem is the side-effect free core of checkDenied: it returns a
// fingerprint and a message if the LOCK4denied reply is not explained by
// the model, and two empty strings otherwise.
func (m *lockModel) deniedProblem(w *world, what, file, owner string, start, end uint64, shared bool, d *nfsv4.Lock4denied) (string, string) {
	holder, ok := w.protocolOwner(d.Owner.Clientid, string(d.Owner.Owner))
	if !ok {
		return "denied-names-unknown-owner", fmt.Sprintf("%s denied naming an owner that does not exist: %x/%q", what, d.Owner.Clientid, d.Owner.Owner)
	}
	if holder == owner {
		return "denied-by-own-lock", fmt.Sprintf("%s by %s on %s was denied because of a lock of the same owner (offset %d, length %d)", what, owner, file, d.Offset, d.Length)
	}
	ds, de, rok := rangeOf(d.Offset, d.Length)
	dShared := d.Locktype == nfsv4.READ_LT || d.Locktype == nfsv4.READW_LT
	if !rok || !(ds < end && start < de) || (dShared && shared) {
		return "denied-names-non-conflicting-range", fmt.Sprintf("%s [%d,%d) shared=%v was denied naming offset %d length %d type %d, which does not conflict", what, start, end, shared, d.Offset, d.Length, d.Locktype)
	}
	// Every byte of the reported range must really be held by that
	// owner with that type.
	covered := ds
	var ls []modelLock
	for _, l := range m.files[file] {
		if l.owner == holder && l.shared == dShared {
			ls = append(ls, l)
		}
	}
	sort.Slice(ls, func(i, j int) bool { return ls[i].start < ls[j].start })
	for _, l := range ls {
		if l.start <= covered && covered < l.end {
			covered = l.end
		}
	}
	if covered < de {
		return "denied-names-range-not-held", fmt.Sprintf("%s was denied naming [%d,%d) of %s, which that owner does not hold (model: %s)", what, ds, de, holder, segments(m.files[file]))
	}
	return "", ""
}

// clone returns an independent copy of the model.
func (m *lockModel) clone() *lockModel {
	c := newLockModel()
	for f, ls := range m.files {
		c.files[f] = append([]modelLock(nil), ls...)
	}
	return c
}
