package schedseq

func (s *sys) doList() {}
