package pool

import (
	"fmt"

	"verif/mc"

	rpool "github.com/buildbarn/bb-remote-execution/pkg/filesystem/pool"
)

// Engine B directly on the bitmap sector allocator: the layer below the file
// pool, with capacities around the 64-bit word size of the bitmap, which the
// file level sequences cannot reach with their small files.

type held struct {
	first uint32
	n     int
}

type allocSys struct {
	capS  int
	a     rpool.SectorAllocator
	inUse []bool // model, index = sector number
	held  []held // allocations in order of creation
}

func (s *allocSys) doAlloc(c *mc.SeqCtx, max int) {
	first, n, err := s.a.AllocateContiguous(max)
	c.Logf("  AllocateContiguous(%d) -> first=%d n=%d err=%v", max, first, n, err)
	free := 0
	for sec := 1; sec <= s.capS; sec++ {
		if !s.inUse[sec] {
			free++
		}
	}
	if err != nil {
		if free != 0 {
			c.FailP(prop, "alloc/spurious-exhaustion", "AllocateContiguous(%d) failed with %d of %d sectors free: %v", max, free, s.capS, err)
		}
		return
	}
	if n < 1 || n > max {
		c.FailP(prop, "alloc/bad-count", "AllocateContiguous(%d) returned %d sectors", max, n)
		return
	}
	for i := 0; i < n; i++ {
		sec := int(first) + i
		if sec < 1 || sec > s.capS {
			c.FailP(prop, "conservation/sector-out-of-range", "AllocateContiguous(%d) returned sectors %d..%d, capacity %d", max, first, int(first)+n-1, s.capS)
			return
		}
		if s.inUse[sec] {
			c.FailP(prop, "conservation/sector-handed-out-twice", "AllocateContiguous(%d) returned sectors %d..%d, sector %d is already in use", max, first, int(first)+n-1, sec)
			return
		}
		s.inUse[sec] = true
	}
	s.held = append(s.held, held{first, n})
}

func (s *allocSys) release(i int, list bool) {
	h := s.held[i]
	s.held = append(s.held[:i:i], s.held[i+1:]...)
	for j := 0; j < h.n; j++ {
		s.inUse[int(h.first)+j] = false
	}
	if list {
		l := make([]uint32, 0, h.n+1)
		for j := 0; j < h.n; j++ {
			l = append(l, h.first+uint32(j))
			if j == 0 {
				l = append(l, 0) // zero entries (holes) are to be ignored
			}
		}
		s.a.FreeList(l)
	} else {
		s.a.FreeContiguous(h.first, h.n)
	}
}

// splitHead frees only the first sector of the oldest allocation (creates
// fragmentation); splitTail only the last one.
func (s *allocSys) split(head bool) {
	h := &s.held[0]
	if head {
		s.inUse[h.first] = false
		s.a.FreeList([]uint32{h.first})
		h.first++
	} else {
		last := h.first + uint32(h.n) - 1
		s.inUse[last] = false
		s.a.FreeContiguous(last, 1)
	}
	h.n--
}

func (s *allocSys) check(c *mc.SeqCtx) {
	bm, _, ok := rpool.VerifAllocatorState(s.a)
	if !ok {
		panic("harness: not a bitmap allocator")
	}
	for w, word := range bm {
		for b := 0; b < 64; b++ {
			free := word&(1<<b) != 0
			sec := w*64 + b + 1
			if sec > s.capS {
				if free {
					c.FailP(prop, "conservation/sentinel-freed", "allocator bit %d beyond the capacity of %d sectors is marked free", sec-1, s.capS)
					return
				}
				continue
			}
			if free == s.inUse[sec] {
				c.FailP(prop, "conservation/bitmap-mismatch", "sector %d: allocator says free=%v, in use=%v", sec, free, s.inUse[sec])
				return
			}
		}
	}
}

func (s *allocSys) final(c *mc.SeqCtx) {
	for len(s.held) > 0 {
		s.release(0, len(s.held)%2 == 0)
	}
	seen := map[uint32]bool{}
	var order []uint32
	for len(seen) <= s.capS+70 {
		sec, n, err := s.a.AllocateContiguous(1)
		if err != nil {
			break
		}
		if n != 1 || sec < 1 || int(sec) > s.capS || seen[sec] {
			c.FailP(prop, "conservation/sector-handed-out-twice", "after freeing everything AllocateContiguous(1) returned sector %d (n=%d): in use or out of range (capacity %d)", sec, n, s.capS)
			return
		}
		seen[sec] = true
		order = append(order, sec)
	}
	if len(seen) != s.capS {
		c.FailP(prop, "conservation/sectors-after-close", "after freeing everything %d sectors can be allocated, capacity is %d", len(seen), s.capS)
		return
	}
	for _, sec := range order {
		s.a.FreeContiguous(sec, 1)
	}
	total := 0
	for i := 0; i < s.capS+2; i++ {
		_, n, err := s.a.AllocateContiguous(s.capS + 5)
		if err != nil {
			break
		}
		total += n
	}
	if total != s.capS {
		c.FailP(prop, "conservation/sectors-after-close", "after freeing everything %d sectors can be allocated contiguously, capacity is %d", total, s.capS)
	}
}

func allocSeq(capS int, sizes []int, depth map[string]int) *mc.Seq {
	var ops []mc.SeqOp
	for _, k := range sizes {
		k := k
		ops = append(ops, mc.SeqOp{
			Name:    fmt.Sprintf("AllocateContiguous(%d)", k),
			Enabled: func(st any) bool { return len(st.(*allocSys).held) < 5 },
			Do:      func(c *mc.SeqCtx, st any) { st.(*allocSys).doAlloc(c, k) },
		})
	}
	some := func(st any) bool { return len(st.(*allocSys).held) > 0 }
	two := func(st any) bool { return len(st.(*allocSys).held) > 1 }
	big := func(st any) bool { s := st.(*allocSys); return len(s.held) > 0 && s.held[0].n > 1 }
	ops = append(ops,
		mc.SeqOp{Name: "FreeContiguous(oldest)", Enabled: some, Do: func(c *mc.SeqCtx, st any) { st.(*allocSys).release(0, false) }},
		mc.SeqOp{Name: "FreeList(oldest)", Enabled: some, Do: func(c *mc.SeqCtx, st any) { st.(*allocSys).release(0, true) }},
		mc.SeqOp{Name: "FreeContiguous(newest)", Enabled: two, Do: func(c *mc.SeqCtx, st any) { s := st.(*allocSys); s.release(len(s.held)-1, false) }},
		mc.SeqOp{Name: "FreeList(newest)", Enabled: two, Do: func(c *mc.SeqCtx, st any) { s := st.(*allocSys); s.release(len(s.held)-1, true) }},
		mc.SeqOp{Name: "FreeList(first sector of oldest)", Enabled: big, Do: func(c *mc.SeqCtx, st any) { st.(*allocSys).split(true) }},
		mc.SeqOp{Name: "FreeContiguous(last sector of oldest)", Enabled: big, Do: func(c *mc.SeqCtx, st any) { st.(*allocSys).split(false) }},
	)
	return &mc.Seq{
		Name:  fmt.Sprintf("alloc-cap%d", capS),
		Props: []string{prop},
		New: func(c *mc.SeqCtx) any {
			return &allocSys{capS: capS, a: rpool.NewBitmapSectorAllocator(uint32(capS)), inUse: make([]bool, capS+1)}
		},
		Ops: ops,
		Key: func(st any) string {
			s := st.(*allocSys)
			bm, next, _ := rpool.VerifAllocatorState(s.a)
			return fmt.Sprintf("%x %d %v", bm, next, s.held)
		},
		Check:  func(c *mc.SeqCtx, st any) { st.(*allocSys).check(c) },
		Final:  func(c *mc.SeqCtx, st any) { st.(*allocSys).final(c) },
		Depth:  depth,
		Panics: []string{prop},
	}
}
