package sched

// Scenario library (DESIGN.md, "The sched harness"). Every scenario is a
// closed driver of 2-4 threads with 1-3 calls each whose keys are chosen to
// collide. All scenarios run the monitors of all five properties; which
// ones are evaluated depends on the property being checked.

var core = []string{"C01", "C02", "C03", "C06", "C07"}

// coreLocks: the scenario also serves the scheduler part of C14 (no call
// returns with bq.lock held, no call blocks on a lock for good): the ones
// that reach the error returns and the drop-the-lock-and-retry loops.
var coreLocks = []string{"C01", "C02", "C03", "C06", "C07", "C14"}

func scenarioConfigs() []*config {
	pre0 := []uint32{0}
	pre12 := []uint32{1, 2}
	// Deviation bounds (preemptions + non-default environment answers).
	// Default (set in config.scenario): quick 2, thorough 4, 8 shards.
	b1 := map[string]int{"quick": 1, "thorough": 3}    // 4 threads or long scripts
	tiny := map[string]int{"quick": 3, "thorough": -1} // small enough to be explored without a bound
	return []*config{
		{
			Name: "S1-dedup-race", Props: core,
			Doc:         "two clients, same cacheable action, different invocations (the second request with skip_cache_lookup false or true: a request flag, the action stays cacheable), one worker that completes ok or with exit!=0",
			Predeclared: pre0, MaxTicks: 2,
			Clients: []clientSpec{{Name: "c1", Calls: []string{"exec A i1"}}, {Name: "c2", Calls: []string{"exec A i2 skip?"}}},
			Workers: []workerSpec{{Name: "w1", MaxCalls: 3, Busy: []string{"ok", "fail"}}},
		},
		{
			Name: "S1b-dedup-same-invocation", Props: core,
			Doc:         "two clients in the same invocation (one operation, two waiters), one of them may leave; the clients use instance name main/x, the platform queue is registered under the strict prefix main (found by longest-prefix match)",
			Predeclared: pre0, MaxTicks: 3, ClientInstance: "main/x",
			Clients: []clientSpec{{Name: "c1", Calls: []string{"exec A i1"}, Cancels: 1}, {Name: "c2", Calls: []string{"exec A i1 skip?"}}},
			Workers: []workerSpec{{Name: "w1", MaxCalls: 3, Busy: []string{"ok", "exec"}}},
		},
		{
			Name: "S1c-do-not-cache", Props: []string{"C01", "C03"},
			Doc:         "two clients, same do_not_cache action: never merged; a third request after completion",
			Predeclared: pre0, MaxTicks: 2, Bounds: b1, Shards: 4,
			Clients: []clientSpec{{Name: "c1", Calls: []string{"exec N i1", "exec A i1", "exec A i1"}}, {Name: "c2", Calls: []string{"exec N i2"}}},
			Workers: []workerSpec{{Name: "w1", MaxCalls: 4, Busy: []string{"ok"}}},
		},
		{
			Name: "S2-handover-race", Props: core,
			Bounds: tiny, Shards: 1,
			Doc:         "a worker blocked in Synchronize vs. an arriving task vs. the worker's cancellation / idle-synchronization timeout",
			Predeclared: pre0, MaxTicks: 3, IdleSync: 2,
			Workers: []workerSpec{{Name: "w1", MaxCalls: 2, Busy: []string{"ok", "vanish"}, Cancels: 1}},
			Clients: []clientSpec{{Name: "c1", Stage: 1, Calls: []string{"exec A i1"}}},
		},
		{
			Name: "S3-completion-vs-cancel-vs-timer", Props: core,
			Bounds:      map[string]int{"quick": 3, "thorough": 5},
			Doc:         "worker completion vs. client cancellation vs. the update timer vs. a failing Send",
			Predeclared: pre0, MaxTicks: 3, SendFaults: true,
			Clients: []clientSpec{{Name: "c1", Calls: []string{"exec A i1"}, Cancels: 1}},
			Workers: []workerSpec{{Name: "w1", MaxCalls: 3, Busy: []string{"ok", "exec", "err"}}},
		},
		{
			Name: "S4-kill-vs-completion-vs-reattach", Props: coreLocks,
			Doc:         "operator kill vs. worker completion vs. a client that is cancelled and re-attaches with WaitExecution",
			Predeclared: pre0, MaxTicks: 3,
			Clients:   []clientSpec{{Name: "c1", Calls: []string{"exec A i1", "wait c1.0"}, Cancels: 1}},
			Workers:   []workerSpec{{Name: "w1", MaxCalls: 2, Busy: []string{"ok"}}},
			Operators: []operatorSpec{{Name: "op", Calls: []string{"kill c1.0"}}},
		},
		{
			Name: "S5-worker-vanishes", Props: core,
			Bounds: tiny, Shards: 1,
			Doc:      "worker-created queue (the request that creates it may be malformed: no current_state, rejected, the worker never calls again); the worker takes the task and vanishes or is slow; the clock passes the worker timeout and the queue timeout while the client waits",
			MaxTicks: 4,
			Workers:  []workerSpec{{Name: "w1", MaxCalls: 3, Busy: []string{"vanish", "sleep4", "ok"}, Idle: []string{"idle", "malformed"}}},
			Clients:  []clientSpec{{Name: "c1", Stage: 1, Calls: []string{"exec A i1"}}},
		},
		{
			Name: "S8-abandon-vs-completion", Props: core,
			Doc:         "both clients of a deduplicated task may leave; no-waiter timeout vs. worker completion",
			Predeclared: pre0, MaxTicks: 3,
			Clients: []clientSpec{{Name: "c1", Calls: []string{"exec A i1"}, Cancels: 1}, {Name: "c2", Calls: []string{"exec A i2"}, Cancels: 1}},
			Workers: []workerSpec{{Name: "w1", MaxCalls: 2, Busy: []string{"ok", "sleep3"}}},
		},
		{
			Name: "S1d-three-clients", Props: []string{"C01", "C02", "C03"},
			Doc:         "three clients, two invocations (one of them twice; the third request has skip_cache_lookup=true), any of them may leave",
			Predeclared: pre0, MaxTicks: 3, Bounds: b1, Shards: 8, ClientInstance: "main/x/y",
			Clients: []clientSpec{
				{Name: "c1", Calls: []string{"exec A i1"}, Cancels: 1},
				{Name: "c2", Calls: []string{"exec A i2"}, Cancels: 1},
				{Name: "c3", Calls: []string{"exec A i1 skip"}},
			},
			Workers: []workerSpec{{Name: "w1", MaxCalls: 2, Busy: []string{"ok"}}},
		},
		{
			Name: "S6-size-class-retry", Props: core,
			Doc:         "predeclared size classes {1,2}; the learner may ask for a retry on the largest; a duplicate client races with failure, retry and completion",
			Predeclared: pre12, MaxTicks: 2, RetryChoices: 2, Bounds: b1, Shards: 8, ClientInstance: "main/x",
			Clients: []clientSpec{{Name: "c1", Calls: []string{"exec A i1"}}, {Name: "c2", Calls: []string{"exec A i2"}, Cancels: 1}},
			Workers: []workerSpec{
				{Name: "w1", SizeClass: 1, MaxCalls: 2, Busy: []string{"fail", "err", "ok"}},
				{Name: "w2", SizeClass: 2, MaxCalls: 2, Busy: []string{"ok", "fail"}},
			},
		},
		{
			Name: "S7-drain-terminate", Props: []string{"C01", "C02", "C06", "C14"},
			Doc:         "a parked worker is drained, undrained and terminated while a task arrives",
			Predeclared: pre0, MaxTicks: 3, IdleSync: 3, Bounds: b1, Shards: 4,
			Workers:   []workerSpec{{Name: "w1", MaxCalls: 3, Busy: []string{"ok", "exec"}}},
			Clients:   []clientSpec{{Name: "c1", Stage: 1, Calls: []string{"exec A i1"}}},
			Operators: []operatorSpec{{Name: "op", Stage: 1, Calls: []string{"drain+ w1", "drain- w1", "term w1", "list"}, Cancels: 1}},
		},
		{
			Name: "S9-queue-removal", Props: coreLocks,
			Doc:      "worker-created queue whose only worker never returns; queued task, late second client after the queue is gone",
			MaxTicks: 10, Update: 2,
			Workers: []workerSpec{{Name: "w1", MaxCalls: 1, Idle: []string{"pidle"}}},
			Clients: []clientSpec{
				{Name: "c1", Stage: 1, Calls: []string{"exec A i1"}, Cancels: 1},
				{Name: "c2", Stage: 1, Calls: []string{"sleep 9", "exec A i2"}},
			},
			Operators: []operatorSpec{{Name: "op", Stage: 1, Calls: []string{"sleep 2", "list", "killq 0"}}},
		},
		{
			Name: "S9b-queue-removal-three-invocations", Props: []string{"C01", "C02", "C06"},
			Doc:      "worker-created queue whose only worker synchronizes once and never returns (worker timeout 1, queue timeout 2); three clients of three different tool invocations (two correlated-invocations ids) queue three different actions; the queue is removed at tick 3: every one of the three streams must end with its done message (UNAVAILABLE), nothing may be retained",
			MaxTicks: 4, WorkerTimeout: 1, QueueTimeout: 2, Bounds: b1, Shards: 4,
			Workers: []workerSpec{{Name: "w1", MaxCalls: 1, Idle: []string{"pidle"}}},
			Clients: []clientSpec{
				{Name: "c1", Stage: 1, Calls: []string{"exec A i1 corrA"}},
				{Name: "c2", Stage: 1, Calls: []string{"exec B i2 corrA"}},
				{Name: "c3", Stage: 1, Calls: []string{"exec C i3 corrB"}},
			},
		},
		{
			Name: "S9c-kill-queue-two-invocations", Props: []string{"C01", "C02", "C06"},
			Doc:      "as S9b with two clients of two different invocations, but an operator kills everything queued in the worker-less queue (KillOperations with the SizeClassQueueWithoutWorkers filter) one tick after the worker timed out, before the queue is removed",
			MaxTicks: 3, WorkerTimeout: 1, QueueTimeout: 4, Bounds: b1, Shards: 4,
			Workers: []workerSpec{{Name: "w1", MaxCalls: 1, Idle: []string{"pidle"}}},
			Clients: []clientSpec{
				{Name: "c1", Stage: 1, Calls: []string{"exec A i1"}},
				{Name: "c2", Stage: 1, Calls: []string{"exec B i2"}},
			},
			Operators: []operatorSpec{{Name: "op", Stage: 1, Calls: []string{"sleep 2", "killq 0"}}},
		},
		{
			Name: "S7b-two-drains", Props: []string{"C02", "C06"},
			Shards: 2,
			Doc:         "two drains with different worker-id patterns (one matches w1, one matches nobody) are added; w1 then synchronizes idle and sleeps drained (idle synchronization interval 6); a client queues a task; a second operator removes the drain that matches w1 while the other drain remains: w1 must be woken and take the task",
			Predeclared: pre0, MaxTicks: 2, IdleSync: 6,
			Operators: []operatorSpec{
				{Name: "op", Calls: []string{"drain+ zz", "drain+ w1"}},
				{Name: "op2", Stage: 3, Calls: []string{"drain- w1"}},
			},
			Workers: []workerSpec{{Name: "w1", Stage: 1, MaxCalls: 2, Busy: []string{"ok"}}},
			Clients: []clientSpec{{Name: "c1", Stage: 2, Calls: []string{"exec A i1"}}},
		},
		{
			Name: "S10-retry-limit", Props: core,
			Bounds: tiny, Shards: 1,
			Doc:         "a worker keeps re-requesting the task it was given (crash loop: receive task, possibly report that it is executing, restart idle, receive the same task again ...); WorkerTaskRetryCount=1",
			Predeclared: pre0, MaxTicks: 2,
			Clients: []clientSpec{{Name: "c1", Calls: []string{"exec A i1"}}},
			Workers: []workerSpec{{Name: "w1", MaxCalls: 6, Busy: []string{"idle", "exec", "wrong", "ok"}}},
		},
		{
			Name: "S11-background-learning", Props: core,
			Doc:         "the learner asks for a background run after success; new requests for the same action arrive while the background run is queued/executing/completing",
			Predeclared: pre12, MaxBackground: 1, MaxTicks: 2, BackgroundChoices: 2, Bounds: b1, Shards: 8,
			Clients: []clientSpec{{Name: "c1", Calls: []string{"exec A i1", "exec A i1"}}, {Name: "c2", Calls: []string{"exec A i2"}}},
			Workers: []workerSpec{{Name: "w1", SizeClass: 1, MaxCalls: 4, Busy: []string{"ok"}}},
		},
		{
			Name: "S11b-background-backlog", Props: []string{"C01", "C06", "C07"},
			Doc:         "two actions both yield background runs; backlog limit 1; nobody serves the background queue at the end",
			Predeclared: pre12, MaxBackground: 1, MaxTicks: 2, BackgroundAlways: true, SelectLargest: true,
			Clients: []clientSpec{{Name: "c1", Calls: []string{"exec A i1"}}, {Name: "c2", Calls: []string{"exec B i2"}}},
			Workers: []workerSpec{{Name: "w2", SizeClass: 2, MaxCalls: 3, Busy: []string{"ok"}}},
		},
		{
			Name: "S11c-background-vs-duplicate", Props: core,
			Doc:         "a background learning run (same action digest as its foreground task) completes while a newer task for that action is in flight; then another duplicate request arrives",
			Predeclared: pre12, MaxBackground: 1, MaxTicks: 2, BackgroundAlways: true,
			Clients: []clientSpec{{Name: "c1", Calls: []string{"exec A i1", "exec A i1"}}, {Name: "c2", Calls: []string{"sleep 1", "exec A i2"}}},
			Workers: []workerSpec{{Name: "w1", SizeClass: 1, MaxCalls: 3, Busy: []string{"ok"}}},
		},
		{
			Name: "S4b-reattach-vs-removal", Props: core,
			Doc:         "WaitExecution re-attaches by name while the abandoned operation is being garbage collected (no-waiter timeout 1) and an operator polls; all thread switches are free, only early clock ticks are bounded",
			Predeclared: pre0, MaxTicks: 2, NoWaiter: 1, PreemptFree: true, Bounds: b1,
			Clients:   []clientSpec{{Name: "c1", Calls: []string{"exec A i1"}, Cancels: 1}, {Name: "c2", Stage: 1, Calls: []string{"wait c1.0"}}},
			Operators: []operatorSpec{{Name: "op", Stage: 1, Calls: []string{"list"}}},
		},
		{
			Name: "S13-stale-report-resend", Props: core,
			Doc:         "two different actions queued for one worker; after its first completion report the worker may re-send that request verbatim (lost response), report completion or progress for its previous task, also after it was told to go idle",
			Predeclared: pre0, MaxTicks: 2,
			Clients: []clientSpec{{Name: "c1", Calls: []string{"exec A i1"}}, {Name: "c2", Calls: []string{"exec B i2"}}},
			Workers: []workerSpec{{Name: "w1", MaxCalls: 4, Busy: []string{"ok", "resend", "okprev", "execprev"}, Idle: []string{"idle", "resend", "okprev"}}},
		},
		{
			Name: "S13b-stale-report-after-kill", Props: []string{"C01", "C02", "C06", "C07"},
			Doc:         "as S13, but the worker's first task may be killed by an operator while the worker runs it: the worker learns about its next task from a progress report and may then still report completion of the killed one",
			Predeclared: pre0, MaxTicks: 3, Bounds: b1,
			Clients:   []clientSpec{{Name: "c1", Calls: []string{"exec A i1"}}, {Name: "c2", Calls: []string{"exec B i2"}}},
			Workers:   []workerSpec{{Name: "w1", MaxCalls: 4, Busy: []string{"sleep1", "exec", "okprev", "resend", "ok"}}},
			Operators: []operatorSpec{{Name: "op", Calls: []string{"kill c1.0"}}},
		},
		{
			Name: "S14-staggered-departure-reattach", Props: core,
			Doc:         "two invocations share one task; both clients may leave at different times; the second re-attaches with WaitExecution one tick after it left (possibly exactly when the first client's operation expires); the worker arrives at any idle moment",
			Predeclared: pre0, MaxTicks: 3,
			Clients: []clientSpec{
				{Name: "c1", Calls: []string{"exec A i1"}, Cancels: 1},
				{Name: "c2", Calls: []string{"exec A i2", "sleep 1", "wait c2.0"}, Cancels: 1},
			},
			Workers: []workerSpec{{Name: "w1", Stage: 1, MaxCalls: 2, Busy: []string{"ok"}}},
		},
		{
			Name: "S14b-staggered-departure-executing", Props: []string{"C01", "C02", "C03", "C06"},
			Doc:         "as S14, but a slow worker holds the task while the clients leave one after the other and the second one re-attaches",
			Predeclared: pre0, MaxTicks: 3, WorkerTimeout: 5, Bounds: b1,
			Clients: []clientSpec{
				{Name: "c1", Calls: []string{"exec A i1"}, Cancels: 1},
				{Name: "c2", Calls: []string{"exec A i2", "sleep 1", "wait c2.0"}, Cancels: 1},
			},
			Workers: []workerSpec{{Name: "w1", MaxCalls: 2, Busy: []string{"sleep3", "ok"}}},
		},
		{
			Name: "S15-queued-abandon-nested-invocations", Props: []string{"C01", "C03", "C06", "C07"},
			Doc:         "predeclared queue, two invocations with different correlated-invocations keys (depth-2 invocation trees) deduplicated onto one task that stays queued; either client may leave and have its operation expire while the other still waits; the worker arrives at any idle moment or never",
			Predeclared: pre0, MaxTicks: 4,
			Clients: []clientSpec{
				{Name: "c1", Calls: []string{"exec A i1 corrA"}, Cancels: 1},
				{Name: "c2", Calls: []string{"exec A i2 corrB"}, Cancels: 1},
			},
			Workers: []workerSpec{{Name: "w1", Stage: 1, MaxCalls: 2, Busy: []string{"ok"}}},
		},
		{
			Name: "S16-long-poll-handover", Props: []string{"C01", "C02", "C06"},
			Bounds: tiny, Shards: 1,
			Doc:         "an idle worker long-polls for up to 5 ticks; a task is handed to it after 0..5 ticks; the worker then works for 2 ticks (or reports progress) before it completes; worker timeout 3",
			Predeclared: pre0, MaxTicks: 5, IdleSync: 5,
			Workers: []workerSpec{{Name: "w1", MaxCalls: 3, Busy: []string{"sleep2", "ok", "exec"}}},
			Clients: []clientSpec{{Name: "c1", Stage: 1, Calls: []string{"exec A i1"}}},
		},
		{
			Name: "S17-kill-vs-garbage-collection", Props: coreLocks,
			Bounds: tiny, Shards: 1,
			Doc:         "operator KillOperations(by name) || the operation's only client leaves || no-waiter timeout 1: the operation may be garbage collected while KillOperations sits in its authorizer between its two critical sections; a second client then re-attaches by name and the operator polls",
			Predeclared: pre0, MaxTicks: 3, NoWaiter: 1,
			Clients: []clientSpec{
				{Name: "c1", Calls: []string{"exec A i1"}, Cancels: 1},
				{Name: "c2", Stage: 2, Calls: []string{"wait c1.0"}},
			},
			Operators: []operatorSpec{{Name: "op", Stage: 1, Calls: []string{"kill c1.0", "list"}}},
		},
		{
			Name: "S18-reattach-window-bystander", Props: []string{"C02", "C03", "C06", "C14"},
			Doc:         "two invocations share one queued task; c1 never leaves; c2 leaves, re-attaches with WaitExecution (the clock may advance past the no-waiter timeout 1 while it sits in the authorizer between the two critical sections of WaitExecution) and leaves again; the worker arrives late or never",
			Predeclared: pre0, MaxTicks: 4, NoWaiter: 1, Bounds: b1,
			Clients: []clientSpec{
				{Name: "c1", Calls: []string{"exec A i1"}},
				{Name: "c2", Calls: []string{"exec A i2", "wait c2.0"}, Cancels: 2},
			},
			Workers: []workerSpec{{Name: "w1", Stage: 1, MaxCalls: 2, Busy: []string{"ok"}}},
		},
		{
			Name: "S19-reissue-same-invocation", Props: []string{"C02", "C03", "C06"},
			Doc:         "a client whose Execute was cut off re-issues Execute for the same action from the same invocation (it waits on its old operation again) while the old operation's abandonment timer is still pending; a second invocation shares the task; a slow worker holds it",
			Predeclared: pre0, MaxTicks: 3, NoWaiter: 1, WorkerTimeout: 5, Bounds: b1,
			Clients: []clientSpec{
				{Name: "c1", Calls: []string{"exec A i1", "exec A i1"}, Cancels: 2},
				{Name: "c2", Calls: []string{"exec A i2"}},
			},
			Workers: []workerSpec{{Name: "w1", MaxCalls: 2, Busy: []string{"sleep3", "ok"}}},
		},
		{
			Name: "S20-completion-during-send", Props: []string{"C02", "C03", "C06"},
			Doc:         "every Send is a scheduling point (message in flight, scheduler lock free): the worker takes and completes the task while the update of one of two clients of the same operation is in flight",
			Predeclared: pre0, MaxTicks: 2, SendPoint: true,
			Clients: []clientSpec{{Name: "c1", Calls: []string{"exec A i1"}}, {Name: "c2", Calls: []string{"exec A i1"}, Cancels: 1}},
			Workers: []workerSpec{{Name: "w1", MaxCalls: 3, Busy: []string{"ok", "exec"}}},
		},
		{
			Name: "S21-dynamic-queue-revival", Props: []string{"C01", "C02", "C06"},
			Bounds: tiny, Shards: 1,
			Doc:      "worker-created queue whose only worker synchronizes once and vanishes (worker timeout 1: the queue is scheduled for removal 2 ticks later); a NEW worker arrives (its first request well-formed or malformed: no current_state) at any idle moment (before or after the worker timeout / the queue's removal instant) and long-polls for up to 3 ticks; a client's Execute arrives at any later idle moment, the clock runs through the removal instant",
			MaxTicks: 4, WorkerTimeout: 1, QueueTimeout: 2, IdleSync: 3,
			Workers: []workerSpec{
				{Name: "w1", MaxCalls: 1, Idle: []string{"pidle"}},
				{Name: "w2", Stage: 1, MaxCalls: 3, Busy: []string{"ok", "exec"}, Idle: []string{"idle", "malformed"}},
			},
			Clients: []clientSpec{{Name: "c1", Stage: 2, Calls: []string{"exec A i1"}}},
		},
		{
			Name: "S6b-retry-limit-after-size-class-retry", Props: []string{"C01", "C02", "C06", "C07"},
			Bounds: tiny, Shards: 1,
			Doc:         "predeclared size classes {1,2}, WorkerTaskRetryCount=1, the learner always asks for a retry on the largest size class; the small worker may redundantly re-synchronize (idle) before it reports the failure, the large worker may do the same before it reports its result: redundant deliveries are counted per assignment",
			Predeclared: pre12, MaxTicks: 2, RetryAlways: true,
			Clients: []clientSpec{{Name: "c1", Calls: []string{"exec A i1"}}},
			Workers: []workerSpec{
				{Name: "w1", SizeClass: 1, MaxCalls: 3, Busy: []string{"fail", "idle"}},
				{Name: "w2", SizeClass: 2, Stage: 1, MaxCalls: 4, Busy: []string{"ok", "idle"}},
			},
		},
		{
			Name: "S6c-terminate-vs-size-class-retry", Props: []string{"C01", "C02", "C06", "C14"},
			Doc:         "predeclared size classes {1,2}; an operator blocks in TerminateWorkers(small worker) while that worker runs the task; the small worker fails it, the learner asks for a retry on the largest size class, and the task goes either straight to a large worker that is parked in an idle Synchronize or back to the queue; the large worker then works for 2 ticks; the client may have left in the meantime",
			Predeclared: pre12, MaxTicks: 4, RetryAlways: true, IdleSync: 5, WorkerTimeout: 4, Bounds: b1,
			Clients: []clientSpec{{Name: "c1", Calls: []string{"exec A i1"}, Cancels: 1}},
			Workers: []workerSpec{
				{Name: "w1", SizeClass: 1, MaxCalls: 2, Busy: []string{"sleep1", "fail"}},
				{Name: "w2", SizeClass: 2, MaxCalls: 2, Busy: []string{"sleep2", "ok"}},
			},
			Operators: []operatorSpec{{Name: "op", Stage: 1, Calls: []string{"term w1"}, Cancels: 1}},
		},
		{
			Name: "S22-reattach-after-completion", Props: []string{"C02", "C03", "C06"},
			Doc:         "Execute runs to completion (or its client leaves first), the stream ends; k = 0..4 ticks later (no-waiter timeout 3) a second client re-attaches to the operation by name with WaitExecution: inside the window it must get the final result, NOT_FOUND is only legitimate once the window has expired",
			Predeclared: pre0, MaxTicks: 4, NoWaiter: 3,
			Clients: []clientSpec{
				{Name: "c1", Calls: []string{"exec A i1"}, Cancels: 1},
				{Name: "c2", Stage: 1, Calls: []string{"wait c1.0"}},
			},
			Workers: []workerSpec{{Name: "w1", MaxCalls: 2, Busy: []string{"ok"}}},
		},
		{
			Name: "S23-browse-queued-operations", Props: []string{"C01", "C06", "C14"},
			Doc:         "three different actions queued one after the other in ONE invocation with priorities 1, 3, 2 (the invocation's queued-operations heap is then not a sorted list); an operator then clicks through every read-only BuildQueueState page (ListPlatformQueues, ListWorkers with every filter, ListDrains, ListInvocationChildren QUEUED/ACTIVE/ALL and ListQueuedOperations of every invocation, ListOperations, GetOperation), possibly twice; a worker then takes and completes the three tasks; the structural oracle runs between any two of those calls",
			Predeclared: pre0, MaxTicks: 1, Bounds: b1, Shards: 2,
			Clients: []clientSpec{
				{Name: "c1", Calls: []string{"exec A i1 corr 1"}},
				{Name: "c2", Stage: 1, Calls: []string{"exec B i1 corr 3"}},
				{Name: "c3", Stage: 2, Calls: []string{"exec C i1 corr 2"}},
			},
			Operators: []operatorSpec{{Name: "op", Stage: 3, Calls: []string{"browse", "browse"}}},
			Workers:   []workerSpec{{Name: "w1", Stage: 4, MaxCalls: 4, Busy: []string{"ok"}}},
		},
		{
			Name: "S23b-browse-sibling-invocations", Props: []string{"C01", "C14"},
			Doc:         "as S23, but the three operations belong to three sibling invocations (different correlated-invocations ids, priorities 1, 3, 2: the root's queued-children heap is not a sorted list); the operator browses once before the worker arrives",
			Predeclared: pre0, MaxTicks: 1, Bounds: b1, Shards: 2,
			Clients: []clientSpec{
				{Name: "c1", Calls: []string{"exec A i1 corrA 1"}},
				{Name: "c2", Stage: 1, Calls: []string{"exec B i2 corrB 3"}},
				{Name: "c3", Stage: 2, Calls: []string{"exec C i3 corrC 2"}},
			},
			Operators: []operatorSpec{{Name: "op", Stage: 3, Calls: []string{"browse"}}},
			Workers:   []workerSpec{{Name: "w1", Stage: 4, MaxCalls: 4, Busy: []string{"ok"}}},
		},
		{
			Name: "S16b-idle-timeout-vs-handover", Props: []string{"C01", "C02", "C06"},
			Bounds: tiny, Shards: 1,
			Doc:         "WorkerTaskRetryCount=0. An idle worker long-polls for 2 ticks; a client's Execute starts at the very tick the poll times out: the timer's delivery, the worker's re-acquisition of the scheduler lock and the client's acquisition of it are three separate steps, so the task may be handed to the worker after its timer fired but before it is back under the lock. The worker afterwards reports what it was told (idle -> asks again; task -> completes it)",
			Predeclared: pre0, MaxTicks: 3, IdleSync: 2, RetryZero: true,
			Workers: []workerSpec{{Name: "w1", MaxCalls: 4, Busy: []string{"ok"}}},
			Clients: []clientSpec{{Name: "c1", Calls: []string{"sleep 2", "exec A i1"}}},
		},
		{
			Name: "S16c-idle-timeout-vs-handover-retry", Props: []string{"C01", "C02", "C06"},
			Bounds: tiny, Shards: 1,
			Doc:         "as S16b with WorkerTaskRetryCount=1 and a worker that may re-request the task it was given (restart; plain or with prefer_being_idle) before it completes it: the task must survive exactly one re-request per assignment",
			Predeclared: pre0, MaxTicks: 3, IdleSync: 2,
			Workers: []workerSpec{{Name: "w1", MaxCalls: 5, Busy: []string{"ok", "idle", "pidle"}}},
			Clients: []clientSpec{{Name: "c1", Calls: []string{"sleep 2", "exec A i1"}}},
		},
		{
			Name: "S11d-background-waiter", Props: []string{"C02", "C06", "C07"},
			Doc:         "predeclared size classes {1,2}, the learner always asks for a background run; the worker holds every task for 1 tick; at any idle moment a second client looks the background learning operation up with ListOperations and attaches to it by name with WaitExecution (it may leave again): the background task completes (or fails because the worker vanishes) while that waiter is attached, or before it attaches, or after it left; in the end nothing may be retained",
			Predeclared: pre12, MaxBackground: 1, MaxTicks: 3, BackgroundAlways: true,
			Clients: []clientSpec{
				{Name: "c1", Calls: []string{"exec A i1"}},
				{Name: "c2", Stage: 1, Calls: []string{"waitbg"}, Cancels: 1},
			},
			Workers: []workerSpec{{Name: "w1", SizeClass: 1, MaxCalls: 3, Busy: []string{"sleep1", "ok", "vanish"}}},
		},
		{
			Name: "S12-crash-points", Props: []string{"C01", "C02", "C06", "C07"},
			Doc:      "worker-created queue; client, worker and operator may each stop for good at any point (cancellation, or simply never calling again) while the clock runs through all timeouts",
			MaxTicks: 5, IdleSync: 2,
			Workers:   []workerSpec{{Name: "w1", MaxCalls: 3, Busy: []string{"ok", "vanish", "idle"}, Idle: []string{"idle", "vanish"}, Cancels: 1}},
			Clients:   []clientSpec{{Name: "c1", Stage: 1, Calls: []string{"exec A i1"}, Cancels: 1}},
			Operators: []operatorSpec{{Name: "op", Stage: 1, Calls: []string{"sleep 2", "list", "term w1"}, Cancels: 1}},
		},
	}
}
