package inputroot

import (
	"os"
	"runtime/debug"
	"strings"
	"testing"

	"verif/mc"
)

// seqs builds one Engine B exploration per catalogue entry (plus a few
// configuration variants of representative entries).
func seqs(tier string) []*mc.Seq {
	thorough := tier == "thorough"
	var r []*mc.Seq
	for _, in := range catalogue() {
		c := compile(in)
		cfg := config{nfs: true, cacheCount: 1000, explicitMerge: strings.HasPrefix(in.name, "mr/")}
		// Bounds by size of the alphabet (about 12 letters per directory
		// path of the input root): histories of up to depth letters with at
		// most maxMods successful local modifications and one CAS failure.
		cfg.maxMods = 2
		letters := len(alphabet(c, cfg))
		var quick, thor int
		switch {
		case letters <= 25:
			quick, thor = 5, 7
		case letters <= 45:
			quick, thor = 4, 6
		case letters <= 100:
			quick, thor = 4, 5
			cfg.maxMods = 1
		default:
			quick, thor = 3, 4
			cfg.maxMods = 1
		}
		if thorough {
			cfg.maxMods++
		}
		cfg.depth = map[string]int{"quick": quick, "thorough": thor}
		r = append(r, newSeq(c, cfg))
	}
	return r
}

func TestMC(t *testing.T) {
	// Thousands of tiny short-lived object graphs per second: collect less often.
	debug.SetGCPercent(800)
	mc.Main(t, nil, seqs(os.Getenv("MC_TIER")))
}
