package inputroot

// The non-virtual path of property C17: NaiveBuildDirectory populates a
// build directory on a (here: in-memory) file system eagerly, obtaining files
// through HardlinkingFileFetcher(BlobAccessFileFetcher): input files are hard
// links to a cache directory that is shared by all actions, so they must not
// be writable through the build directory.

import (
	"bytes"
	"context"
	"fmt"
	"sort"
	"strings"

	"verif/mc"

	"github.com/buildbarn/bb-remote-execution/pkg/builder"
	"github.com/buildbarn/bb-remote-execution/pkg/cas"
	"github.com/buildbarn/bb-storage/pkg/digest"
	"golang.org/x/sync/semaphore"
)

type strLRU struct{ order []string }

func (s *strLRU) Insert(k string) { s.order = append(s.order, k) }
func (s *strLRU) Touch(k string) {
	for i, o := range s.order {
		if o == k {
			s.order = append(append(s.order[:i:i], s.order[i+1:]...), k)
			return
		}
	}
	panic("strLRU: Touch of a key that is not in the set")
}
func (s *strLRU) Peek() string { return s.order[0] }
func (s *strLRU) Remove()      { s.order = s.order[1:] }

const (
	treeNone = iota
	treeMerged
	treeFailed
)

type ntree struct {
	dir   *memDir
	bd    builder.BuildDirectory
	state int
}

type nworld struct {
	c        *compiled
	m        *world // model helper (only c and model are used)
	cas      *fakeCAS
	fs       *memFS
	cache    *memDir
	lru      *strLRU
	maxFiles int
	trees    [2]*ntree
	mods     int
	// noisy: a merge failed half-way; which files had reached the cache by
	// then depends on goroutine timing, so the cache is left out of the key.
	noisy bool
}

// materialisable: the whole DAG can be instantiated eagerly.
func (c *compiled) materialisable() bool {
	seen := map[int]bool{}
	var ok func(i int) bool
	ok = func(i int) bool {
		if seen[i] {
			return true
		}
		seen[i] = true
		if !c.loadable(i) {
			return false
		}
		for _, k := range c.kids(i) {
			if k.kind == kFile && k.blob == blobGhost {
				return false
			}
			if k.kind == kDir && !ok(k.child) {
				return false
			}
		}
		return true
	}
	return ok(0)
}

func newNaiveWorld(c *compiled, maxFiles int) *nworld {
	w := &nworld{c: c, m: &world{c: c}, cas: newFakeCAS(c), fs: &memFS{}, lru: &strLRU{}, maxFiles: maxFiles}
	root := &memDir{fs: w.fs, n: w.fs.newInode(inoDir, 0o777)}
	for _, n := range []string{"cache", "action1", "action2"} {
		if err := root.Mkdir(mk(n), 0o777); err != nil {
			panic(err)
		}
	}
	enter := func(n string) *memDir {
		d, err := root.EnterDirectory(mk(n))
		if err != nil {
			panic(err)
		}
		return d.(*memDir)
	}
	w.cache = enter("cache")
	directoryFetcher := cas.NewCachingDirectoryFetcher(
		cas.NewBlobAccessDirectoryFetcher(w.cas, 10000, 0),
		digest.KeyWithoutInstance, 1000, 1<<20, &lruSet{})
	fileFetcher := cas.NewHardlinkingFileFetcher(cas.NewBlobAccessFileFetcher(w.cas), w.cache, maxFiles, 1<<20, w.lru)
	for i := range w.trees {
		d := enter(fmt.Sprintf("action%d", i+1))
		w.trees[i] = &ntree{dir: d, bd: builder.NewNaiveBuildDirectory(d, directoryFetcher, fileFetcher, semaphore.NewWeighted(1), w.cas)}
	}
	return w
}

func opNaiveArm(kind int) mc.SeqOp {
	return mc.SeqOp{
		Name:    fmt.Sprintf("arm: next CAS Get of a %s fails", map[int]string{1: "Directory", 2: "file"}[kind]),
		Enabled: func(s any) bool { return s.(*nworld).cas.fault == faultUnused },
		Do: func(c *mc.SeqCtx, s any) {
			w := s.(*nworld)
			w.cas.fault, w.cas.faultKind = faultArmed, kind
		},
	}
}

// opNaiveCancel: the caller of MergeDirectoryContents (the worker's build
// loop: client cancelled the action, worker shutting down, deadline) cancels
// its context at the moment the k-th download of a file blob from now on
// reaches the CAS. Downloads run one at a time (semaphore of weight 1), so k
// selects the file; for the last file of the traversal the cancellation
// arrives when the directory traversal has already finished.
func opNaiveCancel(k int) mc.SeqOp {
	return mc.SeqOp{
		Name:    fmt.Sprintf("arm: the caller's context is cancelled when CAS Get #%d of a file is entered", k),
		Enabled: func(s any) bool { return s.(*nworld).cas.fault == faultUnused },
		Do: func(c *mc.SeqCtx, s any) {
			w := s.(*nworld)
			w.cas.fault, w.cas.faultKind, w.cas.faultSkip = faultArmed, 3, k-1
		},
	}
}

func opNaiveMerge(i int) mc.SeqOp {
	return mc.SeqOp{
		Name:    fmt.Sprintf("action %d: MergeDirectoryContents", i+1),
		Enabled: func(s any) bool { return s.(*nworld).trees[i].state == treeNone },
		Do: func(c *mc.SeqCtx, s any) {
			w := s.(*nworld)
			t := w.trees[i]
			before := w.cas.fired()
			callerCtx, cancel := context.WithCancel(ctx)
			w.cas.cancelCaller = cancel
			err := t.bd.MergeDirectoryContents(callerCtx, &errLog{}, w.c.dirDigest[0], nil)
			w.cas.mu.Lock()
			w.cas.cancelCaller = nil
			w.cas.mu.Unlock()
			cancel()
			fired := w.cas.fired() != before
			c.Logf("  MergeDirectoryContents: %v (injected failure fired: %t)", err, fired)
			switch {
			case fired:
				if err == nil {
					c.FailP(prop, "naive/fault/swallowed", "MergeDirectoryContents succeeds although a CAS request failed (storage error, or the caller's context was cancelled while a download was in flight): it reports the input root as materialised while a file is missing")
				}
			case !w.c.materialisable():
				if err == nil {
					c.FailP(prop, "naive/malformed/accepted", "MergeDirectoryContents of an input root with a malformed or unavailable part succeeds")
				}
			case err != nil:
				c.FailP(prop, "naive/merge-refused", "MergeDirectoryContents of a well-formed input root fails: %v", err)
			}
			if err != nil {
				t.state = treeFailed
				w.noisy = true
				return
			}
			t.state = treeMerged
			if i == 0 {
				w.m.model = &mnode{kind: kDir, spec: 0}
			}
		},
	}
}

// opNaiveReplace: the action removes an input file from its own build
// directory and creates a new file of the same name (directories are
// writable; the file itself is not).
func opNaiveReplace(p, name string) mc.SeqOp {
	return mc.SeqOp{
		Name: fmt.Sprintf("action 1: replace %q by a new file", joinPath(p, name)),
		Enabled: func(s any) bool {
			w := s.(*nworld)
			if w.trees[0].state != treeMerged || w.mods >= 2 {
				return false
			}
			m := w.m.mresolve(p)
			return m != nil && w.m.mkids(m)[name] != nil && w.m.mkids(m)[name].kind == kFile
		},
		Do: func(c *mc.SeqCtx, s any) {
			w := s.(*nworld)
			n := w.trees[0].dir.n
			for _, comp := range splitPath(p) {
				n = n.entries[comp]
				if n == nil || n.kind != inoDir {
					c.FailP(prop, "naive/fidelity/missing-directory", "directory %q is missing in the build directory", p)
					return
				}
			}
			d := &memDir{fs: w.fs, n: n}
			if err := d.Remove(mk(name)); err != nil {
				c.FailP(prop, "naive/fidelity/missing-entry", "removing %q: %v", joinPath(p, name), err)
				return
			}
			f := w.fs.newInode(inoFile, 0o644)
			f.nlink = 1
			f.data = append([]byte(nil), localData...)
			n.entries[name] = f
			m := w.m.mresolve(p)
			w.m.mkids(m)[name] = &mnode{kind: kLocalFile, data: localData}
			m.dirty = true
			w.mods++
		},
	}
}

// compareFS compares a populated build directory with the model.
func (w *nworld) compareFS(c *mc.SeqCtx, scope string, n *memInode, m *mnode, p string) bool {
	kids := w.m.mkids(m)
	var have []string
	for name := range n.entries {
		have = append(have, name)
	}
	sort.Strings(have)
	if strings.Join(have, " ") != strings.Join(sortedNames(kids), " ") {
		c.FailP(prop, scope+"fidelity/names", "build directory %q holds %q, the input root says %q", p, have, sortedNames(kids))
		return false
	}
	for _, name := range have {
		e, k := n.entries[name], kids[name]
		full := joinPath(p, name)
		switch k.kind {
		case kDir:
			if e.kind != inoDir {
				c.FailP(prop, scope+"fidelity/kind", "%q is not a directory", full)
				return false
			}
			if !w.compareFS(c, scope, e, k, full) {
				return false
			}
		case kSym:
			if e.kind != inoSymlink || e.target != k.target {
				c.FailP(prop, scope+"fidelity/symlink", "%q: kind %d target %q, the input root says symlink to %q", full, e.kind, e.target, k.target)
				return false
			}
		case kFile:
			want := fileBlobs[k.blob]
			if e.kind != inoFile || !bytes.Equal(e.data, want) {
				c.FailP(prop, scope+"fidelity/content", "%q: kind %d contents %q, the input root says file %q", full, e.kind, e.data, want)
				return false
			}
			if (e.mode&0o111 != 0) != k.exec {
				c.FailP(prop, scope+"fidelity/exec-bit", "%q has mode %o, the input root says executable=%t", full, e.mode, k.exec)
				return false
			}
			if e.mode&0o222 != 0 {
				c.FailP(prop, scope+"immutable/mode", "input file %q (hard link into the shared cache) has mode %o: it can be opened for writing", full, e.mode)
				return false
			}
		case kLocalFile:
			if e.kind != inoFile || !bytes.Equal(e.data, k.data) {
				c.FailP(prop, scope+"fidelity/local-content", "%q: contents %q, expected %q", full, e.data, k.data)
				return false
			}
		}
	}
	return true
}

// checkCache: every file in the cache directory is what its name says.
func (w *nworld) checkCache(c *mc.SeqCtx) bool {
	byKey := map[string]int{}
	for i := range fileBlobs {
		byKey[w.c.fileDigest[i].GetKey(digest.KeyWithoutInstance)] = i
	}
	for name, e := range w.cache.n.entries {
		exec := strings.HasSuffix(name, "+x")
		blob, ok := byKey[strings.TrimSuffix(strings.TrimSuffix(name, "+x"), "-x")]
		if !ok || e.kind != inoFile {
			c.FailP(prop, "naive/cache/foreign-entry", "cache directory holds %q", name)
			return false
		}
		if !bytes.Equal(e.data, fileBlobs[blob]) {
			c.FailP(prop, "naive/cache/poisoned", "cached file %q holds %q instead of %q", name, e.data, fileBlobs[blob])
			return false
		}
		if e.mode&0o222 != 0 || (e.mode&0o111 != 0) != exec {
			c.FailP(prop, "naive/cache/mode", "cached file %q has mode %o", name, e.mode)
			return false
		}
	}
	return true
}

func naiveCheck(c *mc.SeqCtx, s any) {
	w := s.(*nworld)
	if w.trees[0].state == treeMerged && !w.compareFS(c, "naive/", w.trees[0].dir.n, w.m.model, "") {
		return
	}
	if w.trees[1].state == treeMerged && !w.compareFS(c, "naive/isolation/", w.trees[1].dir.n, &mnode{kind: kDir, spec: 0}, "") {
		return
	}
	if !w.checkCache(c) {
		return
	}
	if len(w.cas.puts) != 0 {
		c.FailP(prop, "naive/cas/put", "the CAS received Put(%v)", w.cas.puts)
	}
}

func dumpFS(b *strings.Builder, n *memInode) {
	switch n.kind {
	case inoFile:
		fmt.Fprintf(b, "f%o:%s", n.mode, n.data)
	case inoSymlink:
		fmt.Fprintf(b, "l%s", n.target)
	default:
		names := make([]string, 0, len(n.entries))
		for name := range n.entries {
			names = append(names, name)
		}
		sort.Strings(names)
		b.WriteByte('{')
		for _, name := range names {
			b.WriteString(name)
			b.WriteByte('=')
			dumpFS(b, n.entries[name])
			b.WriteByte(' ')
		}
		b.WriteByte('}')
	}
}

func naiveKey(s any) string {
	w := s.(*nworld)
	var b strings.Builder
	for _, t := range w.trees {
		fmt.Fprintf(&b, "%d", t.state)
		if t.state == treeMerged {
			dumpFS(&b, t.dir.n)
		}
		b.WriteByte('|')
	}
	fmt.Fprintf(&b, "f%d/%d/%d|m%d|", w.cas.fault, w.cas.faultKind, w.cas.faultSkip, w.mods)
	if w.noisy {
		b.WriteString("noisy")
	} else {
		dumpFS(&b, w.cache.n)
		b.WriteString(strings.Join(w.lru.order, ","))
	}
	return b.String()
}

// naiveFinal: a fresh action still gets the pristine tree (retry after a
// failure, nothing poisoned by the first action's modifications).
func naiveFinal(c *mc.SeqCtx, s any) {
	w := s.(*nworld)
	if w.cas.fault == faultArmed {
		w.cas.fault = faultSpent
	}
	if w.trees[1].state == treeNone {
		opNaiveMerge(1).Do(c, s)
		if c.Failed() {
			return
		}
	}
	naiveCheck(c, s)
	if c.Failed() {
		return
	}
	for k, v := range w.c.blobs {
		if !bytes.Equal(w.cas.blobs[k], v) {
			c.FailP(prop, "naive/cas/blob-changed", "blob %s changed", k)
			return
		}
	}
}

func newNaiveSeq(c *compiled, maxFiles int, depth map[string]int) *mc.Seq {
	ops := []mc.SeqOp{opNaiveArm(1), opNaiveArm(2), opNaiveMerge(0), opNaiveMerge(1)}
	files := 0
	for _, p := range c.dirPaths {
		for _, n := range []string{"a", "b"} {
			if c.pristineKind(p, n) == kFile {
				files++
				if len(ops) < 8 {
					ops = append(ops, opNaiveReplace(p, n))
				}
			}
		}
	}
	// One cancellation letter per file download that a merge can make
	// (at most one Get per file path; cache hits make fewer).
	for k := 1; k <= files && k <= 3; k++ {
		ops = append(ops, opNaiveCancel(k))
	}
	name := "naive/" + c.in.name
	if maxFiles < 100 {
		name += fmt.Sprintf("#cache%d", maxFiles)
	}
	return &mc.Seq{
		Name:   name,
		Props:  []string{prop},
		New:    func(*mc.SeqCtx) any { return newNaiveWorld(c, maxFiles) },
		Ops:    ops,
		Key:    naiveKey,
		Check:  naiveCheck,
		Final:  naiveFinal,
		Depth:  depth,
		Panics: []string{prop},
	}
}
