package pool

import (
	"fmt"
	"io"
	"strings"
	"sync"

	"verif/mc"

	rpool "github.com/buildbarn/bb-remote-execution/pkg/filesystem/pool"
	"github.com/buildbarn/bb-storage/pkg/filesystem"
)

// Engine A part of C15: a few threads, each owning one file of the SAME pool,
// run short scripts concurrently. Scheduling points: every atomic operation on
// the quota counters (sync/atomic shim), every Lock of the bitmap allocator,
// every call into the fake base pool and every write to the fake device.
//
// The pool is shared, file handles are not (FileReadWriter handles are not
// thread-safe and the repository never shares them).

type opKind int

const (
	opNew   opKind = iota // NewFile(size a)
	opWrite               // WriteAt(off a, len b)
	opTrunc               // Truncate(size a)
	opClose
)

type cop struct {
	kind opKind
	a, b int
}

// sop is a call of the sequential prologue of a scenario: thread t's file.
type sop struct {
	t  int
	op cop
}

func (o cop) String() string {
	switch o.kind {
	case opNew:
		return fmt.Sprintf("NewFile(%d)", o.a)
	case opWrite:
		return fmt.Sprintf("WriteAt(%d,len%d)", o.a, o.b)
	case opTrunc:
		return fmt.Sprintf("Truncate(%d)", o.a)
	}
	return "Close"
}

func (o cop) name() string {
	return [...]string{"NewFile", "WriteAt", "Truncate", "Close"}[o.kind]
}

// res is a resource vector: files, bytes, device sectors.
type res [3]int

func maxRes(a, b res) res {
	for k := range a {
		if b[k] > a[k] {
			a[k] = b[k]
		}
	}
	return a
}

// cthread is the bookkeeping of one harness thread. Between calls a thread
// holds exactly `cur`. While a call is in flight nothing more is known than
// lb <= held <= ub at every instant (the call reserves before it acts and
// releases after it acted, a failing call rolls back to cur).
type cthread struct {
	script []cop
	thr    *mc.Thread
	pc     int
	inCall bool
	cur    res
	lb, ub res
	// maxOther[j]: largest ub thread j had at any instant of the call in
	// flight (or of the last call, once it returned).
	maxOther []res
	fault    bool // an injected base pool failure hit the call in flight
	results  []string
	nextTag  int
	incarn   int
}

// conc is one instance of a concurrent scenario; it is also the reporter
// handed to the shared oracles of model.go (no verdicts in the free-running
// -race pass).
type conc struct {
	s  *sys
	x  *mc.X
	mu sync.Mutex // protects the cthread bookkeeping; never held across a scheduling point
	th []*cthread

	cachedKey string
}

func (q *conc) FailP(p, fingerprint, format string, args ...any) {
	if !q.x.Free() {
		q.x.FailP(p, fingerprint, format, args...)
	}
}
func (q *conc) Logf(format string, args ...any) { q.x.Logf(format, args...) }
func (q *conc) Failed() bool                    { return q.x.Failed() }

// begin opens the interval of a call of thread i that may hold between lb
// and ub at any instant.
func (q *conc) begin(i int, lb, ub res) {
	q.mu.Lock()
	defer q.mu.Unlock()
	th := q.th[i]
	th.inCall, th.lb, th.ub, th.fault = true, lb, ub, false
	for j, o := range q.th {
		if j == i {
			continue
		}
		th.maxOther[j] = o.ub
		if o.inCall {
			o.maxOther[i] = maxRes(o.maxOther[i], ub)
		}
	}
}

func (q *conc) end(i int, cur res) {
	q.mu.Lock()
	defer q.mu.Unlock()
	th := q.th[i]
	th.inCall, th.cur, th.lb, th.ub = false, cur, cur, cur
	for j, o := range q.th {
		if j != i && o.inCall {
			o.maxOther[i] = maxRes(o.maxOther[i], cur)
		}
	}
}

// others returns the sum of the largest amounts the other threads may have
// held at any instant of the last call of thread i.
func (q *conc) others(i int) (sum res, fault bool) {
	q.mu.Lock()
	defer q.mu.Unlock()
	for j, m := range q.th[i].maxOther {
		if j != i {
			for k := range sum {
				sum[k] += m[k]
			}
		}
	}
	return sum, q.th[i].fault
}

// resetAt declares the local state of the calling thread at a scheduling
// point of the fake base pool.
func (q *conc) resetAt(label string) {
	t := q.x.Current()
	if t == nil {
		return
	}
	q.mu.Lock()
	pc := -1
	for _, th := range q.th {
		if th.thr == t {
			pc = th.pc
		}
	}
	q.mu.Unlock()
	if pc >= 0 {
		q.x.ResetLocal(fmt.Sprintf("%d/%s", pc, label))
	}
}

// noteFault is called by the fake base pool when it fails a call.
func (q *conc) noteFault() {
	t := q.x.Current()
	q.mu.Lock()
	defer q.mu.Unlock()
	for _, th := range q.th {
		if th.thr == t {
			th.fault = true
		}
	}
}

func usedSectors(fs *fileSt) (n int, sectors []uint32) {
	info := rpool.VerifFileState(fs.f)
	if !info.HasBlock {
		if info.Inner == nil {
			return 0, nil
		}
		info = rpool.VerifFileState(info.Inner)
	}
	for _, sec := range info.Sectors {
		if sec != 0 {
			n++
		}
	}
	return n, info.Sectors
}

// blockLen is the size of the block device backed file behind a handle (0
// once it is closed), read through the dump hook: safe while the owning
// thread is parked inside a call.
func blockLen(fs *fileSt) int {
	info := rpool.VerifFileState(fs.f)
	if info.HasQuota {
		if info.Inner == nil {
			return 0
		}
		info = rpool.VerifFileState(info.Inner)
	}
	if !info.HasBlock {
		return 0
	}
	return int(info.SizeBytes)
}

func (q *conc) settled(fs *fileSt) res {
	if fs == nil {
		return res{}
	}
	r := res{1, len(fs.content), 0}
	if q.s.alloc != nil {
		r[2], _ = usedSectors(fs)
	}
	return r
}

func (q *conc) tags(i int, fs *fileSt, off, n int) []byte {
	th := q.th[i]
	out := make([]byte, n)
	for k := range out {
		v := 1 + i*80 + th.nextTag
		th.nextTag++
		if th.nextTag > 80 || v > 255 {
			panic("harness: out of tag values")
		}
		q.s.origins[v] = origin{file: fs.id, off: off + k, kind: 'w'}
		out[k] = byte(v)
	}
	return out
}

// refused reports a failed call unless the statement allows it: the call
// hit an injected fault, or at SOME instant of the call the quota (or the
// device) may have been too full for it, counting for every other thread the
// most it may have held at any instant of the call - including reservations
// of calls that failed in the end and of calls that had not yet released
// what they were giving up. Anything stricter would demand more than the
// statement says.
func (q *conc) refused(i int, op cop, err error, needFiles, needBytes, needSectors int) {
	cfg := q.s.cfg
	o, fault := q.others(i)
	ok := fault
	if cfg.hasQuota() {
		ok = ok || (needFiles > 0 && needFiles+o[0] > cfg.maxFiles) || (needBytes > 0 && needBytes+o[1] > cfg.maxBytes)
	}
	if q.s.alloc != nil {
		ok = ok || (needSectors > 0 && needSectors+o[2] > q.s.freeCapacity())
	}
	q.x.Logf("  T%d %v refused: %v (needs files=%d bytes=%d sectors=%d; others at most %v)", i, op, err, needFiles, needBytes, needSectors, o)
	if !ok {
		q.FailP(prop, "conservation/unjustified-refusal/"+op.name(), "T%d: %v failed (%v) although it needs %d files / %d bytes / %d sectors in total and the other threads held at most %d files / %d bytes / %d sectors at any instant of the call (limits: %d files, %d bytes, %d sectors): returned quota or space is not available", i, op, err, needFiles, needBytes, needSectors, o[0], o[1], o[2], cfg.maxFiles, cfg.maxBytes, q.s.cfg.capS)
	}
}

// readback compares the whole file of the calling thread with its model.
func (q *conc) readback(i int, fs *fileSt, op cop) {
	size := len(fs.content)
	if l, err := fs.f.Len(); err != nil || int(l) != size {
		q.FailP(prop, "size/Len/conc-after-"+op.name(), "T%d file#%d after %v: Len() = %d, %v; model size %d", i, fs.id, op, l, err, size)
		return
	}
	if size == 0 {
		return
	}
	buf := make([]byte, size)
	n, err := fs.f.ReadAt(buf, 0)
	if n != size || (err != nil && err != io.EOF) {
		q.FailP(prop, "read/count/conc-after-"+op.name(), "T%d file#%d after %v: ReadAt(0,%d) = %d, %v", i, fs.id, op, size, n, err)
		return
	}
	for o := range buf {
		if buf[o] != fs.content[o] {
			q.FailP(prop, q.s.classify(fs, o, buf[o])+"/conc-after-"+op.name(), "T%d file#%d after %v: offset %d reads %s, expected %s", i, fs.id, op, o, q.s.describe(buf[o]), q.s.describe(fs.content[o]))
			return
		}
	}
}

func (q *conc) exec(i int, op cop) {
	s, x, th := q.s, q.x, q.th[i]
	fs := s.files[i]
	if (op.kind == opNew) != (fs == nil) {
		th.results = append(th.results, "-")
		return
	}
	cur := th.cur
	result := "ok"
	switch op.kind {
	case opNew:
		want := res{cur[0] + 1, cur[1] + op.a, cur[2]}
		q.begin(i, cur, want)
		f, err := s.top.NewFile(rpool.ZeroHoleSource, uint64(op.a))
		x.CheckNoLocksHeld("NewFile")
		x.Logf("  T%d NewFile(%d) -> err=%v", i, op.a, err)
		if err != nil {
			q.end(i, cur)
			q.refused(i, op, err, want[0], op.a+cur[1], 0)
			th.results = append(th.results, "refused")
			return
		}
		if f == nil {
			q.FailP(prop, "newfile/nil-without-error", "NewFile returned nil, nil")
			return
		}
		th.incarn++
		fs = &fileSt{f: f, id: i*10 + th.incarn, content: make([]byte, op.a)}
		if info := rpool.VerifFileState(f); info.HasQuota {
			if cb, ok := info.Inner.(*concBaseFile); ok {
				fs.baseFile = cb.fakeBaseFile
			}
		}
		s.files[i] = fs
		q.readback(i, fs, op)
		q.end(i, q.settled(fs))
	case opWrite:
		off, n := op.a, op.b
		old, end := len(fs.content), op.a+op.b
		want, needSectors := cur, 0
		if end > old {
			want[1] = end
		}
		if s.alloc != nil {
			_, sectors := usedSectors(fs)
			for idx := off / s.cfg.ss; idx <= (end-1)/s.cfg.ss; idx++ {
				if idx >= len(sectors) || sectors[idx] == 0 {
					needSectors++
				}
			}
			want[2] += needSectors
		}
		buf := q.tags(i, fs, off, n)
		q.begin(i, cur, want)
		nw, err := fs.f.WriteAt(append([]byte(nil), buf...), int64(off))
		x.CheckNoLocksHeld("WriteAt")
		x.Logf("  T%d WriteAt(%x @%d) -> n=%d err=%v", i, buf, off, nw, err)
		switch {
		case nw < 0 || nw > n || (err == nil && nw != n):
			q.FailP(prop, "write/bad-count", "WriteAt(off %d, len %d) returned n=%d, err=%v", off, n, nw, err)
			return
		case err == nil:
			for o := old; o < end; o++ {
				fs.content = append(fs.content, 0)
			}
			copy(fs.content[off:], buf)
		default:
			result = "refused"
			lo := off
			if old < lo {
				lo = old
			}
			s.resync(q, fs, "WriteAt", lo, end, end, buf, off)
		}
		q.readback(i, fs, op)
		q.end(i, q.settled(fs))
		if err != nil {
			needBytes := 0
			if end > old {
				needBytes = end
			}
			if needSectors > 0 {
				needSectors += cur[2]
			}
			q.refused(i, op, err, 0, needBytes, needSectors)
		}
	case opTrunc:
		size, old := op.a, len(fs.content)
		lb, ub := cur, cur
		if size > old {
			ub[1] = size
		} else {
			// Sectors and bytes beyond the new size are given up at some
			// instant of the call.
			lb[1] = size
			lb[2] = 0
			if s.alloc != nil {
				_, sectors := usedSectors(fs)
				for idx, sec := range sectors {
					if sec != 0 && idx*s.cfg.ss < size {
						lb[2]++
					}
				}
			}
		}
		q.begin(i, lb, ub)
		err := fs.f.Truncate(int64(size))
		x.CheckNoLocksHeld("Truncate")
		x.Logf("  T%d Truncate(%d) -> err=%v", i, size, err)
		if err == nil {
			if size < old {
				fs.content = fs.content[:size:size]
			}
			for o := old; o < size; o++ {
				fs.content = append(fs.content, 0)
			}
		} else {
			result = "refused"
			lo, hi := old, size
			if lo > hi {
				lo, hi = hi, lo
			}
			s.resync(q, fs, "Truncate", lo, hi, size, nil, 0)
		}
		q.readback(i, fs, op)
		q.end(i, q.settled(fs))
		if err != nil {
			needBytes := 0
			if size > old {
				needBytes = size
			}
			q.refused(i, op, err, 0, needBytes, 0)
		}
	case opClose:
		q.begin(i, res{}, cur)
		err := fs.f.Close()
		x.CheckNoLocksHeld("Close")
		x.Logf("  T%d Close -> err=%v", i, err)
		s.files[i] = nil
		q.end(i, res{})
		if _, fault := q.others(i); err != nil && !fault {
			q.FailP(prop, "spurious-error/Close", "Close failed without injected fault: %v", err)
		}
	}
	th.results = append(th.results, result)
}

func (q *conc) run(i int) {
	th := q.th[i]
	q.mu.Lock()
	th.thr = q.x.Current()
	q.mu.Unlock()
	for pc, op := range th.script {
		// Between two calls the thread's local state is its script
		// position; everything else (file, model, bookkeeping) is part of
		// the global key.
		th.pc = pc
		q.x.ResetLocal(fmt.Sprint(pc))
		q.exec(i, op)
		if q.x.Failed() {
			return
		}
	}
	th.pc = len(th.script)
}

// monitor runs at every quiescent point.
func (q *conc) monitor() {
	s, x := q.s, q.x
	if x.LocksHeld() != 0 || debugNoInvariants {
		return
	}
	q.mu.Lock()
	inCall := 0
	var lb, ub res
	for _, th := range q.th {
		if th.inCall {
			inCall++
		}
		for k := range lb {
			lb[k] += th.lb[k]
			ub[k] += th.ub[k]
		}
	}
	q.mu.Unlock()
	s.lastOp = "conc-step"
	if inCall == 0 {
		// No thread is inside a call: the full structural invariants of
		// the sequential part hold.
		s.lastOp = "conc-quiescent"
		s.checkConservation(q)
		return
	}
	// Calls in flight: whatever they are doing, the quota handed out lies
	// between what the threads hold at least and at most, and no sector
	// belongs to two files.
	if s.cfg.hasQuota() {
		fr, br, _ := rpool.VerifQuotaState(s.top)
		for k, rem := range []uint64{fr, br} {
			limit := []int{s.cfg.maxFiles, s.cfg.maxBytes}[k]
			what := []string{"files", "bytes"}[k]
			if rem > uint64(limit) {
				s.fail(q, "conservation/quota-"+what+"-handed-out-twice/overdrawn", "quota: the counter of remaining %s is %d (%d) with a limit of %d: more was handed out than the quota holds, or more was returned than was taken", what, rem, int64(rem), limit)
				return
			}
			handedOut := int64(limit) - int64(rem)
			if handedOut > int64(ub[k]) {
				s.fail(q, "conservation/quota-"+what+"-lost", "quota: %d %s remaining of %d while the threads hold at most %d: quota was leaked or taken twice", int64(rem), what, limit, ub[k])
				return
			}
			if handedOut < int64(lb[k]) {
				s.fail(q, "conservation/quota-"+what+"-handed-out-twice", "quota: %d %s remaining of %d while the threads hold at least %d: quota was returned twice or handed out without being taken", int64(rem), what, limit, lb[k])
				return
			}
		}
	}
	if s.alloc != nil {
		refs := map[uint32]int{}
		total := 0
		for _, fs := range s.files {
			if fs == nil {
				continue
			}
			total += blockLen(fs)
			if s.cfg.hasQuota() && total > s.cfg.maxBytes {
				s.fail(q, "conservation/quota-bytes-handed-out-twice/file-sizes", "the open files hold %d bytes at once, the quota is %d bytes", total, s.cfg.maxBytes)
				return
			}
			_, sectors := usedSectors(fs)
			for idx, sec := range sectors {
				if sec == 0 {
					continue
				}
				if owner, dup := refs[sec]; dup {
					s.fail(q, "conservation/sector-handed-out-twice", "device sector %d is referenced by file#%d (index %d) and by file#%d", sec, fs.id, idx, owner)
					return
				}
				refs[sec] = fs.id
			}
		}
		allocated := s.freeCapacity() - s.freeSectors()
		if allocated > ub[2] {
			s.fail(q, "conservation/sector-leak", "%d sectors are allocated while the threads hold at most %d", allocated, ub[2])
		} else if allocated < lb[2] {
			s.fail(q, "conservation/sector-in-use-marked-free", "%d sectors are allocated while the threads hold at least %d", allocated, lb[2])
		}
	}
}

func (q *conc) key() string {
	s := q.s
	var sb strings.Builder
	order := make([]int, len(s.files))
	for i := range order {
		order[i] = i
	}
	sb.WriteString(s.dump(order))
	q.mu.Lock()
	for i, th := range q.th {
		fmt.Fprintf(&sb, "|t%d pc%d cur%v", i, th.pc, th.cur)
		if th.inCall {
			fmt.Fprintf(&sb, " lb%v ub%v mo%v f%v", th.lb, th.ub, th.maxOther, th.fault)
		}
	}
	q.mu.Unlock()
	if s.cbase != nil {
		l, b := s.cbase.totals()
		fmt.Fprintf(&sb, "|base%d/%d", l, b)
	}
	return sb.String()
}

func (q *conc) finish() {
	s, x := q.s, q.x
	if x.Free() {
		for _, fs := range s.files {
			if fs != nil {
				fs.f.Close()
			}
		}
		return
	}
	var out []string
	for _, th := range q.th {
		out = append(out, strings.Join(th.results, ","))
	}
	x.Outcome("%s", strings.Join(out, " | "))
	s.lastOp = "conc-finish"
	for _, fs := range s.files {
		if fs != nil && !x.Failed() {
			s.checkFile(q, fs)
		}
	}
	if !x.Failed() && !debugNoInvariants {
		s.checkConservation(q)
	}
	if !x.Failed() {
		s.final(q)
	}
}

// concScenario builds one Engine A scenario: thread i runs scripts[i] on
// file slot i of a fresh instance of cfg; cfg.preopen files exist already.
func concScenario(cfg *config, scripts [][]cop, quick, thorough int) *mc.Scenario {
	cfg.slots = len(scripts)
	// cur carries the instance from Build to Finish (a worker process runs
	// the executions of one scenario strictly one after another).
	var cur *conc
	return &mc.Scenario{
		Name:     cfg.name,
		Props:    []string{prop, "C14"},
		Liveness: []string{"C14"},
		Panics:   []string{prop},
		Bounds:   map[string]int{"quick": quick, "thorough": thorough},
		Build: func(x *mc.X) {
			s := newSys(cfg)
			q := &conc{s: s, x: x}
			s.x = x
			for i, sc := range scripts {
				th := &cthread{script: sc, maxOther: make([]res, len(scripts))}
				q.th = append(q.th, th)
				if i < len(cfg.preopen) && cfg.preopen[i] >= 0 {
					f, err := s.top.NewFile(rpool.ZeroHoleSource, uint64(cfg.preopen[i]))
					if err != nil {
						panic(err)
					}
					fs := &fileSt{f: f, id: i * 10, content: make([]byte, cfg.preopen[i])}
					if info := rpool.VerifFileState(f); info.HasQuota {
						if cb, ok := info.Inner.(*concBaseFile); ok {
							fs.baseFile = cb.fakeBaseFile
						}
					}
					s.files[i] = fs
					th.cur = q.settled(fs)
					th.lb, th.ub = th.cur, th.cur
				}
			}
			for _, so := range cfg.concSetup {
				q.exec(so.t, so.op)
			}
			for _, th := range q.th {
				th.results = nil
			}
			// From now on the fakes are scheduling points.
			if s.dev != nil {
				s.dev.point = x.Point
			}
			if s.cbase != nil {
				s.cbase.q = q
			}
			// The quota dump goes through the atomic shim, whose hook takes
			// the engine mutex; engine versions that evaluated the key
			// function with that mutex held dead-locked on it. Computing the
			// key in a quiescent-point callback (runs before every decision,
			// without the mutex) and handing out the cached copy is safe
			// with every engine version.
			x.OnQuiescent(func() { q.cachedKey = q.key() })
			x.SetKey(func() string { return q.cachedKey })
			x.Monitor(prop, q.monitor)
			for i := range scripts {
				i := i
				x.Go(fmt.Sprintf("T%d", i), func() { q.run(i) })
			}
			cur = q
		},
		Finish: func(x *mc.X) { cur.finish() },
	}
}

// ---------------------------------------------------------------------
// concBase: a trivially correct in-memory base pool below the real quota
// layer. Every mutating call is a scheduling point (before it acts) and
// the pool counts what exists: the quota layer may never let more files or
// bytes exist at once than it was configured for.
// ---------------------------------------------------------------------

type concBase struct {
	s           *sys
	q           *conc // nil until the threads start
	mu          sync.Mutex
	live, bytes int
}

type concBaseFile struct {
	*fakeBaseFile
	p *concBase
}

func (p *concBase) totals() (int, int) {
	p.mu.Lock()
	defer p.mu.Unlock()
	return p.live, p.bytes
}

// enter is the scheduling point of a base call; it returns true if the call
// has to fail (scenarios with base faults: one deviation each).
func (p *concBase) enter(label string) bool {
	if p.q == nil {
		return false
	}
	// Inside a base pool call the calling thread's local state is again a
	// function of its script position and the global state.
	p.q.resetAt(label)
	if p.s.cfg.baseFaults {
		if p.q.x.Choose(label, 2) == 1 {
			p.q.noteFault()
			return true
		}
		return false
	}
	p.q.x.Point(label)
	return false
}

func (p *concBase) account(dFiles, dBytes int, op string) {
	p.mu.Lock()
	p.live += dFiles
	p.bytes += dBytes
	l, b := p.live, p.bytes
	p.mu.Unlock()
	x, cfg := p.s.x, p.s.cfg
	if x == nil || x.Free() {
		return
	}
	if l > cfg.maxFiles {
		x.FailP(prop, "conservation/quota-files-handed-out-twice/base-"+op, "the base pool holds %d files at once after %s, the quota is %d files", l, op, cfg.maxFiles)
	}
	if b > cfg.maxBytes {
		x.FailP(prop, "conservation/quota-bytes-handed-out-twice/base-"+op, "the files of the base pool hold %d bytes at once after %s, the quota is %d bytes", b, op, cfg.maxBytes)
	}
}

func (p *concBase) NewFile(hs rpool.HoleSource, size uint64) (filesystem.FileReadWriter, error) {
	if p.enter("base.NewFile") {
		return nil, errBase
	}
	f := &concBaseFile{fakeBaseFile: &fakeBaseFile{fl: p.s.fl, hs: hs, content: make([]byte, size)}, p: p}
	p.account(1, int(size), "NewFile")
	return f, nil
}

func (f *concBaseFile) WriteAt(b []byte, off int64) (int, error) {
	if f.p.enter("base.WriteAt") {
		return 0, errBase
	}
	old := len(f.content)
	n, err := f.fakeBaseFile.WriteAt(b, off)
	f.p.account(0, len(f.content)-old, "WriteAt")
	return n, err
}

func (f *concBaseFile) Truncate(size int64) error {
	if f.p.enter("base.Truncate") {
		return errBase
	}
	old := len(f.content)
	err := f.fakeBaseFile.Truncate(size)
	f.p.account(0, len(f.content)-old, "Truncate")
	return err
}

func (f *concBaseFile) Close() error {
	fail := f.p.enter("base.Close")
	err := f.fakeBaseFile.Close()
	f.p.account(-1, -len(f.content), "Close")
	if fail {
		return errBase
	}
	return err
}
