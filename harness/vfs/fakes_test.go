package vfs

import (
	"context"
	"errors"
	"sync"
	"sync/atomic"
	"time"

	"github.com/buildbarn/bb-remote-execution/pkg/filesystem/pool"
	"github.com/buildbarn/bb-remote-execution/pkg/filesystem/virtual"
	"github.com/buildbarn/bb-storage/pkg/clock"
	"github.com/buildbarn/bb-storage/pkg/filesystem"
	"github.com/buildbarn/bb-storage/pkg/filesystem/path"
)

// ---------------------------------------------------------------------------
// Deterministic "random" number generator: a counter. Only used by the real
// FUSE handle allocator to hand out inode numbers; these never enter keys.

type counterRNG struct{ n uint64 }

func (r *counterRNG) next() uint64 { return atomic.AddUint64(&r.n, 1) }

func (r *counterRNG) Float64() float64                   { return 0 }
func (r *counterRNG) Int64N(n int64) int64               { return 0 }
func (r *counterRNG) IntN(n int) int                     { return 0 }
func (r *counterRNG) Read(p []byte) (int, error)         { return len(p), nil }
func (r *counterRNG) Shuffle(n int, swap func(i, j int)) {}
func (r *counterRNG) Uint32() uint32                     { return uint32(r.next()) }
func (r *counterRNG) Uint64() uint64                     { return r.next() }
func (r *counterRNG) IsThreadSafe()                      {}

// ---------------------------------------------------------------------------
// Clock that never moves.

type frozenClock struct{}

var epoch = time.Unix(1000, 0)

func (frozenClock) Now() time.Time { return epoch }
func (frozenClock) NewContextWithTimeout(parent context.Context, timeout time.Duration) (context.Context, context.CancelFunc) {
	panic("not used")
}

func (frozenClock) NewTimer(d time.Duration) (clock.Timer, <-chan time.Time) { panic("not used") }
func (frozenClock) NewTicker(d time.Duration) (clock.Ticker, <-chan time.Time) {
	panic("not used")
}

// ---------------------------------------------------------------------------
// Error logger that counts.

type countingErrorLogger struct{ n int }

func (l *countingErrorLogger) Log(err error) { l.n++ }

// ---------------------------------------------------------------------------
// Leaves. The fake leaf is the innermost object; the real FUSE handle
// allocator wraps it with an inode number and the link count, exactly like
// NewHandleAllocatingFileAllocator does for pool backed files.

type leafKind int

const (
	kindFile leafKind = iota
	kindSymlink
	kindFIFO
)

func (k leafKind) String() string { return [...]string{"file", "symlink", "fifo"}[k] }

func (k leafKind) fileType() filesystem.FileType {
	switch k {
	case kindSymlink:
		return filesystem.FileTypeSymlink
	case kindFIFO:
		return filesystem.FileTypeFIFO
	}
	return filesystem.FileTypeRegularFile
}

type fakeLeaf struct {
	kind leafKind
	// linkCalls / unlinkCalls count what reaches the innermost object:
	// with the stateful FUSE wrapper Unlink() only arrives here when the
	// link count drops to zero.
	unlinkCalls int
	opens       atomic.Int32
}

func (f *fakeLeaf) VirtualGetAttributes(ctx context.Context, requested virtual.AttributesMask, attributes *virtual.Attributes) {
	attributes.SetChangeID(0)
	attributes.SetFileType(f.kind.fileType())
	attributes.SetHasNamedAttributes(false)
	attributes.SetPermissions(virtual.PermissionsRead | virtual.PermissionsWrite)
	attributes.SetSizeBytes(0)
}

func (f *fakeLeaf) VirtualSetAttributes(ctx context.Context, in *virtual.Attributes, requested virtual.AttributesMask, attributes *virtual.Attributes) virtual.Status {
	f.VirtualGetAttributes(ctx, requested, attributes)
	return virtual.StatusOK
}
func (f *fakeLeaf) VirtualApply(data any) bool { return false }
func (f *fakeLeaf) VirtualOpenNamedAttributes(ctx context.Context, createDirectory bool, requested virtual.AttributesMask, attributes *virtual.Attributes) (virtual.Directory, virtual.Status) {
	return nil, virtual.StatusErrNoEnt
}
func (f *fakeLeaf) VirtualAllocate(ctx context.Context, off, size uint64) virtual.Status {
	return virtual.StatusErrWrongType
}
func (f *fakeLeaf) VirtualSeek(ctx context.Context, offset uint64, regionType filesystem.RegionType) (*uint64, virtual.Status) {
	return nil, virtual.StatusErrWrongType
}
func (f *fakeLeaf) VirtualOpenSelf(ctx context.Context, shareAccess virtual.ShareMask, options *virtual.OpenExistingOptions, requested virtual.AttributesMask, attributes *virtual.Attributes) virtual.Status {
	if f.kind != kindFile {
		return virtual.StatusErrSymlink
	}
	f.opens.Add(1)
	f.VirtualGetAttributes(ctx, requested, attributes)
	return virtual.StatusOK
}
func (f *fakeLeaf) VirtualRead(ctx context.Context, buf []byte, offset uint64) (int, bool, virtual.Status) {
	return 0, true, virtual.StatusOK
}
func (f *fakeLeaf) VirtualClose(shareAccess virtual.ShareMask) {}
func (f *fakeLeaf) VirtualWrite(ctx context.Context, buf []byte, offset uint64) (int, virtual.Status) {
	return 0, virtual.StatusErrIO
}
func (f *fakeLeaf) Link() virtual.Status { return virtual.StatusOK }
func (f *fakeLeaf) Unlink()              { f.unlinkCalls++ }

// leafRec is what the harness remembers about one leaf it handed to (or got
// from) the implementation.
type leafRec struct {
	id    int // identity in the reference model
	inner *fakeLeaf
	outer virtual.LinkableLeaf // what the directory stores (FUSE wrapper)
}

// world owns the fakes of one instance of the system under test.
type world struct {
	// mu is a real mutex (never held across a scheduling point): it only
	// keeps the free-running -race pass quiet about the fakes themselves.
	mu          sync.Mutex
	rng         *counterRNG
	handles     *virtual.FUSEStatefulHandleAllocator
	logger      *countingErrorLogger
	leaves      []*leafRec
	byOuter     map[virtual.LinkableLeaf]*leafRec
	failNewFile bool // the next NewFile fails (then the flag clears)
	failSymlink bool // the next LookupSymlink fails (then the flag clears)
	// point, if set, is called before NewFile / LookupSymlink act: a
	// scheduling point of the concurrent scenarios at which the calling
	// thread holds the lock of the directory it is creating the node in.
	point func(label string)
}

func newWorld() *world {
	w := &world{rng: &counterRNG{}, logger: &countingErrorLogger{}, byOuter: map[virtual.LinkableLeaf]*leafRec{}}
	w.handles = virtual.NewFUSEHandleAllocator(w.rng)
	return w
}

// newLeaf creates a stateful leaf with link count one.
func (w *world) newLeaf(kind leafKind) *leafRec {
	inner := &fakeLeaf{kind: kind}
	// (Outside w.mu: initialising the FUSE link count is a scheduling
	// point when the atomics of fuse_handle_allocator.go are shimmed.)
	outer := w.handles.New().AsLinkableLeaf(inner)
	w.mu.Lock()
	defer w.mu.Unlock()
	rec := &leafRec{id: len(w.leaves), inner: inner, outer: outer}
	w.leaves = append(w.leaves, rec)
	w.byOuter[rec.outer] = rec
	return rec
}

var errInjected = errors.New("injected failure")

// FileAllocator.
func (w *world) NewFile(holeSource pool.HoleSource, isExecutable bool, size uint64, shareAccess virtual.ShareMask) (virtual.LinkableLeaf, error) {
	if w.point != nil {
		w.point("FileAllocator.NewFile")
	}
	w.mu.Lock()
	fail := w.failNewFile
	w.failNewFile = false
	w.mu.Unlock()
	if fail {
		return nil, errInjected
	}
	return w.newLeaf(kindFile).outer, nil
}

type symlinkFactory struct{ w *world }

func (f symlinkFactory) LookupSymlink(target path.Parser) (virtual.LinkableLeaf, error) {
	if f.w.point != nil {
		f.w.point("SymlinkFactory.LookupSymlink")
	}
	f.w.mu.Lock()
	fail := f.w.failSymlink
	f.w.failSymlink = false
	f.w.mu.Unlock()
	if fail {
		return nil, errInjected
	}
	return f.w.newLeaf(kindSymlink).outer, nil
}

// ---------------------------------------------------------------------------
// Lazy directory contents.

// lazySpec describes the contents a lazily initialised directory will get:
// file names and names of (again lazy, empty) subdirectories.
type lazySpec struct {
	files []string
	dirs  []string
}

type fakeFetcher struct {
	w        *world
	spec     lazySpec
	failOnce bool
	calls    int
	ok       int
	// leaves handed out by the successful FetchContents call, by name.
	made map[string]*leafRec
	// onFetch, if set, is called at the start of FetchContents (a
	// scheduling point in the concurrent scenarios).
	onFetch func()
}

func (f *fakeFetcher) FetchContents(fileReadMonitorFactory virtual.FileReadMonitorFactory) (map[path.Component]virtual.InitialChild, error) {
	if f.onFetch != nil {
		f.onFetch()
	}
	f.calls++
	if f.failOnce {
		f.failOnce = false
		return nil, errInjected
	}
	f.ok++
	children := map[path.Component]virtual.InitialChild{}
	f.made = map[string]*leafRec{}
	for _, n := range f.spec.files {
		rec := f.w.newLeaf(kindFile)
		f.made[n] = rec
		children[mk(n)] = virtual.InitialChild{}.FromLeaf(rec.outer)
	}
	for _, n := range f.spec.dirs {
		children[mk(n)] = virtual.InitialChild{}.FromDirectory(&fakeFetcher{w: f.w})
	}
	return children, nil
}

func (f *fakeFetcher) VirtualApply(data any) bool { return false }
