// Package storage is the C09 harness: the real decorator composition
//
//	NewCachingBuildExecutor(NewStorageFlushingBuildExecutor(fakeLocal, flush), CAS, AC, url)
//
// with the real NewBatchedStoreBlobAccess() in front of a fake CAS, wired the
// way cmd/bb_worker/main.go wires them. Engine A of /verif/mc is used as an
// enumerator of fault positions (every FindMissing / CAS Put / AC Put can
// succeed, fail or be cancelled) and of the orders of the concurrent Put
// goroutines inside one flush.
package storage

import (
	"bytes"
	"context"
	"crypto/sha256"
	"encoding/hex"
	"fmt"
	"io"
	"os"
	"sort"
	"strings"
	"sync"

	"verif/mc"

	remoteexecution "github.com/bazelbuild/remote-apis/build/bazel/remote/execution/v2"
	"github.com/buildbarn/bb-storage/pkg/blobstore/buffer"
	"github.com/buildbarn/bb-storage/pkg/digest"

	"google.golang.org/grpc/codes"
	"google.golang.org/grpc/status"
)

const prop = "C09"

// Diagnostic knob (mutation experiments only): STORAGE_SKIP_BUFCHECK_AFTER_EXECUTE=1
// disables the "every buffer released when Execute returns" check, to see
// which of the later oracles also catches a change.
var skipBufferCheckAfterExecute = os.Getenv("STORAGE_SKIP_BUFCHECK_AFTER_EXECUTE") != ""

// Outcome of the (fake) innermost executor; a scenario parameter.
const (
	outcomeOK = iota
	outcomeExit1
	outcomeStatusError
	outcomeExitNeg // exit code -1 (int32 in the protocol; e.g. death by signal)
)

var outcomeNames = [...]string{"ok", "exit1", "statuserr", "exit-1"}

// actionCfg describes one action: what the innermost executor uploads and
// what it reports.
type actionCfg struct {
	blobs   []string // names of the blobs Put through the batching writer, in order
	outcome int
	dnc     bool // Action.do_not_cache
	attach  bool // innermost executor attaches Put errors to its response (like LocalBuildExecutor) or ignores them

	// real-outputs scenarios: the result is produced by the real
	// OutputHierarchy for this Command.output_directory_format / force flag.
	real   bool
	format int32
	force  bool
}

func (c actionCfg) String() string {
	if c.real {
		return fmt.Sprintf("real-outputs/format=%d/force=%v/%s/dnc=%v", c.format, c.force, outcomeNames[c.outcome], c.dnc)
	}
	return fmt.Sprintf("[%s]/%s/dnc=%v/attach=%v", strings.Join(c.blobs, ""), outcomeNames[c.outcome], c.dnc, c.attach)
}

// actionState is the monitor state of the action that is currently running.
type actionState struct {
	idx    int
	cfg    actionCfg
	cancel context.CancelFunc
	key    string // digest key of the action

	faults      []string // every injected failure of a storage operation during this action
	batchFaults int      // ...of which: FindMissing / Put of an output blob (the batching layer's writes)
	acked       []string // blobs acknowledged (Put returned nil) by the batching layer since the last flush return
	ctx         context.Context
	live        bool // registered and not finished yet
	scope       int  // >0 while the action is inside the batching writer's Put, inside flush, or inside a fake storage call
	cancelEvent bool // the environment cancelled the action's context (event, not the answer of a storage call)
	flushCalls  int
	flushFailed bool
	acAttempts  int
}

type acEntry struct {
	actionKey string
	result    *remoteexecution.ActionResult
	casNames  []string // snapshot of the CAS contents at the time of the write
}

// world is everything outside the code under test: fake CAS and AC, the
// buffers handed out, and the monitors. One per execution.
type world struct {
	x  *mc.X
	df digest.Function

	mu        sync.Mutex // real mutex; never held across a scheduling point
	cas       map[string][]byte
	names     map[string]string // digest key -> blob name
	digests   map[string]digest.Digest
	contents  map[string][]byte
	ac        []acEntry
	failedCtx map[context.Context]bool
	buffers   []*trackedReader
	nextIdx   int
	nextMsg   int // next "M<k>" name (realout.go)
	multi     bool // several actions run concurrently: labels carry the action index
	acts      []*actionState
	parked    int // threads parked inside a fake storage call (at its choice point)
	armed     map[*mc.Thread]string // upload goroutines that just returned from a fake CAS Put (semhook.go)
}

// maxActions is the number of cancel events registered per execution (no
// scenario runs more than two actions).
const maxActions = 2

// register makes the action a target of its "cancel@a<idx>" event.
func (w *world) register(st *actionState, ctx context.Context) {
	w.mu.Lock()
	defer w.mu.Unlock()
	st.ctx = ctx
	st.live = true
	for len(w.acts) <= st.idx {
		w.acts = append(w.acts, nil)
	}
	w.acts[st.idx] = st
}

func (w *world) unregister(st *actionState) {
	w.mu.Lock()
	st.live = false
	w.mu.Unlock()
}

// scope brackets the parts of an action during which the environment may
// cancel its context: calls into the batching writer, the flush, and every
// fake storage call.
func (w *world) scope(ctx context.Context, d int) {
	if st := actionOf(ctx); st != nil {
		w.mu.Lock()
		st.scope += d
		w.mu.Unlock()
	}
}

// inCall brackets the choice point of a fake storage call.
func (w *world) inCall(ctx context.Context, f func() int) int {
	st := actionOf(ctx)
	w.mu.Lock()
	w.parked++
	if st != nil {
		st.scope++
	}
	w.mu.Unlock()
	r := f()
	w.mu.Lock()
	w.parked--
	if st != nil {
		st.scope--
	}
	w.mu.Unlock()
	return r
}

func (w *world) choose(ctx context.Context, label string, n int) int {
	return w.inCall(ctx, func() int { return w.x.Choose(label, n) })
}

func (w *world) point(ctx context.Context, label string) {
	w.inCall(ctx, func() int { w.x.Point(label); return 0 })
}

// addCancelEvents registers the environment transition "the context of
// action i is cancelled" (the scheduler orders something else, the worker
// shuts down, the client gives up). It can fire at any quiescent point at
// which action i is inside the batching writer / its flush / a storage call
// and some storage call (of any action) is in flight, in particular while
// the goroutine that dispatches the uploads of a flush is blocked on the
// upload semaphore. Calls that are in flight at that moment still complete
// according to their own choice (a server that already has the request does
// not look at the client's context); calls that start afterwards fail with
// CANCELLED. The event itself is not a failed storage operation: only the
// calls that fail because of it are.
func (w *world) addCancelEvents(x *mc.X) {
	for i := 0; i < maxActions; i++ {
		i := i
		get := func() *actionState {
			if i < len(w.acts) {
				return w.acts[i]
			}
			return nil
		}
		x.AddEvent(&mc.Event{
			Name: fmt.Sprintf("cancel@a%d", i),
			Cost: 1,
			Enabled: func() bool {
				w.mu.Lock()
				defer w.mu.Unlock()
				st := get()
				return st != nil && st.live && st.scope > 0 && w.parked > 0 && st.ctx.Err() == nil
			},
			Fire: func() {
				w.mu.Lock()
				st := get()
				st.cancelEvent = true
				w.mu.Unlock()
				x.Logf("EVENT context of action %d is cancelled", i)
				st.cancel()
			},
		})
	}
}

// The monitor state of an action travels with the action's context (the
// contexts that errgroup derives from it keep the value), so that several
// worker threads can run actions at the same time.
type actionKey struct{}

func withAction(ctx context.Context, st *actionState) context.Context {
	return context.WithValue(ctx, actionKey{}, st)
}

func actionOf(ctx context.Context) *actionState {
	st, _ := ctx.Value(actionKey{}).(*actionState)
	return st
}

var blobNames = []string{"A", "B", "C", "D", "P"}

func newWorld(x *mc.X) *world {
	w := &world{
		x:         x,
		df:        digest.MustNewFunction("verif", remoteexecution.DigestFunction_SHA256),
		cas:       map[string][]byte{},
		names:     map[string]string{},
		digests:   map[string]digest.Digest{},
		contents:  map[string][]byte{},
		failedCtx: map[context.Context]bool{},
	}
	for _, n := range blobNames {
		data := []byte("contents of output blob " + n)
		sum := sha256.Sum256(data)
		d, err := w.df.NewDigest(hex.EncodeToString(sum[:]), int64(len(data)))
		if err != nil {
			panic(err)
		}
		w.digests[n] = d
		w.contents[n] = data
		w.names[w.key(d)] = n
	}
	w.installSemHook()
	// P is already present in the CAS before anything runs.
	w.cas[w.key(w.digests["P"])] = w.contents["P"]
	return w
}

func (w *world) key(d digest.Digest) string { return d.GetKey(digest.KeyWithoutInstance) }

func (w *world) protoKey(d *remoteexecution.Digest) string {
	dd, err := w.df.NewDigestFromProto(d)
	if err != nil {
		return "bad:" + d.String()
	}
	return w.key(dd)
}

// nameOf gives the stable, schedule-independent name of a digest for labels
// ("her" = the HistoricalExecuteResponse or anything else the code under
// test computed itself).
func (w *world) nameOf(d digest.Digest) string {
	w.mu.Lock()
	defer w.mu.Unlock()
	if n, ok := w.names[w.key(d)]; ok {
		return n
	}
	return "her"
}

func (w *world) casNamesLocked() []string {
	var l []string
	for k := range w.cas {
		if n, ok := w.names[k]; ok {
			l = append(l, n)
		} else {
			l = append(l, "her")
		}
	}
	sort.Strings(l)
	return l
}

func (w *world) fail(fingerprint, format string, args ...any) {
	if w.x.Free() {
		return
	}
	w.x.FailP(prop, fingerprint, format, args...)
}

// ---------------------------------------------------------------------------
// Buffers with an exactly-once contract

type trackedReader struct {
	w      *world
	name   string
	serial int
	r      *bytes.Reader
	closed int
	owner  *actionState // the action (worker thread) that handed the buffer to its batching writer
}

func (t *trackedReader) Read(p []byte) (int, error) {
	t.w.mu.Lock()
	c := t.closed
	t.w.mu.Unlock()
	if c > 0 {
		t.w.fail("buffer/read-after-release", "buffer #%d of blob %s is read after it was consumed/discarded", t.serial, t.name)
		return 0, io.ErrClosedPipe
	}
	return t.r.Read(p)
}

func (t *trackedReader) Close() error {
	t.w.mu.Lock()
	t.closed++
	c := t.closed
	t.w.mu.Unlock()
	if c > 1 {
		t.w.fail("buffer/released-twice", "buffer #%d of blob %s is consumed/discarded %d times", t.serial, t.name, c)
	}
	return nil
}

// newBuffer hands out a CAS buffer for blob name whose release (by
// consumption or Discard) is counted.
func (w *world) newBuffer(ctx context.Context, name string) buffer.Buffer {
	w.mu.Lock()
	t := &trackedReader{w: w, name: name, serial: len(w.buffers), r: bytes.NewReader(w.contents[name]), owner: actionOf(ctx)}
	w.buffers = append(w.buffers, t)
	w.mu.Unlock()
	return buffer.NewCASBufferFromReader(w.digests[name], t, buffer.UserProvided)
}

// checkBuffers: every buffer that action cur handed to its batching writer
// must have been released exactly once by now (after a flush returned).
func (w *world) checkBuffers(cur *actionState, when string) {
	w.mu.Lock()
	defer w.mu.Unlock()
	for _, t := range w.buffers {
		if t.owner == cur && t.closed == 0 {
			w.fail("buffer/never-released", "%s: buffer #%d of blob %s was neither consumed nor discarded", when, t.serial, t.name)
		}
	}
}

// ---------------------------------------------------------------------------
// Fault bookkeeping

func (w *world) noteFault(ctx context.Context, label string, batchLayer bool) {
	w.mu.Lock()
	defer w.mu.Unlock()
	if cur := actionOf(ctx); cur != nil {
		cur.faults = append(cur.faults, label)
		if batchLayer {
			cur.batchFaults++
		}
	}
	w.x.Logf("FAULT %s", label)
}

var (
	errInjected  = status.Error(codes.Unavailable, "injected storage failure")
	errCancelled = status.Error(codes.Canceled, "context canceled")
)

// ---------------------------------------------------------------------------
// Monitors

// ackedPut is called when the batching layer's Put returned nil.
func (w *world) ackedPut(ctx context.Context, name string) {
	w.mu.Lock()
	defer w.mu.Unlock()
	if cur := actionOf(ctx); cur != nil {
		cur.acked = append(cur.acked, name)
	}
}

// onFlushReturn implements "a write acknowledged by the batching layer is
// either stored by the time flush reports success or its failure is
// reported by that flush".
func (w *world) onFlushReturn(ctx context.Context, err error) {
	w.mu.Lock()
	cur := actionOf(ctx)
	var missing []string
	if cur != nil {
		cur.flushCalls++
		if err != nil {
			cur.flushFailed = true
		} else {
			for _, n := range cur.acked {
				if _, ok := w.cas[w.key(w.digests[n])]; !ok {
					missing = append(missing, n)
				}
			}
		}
		cur.acked = nil
	}
	cas := w.casNamesLocked()
	w.mu.Unlock()
	w.x.Logf("flush returned %v; CAS=%v", err, cas)
	if len(missing) > 0 {
		w.fail("ack/lost-write", "flush returned nil, but acknowledged blob(s) %v are not in the CAS (CAS=%v, faults so far=%v)", missing, cas, cur.faults)
	}
	w.checkBuffers(cur, "after flush")
}

func referencedDigests(r *remoteexecution.ActionResult) map[string][]*remoteexecution.Digest {
	m := map[string][]*remoteexecution.Digest{}
	if r == nil {
		return m
	}
	for _, f := range r.OutputFiles {
		if f.Digest != nil {
			m["OutputFiles"] = append(m["OutputFiles"], f.Digest)
		}
	}
	for _, d := range r.OutputDirectories {
		if d.TreeDigest != nil {
			m["OutputDirectories"] = append(m["OutputDirectories"], d.TreeDigest)
		}
		if d.RootDirectoryDigest != nil {
			m["OutputDirectories"] = append(m["OutputDirectories"], d.RootDirectoryDigest)
		}
	}
	if r.StdoutDigest != nil {
		m["StdoutDigest"] = append(m["StdoutDigest"], r.StdoutDigest)
	}
	if r.StderrDigest != nil {
		m["StderrDigest"] = append(m["StderrDigest"], r.StderrDigest)
	}
	return m
}

var digestFields = []string{"OutputFiles", "OutputDirectories", "StdoutDigest", "StderrDigest"}

// checkACWrite is evaluated when the code under test *attempts* a write to
// the Action Cache, whatever the fate of that write.
func (w *world) checkACWrite(ctx context.Context, result *remoteexecution.ActionResult) {
	w.mu.Lock()
	cur := actionOf(ctx)
	cur.acAttempts++
	cas := w.casNamesLocked()
	var absent []string
	refs := referencedDigests(result)
	for _, f := range digestFields {
		for _, d := range refs[f] {
			k := w.protoKey(d)
			if _, ok := w.cas[k]; !ok {
				n := w.names[k]
				if n == "" {
					n = k
				}
				absent = append(absent, f+":"+n)
			}
		}
	}
	faults := append([]string(nil), cur.faults...)
	w.mu.Unlock()
	switch {
	case cur.cfg.dnc:
		w.fail("ac-write/do-not-cache", "ActionResult of a do_not_cache action is written to the Action Cache (%s)", cur.cfg)
	case cur.cfg.outcome == outcomeStatusError:
		w.fail("ac-write/status-not-ok", "ActionResult of a response with a non-OK status is written to the Action Cache (%s)", cur.cfg)
	case cur.cfg.outcome == outcomeExit1 || cur.cfg.outcome == outcomeExitNeg || result.GetExitCode() != 0:
		w.fail("ac-write/exit-code-nonzero", "ActionResult with exit code %d is written to the Action Cache (%s)", result.GetExitCode(), cur.cfg)
	case len(faults) > 0 || cur.flushFailed:
		w.fail("ac-write/after-failed-write", "ActionResult is written to the Action Cache although storage operations failed: %v flushFailed=%v (%s)", faults, cur.flushFailed, cur.cfg)
	}
	if len(absent) > 0 {
		w.fail("ac-write/blob-not-in-cas", "ActionResult is written to the Action Cache while referenced blobs %v are not in the CAS (CAS=%v, %s, faults=%v)", absent, cas, cur.cfg, faults)
	}
}

// checkResponse is evaluated on the ExecuteResponse returned by the
// outermost (caching) executor.
func (w *world) checkResponse(cur *actionState, resp *remoteexecution.ExecuteResponse) {
	w.mu.Lock()
	cached := false
	for _, e := range w.ac {
		if e.actionKey == cur.key {
			cached = true
		}
	}
	w.mu.Unlock()
	isErr := status.ErrorProto(resp.GetStatus()) != nil
	var adv []string
	refs := referencedDigests(resp.GetResult())
	for _, f := range digestFields {
		if len(refs[f]) > 0 {
			adv = append(adv, f)
		}
	}
	for _, k := range sortedKeys(resp.GetServerLogs()) {
		if resp.ServerLogs[k].GetDigest() != nil {
			adv = append(adv, "ServerLogs")
			break
		}
	}
	if !w.x.Free() {
		if len(cur.faults) > 0 || cur.flushFailed {
			why := fmt.Sprintf("failed storage operations %v, flushFailed=%v, %s", cur.faults, cur.flushFailed, cur.cfg)
			if !isErr {
				w.fail("response/ok-despite-failed-write", "response status is OK although %s", why)
			}
			if cached {
				w.fail("response/cached-despite-failed-write", "action result is in the Action Cache although %s", why)
			}
		}
		// Pruning of digests is what the flushing layer does when a
		// write of an output (through the batching layer) or the flush
		// failed. A failure of the later AC / historical-response write
		// happens when all outputs are stored; the code keeps the
		// digests then, and so does upstream: not asserted.
		if (cur.batchFaults > 0 || cur.flushFailed) && len(adv) > 0 {
			w.fail("response/advertises-digests/"+adv[0], "response still advertises digests in %v although output writes/flush failed: faults=%v flushFailed=%v %s", adv, cur.faults, cur.flushFailed, cur.cfg)
		}
	}
	if !skipBufferCheckAfterExecute {
		w.checkBuffers(cur, "after Execute")
	}
	w.x.Logf("action %d (%s): response status=%v exit=%d advertised=%v cached=%v faults=%v flushFailed=%v", cur.idx, cur.cfg, resp.GetStatus(), resp.GetResult().GetExitCode(), adv, cached, cur.faults, cur.flushFailed)
	w.x.Outcome("a%d:%s faults=%d/%d err=%v cached=%v adv=%d flushfail=%v", cur.idx, cur.cfg, len(cur.faults), cur.batchFaults, isErr, cached, len(adv), cur.flushFailed)
}

func sortedKeys[V any](m map[string]V) []string {
	var l []string
	for k := range m {
		l = append(l, k)
	}
	sort.Strings(l)
	return l
}
