#!/usr/bin/env python3
"""Coordinator-side confirmation of a seeded change produced by an independent agent:
   tools/verify_seed.py /tmp/seed/out/C05a [/tmp/seed/wt/C05]
In a scratch worktree: demo passes on pristine tree; with the patch: repo builds, the 39 baseline tests
pass, demo fails. If all hold, the change is copied to /verif/seeded/<id>/ (patch.diff, demo/, meta.json)."""
import json, os, re, shutil, subprocess, sys
VERIF = os.path.dirname(os.path.dirname(os.path.abspath(__file__)))
src = sys.argv[1].rstrip("/")
sid = os.path.basename(src)
meta = json.load(open(os.path.join(src, "meta.json")))
wt = sys.argv[2] if len(sys.argv) > 2 else os.path.join(os.path.dirname(os.path.dirname(os.path.abspath(src))), "wt", meta["property"])
env = dict(os.environ, GOFLAGS="-mod=mod", GOPROXY="off")
def sh(cmd, **kw):
    return subprocess.run(cmd, shell=True, cwd=wt, env=env, capture_output=True, text=True, **kw)
assert sh("git status --porcelain").stdout.strip() == "", "worktree not pristine: " + wt
cmd = meta["demo_cmd"]
if "go test" in cmd:
    cmd = cmd[cmd.index("go test"):]
cmd = re.sub(r"^\s*cd\s+\S+(\s+\S+)?\s*&&\s*", "", cmd) if cmd.strip().startswith("cd ") else cmd
cmd = cmd.replace("<repo root>", ".").replace("<worktree>", ".")
m = re.findall(r"(\./[\w/.\-]+)", cmd)
target = [p for p in m if not p.endswith(".go")][-1].rstrip("/").rstrip(".").rstrip("/")
tdir = os.path.join(wt, target)
created = not os.path.exists(tdir)
os.makedirs(tdir, exist_ok=True)
copied = []
for root, _, files in os.walk(os.path.join(src, "demo")):
    for f in files:
        p = os.path.join(root, f)
        rel = os.path.relpath(p, os.path.join(src, "demo"))
        if rel.startswith("seeddemo" + os.sep):
            dstp = os.path.join(wt, rel)
        else:
            dstp = os.path.join(tdir, os.path.basename(rel))
        os.makedirs(os.path.dirname(dstp), exist_ok=True)
        shutil.copy(p, dstp); copied.append(dstp)
log = {}
ok = True
try:
    r = sh(cmd, timeout=900); log["pristine_demo_rc"] = r.returncode
    if r.returncode != 0: ok = False; log["pristine_demo_out"] = (r.stdout + r.stderr)[-1500:]
    r = sh("git apply " + os.path.join(src, "patch.diff")); assert r.returncode == 0, r.stderr
    r = sh("go build ./pkg/... && go vet -tags verif ./pkg/verifsync/", timeout=900); log["build_rc"] = r.returncode
    if r.returncode != 0: ok = False; log["build_out"] = (r.stdout + r.stderr)[-1500:]
    r = sh("go test -vet=off -count=1 ./pkg/filesystem/access/... ./pkg/scheduler/invocation/... ./pkg/scheduler/platform/... -v | grep -c '^\\s*--- PASS'", timeout=900)
    log["baseline_pass_lines"] = r.stdout.strip()
    r2 = sh("go test -vet=off -count=1 ./pkg/filesystem/access/... ./pkg/scheduler/invocation/... ./pkg/scheduler/platform/...", timeout=900)
    log["baseline_rc"] = r2.returncode
    if r2.returncode != 0: ok = False
    fails = 0
    for i in range(3):
        r = sh(cmd, timeout=900)
        if r.returncode != 0: fails += 1
    log["patched_demo_failures_of_3"] = fails
    if fails != 3: ok = False
    log["patched_demo_tail"] = (r.stdout + r.stderr)[-600:]
finally:
    sh("git checkout -- .")
    for f in copied: os.remove(f)
    if created: shutil.rmtree(os.path.join(wt, target.split("/")[1]) if target.startswith("./seeddemo") else tdir, ignore_errors=True)
    sh("git clean -fdq")
log["confirmed"] = ok
print(json.dumps(log, indent=1))
if ok:
    dst = os.path.join(VERIF, "seeded", sid)
    shutil.rmtree(dst, ignore_errors=True)
    shutil.copytree(src, dst)
    meta["breaks_property"] = meta["property"]
    meta["confirmed_by_coordinator"] = {"worktree": wt, "ran": "pristine: `%s` passes; with patch.diff applied: go build ./pkg/... ok, baseline 3 packages (39 tests) pass, demo fails 3/3; worktree reverted" % cmd, "log": {k: v for k, v in log.items() if not k.endswith("_tail")}}
    json.dump(meta, open(os.path.join(dst, "meta.json"), "w"), indent=1)
    print("KEPT", dst)
else:
    print("REJECTED", sid)
