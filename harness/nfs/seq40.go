package nfs

import (
	"fmt"
	"time"

	"verif/mc"

	"github.com/buildbarn/go-xdr/pkg/protocols/nfsv4"
)

// letter is one operation of an alphabet.
type letter struct {
	name    string
	enabled func(w *world) bool
	do      func(w *world, f failer)
}

// settle runs after every letter: it reconciles the bookkeeping with the
// server (deterministically, also while a prefix is being replayed).
func (w *world) settle(f failer) {
	if mc.Active("C19") {
		// Let the server notice expired leases now, so that the
		// "nothing changes" comparisons of the next letter are not
		// disturbed by lazy garbage collection.
		w.poke()
	}
	w.refreshNames()
	for _, c := range sortedClients40(w) {
		c.sync(f)
	}
	for _, c := range sortedClients41(w) {
		c.sync(f)
	}
}

// poke sends requests that refer to no client at all; their only effect
// is that the servers collect expired state.
func (w *world) poke() {
	w.compound(0, "RENEW", &nfsv4.NfsArgop4_OP_RENEW{Oprenew: nfsv4.Renew4args{Clientid: 0xdead}})
	w.compound(1, "DESTROY_CLIENTID", &nfsv4.NfsArgop4_OP_DESTROY_CLIENTID{OpdestroyClientid: nfsv4.DestroyClientid4args{DcaClientid: 0xdead}})
}

// makeSeq wraps an alphabet and a canned prefix into an Engine B
// exploration.
func makeSeq(name string, props []string, depth map[string]int, prefix func(w *world, f failer), letters []letter) *mc.Seq {
	return makeSeqFP(name, props, depth, prefix, letters, "")
}

// unified reports every violation (and every server panic) of a scenario
// under one fingerprint: used for scenarios that exist to exhibit one
// known root cause with many symptoms.
type unified struct {
	f  failer
	fp string
}

func (u unified) FailP(prop, fingerprint, format string, args ...any) {
	u.f.FailP(prop, u.fp, "["+fingerprint+"] "+format, args...)
}
func (u unified) Logf(format string, args ...any) { u.f.Logf(format, args...) }

func makeSeqFP(name string, props []string, depth map[string]int, prefix func(w *world, f failer), letters []letter, fp string) *mc.Seq {
	s := &mc.Seq{Name: name, Props: props, Depth: depth, Panics: []string{"C18", "C19", "C20"}}
	wrap := func(f failer) failer {
		if fp == "" {
			return f
		}
		return unified{f, fp}
	}
	// guard converts a server panic into a violation with the unified
	// fingerprint (if there is one) and marks the instance as dead.
	guard := func(w *world, f failer, fn func()) {
		if fp == "" {
			fn()
			return
		}
		defer func() {
			if r := recover(); r != nil {
				w.dead = true
				for _, p := range props {
					f.FailP(p, fp, "the server panicked: %v", r)
				}
			}
		}()
		fn()
	}
	build := func(c failer) *world {
		w := newWorld(nil)
		if prefix != nil {
			prefix(w, c)
			w.settle(c)
		}
		return w
	}
	s.New = func(c *mc.SeqCtx) any { return build(c) }
	for i, l := range letters {
		i, l := i, l
		op := mc.SeqOp{Name: l.name, Do: func(c *mc.SeqCtx, st any) {
			w := st.(*world)
			w.hist = append(w.hist, i)
			guard(w, c, func() {
				l.do(w, wrap(c))
				w.settle(wrap(c))
			})
		}}
		op.Enabled = func(st any) bool {
			w := st.(*world)
			return !w.dead && (l.enabled == nil || l.enabled(w))
		}
		s.Ops = append(s.Ops, op)
	}
	s.Key = func(st any) string { return st.(*world).key() }
	s.Check = func(c0 *mc.SeqCtx, st any) {
		w := st.(*world)
		if w.dead {
			return
		}
		c := wrap(c0)
		w.checkPassive(c)
		if mc.Active("C18") {
			w.checkLapsed(c)
		}
		for _, cl := range sortedClients40(w) {
			cl.checkEntitlements(c)
		}
		for _, cl := range sortedClients41(w) {
			cl.checkEntitlements(c)
		}
	}
	s.Final = func(c0 *mc.SeqCtx, st any) {
		w := st.(*world)
		if w.dead {
			return
		}
		c := wrap(c0)
		guard(w, c0, func() { finalOracle(w, c, build, letters) })
	}
	return s
}

// finalOracle is the destructive part of the oracles, run on a separate
// replay of every distinct state.
func finalOracle(w *world, c failer, build func(c failer) *world, letters []letter) {
	{
		// Second instance of the same state, for the other reclaim
		// path.
		w2 := build(silent{})
		for _, i := range w.hist {
			w2.hist = append(w2.hist, i)
			letters[i].do(w2, silent{})
			w2.settle(silent{})
		}
		// Instance 1: probes, then all leases expire.
		if mc.Active("C18") {
			w.probeLapsed(c)
			w.probeAll(c)
		}
		if mc.Active("C20") {
			w.probeLocks(c)
		}
		w.reclaimByExpiry(c, "from the explored state")
		// Instance 2: the clients close everything they know, then
		// all leases expire.
		for _, cl := range sortedClients40(w2) {
			cl.closeEverything(c)
		}
		for _, cl := range sortedClients41(w2) {
			cl.closeEverything(c)
		}
		w2.settle(c)
		if ok, msg := w2.fs.balanced(); !ok {
			c.FailP("C18", "reclaim-close/unbalanced", "after the clients closed every file they had open: %s\n%s", msg, w2.serverDump())
		}
		w2.locks.compare(w2, c)
		w2.checkFaults(c)
		w2.reclaimByExpiry(c, "after the clients closed everything")
	}
}

// silent discards violations (used while rebuilding a state).
type silent struct{}

func (silent) FailP(prop, fingerprint, format string, args ...any) {}
func (silent) Logf(format string, args ...any)                     {}

// probeAll is the active part of the C18 oracle, run on a throw-away
// instance of every state: wrong presentations of every entitling state
// ID are refused and change nothing; right presentations work; an
// unlinked file that is open stays reachable through its handle.
func (w *world) probeAll(f failer) {
	w.poke()
	w.refreshNames()
	before := w.snapshot()
	for _, c := range sortedClients40(w) {
		c.probeWrong(f)
	}
	if after := w.snapshot(); after != before {
		f.FailP("C18", "refused-but-changed", "refused I/O with state IDs presented for another file or with a wrong sequence number changed state:\n--- before\n%s\n--- after\n%s", before, after)
	}
	for _, c := range sortedClients40(w) {
		c.probeRight(f)
	}
	for _, c := range sortedClients41(w) {
		c.probe(f)
	}
	// Every file some state ID entitles to must be resolvable by
	// handle, linked or not.
	for _, l := range w.fs.leaves {
		if !w.someoneEntitled(l) {
			continue
		}
		for minor := uint32(0); minor < 2; minor++ {
			var res *nfsv4.Compound4res
			if minor == 0 {
				res = w.compound(0, "PUTFH", putfh(l.handle), &nfsv4.NfsArgop4_OP_GETFH{})
			} else {
				cl := w.anySession41()
				if cl == nil {
					continue
				}
				res = cl.sequence(f, "PUTFH", putfh(l.handle), &nfsv4.NfsArgop4_OP_GETFH{})
				if res == nil {
					continue
				}
			}
			if res.Status != nfsv4.NFS4_OK {
				f.FailP("C18", "open-file-unreachable", "PUTFH (NFSv4.%d) of the handle of open file %s (linked: %v) failed with %d", minor, l.id, w.fs.linked[l.name] == l, res.Status)
			}
		}
	}
}

func (w *world) someoneEntitled(l *fakeLeaf) bool {
	for _, c := range sortedClients40(w) {
		owners, opens := c.allOpens()
		for i, op := range opens {
			if op.leaf == l && c.entitled(owners[i], op) {
				return true
			}
		}
	}
	for _, c := range sortedClients41(w) {
		for _, op := range c.allOpens() {
			if op.leaf == l && c.entitled(op) {
				return true
			}
		}
	}
	return false
}

// probeWrong presents every entitling state ID of the client in ways it
// was not issued for (other file, other sequence). All of these must be
// refused; the caller checks that none of them changed anything.
func (c *client40) probeWrong(f failer) {
	w := c.w
	owners, opens := c.allOpens()
	for i, op := range opens {
		o := owners[i]
		if !c.entitled(o, op) {
			continue
		}
		what := fmt.Sprintf("open state ID of client %s owner %s for %s", c.long, o.name, op.leaf.id)
		for _, other := range w.fs.leaves {
			if other != op.leaf {
				c.refused(f, "other-file", what, other, op.sid)
			}
		}
		future, past := op.sid, op.sid
		future.Seqid++
		past.Seqid--
		c.refused(f, "future-seqid", what, op.leaf, future)
		c.refused(f, "old-seqid", what, op.leaf, past)
		for _, ln := range sortedKeys(op.locks) {
			l := op.locks[ln]
			if !l.valid || l.gone {
				continue
			}
			lwhat := fmt.Sprintf("lock state ID of client %s lock-owner %s for %s", c.long, ln, op.leaf.id)
			for _, other := range w.fs.leaves {
				if other != op.leaf {
					c.refused(f, "other-file", lwhat, other, l.sid)
				}
			}
			fut := l.sid
			fut.Seqid++
			c.refused(f, "future-seqid", lwhat, op.leaf, fut)
		}
	}
}

// probeRight uses every entitling state ID the way it was issued: that
// must work. Before that, a LOCK that combines the open state ID with a
// lock-owner of ANOTHER client must be refused.
func (c *client40) probeRight(f failer) {
	c.touch()
	w := c.w
	owners, opens := c.allOpens()
	for i, op := range opens {
		o := owners[i]
		if !c.entitled(o, op) {
			continue
		}
		what := fmt.Sprintf("open state ID of client %s owner %s for %s", c.long, o.name, op.leaf.id)
		for _, oc := range sortedClients40(w) {
			if oc == c || !oc.haveID {
				continue
			}
			res := w.compound(0, "LOCK(foreign clientid)", putfh(op.leaf.handle), &nfsv4.NfsArgop4_OP_LOCK{Oplock: nfsv4.Lock4args{
				Locktype: nfsv4.WRITE_LT, Offset: 0, Length: 1,
				Locker: &nfsv4.Locker4_TRUE{OpenOwner: nfsv4.OpenToLockOwner4{
					OpenSeqid: nextSeq(o.seq), OpenStateid: op.sid, LockSeqid: 1,
					LockOwner: nfsv4.LockOwner4{Clientid: oc.id, Owner: []byte("LX")},
				}},
			}})
			if st := opStatus(res, 1); st == nfsv4.NFS4_OK {
				f.FailP("C18", "honoured-for-other-client", "LOCK with the %s but a lock-owner of client %s was granted", what, oc.long)
			} else if consumed(st) {
				o.seq = nextSeq(o.seq)
			}
		}
		if op.bits&accRead != 0 {
			c.io(f, ioRead, op.leaf, op.sid, op.bits, true)
		}
		if op.bits&accWrite != 0 {
			c.io(f, ioWrite, op.leaf, op.sid, op.bits, true)
			c.io(f, ioSetattr, op.leaf, op.sid, op.bits, true)
		}
		for _, ln := range sortedKeys(op.locks) {
			l := op.locks[ln]
			if !l.valid || l.gone {
				continue
			}
			if l.bits&accRead != 0 {
				c.io(f, ioRead, op.leaf, l.sid, l.bits, true)
			}
			if l.bits&accWrite != 0 {
				c.io(f, ioWrite, op.leaf, l.sid, l.bits, true)
			}
		}
	}
}

// refused presents a state ID in a way it was not issued for: the request
// must fail.
func (c *client40) refused(f failer, how, what string, leaf *fakeLeaf, sid nfsv4.Stateid4) {
	c.touch()
	w := c.w
	for _, k := range []ioKind{ioRead, ioWrite} {
		res := w.compound(0, k.String()+"("+how+")", putfh(leaf.handle), ioOp(k, sid))
		if st := opStatus(res, 1); st == nfsv4.NFS4_OK && len(res.Resarray) == 2 {
			f.FailP("C18", "honoured-"+how, "%s of %s with the %s presented with %s succeeded", k, leaf.id, what, how)
		}
	}
}

// ---------------------------------------------------------------------------
// Alphabets for NFSv4.0.

func l40setclientid(cl string, v byte) letter {
	return letter{name: fmt.Sprintf("40 SETCLIENTID %s verifier %d", cl, v), do: func(w *world, f failer) { w.client40(cl).setclientid(f, v) }}
}

func l40confirm(cl string) letter {
	return letter{name: fmt.Sprintf("40 SETCLIENTID_CONFIRM %s", cl),
		enabled: func(w *world) bool { return w.client40(cl).pendOK },
		do:      func(w *world, f failer) { w.client40(cl).confirm(f) }}
}

func has40(w *world, cl string) bool { return w.client40(cl).haveID }

func open40of(w *world, cl, owner, file string) *open40 {
	c := w.client40(cl)
	o, ok := c.owners[owner]
	if !ok {
		return nil
	}
	return o.files[file]
}

// usable: the bookkeeper has a state ID it has not closed itself (it may
// be stale: that is part of the alphabet).
func usable40(w *world, cl, owner, file string) bool {
	op := open40of(w, cl, owner, file)
	return op != nil && op.valid
}

var accessNames = map[uint32]string{accRead: "r", accWrite: "w", accBoth: "rw"}

func l40open(cl, owner, file string, access uint32, how openHow) letter {
	return letter{name: fmt.Sprintf("40 OPEN %s %s %s %s %s", cl, owner, file, accessNames[access], how),
		enabled: func(w *world) bool { return has40(w, cl) },
		do:      func(w *world, f failer) { w.client40(cl).open(f, owner, file, access, how, false) }}
}

func l40openPrevious(cl, owner, file string, access uint32) letter {
	return letter{name: fmt.Sprintf("40 OPEN %s %s %s %s CLAIM_PREVIOUS", cl, owner, file, accessNames[access]),
		enabled: func(w *world) bool { return has40(w, cl) && usable40(w, cl, owner, file) },
		do:      func(w *world, f failer) { w.client40(cl).open(f, owner, file, access, howNoCreate, true) }}
}

func l40openConfirm(cl, owner, file string) letter {
	return letter{name: fmt.Sprintf("40 OPEN_CONFIRM %s %s %s", cl, owner, file),
		enabled: func(w *world) bool { return usable40(w, cl, owner, file) && !w.client40(cl).owner(owner).confirmed },
		do:      func(w *world, f failer) { w.client40(cl).openConfirm(f, owner, file) }}
}

func l40downgrade(cl, owner, file string, access uint32) letter {
	return letter{name: fmt.Sprintf("40 OPEN_DOWNGRADE %s %s %s to %s", cl, owner, file, accessNames[access]),
		enabled: func(w *world) bool {
			op := open40of(w, cl, owner, file)
			return op != nil && op.valid && op.bits != access && access&^op.bits == 0
		},
		do: func(w *world, f failer) { w.client40(cl).downgrade(f, owner, file, access) }}
}

func l40close(cl, owner, file string) letter {
	return letter{name: fmt.Sprintf("40 CLOSE %s %s %s", cl, owner, file),
		enabled: func(w *world) bool { return usable40(w, cl, owner, file) },
		do: func(w *world, f failer) {
			c := w.client40(cl)
			c.close(f, owner, c.owner(owner).files[file])
		}}
}

func l40io(k ioKind, cl, owner, file string, kind stateidKind, lowner string) letter {
	kn := [...]string{"open", "lock", "anonymous", "bypass", "foreign"}[kind]
	name := fmt.Sprintf("40 %s %s %s %s stateid=%s", k, cl, owner, file, kn)
	if kind == sidLock {
		name += ":" + lowner
	}
	return letter{name: name,
		enabled: func(w *world) bool {
			switch kind {
			case sidOpen:
				return usable40(w, cl, owner, file)
			case sidLock:
				op := open40of(w, cl, owner, file)
				return op != nil && op.locks[lowner] != nil && op.locks[lowner].valid
			}
			return true
		},
		do: func(w *world, f failer) {
			c := w.client40(cl)
			switch kind {
			case sidOpen:
				op := c.owner(owner).files[file]
				bits := uint32(0)
				if c.entitled(c.owner(owner), op) {
					bits = op.bits
				}
				c.io(f, k, op.leaf, op.sid, bits, true)
			case sidLock:
				op := c.owner(owner).files[file]
				l := op.locks[lowner]
				bits := uint32(0)
				if c.entitled(c.owner(owner), op) && !l.gone {
					bits = l.bits
				}
				c.io(f, k, op.leaf, l.sid, bits, true)
			default:
				leaf := w.fs.linked[file]
				if leaf == nil {
					leaf = w.fs.leaves[0]
				}
				sid := anonymousSID
				if kind == sidBypass {
					sid = bypassSID
				} else if kind == sidForeign {
					sid = foreignSID40()
				}
				c.io(f, k, leaf, sid, 0, false)
			}
		}}
}

func l40lock(cl, owner, file, lowner string, r lockRange, shared bool) letter {
	return letter{name: fmt.Sprintf("40 LOCK %s %s %s %s %s %s", cl, owner, file, lowner, r.name, map[bool]string{true: "shared", false: "excl"}[shared]),
		enabled: func(w *world) bool { return usable40(w, cl, owner, file) && w.client40(cl).owner(owner).confirmed },
		do:      func(w *world, f failer) { w.client40(cl).lock(f, owner, file, lowner, r, shared) }}
}

func l40locku(cl, owner, file, lowner string, r lockRange) letter {
	return letter{name: fmt.Sprintf("40 LOCKU %s %s %s %s %s", cl, owner, file, lowner, r.name),
		enabled: func(w *world) bool {
			op := open40of(w, cl, owner, file)
			return op != nil && op.locks[lowner] != nil && op.locks[lowner].valid
		},
		do: func(w *world, f failer) { w.client40(cl).locku(f, owner, file, lowner, r) }}
}

func l40lockt(cl, file, lowner string, r lockRange, shared bool) letter {
	return letter{name: fmt.Sprintf("40 LOCKT %s %s %s %s %s", cl, file, lowner, r.name, map[bool]string{true: "shared", false: "excl"}[shared]),
		enabled: func(w *world) bool { return has40(w, cl) && w.fs.linked[file] != nil },
		do:      func(w *world, f failer) { w.client40(cl).lockt(f, w.fs.linked[file], lowner, r, shared) }}
}

func l40release(cl, lowner string) letter {
	return letter{name: fmt.Sprintf("40 RELEASE_LOCKOWNER %s %s", cl, lowner),
		enabled: func(w *world) bool { return has40(w, cl) },
		do:      func(w *world, f failer) { w.client40(cl).releaseLockowner(f, lowner) }}
}

func l40renew(cl string) letter {
	return letter{name: "40 RENEW " + cl, enabled: func(w *world) bool { return has40(w, cl) },
		do: func(w *world, f failer) { w.client40(cl).renewOp(f) }}
}

func lRemove(file string) letter {
	return letter{name: "40 REMOVE " + file, enabled: func(w *world) bool { return w.fs.linked[file] != nil },
		do: func(w *world, f failer) {
			w.compound(0, "REMOVE", &nfsv4.NfsArgop4_OP_PUTROOTFH{}, &nfsv4.NfsArgop4_OP_REMOVE{Opremove: nfsv4.Remove4args{Target: file}})
		}}
}

func lAdvance(d time.Duration, name string) letter {
	return letter{name: "clock +" + name, do: func(w *world, f failer) { w.advance(d) }}
}

// canned prefixes
func prefix40Confirmed(clients ...string) func(w *world, f failer) {
	return func(w *world, f failer) {
		for _, cl := range clients {
			c := w.client40(cl)
			c.setclientid(f, 1)
			c.confirm(f)
		}
	}
}

func prefix40Open(cl, owner, file string, access uint32) func(w *world, f failer) {
	return func(w *world, f failer) {
		c := w.client40(cl)
		if !c.haveID {
			c.setclientid(f, 1)
			c.confirm(f)
		}
		c.open(f, owner, file, access, howNoCreate, false)
		c.openConfirm(f, owner, file)
	}
}

func chain(ps ...func(w *world, f failer)) func(w *world, f failer) {
	return func(w *world, f failer) {
		for _, p := range ps {
			p(w, f)
		}
	}
}

var all3 = []string{"C18", "C19", "C20"}

func seqs40() []*mc.Seq {
	var out []*mc.Seq

	// Registration, re-registration and lease expiry around one open
	// file with a lock.
	out = append(out, makeSeq("v40-registration", []string{"C18", "C19"}, map[string]int{"quick": 5, "thorough": 6}, nil, []letter{
		l40setclientid("c1", 1), l40setclientid("c1", 2), l40confirm("c1"),
		l40open("c1", "O1", "a", accBoth, howNoCreate), l40openConfirm("c1", "O1", "a"),
		l40lock("c1", "O1", "a", "L1", rangeB0, false),
		l40close("c1", "O1", "a"), l40renew("c1"),
		lAdvance(halfLease, "lease/2"), lAdvance(pastLease, "lease+1"),
	}))

	// Retransmitted COMPOUND {PUTROOTFH, OPEN, GETFH}: the whole reply
	// must be the one given the first time, including the file handle
	// returned by GETFH.
	out = append(out, makeSeqFP("v40-open-replay-filehandle", []string{"C19"}, map[string]int{"quick": 2, "thorough": 3},
		chain(prefix40Confirmed("c1"), func(w *world, f failer) { w.strictOpenReplay = true }), []letter{
			l40open("c1", "O1", "a", accRead, howNoCreate), l40open("c1", "O1", "a", accBoth, howNoCreate), l40open("c1", "O1", "b", accRead, howUnchecked),
			l40openConfirm("c1", "O1", "a"), l40close("c1", "O1", "a"),
		}, "open-replay-loses-current-filehandle"))

	// Share reservations: upgrade, downgrade, close, lock-owner share
	// cloning, I/O with every kind of state ID, unlinking.
	out = append(out, makeSeq("v40-share", []string{"C18", "C19"}, map[string]int{"quick": 4, "thorough": 5}, prefix40Confirmed("c1"), []letter{
		l40open("c1", "O1", "a", accRead, howNoCreate), l40open("c1", "O1", "a", accWrite, howNoCreate), l40open("c1", "O1", "a", accBoth, howNoCreate),
		l40open("c1", "O2", "a", accBoth, howNoCreate),
		l40openConfirm("c1", "O1", "a"), l40openConfirm("c1", "O2", "a"),
		l40openPrevious("c1", "O1", "a", accBoth),
		l40downgrade("c1", "O1", "a", accRead), l40downgrade("c1", "O1", "a", accWrite),
		l40close("c1", "O1", "a"), l40close("c1", "O2", "a"),
		l40lock("c1", "O1", "a", "L1", rangeB0, false), l40locku("c1", "O1", "a", "L1", rangeB0),
		l40release("c1", "L1"),
		l40io(ioRead, "c1", "O1", "a", sidOpen, ""), l40io(ioWrite, "c1", "O1", "a", sidOpen, ""),
		l40io(ioWrite, "c1", "O1", "a", sidLock, "L1"),
		l40io(ioRead, "c1", "O1", "a", sidAnonymous, ""),
		lRemove("a"),
		lAdvance(pastLease, "lease+1"),
	}))

	// Creation, truncation, unlinking and re-creation under the same
	// name; two files.
	out = append(out, makeSeq("v40-create", []string{"C18", "C19"}, map[string]int{"quick": 4, "thorough": 5}, prefix40Open("c1", "O1", "a", accBoth), []letter{
		l40open("c1", "O1", "a", accBoth, howUnchecked), l40open("c1", "O1", "a", accWrite, howUncheckedTruncate), l40open("c1", "O1", "a", accRead, howGuarded),
		l40open("c1", "O1", "b", accRead, howNoCreate), l40open("c1", "O2", "a", accRead, howUnchecked),
		l40openConfirm("c1", "O2", "a"),
		l40close("c1", "O1", "a"), l40close("c1", "O1", "b"), l40close("c1", "O2", "a"),
		l40io(ioSetattr, "c1", "O1", "a", sidOpen, ""), l40io(ioSetattr, "c1", "O1", "a", sidAnonymous, ""),
		l40io(ioRead, "c1", "O1", "a", sidBypass, ""), l40io(ioWrite, "c1", "O1", "a", sidForeign, ""),
		lRemove("a"), lRemove("b"),
		lAdvance(halfLease, "lease/2"),
	}))

	// Two clients, one file: re-registration of one client must not
	// disturb the other; expiry order.
	out = append(out, makeSeq("v40-two-clients", all3, map[string]int{"quick": 4, "thorough": 5}, prefix40Confirmed("c1", "c2"), []letter{
		l40open("c1", "O1", "a", accBoth, howNoCreate), l40openConfirm("c1", "O1", "a"),
		l40open("c2", "O1", "a", accBoth, howNoCreate), l40openConfirm("c2", "O1", "a"),
		l40lock("c1", "O1", "a", "L1", rangeAll, false), l40lock("c2", "O1", "a", "L1", rangeB0, false),
		l40lockt("c2", "a", "L1", rangeB0, false),
		l40close("c1", "O1", "a"), l40close("c2", "O1", "a"),
		l40setclientid("c1", 2), l40confirm("c1"),
		l40renew("c2"),
		lAdvance(halfLease, "lease/2"), lAdvance(pastLease, "lease+1"),
	}))

	// Byte-range locks through NFSv4.0: two lock-owners of one client
	// and one of another client on one file that both have open.
	locksPrefix := chain(prefix40Open("c1", "O1", "a", accBoth), prefix40Open("c2", "O1", "a", accBoth))
	var lockLetters []letter
	for _, r := range []lockRange{rangeB0, rangeB01, rangeTail} {
		lockLetters = append(lockLetters,
			l40lock("c1", "O1", "a", "L1", r, false),
			l40lock("c1", "O1", "a", "L2", r, true),
			l40lock("c2", "O1", "a", "L1", r, true),
			l40locku("c1", "O1", "a", "L1", r),
		)
	}
	lockLetters = append(lockLetters,
		l40lock("c1", "O1", "a", "L1", rangeHigh, true), l40lock("c1", "O1", "a", "L1", rangeOvfl, false), l40lock("c2", "O1", "a", "L1", rangeZero, false),
		l40lock("c2", "O1", "a", "L1", rangeAll, false),
		l40locku("c1", "O1", "a", "L2", rangeAll), l40locku("c2", "O1", "a", "L1", rangeB1),
		l40lockt("c1", "a", "L1", rangeAll, false), l40lockt("c1", "a", "L2", rangeB0, true), l40lockt("c2", "a", "L1", rangeB1, false), l40lockt("c2", "a", "L2", rangeHigh, true),
		l40release("c1", "L1"), l40release("c2", "L1"),
		l40close("c1", "O1", "a"),
		lAdvance(pastLease, "lease+1"),
	)
	out = append(out, makeSeq("v40-locks", []string{"C18", "C20"}, map[string]int{"quick": 3, "thorough": 4}, locksPrefix, lockLetters))

	// One lock-owner across two files and two open-owners.
	out = append(out, makeSeq("v40-locks-two-files", all3, map[string]int{"quick": 4, "thorough": 5},
		chain(prefix40Open("c1", "O1", "a", accBoth), func(w *world, f failer) {
			c := w.client40("c1")
			c.open(f, "O1", "b", accRead, howNoCreate, false)
		}), []letter{
			l40lock("c1", "O1", "a", "L1", rangeB0, false), l40lock("c1", "O1", "b", "L1", rangeB0, true),
			l40lock("c1", "O1", "a", "L1", rangeB1, true), l40lock("c1", "O1", "b", "L2", rangeAll, true),
			l40locku("c1", "O1", "a", "L1", rangeAll), l40locku("c1", "O1", "b", "L1", rangeB0),
			l40lockt("c1", "b", "L2", rangeB0, false), l40lockt("c1", "a", "L2", rangeB01, true),
			l40release("c1", "L1"), l40release("c1", "L2"),
			l40close("c1", "O1", "a"), l40close("c1", "O1", "b"),
			l40downgrade("c1", "O1", "a", accRead),
			l40io(ioWrite, "c1", "O1", "a", sidLock, "L1"),
		}))

	// Share reservations that outlive an OPEN_DOWNGRADE: the file is open
	// read+write by O1 and lock-owner L1 holds a byte-range lock through
	// that open (its lock state cloned the read+write share reservation).
	// Downgrades, upgrades by the same open-owner, LOCKU, CLOSE,
	// RELEASE_LOCKOWNER, a second lock-owner created after the downgrade,
	// I/O through the lock state ID and lease expiry, deep enough for
	// OPEN_DOWNGRADE -> OPEN(upgrade) -> CLOSE -> (reclaim oracles). The
	// second scenario starts one step later (already downgraded to read).
	lockedPrefix40 := chain(prefix40Open("c1", "O1", "a", accBoth), func(w *world, f failer) {
		w.client40("c1").lock(f, "O1", "a", "L1", rangeB0, false)
	})
	downgradeLetters40 := []letter{
		l40downgrade("c1", "O1", "a", accRead), l40downgrade("c1", "O1", "a", accWrite),
		l40open("c1", "O1", "a", accRead, howNoCreate), l40open("c1", "O1", "a", accWrite, howNoCreate), l40open("c1", "O1", "a", accBoth, howNoCreate),
		l40locku("c1", "O1", "a", "L1", rangeB0), l40lock("c1", "O1", "a", "L2", rangeB1, true),
		l40close("c1", "O1", "a"),
		l40release("c1", "L1"),
		l40io(ioWrite, "c1", "O1", "a", sidLock, "L1"),
		// Unlinking the locked, open file: from then on only the opened
		// files pool resolves its handle (CLOSE replay!).
		lRemove("a"),
		lAdvance(pastLease, "lease+1"),
	}
	out = append(out, makeSeq("v40-locked-downgrade-upgrade", []string{"C18", "C19"}, map[string]int{"quick": 4, "thorough": 6}, lockedPrefix40, downgradeLetters40))
	out = append(out, makeSeq("v40-locked-downgraded-upgrade", []string{"C18"}, map[string]int{"quick": 4, "thorough": 6},
		chain(lockedPrefix40, func(w *world, f failer) { w.client40("c1").downgrade(f, "O1", "a", accRead) }), downgradeLetters40))

	// Lease time passing in steps of lease/2 while the client stays alive
	// (RENEW, READ) but one of its open-owners stays quiet. O1 has TWO
	// files open (a read+write, b read); the letters close one of them,
	// downgrade, re-open, renew, read through the other file's state ID and
	// let half a lease pass, deep enough (quick 7, minimum 6) for "CLOSE a, +lease/2, RENEW,
	// +lease/2, +lease/2, any request": the open-owner's last seqid'ed
	// operation is then 1.5 lease times old, the client's lease is not.
	// Every state ID the bookkeeper is entitled to must still be known to
	// the server, its leaf open, and READ through it must work.
	out = append(out, makeSeq("v40-two-files-lease", []string{"C18"}, map[string]int{"quick": 7, "thorough": 10},
		chain(prefix40Open("c1", "O1", "a", accBoth), func(w *world, f failer) {
			w.client40("c1").open(f, "O1", "b", accRead, howNoCreate, false)
		}), []letter{
			l40close("c1", "O1", "a"), l40close("c1", "O1", "b"),
			l40downgrade("c1", "O1", "a", accRead),
			l40open("c1", "O1", "a", accRead, howNoCreate),
			l40renew("c1"),
			l40io(ioRead, "c1", "O1", "b", sidOpen, ""),
			lAdvance(halfLease, "lease/2"),
		}))
	// The same with a second open-owner that is used while O1 stays quiet,
	// and a lock-owner whose lock state hangs off the file that stays open.
	out = append(out, makeSeq("v40-two-owners-lease", []string{"C18"}, map[string]int{"quick": 7, "thorough": 10},
		chain(prefix40Open("c1", "O1", "a", accBoth), func(w *world, f failer) {
			c := w.client40("c1")
			c.open(f, "O1", "b", accBoth, howNoCreate, false)
			c.lock(f, "O1", "b", "L1", rangeB0, false)
		}, prefix40Open("c1", "O2", "a", accRead)), []letter{
			l40close("c1", "O1", "a"),
			l40close("c1", "O2", "a"), l40open("c1", "O2", "a", accRead, howNoCreate),
			l40io(ioWrite, "c1", "O1", "b", sidLock, "L1"),
			l40renew("c1"),
			lAdvance(halfLease, "lease/2"),
		}))
	// Two clients, lease time passing in steps of lease/2: c1 registered
	// BEFORE c2 and has b open, c2 has a open read+write with a lock. Each
	// client can stay alive with RENEW only, with READ through its open state
	// ID or LOCKT, or go silent; c2 may also close. Deep enough (quick 7, minimum 6)
	// for "+lease/2, RENEW c1, +lease/2, RENEW c1, +lease/2, RENEW c1": c2
	// has then been silent for 1.5 lease times while requests of c1 kept
	// entering the server. Oracle checkLapsed at every state: the silent
	// client's records are gone, the files only it had open are closed, its
	// client ID is refused -- although the OTHER client is still alive (the
	// end-state oracle lets everybody expire at once).
	out = append(out, makeSeq("v40-two-clients-lease", []string{"C18"}, map[string]int{"quick": 7, "thorough": 9},
		chain(prefix40Confirmed("c1", "c2"), prefix40Open("c1", "O1", "b", accRead), prefix40Open("c2", "O1", "a", accBoth), func(w *world, f failer) {
			w.client40("c2").lock(f, "O1", "a", "L1", rangeB0, false)
		}), []letter{
			l40renew("c1"), l40renew("c2"),
			l40io(ioRead, "c1", "O1", "b", sidOpen, ""), l40lockt("c1", "b", "L2", rangeB0, false),
			l40close("c2", "O1", "a"),
			lAdvance(halfLease, "lease/2"),
		}))
	return out
}
