package nfs

import "verif/mc"

func scenarios() []*mc.Scenario { return nil }
