package outputs

import (
	"context"
	"fmt"
	"io"
	"os"
	"path/filepath"
	"sort"
	"strings"
	"syscall"

	remoteexecution "github.com/bazelbuild/remote-apis/build/bazel/remote/execution/v2"
	"github.com/buildbarn/bb-remote-execution/pkg/builder"
	"github.com/buildbarn/bb-remote-execution/pkg/cas"
	"github.com/buildbarn/bb-remote-execution/pkg/filesystem/pool"
	"github.com/buildbarn/bb-remote-execution/pkg/filesystem/virtual"
	"github.com/buildbarn/bb-storage/pkg/clock"
	"github.com/buildbarn/bb-storage/pkg/filesystem"
	"github.com/buildbarn/bb-storage/pkg/filesystem/path"
	"github.com/buildbarn/bb-storage/pkg/random"
)

// The same inputs through the real virtualBuildDirectory on the real
// in-memory PrepopulatedDirectory with pool-backed files (the FilePool is a
// plain in-memory fake). The model tree (*node) is maintained next to it
// and is what the oracle reads.

type memPool struct{}

type memFile struct{ data []byte }

func (memPool) NewFile(holeSource pool.HoleSource, size uint64) (filesystem.FileReadWriter, error) {
	return &memFile{data: make([]byte, size)}, nil
}

func (f *memFile) Close() error { return nil }

func (f *memFile) ReadAt(p []byte, off int64) (int, error) {
	if off >= int64(len(f.data)) {
		return 0, io.EOF
	}
	n := copy(p, f.data[off:])
	if n < len(p) {
		return n, io.EOF
	}
	return n, nil
}

func (f *memFile) WriteAt(p []byte, off int64) (int, error) {
	if end := int(off) + len(p); end > len(f.data) {
		f.data = append(f.data, make([]byte, end-len(f.data))...)
	}
	copy(f.data[off:], p)
	return len(p), nil
}

func (f *memFile) Truncate(size int64) error {
	if int(size) <= len(f.data) {
		f.data = f.data[:size]
	} else {
		f.data = append(f.data, make([]byte, int(size)-len(f.data))...)
	}
	return nil
}

func (f *memFile) Sync() error         { return nil }
func (f *memFile) Len() (int64, error) { return int64(len(f.data)), nil }
func (f *memFile) GetNextRegionOffset(offset int64, regionType filesystem.RegionType) (int64, error) {
	if offset >= int64(len(f.data)) {
		return 0, io.EOF
	}
	if regionType == filesystem.Data {
		return offset, nil
	}
	return int64(len(f.data)), nil
}

type errLog struct{ errs []string }

func (l *errLog) Log(err error) { l.errs = append(l.errs, err.Error()) }

func noAttributes(virtual.AttributesMask, *virtual.Attributes) {}

var bg = context.Background()

func comp(s string) path.Component { return path.MustNewComponent(s) }

// closedChan: a writable-file upload delay that has already expired.
var closedChan = func() chan struct{} { c := make(chan struct{}); close(c); return c }()

// otherBytes: different contents of the same length.
func otherBytes(s string) string {
	b := []byte(s)
	for i := range b {
		if b[i] == '#' {
			b[i] = '%'
		} else {
			b[i] = '#'
		}
	}
	return string(b)
}

// vCreate creates n as child name of d. stale (fault letter "stale-digest"):
// every non-empty file is first written with other bytes of the same length,
// digested and uploaded in that state to a scratch CAS (as an earlier upload
// or a Bazel Output Service stat would do), and only then rewritten in place
// with its final bytes: a digest remembered from the first pass must not be
// used for the upload under test.
func vCreate(d virtual.PrepopulatedDirectory, name string, n *node, stale bool) error {
	var out virtual.Attributes
	switch n.kind {
	case kDir:
		c, err := d.CreateAndEnterPrepopulatedDirectory(comp(name))
		if err != nil {
			return err
		}
		for _, k := range n.names() {
			if err := vCreate(c, k, n.children[k], stale); err != nil {
				return err
			}
		}
	case kFile:
		perm := virtual.PermissionsRead | virtual.PermissionsWrite
		if n.exec {
			perm |= virtual.PermissionsExecute
		}
		leaf, _, _, s := d.VirtualOpenChild(bg, comp(name), virtual.ShareMaskWrite, (&virtual.Attributes{}).SetPermissions(perm), nil, 0, &out)
		if s != virtual.StatusOK {
			return fmt.Errorf("VirtualOpenChild(%s): %v", name, s)
		}
		if len(n.data) > 0 {
			if stale {
				if _, s := leaf.VirtualWrite(bg, []byte(otherBytes(n.data)), 0); s != virtual.StatusOK {
					return fmt.Errorf("VirtualWrite(%s): %v", name, s)
				}
				scratch := newWorld(newDir(), fault{})
				p := virtual.ApplyUploadFile{Context: bg, ContentAddressableStorage: scratch.cas, DigestFunction: sha256Function, WritableFileUploadDelay: closedChan}
				if !leaf.VirtualApply(&p) || p.Err != nil {
					return fmt.Errorf("first upload of (%s): %v", name, p.Err)
				}
			}
			if _, s := leaf.VirtualWrite(bg, []byte(n.data), 0); s != virtual.StatusOK {
				return fmt.Errorf("VirtualWrite(%s): %v", name, s)
			}
		}
		leaf.VirtualClose(virtual.ShareMaskWrite)
	case kSymlink:
		a := (&virtual.Attributes{}).SetFileType(filesystem.FileTypeSymlink).SetSymlinkTarget(path.UNIXFormat.NewParser(n.data))
		if _, _, s := d.VirtualMknod(bg, comp(name), a, 0, &out); s != virtual.StatusOK {
			return fmt.Errorf("VirtualMknod symlink(%s): %v", name, s)
		}
	case kFifo:
		a := (&virtual.Attributes{}).SetFileType(filesystem.FileTypeFIFO)
		if _, _, s := d.VirtualMknod(bg, comp(name), a, 0, &out); s != virtual.StatusOK {
			return fmt.Errorf("VirtualMknod fifo(%s): %v", name, s)
		}
	}
	return nil
}

func vLookupDir(top virtual.PrepopulatedDirectory, loc []string) virtual.PrepopulatedDirectory {
	d := top
	for _, c := range loc {
		child, err := d.LookupChild(comp(c))
		if err != nil {
			return nil
		}
		dir, _ := child.GetPair()
		if dir == nil {
			return nil
		}
		d = dir
	}
	return d
}

func vPut(top virtual.PrepopulatedDirectory, p put, stale bool) error {
	if len(p.loc) == 0 {
		return nil
	}
	d := vLookupDir(top, p.loc[:len(p.loc)-1])
	if d == nil {
		return nil
	}
	name := p.loc[len(p.loc)-1]
	if _, err := d.LookupChild(comp(name)); err == nil {
		if err := d.RemoveAll(comp(name)); err != nil {
			return fmt.Errorf("RemoveAll(%s): %v", name, err)
		}
	}
	if p.thing == nil {
		return nil
	}
	return vCreate(d, name, p.thing, stale)
}

// backend is a real BuildDirectory implementation under test together with
// the means to let the fake action modify it.
type backend interface {
	label() string
	dir() builder.BuildDirectory
	create(name string, n *node) error // pre-existing contents of the input root
	put(p put) error
	isDir(loc []string) bool
	finish() // release resources; panic on harness-level trouble
}

type virtualBackend struct {
	w    *world
	top  virtual.PrepopulatedDirectory
	bd   builder.BuildDirectory
	elog *errLog
}

func newVirtualBackend(w *world) backend { return newVirtualBackendWith(w, nil) }

func newVirtualBackendWith(w *world, fetcher cas.DirectoryFetcher) backend {
	elog := &errLog{}
	alloc := virtual.NewFUSEHandleAllocator(random.FastThreadSafeGenerator)
	symlinkFactory := virtual.NewHandleAllocatingSymlinkFactory(virtual.NewBaseSymlinkFactory(noAttributes), alloc.New(), path.UNIXFormat)
	top := virtual.NewInMemoryPrepopulatedDirectory(
		virtual.NewHandleAllocatingFileAllocator(
			virtual.NewPoolBackedFileAllocator(pool.EmptyFilePool, elog, noAttributes, virtual.NoNamedAttributesFactory), alloc),
		symlinkFactory, elog, alloc, sort.Sort, func(string) bool { return false }, clock.SystemClock,
		virtual.CaseSensitiveComponentNormalizer, noAttributes, virtual.NoNamedAttributesFactory)
	bd := builder.NewVirtualBuildDirectory(top, fetcher, w.cas, symlinkFactory, nil, alloc, noAttributes, clock.SystemClock)
	bd.InstallHooks(memPool{}, elog)
	return &virtualBackend{w: w, top: top, bd: bd, elog: elog}
}

func (b *virtualBackend) label() string                     { return "virtual" }
func (b *virtualBackend) dir() builder.BuildDirectory       { return b.bd }
func (b *virtualBackend) create(name string, n *node) error { return vCreate(b.top, name, n, false) }
func (b *virtualBackend) put(p put) error {
	return vPut(b.top, p, b.w.fault.kind == faultStaleDigest)
}
func (b *virtualBackend) isDir(loc []string) bool           { return vLookupDir(b.top, loc) != nil }
func (b *virtualBackend) finish() {
	if len(b.elog.errs) > 0 {
		panic("harness: virtual file system logged errors: " + strings.Join(b.elog.errs, "; "))
	}
}

// naiveBackend: builder.NewNaiveBuildDirectory on a scratch directory of
// the local file system; the action uses package os.
type naiveBackend struct {
	base string
	bd   builder.BuildDirectory
}

func newNaiveBackend(w *world) backend { return newNaiveBackendWith(w, nil) }

func newNaiveBackendWith(w *world, fetcher cas.DirectoryFetcher) backend {
	base, err := os.MkdirTemp("", "verif-outputs-")
	if err != nil {
		panic(err)
	}
	d, err := filesystem.NewLocalDirectory(path.LocalFormat.NewParser(base))
	if err != nil {
		os.RemoveAll(base)
		panic(err)
	}
	return &naiveBackend{base: base, bd: builder.NewNaiveBuildDirectory(&racingDirectory{DirectoryCloser: d, w: w, base: base}, fetcher, nil, nil, w.cas)}
}

// racingDirectory wraps the real local directory handed to
// naiveBuildDirectory: it journals which files are opened for reading and
// implements the fault letter "rewrite-after-digest-pass": the file at the
// fault location is rewritten in place on disk, with other bytes of the same
// length, right after the ReadAt that delivers its last byte for the first
// time - i.e. when the digest pass of UploadFile has seen everything and the
// transfer pass has not started. The model node keeps both contents.
type racingDirectory struct {
	filesystem.DirectoryCloser
	w      *world
	base   string
	loc    string
	closed bool
}

func (d *racingDirectory) Close() error {
	if d.closed {
		return nil // the executor and the harness both close the build directory
	}
	d.closed = true
	return d.DirectoryCloser.Close()
}

func (d *racingDirectory) EnterDirectory(name path.Component) (filesystem.DirectoryCloser, error) {
	c, err := d.DirectoryCloser.EnterDirectory(name)
	if err != nil {
		return nil, err
	}
	return &racingDirectory{DirectoryCloser: c, w: d.w, base: d.base, loc: join(d.loc, name.String())}, nil
}

func (d *racingDirectory) OpenRead(name path.Component) (filesystem.FileReader, error) {
	f, err := d.DirectoryCloser.OpenRead(name)
	if err != nil {
		return nil, err
	}
	size, err := f.Len()
	if err != nil || size == 0 {
		return f, nil
	}
	l := join(d.loc, name.String())
	d.w.opened = append(d.w.opened, l)
	return &racingFile{FileReader: f, d: d, loc: l, size: size}, nil
}

type racingFile struct {
	filesystem.FileReader
	d     *racingDirectory
	loc   string
	size  int64
	fired bool
}

func (f *racingFile) ReadAt(p []byte, off int64) (int, error) {
	n, err := f.FileReader.ReadAt(p, off)
	w := f.d.w
	if !f.fired && off+int64(n) >= f.size {
		f.fired = true
		if w.fault.kind == faultRewrite && w.fault.arg == f.loc && !w.hit {
			m := w.root.lookup(strings.Split(f.loc, "/"))
			if m == nil || m.kind != kFile || int64(len(m.data)) != f.size {
				panic("harness: rewrite fault at " + f.loc + " does not match the model: " + m.dump())
			}
			nb := otherBytes(m.data)
			fh, err := os.OpenFile(filepath.Join(f.d.base, filepath.FromSlash(f.loc)), os.O_WRONLY, 0)
			if err != nil {
				panic(err)
			}
			if _, err := fh.WriteAt([]byte(nb), 0); err != nil {
				panic(err)
			}
			if err := fh.Close(); err != nil {
				panic(err)
			}
			m.alt, m.hasAlt, m.data = m.data, true, nb
			w.hit = true
		}
	}
	return n, err
}

func (b *naiveBackend) label() string               { return "naive" }
func (b *naiveBackend) dir() builder.BuildDirectory { return b.bd }
func (b *naiveBackend) finish()                     { b.bd.Close(); os.RemoveAll(b.base) }
func (b *naiveBackend) at(loc []string) string {
	return filepath.Join(append([]string{b.base}, loc...)...)
}

func (b *naiveBackend) isDir(loc []string) bool {
	fi, err := os.Lstat(b.at(loc))
	return err == nil && fi.IsDir()
}

func (b *naiveBackend) createAt(p string, n *node) error {
	switch n.kind {
	case kDir:
		if err := os.Mkdir(p, 0o777); err != nil {
			return err
		}
		for _, k := range n.names() {
			if err := b.createAt(filepath.Join(p, k), n.children[k]); err != nil {
				return err
			}
		}
	case kFile:
		mode := os.FileMode(0o644)
		if n.exec {
			mode = 0o755
		}
		if err := os.WriteFile(p, []byte(n.data), mode); err != nil {
			return err
		}
		return os.Chmod(p, mode)
	case kSymlink:
		return os.Symlink(n.data, p)
	case kFifo:
		return syscall.Mkfifo(p, 0o644)
	}
	return nil
}

func (b *naiveBackend) create(name string, n *node) error { return b.createAt(b.at([]string{name}), n) }

func (b *naiveBackend) put(p put) error {
	if len(p.loc) == 0 || !b.isDir(p.loc[:len(p.loc)-1]) {
		return nil
	}
	// every intermediate component has to be a real directory
	for i := 1; i < len(p.loc); i++ {
		if !b.isDir(p.loc[:i]) {
			return nil
		}
	}
	t := b.at(p.loc)
	if err := os.RemoveAll(t); err != nil {
		return err
	}
	if p.thing == nil {
		return nil
	}
	return b.createAt(t, p.thing)
}

func runVirtual(fail failFn, in *input) *world { return runBackend(fail, in, newVirtualBackend) }
func runNaive(fail failFn, in *input) *world   { return runBackend(fail, in, newNaiveBackend) }

// runBackend: one input through a real BuildDirectory implementation.
// Trouble of the harness itself (the file system refusing what the fake
// action does) panics.
func runBackend(fail failFn, in *input, mk func(w *world) backend) *world {
	var locs [][]string
	for _, p := range in.paths {
		l, ok := resolveDeclared(in.wd, p)
		if !ok {
			return nil // rejection is covered by the fake-directory and executor scenarios
		}
		locs = append(locs, l)
	}
	model := newDir()
	if in.pre != nil {
		model = in.pre.clone()
	}
	w := newWorld(model, in.fault)
	b := mk(w)
	defer b.finish()
	ffail := func(fp, format string, args ...any) {
		fail(b.label()+"/"+fp, "%s\n  input (%s build directory): %s", fmt.Sprintf(format, args...), b.label(), in)
	}
	oh, err := builder.NewOutputHierarchy(&remoteexecution.Command{
		WorkingDirectory:      in.wd,
		OutputPaths:           in.paths,
		OutputDirectoryFormat: remoteexecution.Command_OutputDirectoryFormat(in.format),
	})
	if err != nil {
		ffail("spurious-reject", "NewOutputHierarchy failed: %v", err)
		return w
	}
	bd := b.dir()
	must := func(err error) {
		if err != nil {
			panic(fmt.Sprintf("harness: %s file system refused a step of the fake action: %v; input %s", b.label(), err, in))
		}
	}
	for _, k := range model.names() {
		must(b.create(k, model.children[k]))
	}

	// Parents.
	if err := oh.CreateParentDirectories(bd); err != nil {
		conflict := false
		for _, l := range locs {
			for i := 1; i < len(l); i++ {
				if n := model.lookup(l[:i]); n != nil && n.kind != kDir {
					conflict = true
				}
			}
		}
		if !conflict {
			ffail("create-parents-spurious-error", "CreateParentDirectories failed: %v", err)
		}
		return w
	}
	for _, l := range locs {
		for i := 1; i < len(l); i++ {
			// model: mkdir -p
			if n := model.lookup(l[:i]); n == nil {
				applyPut(model, put{loc: l[:i], thing: newDir()})
			}
			if n := model.lookup(l[:i]); n != nil && n.kind == kDir && !b.isDir(l[:i]) {
				ffail("parent-missing", "CreateParentDirectories returned nil but %q is not a directory in the build directory", locString(l[:i]))
				return w
			}
		}
	}

	// The action, on the real directory and on the model.
	puts := append([]put(nil), in.action...)
	if in.decoys {
		puts = append(puts, decoyPuts(model, locs)...)
	}
	for _, p := range puts {
		must(b.put(p))
		applyPut(model, p)
	}

	ar := &remoteexecution.ActionResult{}
	uploadErr := oh.UploadOutputs(bg, bd, w.cas, sha256Function, nil, ar, in.force)
	if !casConsistent(ffail, w) {
		return w
	}
	// Legitimate reasons for an error: a special file, a non-directory
	// ancestor, or the upload noticed that a file changed under its feet.
	if uploadErr != nil && !w.hit && !uploadErrLegit(model, locs) {
		ffail("upload-spurious-error", "UploadOutputs failed: %v; model=%s", uploadErr, model.dump())
		return w
	}
	wantRoot := in.force || in.format == 1 || in.format == 2
	verifyResult(ffail, w, in.wd, in.paths, ar, wantRoot, uploadErr == nil)
	return w
}

// decoyPuts: marker files at every location of the universe that is
// unrelated to all declared locations and still free.
func decoyPuts(model *node, locs [][]string) []put {
	var puts []put
	for _, u := range decoyUniverse {
		rel := false
		for _, l := range locs {
			if related(u, l) {
				rel = true
			}
		}
		if !rel && model.lookup(u) == nil {
			puts = append(puts, put{loc: u, thing: newFile("decoy:"+locString(u), len(u)%2 == 0)})
		}
	}
	return puts
}

// uploadErrLegit: UploadOutputs may fail without any injected fault when a
// declared path is (or contains) a special file, or a proper ancestor of a
// declared location is not a directory.
func uploadErrLegit(model *node, locs [][]string) bool {
	for _, l := range locs {
		if n := model.lookup(l); n != nil && hasSpecial(n) {
			return true
		}
		for i := 1; i < len(l); i++ {
			if n := model.lookup(l[:i]); n != nil && n.kind != kDir {
				return true
			}
		}
	}
	return false
}
