package storage

import (
	"fmt"
	"go/ast"
	"go/parser"
	"go/token"
	"os"
	"path/filepath"
	"strings"

	"verif/mc"
)

// The harness composes the decorators by hand; this guard checks that
// cmd/bb_worker/main.go still composes them the same way:
//
//	writer, flusher := NewBatchedStoreBlobAccess(globalCAS, ...)
//	buildExecutor := NewLocalBuildExecutor(writer, ...)
//	... NewStorageFlushingBuildExecutor(buildExecutor, flusher) ...
//	... NewCachingBuildExecutor(buildExecutor, globalCAS, actionCache, ...)
//
// with caching outside flushing outside local. If main.go cannot be
// recognised (refactored), that is *reported* (outcome + stdout), not failed.

type wiring struct {
	recognised bool
	why        string   // why not recognised
	chain      []string // constructors applied to buildExecutor, innermost first
	problems   []string
}

func mainGoPath() string {
	// A VERIF_PATCH of main.go is only visible as a file next to the
	// result file of this run (see /verif/check apply_patch).
	if out := os.Getenv("MC_OUT"); out != "" {
		p := filepath.Join(filepath.Dir(out), "patched", "cmd", "bb_worker", "main.go")
		if _, err := os.Stat(p); err == nil {
			return p
		}
	}
	repo := os.Getenv("VERIF_REPO")
	if repo == "" {
		repo = "/repo"
	}
	return filepath.Join(repo, "cmd", "bb_worker", "main.go")
}

func ctorName(e ast.Expr) string {
	call, ok := e.(*ast.CallExpr)
	if !ok {
		return ""
	}
	switch f := call.Fun.(type) {
	case *ast.SelectorExpr:
		return f.Sel.Name
	case *ast.Ident:
		return f.Name
	}
	return ""
}

func identName(e ast.Expr) string {
	if id, ok := e.(*ast.Ident); ok {
		return id.Name
	}
	return ""
}

func analyseWiring(path string) *wiring {
	r := &wiring{}
	fset := token.NewFileSet()
	f, err := parser.ParseFile(fset, path, nil, 0)
	if err != nil {
		r.why = "cannot parse " + path + ": " + err.Error()
		return r
	}
	const execVar = "buildExecutor"
	var writerVar, flusherVar, globalCAS string
	flusherArg, cachingCAS, localWriter := "", "", ""
	sawBatched := false

	// chainOf returns the constructors wrapped around the identifier
	// execVar inside e, innermost first; ok=false if e does not contain it.
	var chainOf func(e ast.Expr) ([]string, bool)
	chainOf = func(e ast.Expr) ([]string, bool) {
		if identName(e) == execVar {
			return nil, true
		}
		call, ok := e.(*ast.CallExpr)
		if !ok {
			return nil, false
		}
		for _, a := range call.Args {
			if inner, ok := chainOf(a); ok {
				name := ctorName(call)
				switch name {
				case "NewStorageFlushingBuildExecutor":
					if len(call.Args) >= 2 {
						flusherArg = identName(call.Args[1])
					}
				case "NewCachingBuildExecutor":
					if len(call.Args) >= 2 {
						cachingCAS = identName(call.Args[1])
					}
				}
				return append(inner, name), true
			}
		}
		return nil, false
	}

	ast.Inspect(f, func(n ast.Node) bool {
		as, ok := n.(*ast.AssignStmt)
		if !ok {
			return true
		}
		if len(as.Rhs) == 1 && ctorName(as.Rhs[0]) == "NewBatchedStoreBlobAccess" && len(as.Lhs) == 2 {
			call := as.Rhs[0].(*ast.CallExpr)
			writerVar, flusherVar = identName(as.Lhs[0]), identName(as.Lhs[1])
			if len(call.Args) >= 1 {
				globalCAS = identName(call.Args[0])
			}
			sawBatched = true
			return true
		}
		if len(as.Lhs) == 1 && len(as.Rhs) == 1 && identName(as.Lhs[0]) == execVar {
			if ctorName(as.Rhs[0]) == "NewLocalBuildExecutor" {
				call := as.Rhs[0].(*ast.CallExpr)
				r.chain = []string{"NewLocalBuildExecutor"}
				if len(call.Args) >= 1 {
					localWriter = identName(call.Args[0])
				}
				return true
			}
			if inner, ok := chainOf(as.Rhs[0]); ok && r.chain != nil {
				r.chain = append(r.chain, inner...)
			}
		}
		return true
	})

	idx := func(name string) int {
		for i, c := range r.chain {
			if c == name {
				return i
			}
		}
		return -1
	}
	iLocal, iFlush, iCache := idx("NewLocalBuildExecutor"), idx("NewStorageFlushingBuildExecutor"), idx("NewCachingBuildExecutor")
	if !sawBatched || writerVar == "" || flusherVar == "" || globalCAS == "" || iLocal < 0 || iFlush < 0 || iCache < 0 {
		r.why = fmt.Sprintf("main.go not recognised: batched=%v writer=%q flusher=%q cas=%q chain=%v", sawBatched, writerVar, flusherVar, globalCAS, r.chain)
		return r
	}
	r.recognised = true
	if !(iLocal < iFlush) {
		r.problems = append(r.problems, "flush-not-outside-local")
	}
	if !(iFlush < iCache) {
		r.problems = append(r.problems, "caching-not-outside-flushing")
	}
	if flusherArg != flusherVar {
		r.problems = append(r.problems, fmt.Sprintf("flusher-mismatch(%s!=%s)", flusherArg, flusherVar))
	}
	if localWriter != writerVar {
		r.problems = append(r.problems, fmt.Sprintf("local-executor-does-not-use-batching-writer(%s!=%s)", localWriter, writerVar))
	}
	if cachingCAS != globalCAS {
		r.problems = append(r.problems, fmt.Sprintf("caching-executor-cas-differs-from-batched-backend(%s!=%s)", cachingCAS, globalCAS))
	}
	return r
}

func mainWiring() *mc.Scenario {
	sc := base("main-wiring")
	sc.Build = func(x *mc.X) {
		x.Go("guard", func() {
			x.Point("parse cmd/bb_worker/main.go")
			path := mainGoPath()
			r := analyseWiring(path)
			if !r.recognised {
				fmt.Printf("C09 wiring guard: REPORT (not a verdict): %s\n", r.why)
				x.Outcome("wiring-guard: NOT RECOGNISED: %s", r.why)
				return
			}
			x.Outcome("wiring-guard: %s chain=%s problems=%v", filepath.Base(path), strings.Join(r.chain, "<"), r.problems)
			if len(r.problems) > 0 && !x.Free() {
				x.FailP(prop, "wiring/"+mc.StripLines(r.problems[0]), "cmd/bb_worker/main.go no longer nests the executors as local < storage flushing < caching around the batching writer/flusher pair: %v (chain innermost first: %v)", r.problems, r.chain)
			}
		})
	}
	return sc
}
