package schedseq

import (
	"fmt"
	"os"
	"sort"
	"strconv"
	"strings"

	remoteexecution "github.com/bazelbuild/remote-apis/build/bazel/remote/execution/v2"
	"github.com/buildbarn/bb-remote-execution/pkg/proto/buildqueuestate"
	"github.com/buildbarn/bb-remote-execution/pkg/scheduler"
	"github.com/buildbarn/bb-remote-execution/pkg/scheduler/invocation"
	"google.golang.org/protobuf/proto"
	"google.golang.org/protobuf/types/known/anypb"
	"google.golang.org/protobuf/types/known/emptypb"
)

// The "inspect" letters: what an operator, the web UI (bb_scheduler's
// BuildQueueState pages) or a monitoring job does between the calls of
// clients and workers. Every READ-ONLY method of the BuildQueueState service
// is a letter of the explored histories:
//
//	i:pq   ListPlatformQueues
//	i:w    ListWorkers       filter all (page size 1, start_after), executing
//	                         and idle_synchronizing of EVERY invocation
//	i:ops  ListOperations    page size 2 + start_after, every stage filter,
//	                         every invocation ID filter
//	i:op   GetOperation      every operation name + an unknown name
//	i:ch   ListInvocationChildren  ALL / ACTIVE / QUEUED of every invocation
//	i:q    ListQueuedOperations    page size 1 + start_after, every invocation
//	i:d    ListDrains        every size class queue + an unknown one
//
// ("inspect" = all of them in one letter). The targets are taken from the
// implementation's own state (hook snapshot), so every object that exists
// is listed. The letters are judged in three ways:
//
//  1. by everything that follows: the routing oracle of Execute/Synchronize
//     and the boundary comparison (registered queues, trie indices, trie
//     lookups, task locations) run after the letter like after any other;
//  2. structural: after EVERY single call the hook-level snapshot of the
//     scheduler must equal the snapshot taken before it. The baseline is
//     taken after a no-op poke at the same fake time (ListDrains of a size
//     class queue that does not exist: it enters and leaves the scheduler,
//     which runs the clock-driven lazy clean-up, and touches nothing else),
//     so clean-up that any call would have done is not attributed to the
//     inspected call. Two documented effects are allowed:
//     ListInvocationChildren(QUEUED) sorts the queued-children heap of the
//     invocation it lists and ListQueuedOperations sorts its queued
//     operations ("every sorted list is also a valid binary heap"): for
//     exactly that invocation the array order is compared as a set and the
//     back-pointer indices must match the new positions;
//  3. responses named by C05's observation points are compared with the
//     reference model: ListPlatformQueues (queues, size classes, worker and
//     drain counts), ListWorkers(all) (worker set, drained flag, current
//     task), ListDrains (patterns).
var inspectLetters = []string{"i:pq", "i:w", "i:ops", "i:op", "i:ch", "i:q", "i:d"}

type inspector struct {
	s    *sys
	prev *scheduler.VerifSeqState // snapshot after the previous call
	base string                   // its full dump
	cmp  bool                     // structural comparison enabled (not in the free-running pass)
}

// relax names the one invocation whose heap array order a call may change.
type relax struct {
	scq      string // "prefix|platform|sizeclass"
	path     string // invocation keys joined
	children bool   // queuedChildren may be re-ordered
	ops      bool   // queuedOperations may be re-ordered
}

func scqID(prefix, plat string, sc uint32) string { return fmt.Sprintf("%s|%s|%d", prefix, plat, sc) }

// The dump is rendered with strconv appends (it runs after every single
// inspected call).
func appInt(b []byte, tag string, v int64) []byte {
	b = append(b, tag...)
	b = strconv.AppendInt(b, v, 10)
	return append(b, ' ')
}

func appBool(b []byte, tag string, v bool) []byte {
	b = append(b, tag...)
	if v {
		return append(b, "T "...)
	}
	return append(b, "F "...)
}

func appStrs(b []byte, tag string, l []string) []byte {
	b = append(b, tag...)
	b = append(b, '[')
	for _, e := range l {
		b = strconv.AppendQuote(b, e)
		b = append(b, ' ')
	}
	return append(b, "] "...)
}

func dumpInvocation(b []byte, scq string, i *scheduler.VerifSeqInvocation, rx *relax, parentRelaxed bool) []byte {
	path := strings.Join(i.Keys, "\x00")
	me := rx != nil && rx.scq == scq && rx.path == path
	b = append(b, "I("...)
	b = strconv.AppendQuote(b, path)
	b = appInt(b, " fp", int64(i.FirstQueuedOperationPriority))
	b = appInt(b, "e", int64(i.ExecutingWorkersCount))
	b = appInt(b, "ls", i.LastOperationStarted.UnixNano())
	b = appInt(b, "lc", i.LastOperationCompletion.UnixNano())
	b = appInt(b, "iw", int64(i.IdleWorkersCount))
	b = appInt(b, "ii", int64(i.IdleSynchronizingWorkersChildrenIndex))
	if !parentRelaxed {
		b = appInt(b, "qi", int64(i.QueuedChildrenIndex))
	}
	ops := make([]string, 0, len(i.QueuedOperations))
	for _, o := range i.QueuedOperations {
		var e []byte
		e = appInt(e, "(p", int64(o.Priority))
		e = appInt(e, "d", int64(o.ExpectedDuration))
		e = appInt(e, "@", o.QueuedTimestamp.UnixNano())
		e = append(e, o.ActionHash...)
		e = append(e, ' ')
		e = strconv.AppendQuote(e, o.InstanceNameSuffix)
		if !(me && rx.ops) {
			e = appInt(e, " #", int64(o.QueueIndex))
		}
		ops = append(ops, string(append(e, ')')))
	}
	if me && rx.ops {
		sort.Strings(ops)
	}
	qc := i.QueuedChildren
	if me && rx.children {
		qc = append([]string(nil), qc...)
		sort.Strings(qc)
	}
	b = append(b, "Q["...)
	for _, o := range ops {
		b = append(b, o...)
	}
	b = append(b, "] "...)
	b = appStrs(b, "QC", qc)
	b = appStrs(b, "IC", i.IdleSynchronizingWorkersChildren)
	b = appStrs(b, "EW", i.ExecutingWorkers)
	b = appStrs(b, "IW", i.IdleSynchronizingWorkers)
	for _, c := range i.Children {
		b = dumpInvocation(b, scq, c, rx, me && rx.children)
	}
	return append(b, ')')
}

// fullDump renders EVERYTHING the hook exposes, with absolute times and all
// array orders and back-pointer indices (the state key, in contrast, is
// relative to the clock and omits what cannot influence behaviour).
func fullDump(st *scheduler.VerifSeqState, rx *relax) string {
	b := make([]byte, 0, 2048)
	b = appInt(b, "now", st.Now.UnixNano())
	b = appInt(b, "hard", st.HardFailureTime.UnixNano())
	b = appInt(b, "scqs", int64(st.SizeClassQueuesMapSize))
	b = appInt(b, "ops", int64(st.OperationsCount))
	b = appInt(b, "inflight", int64(st.InFlightCount))
	b = append(b, "cl["...)
	for _, t := range st.CleanupTimes {
		b = appInt(b, "", t.UnixNano())
	}
	b = append(b, "] "...)
	for _, pq := range st.PlatformQueues {
		b = append(b, "PQ("...)
		b = strconv.AppendQuote(b, pq.InstanceNamePrefix)
		b = append(b, ' ')
		b = append(b, pq.Platform...)
		b = append(b, " lim["...)
		for _, l := range pq.StickinessLimits {
			b = appInt(b, "", int64(l))
		}
		b = appInt(b, "] ti", int64(pq.TrieIndex))
		b = append(b, "sc["...)
		for _, sc := range pq.SizeClasses {
			b = appInt(b, "", int64(sc))
		}
		b = append(b, "] "...)
		for _, q := range pq.SizeClassQueues {
			b = appInt(b, "SC(", int64(q.SizeClass))
			b = appBool(b, "r", q.MayBeRemoved)
			b = appBool(b, "cl", q.HasCleanup)
			b = appInt(b, "@", q.CleanupTime.UnixNano())
			b = appStrs(b, "D", q.Drains)
			for _, w := range q.Workers {
				b = append(b, "W("...)
				b = append(b, w.Key...)
				b = appBool(b, " t", w.Terminating)
				b = appBool(b, "p", w.Parked)
				b = appInt(b, "li", int64(w.ListIndex))
				b = append(b, "task"...)
				b = append(b, w.CurrentTaskHash...)
				b = appBool(b, " cl", w.HasCleanup)
				b = appInt(b, "@", w.CleanupTime.UnixNano())
				b = appBool(b, "last", w.HasLastInvocation)
				b = appStrs(b, "", w.LastInvocation)
				b = append(b, "st["...)
				for _, t := range w.StickinessStartingTimes {
					b = appInt(b, "", t.UnixNano())
				}
				b = append(b, "])"...)
			}
			b = dumpInvocation(b, scqID(pq.InstanceNamePrefix, pq.Platform, q.SizeClass), q.Root, rx, false)
			b = append(b, ')')
		}
		b = append(b, ')')
	}
	return string(b)
}

// firstDiff returns a short window around the first difference of two dumps.
func firstDiff(a, b string) string {
	n := 0
	for n < len(a) && n < len(b) && a[n] == b[n] {
		n++
	}
	lo := n - 120
	if lo < 0 {
		lo = 0
	}
	cut := func(s string) string {
		hi := n + 160
		if hi > len(s) {
			hi = len(s)
		}
		return s[lo:hi]
	}
	return fmt.Sprintf("before: …%s… after: …%s…", cut(a), cut(b))
}

func (in *inspector) stopped() bool {
	s := in.s
	s.mu.Lock()
	defer s.mu.Unlock()
	return s.torn || s.broken
}

// poke performs the no-op poke and takes the baseline.
func (in *inspector) poke() *scheduler.VerifSeqState {
	s := in.s
	s.bq.ListDrains(s.ctx, &buildqueuestate.ListDrainsRequest{SizeClassQueueName: &buildqueuestate.SizeClassQueueName{
		PlatformQueueName: &buildqueuestate.PlatformQueueName{InstanceNamePrefix: "verif/unrelated", Platform: platformName("P1")},
		SizeClass:         77,
	}})
	st := scheduler.VerifSeqSnapshot(s.bq)
	in.prev, in.base = st, fullDump(st, nil)
	return st
}

// after compares the scheduler with the baseline after one call.
func (in *inspector) after(rx *relax, format string, args ...any) bool {
	if in.stopped() {
		return false
	}
	if !in.cmp {
		return true
	}
	s := in.s
	st := scheduler.VerifSeqSnapshot(s.bq)
	now := fullDump(st, nil)
	if now != in.base {
		call := fmt.Sprintf(format, args...)
		api := strings.SplitN(call, "(", 2)[0]
		if rx == nil {
			s.mu.Lock()
			s.failBoth("readonly-mutates/"+api, "read-only call %s changed the scheduler's state: %s", call, firstDiff(in.base, now))
			s.mu.Unlock()
			return false
		}
		if was, is := fullDump(in.prev, rx), fullDump(st, rx); was != is {
			s.mu.Lock()
			s.failBoth("readonly-mutates/"+api, "read-only call %s changed more than the order of the heap it lists: %s", call, firstDiff(was, is))
			s.mu.Unlock()
			return false
		}
		if msg := heapIndices(st, rx); msg != "" {
			s.mu.Lock()
			s.failBoth("readonly-mutates/"+api+"/index", "after %s: %s", call, msg)
			s.mu.Unlock()
			return false
		}
	}
	in.prev, in.base = st, now
	return true
}

// heapIndices checks the back-pointers of the re-sorted heap.
func heapIndices(st *scheduler.VerifSeqState, rx *relax) string {
	for _, pq := range st.PlatformQueues {
		for _, q := range pq.SizeClassQueues {
			if scqID(pq.InstanceNamePrefix, pq.Platform, q.SizeClass) != rx.scq {
				continue
			}
			var find func(i *scheduler.VerifSeqInvocation) *scheduler.VerifSeqInvocation
			find = func(i *scheduler.VerifSeqInvocation) *scheduler.VerifSeqInvocation {
				if strings.Join(i.Keys, "\x00") == rx.path {
					return i
				}
				for _, c := range i.Children {
					if r := find(c); r != nil {
						return r
					}
				}
				return nil
			}
			i := find(q.Root)
			if i == nil {
				return ""
			}
			for pos, o := range i.QueuedOperations {
				if o.QueueIndex != pos {
					return fmt.Sprintf("queued operation %s at position %d of the heap records index %d", o.ActionHash[:6], pos, o.QueueIndex)
				}
			}
			for pos, k := range i.QueuedChildren {
				for _, c := range i.Children {
					if c.Keys[len(c.Keys)-1] == k && c.QueuedChildrenIndex != pos {
						return fmt.Sprintf("queued child at position %d of the heap records index %d", pos, c.QueuedChildrenIndex)
					}
				}
			}
		}
	}
	return ""
}

func patternStr(p map[string]string) string {
	var l []string
	for k, v := range p {
		l = append(l, k+"="+v)
	}
	sort.Strings(l)
	return "{" + strings.Join(l, ",") + "}"
}

// lazyPath renders an invocation path only when a message is produced.
type lazyPath struct {
	s    *sys
	keys []string
}

func (l lazyPath) String() string { return fmt.Sprint(l.s.invPath(l.keys)) }

type scqLabel struct {
	n *buildqueuestate.SizeClassQueueName
}

func (l scqLabel) String() string {
	return fmt.Sprintf("%q/%s/%d", l.n.PlatformQueueName.InstanceNamePrefix, platByProto(l.n.PlatformQueueName.Platform), l.n.SizeClass)
}

type invTarget struct {
	scq  *buildqueuestate.SizeClassQueueName
	id   string
	keys []string
	name *buildqueuestate.InvocationName
}

func (s *sys) doInspect(kind string) {
	s.mu.Lock()
	s.m.expire(s.clock.Now())
	s.mu.Unlock()
	// SCHEDSEQ_NO_SNAPCMP=1 (experiments only): leave the judgement of the
	// letters to the response, routing and boundary oracles alone.
	in := &inspector{s: s, cmp: !s.x.Free() && os.Getenv("SCHEDSEQ_NO_SNAPCMP") == ""}
	in.run(kind)
}

func (in *inspector) run(kind string) {
	s := in.s
	all := kind == "inspect"
	var st *scheduler.VerifSeqState
	if !s.x.Free() {
		st = in.poke()
	} else {
		// Free-running pass: no unsynchronised reads of the scheduler.
		st = &scheduler.VerifSeqState{}
	}
	if in.stopped() {
		return
	}

	// Targets: every size class queue and every invocation that exists.
	var scqs []*buildqueuestate.SizeClassQueueName
	var invs []invTarget
	keySet := map[string]bool{}
	for _, pq := range st.PlatformQueues {
		pname, ok := s.platNames[pq.Platform]
		if !ok {
			continue // reported by the boundary oracle
		}
		for _, q := range pq.SizeClassQueues {
			n := scqName(pq.InstanceNamePrefix, pname, q.SizeClass)
			scqs = append(scqs, n)
			var walk func(i *scheduler.VerifSeqInvocation)
			walk = func(i *scheduler.VerifSeqInvocation) {
				t := invTarget{scq: n, id: scqID(pq.InstanceNamePrefix, pq.Platform, q.SizeClass), keys: i.Keys,
					name: &buildqueuestate.InvocationName{SizeClassQueueName: n}}
				for _, k := range i.Keys {
					t.name.Ids = append(t.name.Ids, invocation.Key(k).GetID())
					keySet[k] = true
				}
				invs = append(invs, t)
				for _, c := range i.Children {
					walk(c)
				}
			}
			walk(q.Root)
		}
	}
	unknownScq := scqName("verif/unknown", "P1", 5)
	// An invocation that does not exist, in every size class queue that does
	// (a stale web UI link): looking it up must not create it.
	unknownID := corrKey("verif-unknown-invocation").GetID()
	unknownInv := func(n *buildqueuestate.SizeClassQueueName) *buildqueuestate.InvocationName {
		return &buildqueuestate.InvocationName{SizeClassQueueName: n, Ids: []*anypb.Any{unknownID}}
	}

	if all || kind == "i:pq" {
		resp, err := s.bq.ListPlatformQueues(s.ctx, &emptypb.Empty{})
		if !in.after(nil, "ListPlatformQueues()") {
			return
		}
		if !s.checkPlatformQueues(resp, err) {
			return
		}
	}

	if all || kind == "i:d" {
		for _, n := range append(append([]*buildqueuestate.SizeClassQueueName(nil), scqs...), unknownScq) {
			resp, err := s.bq.ListDrains(s.ctx, &buildqueuestate.ListDrainsRequest{SizeClassQueueName: n})
			if !in.after(nil, "ListDrains(%s)", scqLabel{n}) {
				return
			}
			if !s.checkDrains(n, resp, err) {
				return
			}
		}
	}

	if all || kind == "i:w" {
		for _, n := range append(append([]*buildqueuestate.SizeClassQueueName(nil), scqs...), unknownScq) {
			// filter all, one worker per page.
			var got []*buildqueuestate.WorkerState
			var start *buildqueuestate.ListWorkersRequest_StartAfter
			var lastErr error
			for page := 0; page < 8; page++ {
				resp, err := s.bq.ListWorkers(s.ctx, &buildqueuestate.ListWorkersRequest{
					Filter:     &buildqueuestate.ListWorkersRequest_Filter{Type: &buildqueuestate.ListWorkersRequest_Filter_All{All: n}},
					PageSize:   1,
					StartAfter: start,
				})
				if !in.after(nil, "ListWorkers(all %s page %d)", scqLabel{n}, page) {
					return
				}
				if err != nil || len(resp.Workers) == 0 {
					lastErr = err
					break
				}
				got = append(got, resp.Workers...)
				start = &buildqueuestate.ListWorkersRequest_StartAfter{WorkerId: resp.Workers[len(resp.Workers)-1].Id}
			}
			if !s.checkWorkers(n, got, lastErr) {
				return
			}
		}
		for _, t := range invs {
			s.bq.ListWorkers(s.ctx, &buildqueuestate.ListWorkersRequest{
				Filter:   &buildqueuestate.ListWorkersRequest_Filter{Type: &buildqueuestate.ListWorkersRequest_Filter_Executing{Executing: t.name}},
				PageSize: 100,
			})
			if !in.after(nil, "ListWorkers(executing %s %v)", t.id, lazyPath{s, t.keys}) {
				return
			}
			s.bq.ListWorkers(s.ctx, &buildqueuestate.ListWorkersRequest{
				Filter:   &buildqueuestate.ListWorkersRequest_Filter{Type: &buildqueuestate.ListWorkersRequest_Filter_IdleSynchronizing{IdleSynchronizing: t.name}},
				PageSize: 100,
			})
			if !in.after(nil, "ListWorkers(idle_synchronizing %s %v)", t.id, lazyPath{s, t.keys}) {
				return
			}
		}
		for _, n := range scqs {
			s.bq.ListWorkers(s.ctx, &buildqueuestate.ListWorkersRequest{
				Filter:   &buildqueuestate.ListWorkersRequest_Filter{Type: &buildqueuestate.ListWorkersRequest_Filter_Executing{Executing: unknownInv(n)}},
				PageSize: 100,
			})
			if !in.after(nil, "ListWorkers(executing %s unknown invocation)", scqLabel{n}) {
				return
			}
		}
		s.bq.ListWorkers(s.ctx, &buildqueuestate.ListWorkersRequest{PageSize: 1})
		if !in.after(nil, "ListWorkers(no filter)") {
			return
		}
	}

	var opNames []string
	if all || kind == "i:ops" || kind == "i:op" {
		// Paged listing of all operations (two per page).
		var start *buildqueuestate.ListOperationsRequest_StartAfter
		for page := 0; page < 16; page++ {
			resp, err := s.bq.ListOperations(s.ctx, &buildqueuestate.ListOperationsRequest{PageSize: 2, StartAfter: start})
			if !in.after(nil, "ListOperations(page %d)", page) {
				return
			}
			if err != nil || len(resp.Operations) == 0 {
				break
			}
			for _, o := range resp.Operations {
				opNames = append(opNames, o.Name)
			}
			start = &buildqueuestate.ListOperationsRequest_StartAfter{OperationName: opNames[len(opNames)-1]}
		}
	}
	if all || kind == "i:ops" {
		for _, stage := range []remoteexecution.ExecutionStage_Value{remoteexecution.ExecutionStage_QUEUED, remoteexecution.ExecutionStage_EXECUTING, remoteexecution.ExecutionStage_COMPLETED} {
			s.bq.ListOperations(s.ctx, &buildqueuestate.ListOperationsRequest{PageSize: 100, FilterStage: stage})
			if !in.after(nil, "ListOperations(stage %s)", stage) {
				return
			}
		}
		var keys []string
		for k := range keySet {
			keys = append(keys, k)
		}
		sort.Strings(keys)
		for _, k := range keys {
			s.bq.ListOperations(s.ctx, &buildqueuestate.ListOperationsRequest{PageSize: 100, FilterInvocationId: invocation.Key(k).GetID()})
			if !in.after(nil, "ListOperations(invocation %v)", lazyPath{s, []string{k}}) {
				return
			}
		}
		s.bq.ListOperations(s.ctx, &buildqueuestate.ListOperationsRequest{PageSize: 100, FilterInvocationId: &anypb.Any{TypeUrl: "type.googleapis.com/verif.Unknown"}})
		if !in.after(nil, "ListOperations(unknown invocation)") {
			return
		}
	}
	if all || kind == "i:op" {
		for _, n := range append(opNames, "verif-unknown-operation") {
			s.bq.GetOperation(s.ctx, &buildqueuestate.GetOperationRequest{OperationName: n})
			if !in.after(nil, "GetOperation(%s)", n) {
				return
			}
		}
	}

	if all || kind == "i:ch" {
		for _, t := range invs {
			for _, f := range []buildqueuestate.ListInvocationChildrenRequest_Filter{buildqueuestate.ListInvocationChildrenRequest_ALL, buildqueuestate.ListInvocationChildrenRequest_ACTIVE, buildqueuestate.ListInvocationChildrenRequest_QUEUED} {
				s.bq.ListInvocationChildren(s.ctx, &buildqueuestate.ListInvocationChildrenRequest{InvocationName: t.name, Filter: f})
				var rx *relax
				if f == buildqueuestate.ListInvocationChildrenRequest_QUEUED {
					rx = &relax{scq: t.id, path: strings.Join(t.keys, "\x00"), children: true}
				}
				if !in.after(rx, "ListInvocationChildren(%s %v %s)", t.id, lazyPath{s, t.keys}, f) {
					return
				}
			}
		}
		for _, n := range scqs {
			s.bq.ListInvocationChildren(s.ctx, &buildqueuestate.ListInvocationChildrenRequest{InvocationName: unknownInv(n), Filter: buildqueuestate.ListInvocationChildrenRequest_ALL})
			if !in.after(nil, "ListInvocationChildren(%s unknown invocation)", scqLabel{n}) {
				return
			}
		}
		s.bq.ListInvocationChildren(s.ctx, &buildqueuestate.ListInvocationChildrenRequest{
			InvocationName: &buildqueuestate.InvocationName{SizeClassQueueName: unknownScq}, Filter: buildqueuestate.ListInvocationChildrenRequest_ALL})
		if !in.after(nil, "ListInvocationChildren(unknown queue)") {
			return
		}
	}

	if all || kind == "i:q" {
		for _, t := range invs {
			rx := &relax{scq: t.id, path: strings.Join(t.keys, "\x00"), ops: true}
			var start *buildqueuestate.ListQueuedOperationsRequest_StartAfter
			for page := 0; page < 16; page++ {
				resp, err := s.bq.ListQueuedOperations(s.ctx, &buildqueuestate.ListQueuedOperationsRequest{InvocationName: t.name, PageSize: 1, StartAfter: start})
				if !in.after(rx, "ListQueuedOperations(%s %v page %d)", t.id, lazyPath{s, t.keys}, page) {
					return
				}
				if err != nil || len(resp.QueuedOperations) == 0 {
					break
				}
				o := resp.QueuedOperations[len(resp.QueuedOperations)-1]
				start = &buildqueuestate.ListQueuedOperationsRequest_StartAfter{Priority: o.Priority, ExpectedDuration: o.ExpectedDuration, QueuedTimestamp: o.QueuedTimestamp}
			}
		}
		for _, n := range scqs {
			s.bq.ListQueuedOperations(s.ctx, &buildqueuestate.ListQueuedOperationsRequest{InvocationName: unknownInv(n), PageSize: 1})
			if !in.after(nil, "ListQueuedOperations(%s unknown invocation)", scqLabel{n}) {
				return
			}
		}
		s.bq.ListQueuedOperations(s.ctx, &buildqueuestate.ListQueuedOperationsRequest{
			InvocationName: &buildqueuestate.InvocationName{SizeClassQueueName: unknownScq}, PageSize: 1})
		if !in.after(nil, "ListQueuedOperations(unknown queue)") {
			return
		}
	}
}

// platOf maps a platform message to the model's name for it.
func (s *sys) platOf(n *buildqueuestate.SizeClassQueueName) string {
	return platByProto(n.GetPlatformQueueName().GetPlatform())
}

var platOrder = []string{"P1", "P2", "Pa", "Pz"}

func platByProto(p *remoteexecution.Platform) string {
	for _, name := range platOrder {
		if proto.Equal(platforms[name], p) {
			return name
		}
	}
	return "?"
}

// ---------------------------------------------------------------------------
// Responses compared with the reference model (C05 observation points).

func (s *sys) checkPlatformQueues(resp *buildqueuestate.ListPlatformQueuesResponse, err error) bool {
	s.mu.Lock()
	defer s.mu.Unlock()
	if s.torn || s.broken {
		return false
	}
	if err != nil {
		s.fail("C05", "inspect/ListPlatformQueues", "ListPlatformQueues failed: %v", err)
		return false
	}
	var got, want []string
	for _, pq := range resp.PlatformQueues {
		name := platByProto(pq.Name.Platform)
		for _, q := range pq.SizeClassQueues {
			got = append(got, fmt.Sprintf("%q/%s/%d workers=%d drains=%d", pq.Name.InstanceNamePrefix, name, q.SizeClass, q.WorkersCount, q.DrainsCount))
		}
	}
	for _, pk := range s.m.sortedPqKeys() {
		pq := s.m.pqs[pk]
		for _, sc := range pq.sizeClasses() {
			q := pq.scqs[sc]
			want = append(want, fmt.Sprintf("%q/%s/%d workers=%d drains=%d", pk.prefix, pk.platform, sc, len(q.workers), len(q.drains)))
		}
	}
	sort.Strings(got)
	sort.Strings(want)
	if g, w := strings.Join(got, " "), strings.Join(want, " "); g != w {
		s.fail("C05", "inspect/ListPlatformQueues", "ListPlatformQueues reports [%s], the registered queues are [%s]", g, w)
		return false
	}
	return true
}

func (s *sys) modelScq(n *buildqueuestate.SizeClassQueueName) *mScq {
	return s.m.scq(scqKey{pqKey{n.PlatformQueueName.InstanceNamePrefix, s.platOf(n)}, n.SizeClass})
}

func (s *sys) checkDrains(n *buildqueuestate.SizeClassQueueName, resp *buildqueuestate.ListDrainsResponse, err error) bool {
	s.mu.Lock()
	defer s.mu.Unlock()
	if s.torn || s.broken {
		return false
	}
	q := s.modelScq(n)
	if q == nil {
		// Queues the model does not have are the boundary oracle's business.
		return true
	}
	if err != nil {
		s.fail("C05", "inspect/ListDrains", "ListDrains(%v) failed: %v", q.key, err)
		return false
	}
	var got, want []string
	for _, d := range resp.Drains {
		got = append(got, patternStr(d.WorkerIdPattern))
	}
	for _, p := range q.drains {
		want = append(want, patternStr(p))
	}
	sort.Strings(got)
	sort.Strings(want)
	if g, w := strings.Join(got, " "), strings.Join(want, " "); g != w {
		s.fail("C05", "inspect/ListDrains", "ListDrains(%v) reports [%s], the active drains are [%s]", q.key, g, w)
		return false
	}
	return true
}

func (s *sys) checkWorkers(n *buildqueuestate.SizeClassQueueName, listed []*buildqueuestate.WorkerState, err error) bool {
	s.mu.Lock()
	defer s.mu.Unlock()
	if s.torn || s.broken {
		return false
	}
	q := s.modelScq(n)
	if q == nil {
		return true
	}
	if err != nil {
		s.fail("C05", "inspect/ListWorkers", "ListWorkers(all %v) failed: %v", q.key, err)
		return false
	}
	var got, want []string
	for _, w := range listed {
		task := ""
		if w.CurrentOperation != nil {
			task = w.CurrentOperation.ActionDigest.GetHash()
			if len(task) > 6 {
				task = task[:6]
			}
		}
		got = append(got, fmt.Sprintf("%s drained=%v task=%s", patternStr(w.Id), w.Drained, task))
	}
	for _, w := range q.workers {
		task := ""
		if w.task != nil {
			task = w.task.hash[:6]
		}
		want = append(want, fmt.Sprintf("%s drained=%v task=%s", patternStr(w.id), w.drained(q), task))
	}
	sort.Strings(got)
	sort.Strings(want)
	if g, w := strings.Join(got, " "), strings.Join(want, " "); g != w {
		s.fail("C05", "inspect/ListWorkers", "ListWorkers(all %v), one worker per page, reports [%s]; the workers of that queue are [%s]", q.key, g, w)
		return false
	}
	return true
}
