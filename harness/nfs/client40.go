package nfs

import (
	"bytes"
	"fmt"
	"regexp"
	"sort"
	"strings"
	"time"

	"verif/mc"

	"github.com/buildbarn/go-xdr/pkg/protocols/nfsv4"
)

// client40 is the client-side bookkeeper of one NFSv4.0 client: it
// remembers the identifiers and sequence numbers the server handed out,
// keeps a conservative model of the lease ("alive" only if a request that
// must renew the lease succeeded within the lease time), and knows which
// state IDs still ENTITLE the client to access (C18).
type client40 struct {
	w    *world
	long string

	verifier byte // verifier of the last SETCLIENTID (0: none yet)
	pendOK   bool
	pendID   uint64
	pendConf nfsv4.Verifier4
	pendVerf byte

	haveID bool
	id     uint64
	idVerf byte

	alive     bool
	lastRenew time.Time
	// lastContact: the last time the client sent ANY request that names
	// its client ID or one of its state IDs, successful or not (an upper
	// bound of what the server can have recorded as the client's last
	// sign of life; see world.checkLapsed).
	lastContact time.Time

	owners  map[string]*owner40
	lowners map[string]*lowner40
}

type owner40 struct {
	name      string
	seq       uint32 // last sequence number consumed
	confirmed bool
	lastKind  string // type of the request that consumed seq
	lastOther [12]byte
	files     map[string]*open40 // by file name: the latest open under that name
	older     []*open40          // earlier generations, kept for cleanup
}

type open40 struct {
	leaf  *fakeLeaf
	sid   nfsv4.Stateid4
	bits  uint32
	valid bool // the client has not closed it
	gone  bool // the server no longer knows the state ID
	locks map[string]*lock40
}

type lowner40 struct {
	name      string
	seq       uint32
	lastKind  string
	lastOther [12]byte
}

type lock40 struct {
	sid   nfsv4.Stateid4
	bits  uint32
	valid bool
	gone  bool
}

func (w *world) client40(long string) *client40 {
	c, ok := w.c40[long]
	if !ok {
		c = &client40{w: w, long: long, owners: map[string]*owner40{}, lowners: map[string]*lowner40{}}
		w.c40[long] = c
	}
	return c
}

func (c *client40) owner(name string) *owner40 {
	o, ok := c.owners[name]
	if !ok {
		o = &owner40{name: name, files: map[string]*open40{}}
		c.owners[name] = o
	}
	return o
}

func (c *client40) lowner(name string) *lowner40 {
	l, ok := c.lowners[name]
	if !ok {
		l = &lowner40{name: name}
		c.lowners[name] = l
	}
	return l
}

func (c *client40) touch() { c.lastContact = c.w.clk.Now() }

func (c *client40) renew() {
	c.alive = true
	c.lastRenew = c.w.clk.Now()
}

func (c *client40) entitled(o *owner40, op *open40) bool {
	return c.haveID && c.alive && o.confirmed && op.valid && !op.gone
}

// consumed reports whether a reply with this status advances the owner's
// sequence number (RFC 7530, section 9.1.7).
func consumed(st nfsv4.Nfsstat4) bool {
	switch st {
	case nfsv4.NFS4ERR_STALE_CLIENTID, nfsv4.NFS4ERR_STALE_STATEID, nfsv4.NFS4ERR_BAD_STATEID, nfsv4.NFS4ERR_BAD_SEQID,
		nfsv4.NFS4ERR_BADXDR, nfsv4.NFS4ERR_RESOURCE, nfsv4.NFS4ERR_NOFILEHANDLE, nfsv4.NFS4ERR_MOVED:
		return false
	}
	return true
}

func sortedKeys[V any](m map[string]V) []string {
	var ks []string
	for k := range m {
		ks = append(ks, k)
	}
	sort.Strings(ks)
	return ks
}

func (c *client40) sidName(sid nfsv4.Stateid4) string {
	if n, ok := c.w.names40[sidKey40(sid)]; ok {
		return fmt.Sprintf("%s@%d", n, sid.Seqid)
	}
	return "gone"
}

func (c *client40) key() string {
	w := c.w
	var b strings.Builder
	name := func(id uint64) string {
		if n, ok := w.names40[cidKey(id)]; ok {
			return n
		}
		return "gone"
	}
	fmt.Fprintf(&b, "C40 %s v=%d", c.long, c.verifier)
	if c.pendOK {
		fmt.Fprintf(&b, " pend=%s/%d", name(c.pendID), c.pendVerf)
	}
	if c.haveID {
		age := "dead"
		if c.alive {
			age = w.clk.Now().Sub(c.lastRenew).String()
		}
		fmt.Fprintf(&b, " id=%s/%d renewed=%s %s", name(c.id), c.idVerf, age, w.contactKey(0, c.lastContact))
	}
	b.WriteString("\n")
	for _, on := range sortedKeys(c.owners) {
		o := c.owners[on]
		fmt.Fprintf(&b, " owner %s seq=%d confirmed=%v last=%s\n", on, o.seq, o.confirmed, o.lastKind)
		render := func(tag string, op *open40) {
			fmt.Fprintf(&b, "  %s leaf=%s sid=%s bits=%d valid=%v gone=%v\n", tag, op.leaf.id, c.sidName(op.sid), op.bits, op.valid, op.gone)
			for _, ln := range sortedKeys(op.locks) {
				l := op.locks[ln]
				fmt.Fprintf(&b, "   lock %s sid=%s bits=%d valid=%v gone=%v\n", ln, c.sidName(l.sid), l.bits, l.valid, l.gone)
			}
		}
		for _, fn := range sortedKeys(o.files) {
			render(fn, o.files[fn])
		}
		for i, op := range o.older {
			render(fmt.Sprintf("older%d", i), op)
		}
	}
	for _, ln := range sortedKeys(c.lowners) {
		l := c.lowners[ln]
		fmt.Fprintf(&b, " lowner %s seq=%d last=%s\n", ln, l.seq, l.lastKind)
	}
	return b.String()
}

// allOpens lists every open the bookkeeper knows, in a fixed order.
func (c *client40) allOpens() (owners []*owner40, opens []*open40) {
	for _, on := range sortedKeys(c.owners) {
		o := c.owners[on]
		for _, fn := range sortedKeys(o.files) {
			owners = append(owners, o)
			opens = append(opens, o.files[fn])
		}
		for _, op := range o.older {
			owners = append(owners, o)
			opens = append(opens, op)
		}
	}
	return
}

// sync reconciles the bookkeeping with what the server still knows. The
// server may forget state the client is no longer entitled to (expired
// lease, replaced registration, unconfirmed open-owner); forgetting state
// the client IS entitled to is a C18 violation.
func (c *client40) sync(f failer) {
	w := c.w
	if c.haveID {
		if _, ok := w.names40["confirmed:"+cidKey(c.id)[4:]]; !ok {
			if c.alive {
				f.FailP("C18", "client-forgotten", "NFSv4.0 client %s renewed its lease %s ago (lease time %s), but the server no longer has its confirmed record", c.long, w.clk.Now().Sub(c.lastRenew), lease)
			}
			c.alive = false
			w.locks.releaseClient(0, c.long)
		}
	}
	owners, opens := c.allOpens()
	for i, op := range opens {
		o := owners[i]
		if op.gone {
			continue
		}
		if _, ok := w.names40[sidKey40(op.sid)]; !ok {
			if c.entitled(o, op) {
				f.FailP("C18", "state-forgotten", "NFSv4.0 client %s owner %s is entitled to its open of %s, but the server no longer knows the state ID", c.long, o.name, op.leaf.id)
			}
			op.gone = true
			for _, ln := range sortedKeys(op.locks) {
				w.locks.releaseOwner(op.leaf.id, ownerKey(0, c.long, ln))
				op.locks[ln].gone = true
			}
			continue
		}
		for _, ln := range sortedKeys(op.locks) {
			l := op.locks[ln]
			if l.gone {
				continue
			}
			if _, ok := w.names40[sidKey40(l.sid)]; !ok {
				if c.entitled(o, op) && l.valid {
					f.FailP("C18", "lock-state-forgotten", "NFSv4.0 client %s lock-owner %s is entitled to its lock state on %s, but the server no longer knows the state ID", c.long, ln, op.leaf.id)
				}
				l.gone = true
				w.locks.releaseOwner(op.leaf.id, ownerKey(0, c.long, ln))
			}
		}
	}
}

// checkEntitlements is the passive C18 clause.
func (c *client40) checkEntitlements(f failer) {
	owners, opens := c.allOpens()
	for i, op := range opens {
		o := owners[i]
		if !c.entitled(o, op) {
			continue
		}
		requireEntitledOpen(f, fmt.Sprintf("open state ID of NFSv4.0 client %s owner %s", c.long, o.name), op.leaf, op.bits)
		for _, ln := range sortedKeys(op.locks) {
			if l := op.locks[ln]; l.valid && !l.gone {
				requireEntitledOpen(f, fmt.Sprintf("lock state ID of NFSv4.0 client %s lock-owner %s", c.long, ln), op.leaf, l.bits)
			}
		}
	}
}

// ---------------------------------------------------------------------------
// Requests.

func putfh(h []byte) nfsv4.NfsArgop4 {
	return &nfsv4.NfsArgop4_OP_PUTFH{Opputfh: nfsv4.Putfh4args{Object: append([]byte(nil), h...)}}
}

func opStatus(res *nfsv4.Compound4res, idx int) nfsv4.Nfsstat4 {
	if idx < len(res.Resarray) {
		return resopStatus(res.Resarray[idx])
	}
	return res.Status
}

// resopStatus extracts the status of one operation result.
func resopStatus(r nfsv4.NfsResop4) nfsv4.Nfsstat4 {
	var b bytes.Buffer
	r.WriteTo(&b)
	raw := b.Bytes()
	// opnum (4 bytes) followed by the status (4 bytes).
	if len(raw) < 8 {
		return nfsv4.NFS4ERR_SERVERFAULT
	}
	return nfsv4.Nfsstat4(uint32(raw[4])<<24 | uint32(raw[5])<<16 | uint32(raw[6])<<8 | uint32(raw[7]))
}

func (c *client40) setclientid(f failer, verifier byte) {
	c.touch()
	res := c.w.compound(0, "SETCLIENTID", &nfsv4.NfsArgop4_OP_SETCLIENTID{Opsetclientid: nfsv4.Setclientid4args{
		Client: nfsv4.NfsClientId4{Verifier: nfsv4.Verifier4{verifier}, Id: []byte(c.long)},
	}})
	c.verifier = verifier
	if ok, is := res.Resarray[0].(*nfsv4.NfsResop4_OP_SETCLIENTID).Opsetclientid.(*nfsv4.Setclientid4res_NFS4_OK); is {
		c.pendOK, c.pendID, c.pendConf, c.pendVerf = true, ok.Resok4.Clientid, ok.Resok4.SetclientidConfirm, verifier
	} else {
		f.FailP("C18", "setclientid-failed", "SETCLIENTID failed with %d", res.Status)
	}
}

func (c *client40) confirm(f failer) nfsv4.Nfsstat4 {
	c.touch()
	res := c.w.compound(0, "SETCLIENTID_CONFIRM", &nfsv4.NfsArgop4_OP_SETCLIENTID_CONFIRM{OpsetclientidConfirm: nfsv4.SetclientidConfirm4args{
		Clientid: c.pendID, SetclientidConfirm: c.pendConf,
	}})
	if res.Status == nfsv4.NFS4_OK {
		if !c.haveID || c.id != c.pendID {
			// A new registration replaces the old one: all state
			// of the previous instance is gone.
			if c.haveID {
				c.w.locks.releaseClient(0, c.long)
				_, opens := c.allOpens()
				for _, op := range opens {
					op.valid = false
					for _, l := range op.locks {
						l.valid = false
					}
				}
				for _, o := range c.owners {
					o.confirmed = false
				}
			}
			c.haveID, c.id, c.idVerf = true, c.pendID, c.pendVerf
			c.renew()
		}
	}
	return res.Status
}

// seqRequest40 describes one request that consumes an owner sequence
// number, in a form that can be sent with different numbers.
type seqRequest40 struct {
	what  string
	kind  string   // operation type, as far as the replay cache is concerned
	other [12]byte // state ID the replay guard compares (zero: unguarded)
	oo    *owner40 // primary owner: exactly one of oo/lo
	lo    *lowner40
	// tracked: the server is known to track the primary owner's
	// sequence (confirmed open-owner with an open file, lock-owner
	// with lock state), so that misordered numbers must be refused.
	tracked bool
	build   func(seq uint32) []nfsv4.NfsArgop4
	idx     int
}

func (r *seqRequest40) lastSeq() uint32 {
	if r.oo != nil {
		return r.oo.seq
	}
	return r.lo.seq
}

func (r *seqRequest40) lastKind() (string, [12]byte) {
	if r.oo != nil {
		return r.oo.lastKind, r.oo.lastOther
	}
	return r.lo.lastKind, r.lo.lastOther
}

func nextSeq(s uint32) uint32 {
	if s == 0xffffffff {
		return 1
	}
	return s + 1
}

// snapshot renders everything a refused or retransmitted request must
// leave unchanged.
func (w *world) snapshot() string { return w.serverDump() + w.fs.sideEffects() }

// send runs a sequenced request the way a real client would (next
// number), surrounded, when C19 is being checked, by the misordered, the
// false-retry and the retransmitted variants.
func (c *client40) send(f failer, r *seqRequest40) *nfsv4.Compound4res {
	c.touch()
	w := c.w
	last := r.lastSeq()
	next := nextSeq(last)
	if mc.Active("C19") && r.tracked {
		before := w.snapshot()
		// A number from the future.
		res := w.compound(0, r.what+"(seqid+2)", r.build(nextSeq(next))...)
		if st := opStatus(res, r.idx); st != nfsv4.NFS4ERR_BAD_SEQID {
			f.FailP("C19", "misordered-accepted/"+r.kind, "%s with an owner sequence number one beyond the next one was answered %d instead of NFS4ERR_BAD_SEQID", r.what, st)
		}
		if after := w.snapshot(); after != before {
			f.FailP("C19", "misordered-side-effect/"+r.kind, "%s with a misordered sequence number changed state:\n--- before\n%s\n--- after\n%s", r.what, before, after)
		}
		// The previous number with different content: must not be
		// answered with the previous request's cached reply.
		lk, lo := r.lastKind()
		if lk != "" && (lk != r.kind || (r.other != [12]byte{} && lo != r.other)) {
			res := w.compound(0, r.what+"(seqid-1)", r.build(last)...)
			if st := opStatus(res, r.idx); st != nfsv4.NFS4ERR_BAD_SEQID {
				f.FailP("C19", "false-retry-answered/"+r.kind, "%s sent with the sequence number of the preceding %s request was answered %d instead of NFS4ERR_BAD_SEQID", r.what, lk, st)
			}
			if after := w.snapshot(); after != before {
				f.FailP("C19", "false-retry-side-effect/"+r.kind, "%s sent with the previous sequence number changed state:\n--- before\n%s\n--- after\n%s", r.what, before, after)
			}
		}
	}
	res := w.compound(0, r.what, r.build(next)...)
	st := opStatus(res, r.idx)
	if consumed(st) && r.idx < len(res.Resarray) {
		if r.oo != nil {
			r.oo.seq, r.oo.lastKind, r.oo.lastOther = next, r.kind, r.other
		} else {
			r.lo.seq, r.lo.lastKind, r.lo.lastOther = next, r.kind, r.other
		}
	}
	if mc.Active("C19") {
		before := w.snapshot()
		res2 := w.compound(0, r.what+"(retransmitted)", r.build(next)...)
		// The retransmission is the identical COMPOUND, operations
		// before the sequenced one included (PUTFH of the handle the
		// client used the first time). NFSv4.0 detects replays at the
		// sequenced operation; the unsequenced operations before it are
		// executed again. Rule: if the ORIGINAL sequenced operation
		// succeeded (NFS4_OK: the request took effect), the
		// retransmission must reach it again and get the original reply:
		// a file that was unlinked while open is resolvable by handle
		// only through the server's opened files pool (fakeFS.resolve,
		// like the real handle allocators, forgets unlinked leaves), so
		// the server has to keep that entry for as long as it keeps the
		// cached reply (two-phase close). If the original sequenced
		// operation itself failed, a retransmission that fails earlier
		// is accepted (e.g. an OPEN CLAIM_PREVIOUS that made the server
		// discard the owner's unconfirmed open, the only thing that kept
		// the handle alive, and was then refused NFS4ERR_RECLAIM_BAD);
		// "nothing changes" is demanded below in every case.
		if consumed(st) && r.idx < len(res.Resarray) {
			if r.idx >= len(res2.Resarray) {
				if st == nfsv4.NFS4_OK {
					f.FailP("C19", "retransmission-different-reply/"+r.kind, "retransmitted COMPOUND with %s: the first reply had %d results (status %d, %s answered NFS4_OK), the retransmission of the identical COMPOUND failed before it reached %s: %d results, status %d (leaves still linked: %s)", r.what, len(res.Resarray), res.Status, r.kind, r.kind, len(res2.Resarray), res2.Status, w.fs.linkedNames())
				}
			} else if !bytes.Equal(encodeOp(res.Resarray[r.idx]), encodeOp(res2.Resarray[r.idx])) {
				f.FailP("C19", "retransmission-different-reply/"+r.kind, "retransmitted %s: first reply status %d, second reply status %d, XDR bytes differ", r.what, st, opStatus(res2, r.idx))
			} else if (r.kind != "OPEN" || w.strictOpenReplay) && !bytes.Equal(encodeRes(res), encodeRes(res2)) {
				// The sequenced operation was answered from the
				// replay cache, but the operations after it in
				// the same COMPOUND (GETFH) see a different
				// current filehandle than the first time.
				f.FailP("C19", "retransmission-different-compound/"+r.kind, "retransmitted COMPOUND with %s: the %s result is repeated, but the rest of the reply differs: first %d results status %d [%x], second %d results status %d [%x]", r.what, r.kind, len(res.Resarray), res.Status, encodeRes(res), len(res2.Resarray), res2.Status, encodeRes(res2))
			}
		}
		if after := w.snapshot(); after != before {
			f.FailP("C19", "retransmission-side-effect/"+r.kind, "retransmitted %s (first reply %d) changed state:\n--- before\n%s\n--- after\n%s", r.what, st, before, after)
		}
	}
	return res
}

func (c *client40) tracked(o *owner40) bool {
	if !c.haveID || !c.alive || !o.confirmed {
		return false
	}
	_, ok := c.w.names40["confirmed:"+cidKey(c.id)[4:]]
	if !ok {
		return false
	}
	for _, op := range o.files {
		if op.valid && !op.gone {
			return true
		}
	}
	return false
}

const (
	accRead  = nfsv4.OPEN4_SHARE_ACCESS_READ
	accWrite = nfsv4.OPEN4_SHARE_ACCESS_WRITE
	accBoth  = nfsv4.OPEN4_SHARE_ACCESS_BOTH
)

type openHow int

const (
	howNoCreate openHow = iota
	howUnchecked
	howUncheckedTruncate
	howGuarded
)

func (h openHow) String() string {
	return [...]string{"nocreate", "unchecked", "unchecked+truncate", "guarded"}[h]
}

func sizeAttr(size uint64) nfsv4.Fattr4 {
	var b bytes.Buffer
	nfsv4.WriteUint64T(&b, size)
	return nfsv4.Fattr4{Attrmask: nfsv4.Bitmap4{1 << nfsv4.FATTR4_SIZE}, AttrVals: b.Bytes()}
}

func openflag(h openHow) nfsv4.Openflag4 {
	switch h {
	case howUnchecked:
		return &nfsv4.Openflag4_OPEN4_CREATE{How: &nfsv4.Createhow4_UNCHECKED4{}}
	case howUncheckedTruncate:
		return &nfsv4.Openflag4_OPEN4_CREATE{How: &nfsv4.Createhow4_UNCHECKED4{Createattrs: sizeAttr(0)}}
	case howGuarded:
		return &nfsv4.Openflag4_OPEN4_CREATE{How: &nfsv4.Createhow4_GUARDED4{}}
	}
	return &nfsv4.Openflag4_default{Opentype: nfsv4.OPEN4_NOCREATE}
}

// open sends OPEN. With previous set, the file is claimed by handle
// (CLAIM_PREVIOUS) instead of by name.
func (c *client40) open(f failer, ownerName, file string, access uint32, how openHow, previous bool) nfsv4.Nfsstat4 {
	o := c.owner(ownerName)
	var first nfsv4.NfsArgop4 = &nfsv4.NfsArgop4_OP_PUTROOTFH{}
	var claim nfsv4.OpenClaim4 = &nfsv4.OpenClaim4_CLAIM_NULL{File: file}
	if previous {
		prev := o.files[file]
		if prev == nil {
			return nfsv4.NFS4ERR_RECLAIM_BAD
		}
		first = putfh(prev.leaf.handle)
		claim = &nfsv4.OpenClaim4_CLAIM_PREVIOUS{DelegateType: nfsv4.OPEN_DELEGATE_NONE}
	}
	hadEntitled := false
	for _, op := range o.files {
		if c.entitled(o, op) {
			hadEntitled = true
		}
	}
	wasAlive := c.haveID && c.alive
	req := &seqRequest40{
		what: fmt.Sprintf("OPEN(%s,%s,%s)", c.long, ownerName, file), kind: "OPEN", oo: o, tracked: c.tracked(o), idx: 1,
		build: func(seq uint32) []nfsv4.NfsArgop4 {
			return []nfsv4.NfsArgop4{first, &nfsv4.NfsArgop4_OP_OPEN{Opopen: nfsv4.Open4args{
				Seqid: seq, ShareAccess: access, ShareDeny: nfsv4.OPEN4_SHARE_DENY_NONE,
				Owner: nfsv4.OpenOwner4{Clientid: c.id, Owner: []byte(ownerName)}, Openhow: openflag(how), Claim: claim,
			}}, &nfsv4.NfsArgop4_OP_GETFH{}}
		},
	}
	res := c.send(f, req)
	st := opStatus(res, 1)
	if st == nfsv4.NFS4ERR_STALE_CLIENTID && wasAlive {
		f.FailP("C18", "client-forgotten", "OPEN by NFSv4.0 client %s, which renewed its lease %s ago, was answered NFS4ERR_STALE_CLIENTID", c.long, c.w.clk.Now().Sub(c.lastRenew))
	}
	if st != nfsv4.NFS4_OK || len(res.Resarray) < 3 {
		return st
	}
	ok := res.Resarray[1].(*nfsv4.NfsResop4_OP_OPEN).Opopen.(*nfsv4.Open4res_NFS4_OK)
	fh, isFH := res.Resarray[2].(*nfsv4.NfsResop4_OP_GETFH).Opgetfh.(*nfsv4.Getfh4res_NFS4_OK)
	if !isFH {
		f.FailP("C18", "open-without-filehandle", "OPEN succeeded but GETFH failed")
		return st
	}
	leaf := c.w.fs.leafByHandle(fh.Resok4.Object)
	if leaf == nil {
		f.FailP("C18", "open-unknown-filehandle", "OPEN returned unknown file handle %q", fh.Resok4.Object)
		return st
	}
	c.renew()
	if ok.Resok4.Rflags&nfsv4.OPEN4_RESULT_CONFIRM != 0 {
		// The server treats the open-owner as new: whatever it had
		// open before has been discarded.
		if hadEntitled {
			f.FailP("C18", "open-owner-forgotten", "OPEN by confirmed open-owner %s of client %s, which holds open files, asked for OPEN_CONFIRM", ownerName, c.long)
		}
		o.confirmed = false
		for _, op := range o.files {
			op.valid = false
		}
		for _, op := range o.older {
			op.valid = false
		}
	} else {
		o.confirmed = true
	}
	if cur := o.files[file]; cur != nil && cur.leaf == leaf && cur.valid && !cur.gone && cur.sid.Other == ok.Resok4.Stateid.Other {
		cur.bits |= access
		cur.sid = ok.Resok4.Stateid
	} else {
		if cur != nil {
			o.older = append(o.older, cur)
		}
		o.files[file] = &open40{leaf: leaf, sid: ok.Resok4.Stateid, bits: access, valid: true, locks: map[string]*lock40{}}
	}
	return st
}

func (c *client40) openConfirm(f failer, ownerName, file string) nfsv4.Nfsstat4 {
	o := c.owner(ownerName)
	op := o.files[file]
	req := &seqRequest40{
		what: fmt.Sprintf("OPEN_CONFIRM(%s,%s,%s)", c.long, ownerName, file), kind: "OPEN_CONFIRM", other: op.sid.Other, oo: o, tracked: c.tracked(o), idx: 1,
		build: func(seq uint32) []nfsv4.NfsArgop4 {
			return []nfsv4.NfsArgop4{putfh(op.leaf.handle), &nfsv4.NfsArgop4_OP_OPEN_CONFIRM{OpopenConfirm: nfsv4.OpenConfirm4args{OpenStateid: op.sid, Seqid: seq}}}
		},
	}
	res := c.send(f, req)
	st := opStatus(res, 1)
	if st == nfsv4.NFS4_OK {
		ok := res.Resarray[1].(*nfsv4.NfsResop4_OP_OPEN_CONFIRM).OpopenConfirm.(*nfsv4.OpenConfirm4res_NFS4_OK)
		op.sid = ok.Resok4.OpenStateid
		o.confirmed = true
		c.renew()
	}
	return st
}

func (c *client40) downgrade(f failer, ownerName, file string, access uint32) nfsv4.Nfsstat4 {
	o := c.owner(ownerName)
	op := o.files[file]
	entitled := c.entitled(o, op)
	req := &seqRequest40{
		what: fmt.Sprintf("OPEN_DOWNGRADE(%s,%s,%s,%d)", c.long, ownerName, file, access), kind: "OPEN_DOWNGRADE", other: op.sid.Other, oo: o, tracked: c.tracked(o), idx: 1,
		build: func(seq uint32) []nfsv4.NfsArgop4 {
			return []nfsv4.NfsArgop4{putfh(op.leaf.handle), &nfsv4.NfsArgop4_OP_OPEN_DOWNGRADE{OpopenDowngrade: nfsv4.OpenDowngrade4args{OpenStateid: op.sid, Seqid: seq, ShareAccess: access}}}
		},
	}
	res := c.send(f, req)
	st := opStatus(res, 1)
	if st == nfsv4.NFS4_OK {
		ok := res.Resarray[1].(*nfsv4.NfsResop4_OP_OPEN_DOWNGRADE).OpopenDowngrade.(*nfsv4.OpenDowngrade4res_NFS4_OK)
		op.sid = ok.Resok4.OpenStateid
		op.bits = access
		c.renew()
	} else if entitled && access&^op.bits == 0 {
		failBoth(f, "entitled-refused/OPEN_DOWNGRADE", "OPEN_DOWNGRADE of %s by client %s owner %s with a valid state ID and the next sequence number was answered %d", op.leaf.id, c.long, ownerName, st)
	}
	return st
}

func failBoth(f failer, fp, format string, args ...any) {
	f.FailP("C18", fp, format, args...)
	f.FailP("C19", fp, format, args...)
}

func (c *client40) close(f failer, ownerName string, op *open40) nfsv4.Nfsstat4 {
	o := c.owner(ownerName)
	entitled := c.entitled(o, op)
	req := &seqRequest40{
		what: fmt.Sprintf("CLOSE(%s,%s,%s)", c.long, ownerName, op.leaf.id), kind: "CLOSE", other: op.sid.Other, oo: o, tracked: c.tracked(o), idx: 1,
		build: func(seq uint32) []nfsv4.NfsArgop4 {
			return []nfsv4.NfsArgop4{putfh(op.leaf.handle), &nfsv4.NfsArgop4_OP_CLOSE{Opclose: nfsv4.Close4args{Seqid: seq, OpenStateid: op.sid}}}
		},
	}
	res := c.send(f, req)
	st := opStatus(res, 1)
	if st == nfsv4.NFS4_OK {
		op.valid = false
		for _, ln := range sortedKeys(op.locks) {
			op.locks[ln].valid = false
			c.w.locks.releaseOwner(op.leaf.id, ownerKey(0, c.long, ln))
		}
		c.renew()
	} else if entitled {
		failBoth(f, "entitled-refused/CLOSE", "CLOSE of %s by client %s owner %s with a valid state ID and the next sequence number was answered %d", op.leaf.id, c.long, ownerName, st)
	}
	return st
}

func lockType(shared bool) nfsv4.NfsLockType4 {
	if shared {
		return nfsv4.READ_LT
	}
	return nfsv4.WRITE_LT
}

// lock sends LOCK: through the open state ID if the lock-owner has no
// lock state on this open yet (Locker4_TRUE), through the lock state ID
// otherwise.
func (c *client40) lock(f failer, ownerName, file, lownerName string, r lockRange, shared bool) nfsv4.Nfsstat4 {
	c.touch()
	w := c.w
	o := c.owner(ownerName)
	op := o.files[file]
	lo := c.lowner(lownerName)
	me := ownerKey(0, c.long, lownerName)
	entitled := c.entitled(o, op)
	existing := op.locks[lownerName]
	useExisting := existing != nil && existing.valid && !existing.gone
	var req *seqRequest40
	what := fmt.Sprintf("LOCK(%s,%s,%s,%s,%s,shared=%v)", c.long, ownerName, op.leaf.id, lownerName, r.name, shared)
	if useExisting {
		req = &seqRequest40{what: what, kind: "LOCK", other: existing.sid.Other, lo: lo, tracked: entitled, idx: 1,
			build: func(seq uint32) []nfsv4.NfsArgop4 {
				return []nfsv4.NfsArgop4{putfh(op.leaf.handle), &nfsv4.NfsArgop4_OP_LOCK{Oplock: nfsv4.Lock4args{
					Locktype: lockType(shared), Offset: r.offset, Length: r.length,
					Locker: &nfsv4.Locker4_FALSE{LockOwner: nfsv4.ExistLockOwner4{LockStateid: existing.sid, LockSeqid: seq}},
				}}}
			}}
	} else {
		lseq := nextSeq(lo.seq)
		buildWith := func(seq, lockSeq uint32) []nfsv4.NfsArgop4 {
			return []nfsv4.NfsArgop4{putfh(op.leaf.handle), &nfsv4.NfsArgop4_OP_LOCK{Oplock: nfsv4.Lock4args{
				Locktype: lockType(shared), Offset: r.offset, Length: r.length,
				Locker: &nfsv4.Locker4_TRUE{OpenOwner: nfsv4.OpenToLockOwner4{
					OpenSeqid: seq, OpenStateid: op.sid, LockSeqid: lockSeq,
					LockOwner: nfsv4.LockOwner4{Clientid: c.id, Owner: []byte(lownerName)},
				}},
			}}}
		}
		req = &seqRequest40{what: what, kind: "LOCK", oo: o, tracked: c.tracked(o), idx: 1,
			build: func(seq uint32) []nfsv4.NfsArgop4 { return buildWith(seq, lseq) }}
		if mc.Active("C19") && req.tracked && entitled && c.lownerTracked(lownerName) {
			c.probeLockSeqid(f, what, o, lo, buildWith)
		}
	}
	res := c.send(f, req)
	st := opStatus(res, 1)
	if !useExisting && consumed(st) && len(res.Resarray) > 1 {
		// The nested lock-owner transaction consumed the lock
		// sequence number as well (unless the open-owner part
		// failed first, which only happens with errors that do
		// not advance anything).
		if st == nfsv4.NFS4_OK || st == nfsv4.NFS4ERR_DENIED || st == nfsv4.NFS4ERR_INVAL {
			lo.seq, lo.lastKind, lo.lastOther = nextSeq(lo.seq), "LOCK", [12]byte{}
		}
	}
	start, end, rok := rangeOf(r.offset, r.length)
	if entitled {
		// The outcome is fully determined by the reference model.
		want := nfsv4.NFS4_OK
		if !rok {
			want = nfsv4.NFS4ERR_INVAL
		} else if w.locks.conflict(op.leaf.id, me, start, end, shared) != nil {
			want = nfsv4.NFS4ERR_DENIED
		}
		if st != want {
			fp := fmt.Sprintf("lock-result/%d-instead-of-%d", st, want)
			if st == nfsv4.NFS4ERR_DENIED {
				if d, is := res.Resarray[1].(*nfsv4.NfsResop4_OP_LOCK).Oplock.(*nfsv4.Lock4res_NFS4ERR_DENIED); is {
					if holder, ok := w.protocolOwner(d.Denied.Owner.Clientid, string(d.Denied.Owner.Owner)); ok && holder == me {
						fp = "denied-by-own-lock"
					}
				}
			}
			f.FailP("C20", fp, "%s was answered %d, the reference model (locks: %s) says %d", what, st, segments(w.locks.files[op.leaf.id]), want)
		}
	}
	switch st {
	case nfsv4.NFS4_OK:
		ok := res.Resarray[1].(*nfsv4.NfsResop4_OP_LOCK).Oplock.(*nfsv4.Lock4res_NFS4_OK)
		if useExisting {
			existing.sid = ok.Resok4.LockStateid
		} else {
			op.locks[lownerName] = &lock40{sid: ok.Resok4.LockStateid, bits: op.bits, valid: true}
		}
		if rok {
			mode := 1
			if shared {
				mode = 2
			}
			w.locks.set(op.leaf.id, me, start, end, mode)
		}
		c.renew()
	case nfsv4.NFS4ERR_DENIED:
		if d, is := res.Resarray[1].(*nfsv4.NfsResop4_OP_LOCK).Oplock.(*nfsv4.Lock4res_NFS4ERR_DENIED); is && rok {
			w.locks.checkDenied(w, f, what, op.leaf.id, me, start, end, shared, &d.Denied)
		}
	}
	return st
}

// lownerTracked: the server is known to track the lock-owner's sequence
// number, because the lock-owner holds lock state on some open file of this
// client (RELEASE_LOCKOWNER, CLOSE and expiry make the server forget it; a
// forgotten lock-owner is re-created with ANY lock_seqid).
func (c *client40) lownerTracked(lownerName string) bool {
	if !c.haveID || !c.alive {
		return false
	}
	owners, opens := c.allOpens()
	for i, op := range opens {
		if l := op.locks[lownerName]; l != nil && l.valid && !l.gone && c.entitled(owners[i], op) {
			return true
		}
	}
	return false
}

var (
	reOwnerLast = regexp.MustCompile(`(?m)^(  oo "[^"]*" confirmed=\S+ lastSeq=\d+) last=\S+`)
	reConfAge   = regexp.MustCompile(` age=\S+`)
	reIdleOrder = regexp.MustCompile(`(?m)^idle:.*$`)
)

// normLockSeqidProbe hides what a LOCK with the open-owner's NEXT sequence
// number but a misordered lock-owner sequence number may legitimately
// change: the open-owner's transaction is started (its cached previous reply
// is released: the client has moved on) and the client's lease is renewed;
// the nested lock-owner transaction is refused, so neither sequence number
// advances and nothing else may change.
func normLockSeqidProbe(s string) string {
	s = reOwnerLast.ReplaceAllString(s, "$1 last=*")
	s = reConfAge.ReplaceAllString(s, " age=*")
	return reIdleOrder.ReplaceAllString(s, "idle:*")
}

// probeLockSeqid: LOCK in the open_to_lock_owner4 form for a lock-owner that
// the server already tracks through ANOTHER open file. open_seqid is in
// order, lock_seqid is neither the lock-owner's next nor its last number: the
// request must be refused NFS4ERR_BAD_SEQID and must not acquire anything.
func (c *client40) probeLockSeqid(f failer, what string, o *owner40, lo *lowner40, build func(seq, lockSeq uint32) []nfsv4.NfsArgop4) {
	w := c.w
	if o.lastKind == "CLOSE" {
		// The open-owner's next transaction finalizes the half-closed
		// file of its preceding CLOSE: a legitimate change.
		return
	}
	for _, bad := range []uint32{nextSeq(nextSeq(lo.seq)), lo.seq - 1, lo.seq + 76} {
		before := normLockSeqidProbe(w.snapshot())
		res := w.compound(0, what+"(lock_seqid misordered)", build(nextSeq(o.seq), bad)...)
		if st := opStatus(res, 1); st != nfsv4.NFS4ERR_BAD_SEQID {
			f.FailP("C19", "misordered-accepted/LOCK", "%s in the open_to_lock_owner4 form with the next open_seqid but lock_seqid %d (lock-owner %s exists through another open file, its last sequence number is %d) was answered %d instead of NFS4ERR_BAD_SEQID", what, bad, lo.name, lo.seq, st)
		}
		if after := normLockSeqidProbe(w.snapshot()); after != before {
			f.FailP("C19", "misordered-side-effect/LOCK", "%s with a misordered lock_seqid (%d, last %d) changed state:\n--- before\n%s\n--- after\n%s", what, bad, lo.seq, before, after)
		}
	}
}

func (c *client40) locku(f failer, ownerName, file, lownerName string, r lockRange) nfsv4.Nfsstat4 {
	w := c.w
	o := c.owner(ownerName)
	op := o.files[file]
	lo := c.lowner(lownerName)
	l := op.locks[lownerName]
	entitled := c.entitled(o, op) && l.valid && !l.gone
	what := fmt.Sprintf("LOCKU(%s,%s,%s,%s)", c.long, op.leaf.id, lownerName, r.name)
	req := &seqRequest40{what: what, kind: "LOCKU", other: l.sid.Other, lo: lo, tracked: entitled, idx: 1,
		build: func(seq uint32) []nfsv4.NfsArgop4 {
			return []nfsv4.NfsArgop4{putfh(op.leaf.handle), &nfsv4.NfsArgop4_OP_LOCKU{Oplocku: nfsv4.Locku4args{
				Locktype: nfsv4.WRITE_LT, Seqid: seq, LockStateid: l.sid, Offset: r.offset, Length: r.length,
			}}}
		}}
	res := c.send(f, req)
	st := opStatus(res, 1)
	start, end, rok := rangeOf(r.offset, r.length)
	if entitled {
		want := nfsv4.NFS4_OK
		if !rok {
			want = nfsv4.NFS4ERR_INVAL
		}
		if st != want {
			f.FailP("C20", fmt.Sprintf("locku-result/%d-instead-of-%d", st, want), "%s was answered %d instead of %d", what, st, want)
		}
	}
	if st == nfsv4.NFS4_OK {
		ok := res.Resarray[1].(*nfsv4.NfsResop4_OP_LOCKU).Oplocku.(*nfsv4.Locku4res_NFS4_OK)
		l.sid = ok.LockStateid
		if rok {
			w.locks.set(op.leaf.id, ownerKey(0, c.long, lownerName), start, end, 0)
		}
		c.renew()
	}
	return st
}

// lockt sends LOCKT for a lock-owner of this client against a leaf.
func (c *client40) lockt(f failer, leaf *fakeLeaf, lownerName string, r lockRange, shared bool) nfsv4.Nfsstat4 {
	c.touch()
	w := c.w
	me := ownerKey(0, c.long, lownerName)
	what := fmt.Sprintf("LOCKT(%s,%s,%s,%s,shared=%v)", c.long, leaf.id, lownerName, r.name, shared)
	wasAlive := c.haveID && c.alive
	res := w.compound(0, what, putfh(leaf.handle), &nfsv4.NfsArgop4_OP_LOCKT{Oplockt: nfsv4.Lockt4args{
		Locktype: lockType(shared), Offset: r.offset, Length: r.length, Owner: nfsv4.LockOwner4{Clientid: c.id, Owner: []byte(lownerName)},
	}})
	st := opStatus(res, 1)
	if len(res.Resarray) < 2 {
		return st
	}
	start, end, rok := rangeOf(r.offset, r.length)
	if wasAlive {
		want := nfsv4.NFS4_OK
		if !rok {
			want = nfsv4.NFS4ERR_INVAL
		} else if w.locks.conflict(leaf.id, me, start, end, shared) != nil {
			want = nfsv4.NFS4ERR_DENIED
		}
		if st != want {
			fp := fmt.Sprintf("lockt-result/%d-instead-of-%d", st, want)
			if st == nfsv4.NFS4ERR_DENIED {
				if d, is := res.Resarray[1].(*nfsv4.NfsResop4_OP_LOCKT).Oplockt.(*nfsv4.Lockt4res_NFS4ERR_DENIED); is {
					if holder, ok := w.protocolOwner(d.Denied.Owner.Clientid, string(d.Denied.Owner.Owner)); ok && holder == me {
						fp = "lockt-denied-by-own-lock"
					}
				}
			}
			f.FailP("C20", fp, "%s was answered %d, but the same LOCK would be answered %d according to the reference model (locks: %s)", what, st, want, segments(w.locks.files[leaf.id]))
		}
	}
	if st == nfsv4.NFS4ERR_DENIED && rok {
		if d, is := res.Resarray[1].(*nfsv4.NfsResop4_OP_LOCKT).Oplockt.(*nfsv4.Lockt4res_NFS4ERR_DENIED); is {
			w.locks.checkDenied(w, f, what, leaf.id, me, start, end, shared, &d.Denied)
		}
	}
	if st == nfsv4.NFS4_OK || st == nfsv4.NFS4ERR_DENIED {
		c.renew()
	}
	return st
}

func (c *client40) releaseLockowner(f failer, lownerName string) nfsv4.Nfsstat4 {
	c.touch()
	w := c.w
	wasAlive := c.haveID && c.alive
	me := ownerKey(0, c.long, lownerName)
	res := w.compound(0, "RELEASE_LOCKOWNER", &nfsv4.NfsArgop4_OP_RELEASE_LOCKOWNER{OpreleaseLockowner: nfsv4.ReleaseLockowner4args{
		LockOwner: nfsv4.LockOwner4{Clientid: c.id, Owner: []byte(lownerName)},
	}})
	st := res.Status
	if wasAlive {
		want := nfsv4.NFS4_OK
		if w.locks.holds(me) {
			want = nfsv4.NFS4ERR_LOCKS_HELD
		}
		if st != want {
			f.FailP("C20", fmt.Sprintf("release-lockowner-result/%d-instead-of-%d", st, want), "RELEASE_LOCKOWNER(%s,%s) was answered %d; the reference model (holds bytes: %v) says %d", c.long, lownerName, st, w.locks.holds(me), want)
		}
	}
	if st == nfsv4.NFS4_OK {
		_, opens := c.allOpens()
		for _, op := range opens {
			if l := op.locks[lownerName]; l != nil {
				l.valid = false
			}
		}
		c.renew()
	}
	return st
}

// stateidKind selects which state ID an I/O request presents.
type stateidKind int

const (
	sidOpen stateidKind = iota
	sidLock
	sidAnonymous
	sidBypass
	sidForeign // syntactically valid, never issued
)

var (
	anonymousSID = nfsv4.Stateid4{}
	bypassSID    = nfsv4.Stateid4{Seqid: 0xffffffff, Other: [12]byte{0xff, 0xff, 0xff, 0xff, 0xff, 0xff, 0xff, 0xff, 0xff, 0xff, 0xff, 0xff}}
)

func foreignSID40() nfsv4.Stateid4 {
	s := nfsv4.Stateid4{Seqid: 1}
	copy(s.Other[:], stateIDPrefix[:])
	s.Other[4] = 0x77
	return s
}

type ioKind int

const (
	ioRead ioKind = iota
	ioWrite
	ioSetattr
)

func (k ioKind) String() string { return [...]string{"READ", "WRITE", "SETATTR"}[k] }

func ioOp(k ioKind, sid nfsv4.Stateid4) nfsv4.NfsArgop4 {
	switch k {
	case ioRead:
		return &nfsv4.NfsArgop4_OP_READ{Opread: nfsv4.Read4args{Stateid: sid, Offset: 0, Count: 4}}
	case ioWrite:
		return &nfsv4.NfsArgop4_OP_WRITE{Opwrite: nfsv4.Write4args{Stateid: sid, Offset: 0, Stable: nfsv4.FILE_SYNC4, Data: []byte("x")}}
	}
	return &nfsv4.NfsArgop4_OP_SETATTR{Opsetattr: nfsv4.Setattr4args{Stateid: sid, ObjAttributes: sizeAttr(3)}}
}

func (k ioKind) needs() uint32 {
	if k == ioRead {
		return accRead
	}
	return accWrite
}

// io sends READ/WRITE/SETATTR(size) against a leaf with the given state
// ID. entitledBits are the access bits the bookkeeper believes the state
// ID entitles to (0: no claim).
func (c *client40) io(f failer, k ioKind, leaf *fakeLeaf, sid nfsv4.Stateid4, entitledBits uint32, regular bool) nfsv4.Nfsstat4 {
	c.touch()
	what := fmt.Sprintf("%s(%s,%s)", k, c.long, leaf.id)
	res := c.w.compound(0, what, putfh(leaf.handle), ioOp(k, sid))
	st := opStatus(res, 1)
	if entitledBits&k.needs() != 0 {
		if st != nfsv4.NFS4_OK {
			f.FailP("C18", "entitled-refused/"+k.String(), "%s with a state ID that entitles client %s to that access was answered %d", what, c.long, st)
		}
	}
	if regular && st == nfsv4.NFS4_OK {
		c.renew()
	}
	return st
}

func (c *client40) renewOp(f failer) nfsv4.Nfsstat4 {
	c.touch()
	wasAlive := c.haveID && c.alive
	res := c.w.compound(0, "RENEW", &nfsv4.NfsArgop4_OP_RENEW{Oprenew: nfsv4.Renew4args{Clientid: c.id}})
	if res.Status == nfsv4.NFS4_OK {
		c.renew()
	} else if wasAlive {
		f.FailP("C18", "client-forgotten", "RENEW by NFSv4.0 client %s, which renewed its lease %s ago, was answered %d", c.long, c.w.clk.Now().Sub(c.lastRenew), res.Status)
	}
	return res.Status
}

// closeEverything is reclaim oracle (i): the client closes every file it
// knows to be open (confirming open-owners first where needed).
func (c *client40) closeEverything(f failer) {
	owners, opens := c.allOpens()
	for i, op := range opens {
		o := owners[i]
		if !op.valid || op.gone {
			continue
		}
		if !o.confirmed {
			// Only the latest open of an unconfirmed open-owner
			// can be confirmed.
			if o.files[op.leaf.name] != op {
				continue
			}
			if st := c.openConfirm(f, o.name, op.leaf.name); st != nfsv4.NFS4_OK {
				continue
			}
		}
		c.close(f, o.name, op)
	}
}
