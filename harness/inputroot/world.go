package inputroot

// The system under test wired like bb_worker does, the reference model
// (the tree denoted by the Directory messages plus local modifications),
// the alphabet of operations and the oracles of property C17.

import (
	"bytes"
	"context"
	"fmt"
	"sort"
	"strings"

	"verif/mc"

	"github.com/buildbarn/bb-remote-execution/pkg/builder"
	"github.com/buildbarn/bb-remote-execution/pkg/cas"
	"github.com/buildbarn/bb-remote-execution/pkg/filesystem/access"
	"github.com/buildbarn/bb-remote-execution/pkg/filesystem/pool"
	"github.com/buildbarn/bb-remote-execution/pkg/filesystem/virtual"
	"github.com/buildbarn/bb-storage/pkg/digest"
	"github.com/buildbarn/bb-storage/pkg/filesystem"
	"github.com/buildbarn/bb-storage/pkg/filesystem/path"
	"google.golang.org/grpc/codes"
	"google.golang.org/grpc/status"
)

const prop = "C17"

var ctx = context.Background()

func mk(name string) path.Component { return path.MustNewComponent(name) }

const attrMask = virtual.AttributesMaskFileType | virtual.AttributesMaskPermissions | virtual.AttributesMaskSizeBytes |
	virtual.AttributesMaskSymlinkTarget | virtual.AttributesMaskInodeNumber | virtual.AttributesMaskLinkCount

var localData = []byte("LOCAL")

// config of one Seq.
type config struct {
	tag           string
	nfs           bool // NFS handle allocator (reference counted stateless leaves), else FUSE
	cacheCount    int  // maximum number of Directory objects in the CachingDirectoryFetcher
	warm          bool // second tree is fully explored first: every Directory comes from the cache
	explicitMerge bool // MergeDirectoryContents is a letter (so that the fault can precede it)
	monitor       bool // MergeDirectoryContents gets an access monitor (file system access profiling)
	corrupt       bool // alphabet has the two 'file blobs are served corrupted from now on' letters
	maxMods       int  // maximum number of successful local modifications per history
	depth         map[string]int
}

// ---------------------------------------------------------------------
// Reference model.

type mnode struct {
	kind int
	// kDir: index of the Directory message it is backed by, -1 for a
	// directory created locally.
	spec int
	// kids == nil: not materialised yet (equal to the denotation of spec).
	kids  map[string]*mnode
	dirty bool // kids differ from the denotation of spec
	// kFile
	blob int
	exec bool
	// kSym
	target string
	// kLocalFile
	data []byte
}

func (w *world) nodeFromKid(k kid) *mnode {
	switch k.kind {
	case kDir:
		return &mnode{kind: kDir, spec: k.child}
	case kFile:
		return &mnode{kind: kFile, blob: k.blob, exec: k.exec}
	default:
		return &mnode{kind: kSym, target: k.target}
	}
}

func (w *world) loadable(n *mnode) bool { return n.spec < 0 || w.c.loadable(n.spec) }

func (w *world) why(n *mnode) string {
	if n.spec < 0 {
		return ""
	}
	if w.c.in.dirs[n.spec].absent {
		return "blob not in CAS"
	}
	return w.c.why[n.spec]
}

// mkids materialises the children of a loadable directory.
func (w *world) mkids(n *mnode) map[string]*mnode {
	if n.kids == nil {
		n.kids = map[string]*mnode{}
		if n.spec >= 0 {
			for _, k := range w.c.kids(n.spec) {
				n.kids[k.name] = w.nodeFromKid(k)
			}
		}
	}
	return n.kids
}

func sortedNames(m map[string]*mnode) []string {
	r := make([]string, 0, len(m))
	for n := range m {
		r = append(r, n)
	}
	sort.Strings(r)
	return r
}

// mresolve walks the model. It returns nil unless p names a directory all of
// whose proper ancestors are loadable.
func (w *world) mresolve(p string) *mnode {
	n := w.model
	for _, comp := range splitPath(p) {
		if n.kind != kDir || !w.loadable(n) {
			return nil
		}
		n = w.mkids(n)[comp]
		if n == nil {
			return nil
		}
	}
	if n.kind != kDir {
		return nil
	}
	return n
}

func (w *world) pristine(n *mnode) bool {
	if n.kind != kDir {
		return true
	}
	if n.spec < 0 || n.dirty {
		return false
	}
	for _, k := range n.kids {
		if !w.pristine(k) {
			return false
		}
	}
	return true
}

func (w *world) dumpModel(b *strings.Builder, n *mnode) {
	switch n.kind {
	case kFile:
		fmt.Fprintf(b, "F%d,%t", n.blob, n.exec)
	case kSym:
		fmt.Fprintf(b, "S%s", n.target)
	case kLocalFile:
		fmt.Fprintf(b, "W%s", n.data)
	case kDir:
		fmt.Fprintf(b, "D%d", n.spec)
		if !w.pristine(n) {
			b.WriteByte('{')
			for _, name := range sortedNames(n.kids) {
				b.WriteString(name)
				b.WriteByte(':')
				w.dumpModel(b, n.kids[name])
				b.WriteByte(' ')
			}
			b.WriteByte('}')
		}
	}
}

// sameObject: two entries that are one and the same leaf object, so that
// renaming one over the other is a no-op (POSIX hard link semantics). The
// NFS handle allocator deduplicates CAS files of one input root by (digest,
// executable bit).
func (w *world) sameObject(a, b *mnode) bool {
	return w.cfg.nfs && a.kind == kFile && b.kind == kFile && a.blob == b.blob && a.exec == b.exec
}

// ---------------------------------------------------------------------
// World.

type tree struct {
	bd     builder.BuildDirectory
	dir    virtual.PrepopulatedDirectory
	merged bool
}

type pend struct{ fp, msg string }

type world struct {
	c       *compiled
	cfg     config
	cas     *fakeCAS
	lru     *lruSet
	fetcher cas.DirectoryFetcher
	nfs     *virtual.NFSStatefulHandleAllocator
	alloc   virtual.StatefulHandleAllocator
	top     virtual.PrepopulatedDirectory
	syms    *countingSymlinkFactory
	pool    *memPool
	elog    *errLog
	trees   [2]*tree
	model   *mnode
	mods    int
	pending []pend
}

func noAttributes(virtual.AttributesMask, *virtual.Attributes) {}

func newWorld(c *compiled, cfg config) *world {
	w := &world{c: c, cfg: cfg, cas: newFakeCAS(c), lru: &lruSet{}, pool: &memPool{}, elog: &errLog{}}
	rng := &detRNG{s: 1}
	var alloc virtual.StatefulHandleAllocator
	if cfg.nfs {
		w.nfs = virtual.NewNFSHandleAllocator(rng)
		alloc = w.nfs
	} else {
		alloc = virtual.NewFUSEHandleAllocator(rng)
	}
	w.fetcher = cas.NewCachingDirectoryFetcher(
		cas.NewBlobAccessDirectoryFetcher(w.cas, 10000, 0),
		digest.KeyWithoutInstance, cfg.cacheCount, 1<<20, w.lru)
	w.top = virtual.NewInMemoryPrepopulatedDirectory(
		virtual.NewHandleAllocatingFileAllocator(
			virtual.NewPoolBackedFileAllocator(pool.EmptyFilePool, w.elog, noAttributes, virtual.NoNamedAttributesFactory),
			alloc),
		virtual.NewErrorSymlinkFactory(status.Error(codes.PermissionDenied, "Symlink outside build directory")),
		w.elog, alloc, sort.Sort, func(string) bool { return false }, fixedClock{},
		virtual.CaseSensitiveComponentNormalizer, noAttributes, virtual.NoNamedAttributesFactory)
	w.syms = &countingSymlinkFactory{base: virtual.NewHandleAllocatingSymlinkFactory(
		virtual.NewBaseSymlinkFactory(noAttributes), alloc.New(), path.UNIXFormat)}
	w.alloc = alloc
	w.trees[0] = w.newTree(0)
	w.model = &mnode{kind: kDir, spec: -1, kids: map[string]*mnode{}}
	if !cfg.explicitMerge {
		if cfg.warm {
			w.mergeInNew(1)
			o := &opctx{w: w, scope: "isolation/warm-"}
			o.walk(w.tree2().dir, &mnode{kind: kDir, spec: 0}, "")
			w.pending = append(w.pending, o.fails...)
		}
		w.mergeInNew(0)
	}
	return w
}

// newTree creates the build directory of one action the way bb_worker and
// LocalBuildExecutor do: a subdirectory of the shared top-level directory,
// hooks installed, "root" created inside it.
func (w *world) newTree(i int) *tree {
	d, err := w.top.CreateAndEnterPrepopulatedDirectory(mk(fmt.Sprintf("action%d", i+1)))
	if err != nil {
		panic(err)
	}
	bd := builder.NewVirtualBuildDirectory(d, w.fetcher, w.cas, w.syms, nil, w.alloc, noAttributes, fixedClock{})
	bd.InstallHooks(w.pool, w.elog)
	if err := bd.Mkdir(mk("root"), 0o777); err != nil {
		panic(err)
	}
	root, err := bd.EnterBuildDirectory(mk("root"))
	if err != nil {
		panic(err)
	}
	child, err := d.LookupChild(mk("root"))
	if err != nil {
		panic(err)
	}
	dir, _ := child.GetPair()
	return &tree{bd: root, dir: dir}
}

// tree2 is the build directory of a second action that uses the same input
// root digest, directory cache, handle allocator and symlink factory. It is
// created on first use (by the final oracle, or up front in the warm-cache
// configuration).
func (w *world) tree2() *tree {
	if w.trees[1] == nil {
		w.trees[1] = w.newTree(1)
	}
	return w.trees[1]
}

// mergeInNew merges during construction, where violations cannot be reported
// directly (the engine replays New silently); Check reports them.
func (w *world) mergeInNew(i int) {
	err := w.merge(i)
	if ok := w.c.loadable(0); ok != (err == nil) {
		w.pending = append(w.pending, pend{"merge/status", fmt.Sprintf("MergeDirectoryContents of tree %d: err=%v, root loadable=%t (%s)", i+1, err, ok, w.c.why[0])})
	}
}

func (w *world) merge(i int) error {
	t := w.trees[i]
	if i == 1 {
		t = w.tree2()
	}
	var monitor access.UnreadDirectoryMonitor
	if w.cfg.monitor {
		monitor = newFakeMonitor()
	}
	err := t.bd.MergeDirectoryContents(ctx, w.elog, w.c.dirDigest[0], monitor)
	if err == nil {
		t.merged = true
		if i == 0 {
			w.model = &mnode{kind: kDir, spec: 0}
		}
	}
	return err
}

// ---------------------------------------------------------------------
// Execution of one operation: every call into the code under test goes
// through call(), which notices whether the injected CAS failure fired.

type opctx struct {
	w     *world
	c     *mc.SeqCtx
	scope string // fingerprint prefix ("" for the explored tree)
	fails []pend // used when c == nil
}

func (o *opctx) fail(fp, format string, args ...any) {
	if o.c == nil {
		o.fails = append(o.fails, pend{o.scope + fp, fmt.Sprintf(format, args...)})
		return
	}
	o.c.FailP(prop, o.scope+fp, format, args...)
}

func (o *opctx) logf(format string, args ...any) {
	if o.c != nil {
		o.c.Logf(format, args...)
	}
}

// call runs f, which reports whether the call succeeded. It returns true if
// the operation has to be abandoned because the injected failure fired
// during the call (in which case the call must have failed).
func (o *opctx) call(what string, f func() bool) (fired bool) {
	before := o.w.cas.fired()
	ok := f()
	if o.w.cas.fired() == before {
		return false
	}
	o.logf("  %s: injected CAS failure fired, success=%t", what, ok)
	if ok {
		o.fail("fault/swallowed/"+what, "%s succeeded although the CAS request it depends on failed (a storage error during lazy loading must surface as an error)", what)
	}
	return true
}

func targetString(p path.Parser) string {
	if p == nil {
		return "<nil>"
	}
	b, sw := path.EmptyBuilder.Join(path.VoidScopeWalker)
	if err := path.Resolve(p, sw); err != nil {
		return "<" + err.Error() + ">"
	}
	return b.GetUNIXString()
}

func describeAttrs(a *virtual.Attributes) string {
	perm, _ := a.GetPermissions()
	size, _ := a.GetSizeBytes()
	switch a.GetFileType() {
	case filesystem.FileTypeDirectory:
		return "dir"
	case filesystem.FileTypeRegularFile:
		return fmt.Sprintf("file(size=%d,exec=%t,write=%t)", size, perm&virtual.PermissionsExecute != 0, perm&virtual.PermissionsWrite != 0)
	case filesystem.FileTypeSymlink:
		t, _ := a.GetSymlinkTarget()
		return fmt.Sprintf("symlink(%s)", targetString(t))
	}
	return fmt.Sprintf("type%d", a.GetFileType())
}

func (w *world) describeModel(m *mnode) string {
	switch m.kind {
	case kDir:
		return "dir"
	case kFile:
		return fmt.Sprintf("file(size=%d,exec=%t,write=false)", len(fileBlobs[m.blob]), m.exec)
	case kLocalFile:
		return fmt.Sprintf("file(size=%d,exec=false,write=true)", len(m.data))
	default:
		return fmt.Sprintf("symlink(%s)", m.target)
	}
}

// compareNode compares what the file system reports for one entry with the model.
func (o *opctx) compareNode(via, p string, a *virtual.Attributes, isDir bool, m *mnode) bool {
	got, want := describeAttrs(a), o.w.describeModel(m)
	if isDir != (m.kind == kDir) {
		o.fail("fidelity/kind/"+via, "%q: %s returns a %s, the input root says %s", p, via, map[bool]string{true: "directory", false: "leaf"}[isDir], want)
		return false
	}
	if got != want {
		fp := "fidelity/attributes/"
		if a.GetFileType() == filesystem.FileTypeRegularFile && m.kind == kFile {
			perm, _ := a.GetPermissions()
			if (perm&virtual.PermissionsExecute != 0) != m.exec {
				fp = "fidelity/exec-bit/"
			}
		}
		o.fail(fp+via, "%q: %s reports %s, the input root says %s", p, via, got, want)
		return false
	}
	return true
}

// readFile opens a regular file read-only, reads it completely and partially
// and compares with the model.
func (o *opctx) readFile(p string, leaf virtual.Leaf, m *mnode) (fired bool) {
	var want []byte
	ghost := false
	if m.kind == kFile {
		want = fileBlobs[m.blob]
		ghost = m.blob == blobGhost
	} else {
		want = m.data
	}
	var a virtual.Attributes
	var s virtual.Status
	if o.call("VirtualOpenSelf(read)", func() bool {
		s = leaf.VirtualOpenSelf(ctx, virtual.ShareMaskRead, &virtual.OpenExistingOptions{}, attrMask, &a)
		return s == virtual.StatusOK
	}) {
		return true
	}
	if s != virtual.StatusOK {
		o.fail("fidelity/open-read", "%q: opening for reading fails with status %d", p, s)
		return false
	}
	defer leaf.VirtualClose(virtual.ShareMaskRead)
	buf := make([]byte, len(want)+8)
	var n int
	var eof bool
	if o.call("VirtualRead", func() bool {
		n, eof, s = leaf.VirtualRead(ctx, buf, 0)
		return s == virtual.StatusOK
	}) {
		return true
	}
	if ghost {
		if s == virtual.StatusOK {
			o.fail("fidelity/ghost-read", "%q: reading a file whose blob is not in the CAS succeeds with %q", p, buf[:n])
		}
		return false
	}
	// The storage serves this blob corrupted (shorter than its digest says,
	// or with other bytes): the read may fail, but what it returns
	// successfully is the blob named by the digest - never a silently
	// truncated or altered file.
	corrupted := o.w.cas.corrupt != corruptNone && m.kind == kFile && len(want) > 0
	if corrupted {
		if s != virtual.StatusOK {
			o.logf("  %q: read of a corrupted blob refused with status %d", p, s)
			return false
		}
		if n != len(want) || !eof || !bytes.Equal(buf[:n], want) {
			o.fail("fidelity/corrupt-blob-served", "%q: the storage serves this blob %s, yet the read SUCCEEDS with %q (eof=%t); the input root says %q", p, map[int]string{corruptShort: "shorter than its digest size", corruptBytes: "with different bytes"}[o.w.cas.corrupt], buf[:n], eof, want)
			return false
		}
	}
	if s != virtual.StatusOK || n != len(want) || !eof || !bytes.Equal(buf[:n], want) {
		o.fail("fidelity/content", "%q: read returns status %d, %q (eof=%t), the input root says %q", p, s, buf[:n], eof, want)
		return false
	}
	if len(want) >= 3 {
		part := make([]byte, 2)
		if o.call("VirtualRead", func() bool {
			n, eof, s = leaf.VirtualRead(ctx, part, 1)
			return s == virtual.StatusOK
		}) {
			return true
		}
		if corrupted && s != virtual.StatusOK {
			return false
		}
		if s != virtual.StatusOK || n != 2 || eof || !bytes.Equal(part, want[1:3]) {
			o.fail("fidelity/content-partial", "%q: read(off=1,len=2) returns status %d, %q (eof=%t), expected %q", p, s, part[:n], eof, want[1:3])
		}
	}
	return false
}

// resolve walks the real tree along p with one VirtualLookup per component,
// like the kernel does. The model guarantees that the path exists.
func (o *opctx) resolve(root virtual.Directory, p string) (virtual.Directory, bool) {
	dir := root
	walked := ""
	for _, comp := range splitPath(p) {
		walked = joinPath(walked, comp)
		var a virtual.Attributes
		var child virtual.DirectoryChild
		var s virtual.Status
		if o.call("VirtualLookup", func() bool {
			child, s = dir.VirtualLookup(ctx, mk(comp), attrMask, &a)
			return s == virtual.StatusOK
		}) {
			return nil, false
		}
		if s != virtual.StatusOK {
			o.fail("fidelity/missing-entry/resolve", "directory %q of the input root cannot be looked up: status %d", walked, s)
			return nil, false
		}
		d, _ := child.GetPair()
		if d == nil {
			o.fail("fidelity/kind/resolve", "%q is a directory in the input root, the file system presents %s", walked, describeAttrs(&a))
			return nil, false
		}
		dir = d
	}
	return dir, true
}

// lookup performs VirtualLookup of name in dir and compares with the model
// directory m. ok is false if the operation must not continue.
func (o *opctx) lookup(dir virtual.Directory, m *mnode, p, name string) (child virtual.DirectoryChild, mk_ *mnode, ok bool) {
	var a virtual.Attributes
	var s virtual.Status
	full := joinPath(p, name)
	if o.call("VirtualLookup", func() bool {
		child, s = dir.VirtualLookup(ctx, mk(name), attrMask, &a)
		return s == virtual.StatusOK
	}) {
		return child, nil, false
	}
	if !o.w.loadable(m) {
		if s == virtual.StatusOK {
			o.fail("malformed/listed/lookup", "directory %q is malformed (%s) but lookup of %q succeeds: %s", p, o.w.why(m), name, describeAttrs(&a))
		}
		return child, nil, false
	}
	mk_ = o.w.mkids(m)[name]
	if mk_ == nil {
		if s == virtual.StatusOK {
			o.fail("fidelity/extra-entry/lookup", "%q does not exist in the input root, lookup returns %s", full, describeAttrs(&a))
		}
		return child, nil, false
	}
	if s != virtual.StatusOK {
		o.fail("fidelity/missing-entry/lookup", "%q is %s in the input root, lookup fails with status %d", full, o.w.describeModel(mk_), s)
		return child, nil, false
	}
	d, leaf := child.GetPair()
	if !o.compareNode("lookup", full, &a, d != nil, mk_) {
		return child, nil, false
	}
	// getattr on the node itself must agree.
	var a2 virtual.Attributes
	if d != nil {
		d.VirtualGetAttributes(ctx, attrMask, &a2)
	} else {
		leaf.VirtualGetAttributes(ctx, attrMask, &a2)
	}
	if !o.compareNode("getattr", full, &a2, d != nil, mk_) {
		return child, nil, false
	}
	return child, mk_, true
}

type dirEntry struct {
	name  string
	child virtual.DirectoryChild
	attrs virtual.Attributes
	next  uint64
}

type reporter struct {
	limit   int
	entries []dirEntry
}

func (r *reporter) ReportEntry(nextCookie uint64, name path.Component, child virtual.DirectoryChild, attributes *virtual.Attributes) bool {
	if r.limit > 0 && len(r.entries) >= r.limit {
		return false
	}
	r.entries = append(r.entries, dirEntry{name: name.String(), child: child, attrs: *attributes, next: nextCookie})
	return true
}

// list reads a directory completely (one call) and in chunks of one entry
// and compares both with the model.
func (o *opctx) list(dir virtual.Directory, m *mnode, p string) (entries []dirEntry, ok bool) {
	full := &reporter{}
	var s virtual.Status
	if o.call("VirtualReadDir", func() bool {
		s = dir.VirtualReadDir(ctx, 0, attrMask, full)
		return s == virtual.StatusOK
	}) {
		return nil, false
	}
	names := func(es []dirEntry) string {
		var r []string
		for _, e := range es {
			r = append(r, e.name+"="+describeAttrs(&e.attrs))
		}
		return "[" + strings.Join(r, " ") + "]"
	}
	if !o.w.loadable(m) {
		if s == virtual.StatusOK {
			o.fail("malformed/listed/readdir", "directory %q is malformed (%s) but readdir succeeds with %s", p, o.w.why(m), names(full.entries))
		}
		return nil, false
	}
	if s != virtual.StatusOK {
		o.fail("fidelity/readdir-status", "readdir of %q fails with status %d", p, s)
		return nil, false
	}
	kids := o.w.mkids(m)
	seen := map[string]bool{}
	for i := range full.entries {
		e := &full.entries[i]
		if seen[e.name] {
			o.fail("fidelity/duplicate-entry/readdir", "readdir of %q reports %q twice: %s", p, e.name, names(full.entries))
			return nil, false
		}
		seen[e.name] = true
		k := kids[e.name]
		if k == nil {
			o.fail("fidelity/extra-entry/readdir", "readdir of %q reports %q which is not in the input root: %s", p, e.name, names(full.entries))
			return nil, false
		}
		d, _ := e.child.GetPair()
		if !o.compareNode("readdir", joinPath(p, e.name), &e.attrs, d != nil, k) {
			return nil, false
		}
	}
	for _, n := range sortedNames(kids) {
		if !seen[n] {
			o.fail("fidelity/missing-entry/readdir", "readdir of %q omits %q (%s): %s", p, n, o.w.describeModel(kids[n]), names(full.entries))
			return nil, false
		}
	}
	// Chunked: one entry per call, resuming at the cookie of the last entry.
	var chunked []dirEntry
	cookie := uint64(0)
	for i := 0; i < 64; i++ {
		r := &reporter{limit: 1}
		if s := dir.VirtualReadDir(ctx, cookie, attrMask, r); s != virtual.StatusOK {
			o.fail("fidelity/readdir-status", "readdir of %q at cookie %d fails with status %d", p, cookie, s)
			return nil, false
		}
		if len(r.entries) == 0 {
			break
		}
		chunked = append(chunked, r.entries[0])
		cookie = r.entries[0].next
	}
	if names(chunked) != names(full.entries) {
		o.fail("fidelity/partial-readdir", "readdir of %q in chunks of one entry yields %s, in one call %s", p, names(chunked), names(full.entries))
		return nil, false
	}
	return full.entries, true
}

// walk explores a whole tree through the public interface and compares it
// with the model (used by the final oracle for both trees).
func (o *opctx) walk(dir virtual.Directory, m *mnode, p string) {
	entries, ok := o.list(dir, m, p)
	if !ok {
		return
	}
	for _, e := range entries {
		child, k, ok := o.lookup(dir, m, p, e.name)
		if !ok {
			if o.failed() {
				return
			}
			continue
		}
		d, leaf := child.GetPair()
		switch {
		case d != nil:
			o.walk(d, k, joinPath(p, e.name))
		case k.kind == kFile || k.kind == kLocalFile:
			o.readFile(joinPath(p, e.name), leaf, k)
		}
		if o.failed() {
			return
		}
	}
}

func (o *opctx) failed() bool {
	if o.c == nil {
		return len(o.fails) > 0
	}
	return o.c.Failed()
}

// ---------------------------------------------------------------------
// Letters.

func (w *world) root() virtual.Directory { return w.trees[0].dir }

func (w *world) ready() bool { return w.trees[0].merged }

func opArm() mc.SeqOp {
	return mc.SeqOp{
		Name:    "arm: next CAS Get fails",
		Enabled: func(s any) bool { return s.(*world).cas.fault == faultUnused },
		Do:      func(c *mc.SeqCtx, s any) { s.(*world).cas.fault = faultArmed },
	}
}

// opCorrupt: from now on the storage serves every non-empty file blob
// corrupted (see fakeCAS.corrupt). It shares the budget of one storage fault
// per history with the 'next Get fails' letter.
func opCorrupt(mode int) mc.SeqOp {
	return mc.SeqOp{
		Name: map[int]string{
			corruptShort: "storage: file blobs are served SHORTER than their digest size (no re-validation)",
			corruptBytes: "storage: file blobs are served with other bytes of the right length (validating CAS buffer)",
		}[mode],
		Enabled: func(s any) bool { w := s.(*world); return w.cas.fault == faultUnused && w.cas.corrupt == corruptNone },
		Do: func(c *mc.SeqCtx, s any) {
			w := s.(*world)
			w.cas.corrupt, w.cas.fault = mode, faultSpent
		},
	}
}

func opMerge() mc.SeqOp {
	return mc.SeqOp{
		Name:    "merge input root",
		Enabled: func(s any) bool { return !s.(*world).trees[0].merged },
		Do: func(c *mc.SeqCtx, s any) {
			w := s.(*world)
			o := &opctx{w: w, c: c}
			var err error
			if o.call("MergeDirectoryContents", func() bool { err = w.merge(0); return err == nil }) {
				return
			}
			c.Logf("  MergeDirectoryContents: %v", err)
			if ok := w.c.loadable(0); ok != (err == nil) {
				if ok {
					o.fail("fidelity/merge-status", "MergeDirectoryContents of a well-formed root fails: %v", err)
				} else {
					o.fail("malformed/listed/merge", "MergeDirectoryContents of a malformed root (%s) succeeds", w.c.why[0])
				}
			}
		},
	}
}

func opStat(p, name string) mc.SeqOp {
	return mc.SeqOp{
		Name:    fmt.Sprintf("stat+read %q", joinPath(p, name)),
		Enabled: func(s any) bool { w := s.(*world); return w.ready() && w.mresolve(p) != nil },
		Do: func(c *mc.SeqCtx, s any) {
			w := s.(*world)
			o := &opctx{w: w, c: c}
			dir, ok := o.resolve(w.root(), p)
			if !ok {
				return
			}
			m := w.mresolve(p)
			child, k, ok := o.lookup(dir, m, p, name)
			if !ok {
				return
			}
			if _, leaf := child.GetPair(); leaf != nil && (k.kind == kFile || k.kind == kLocalFile) {
				o.readFile(joinPath(p, name), leaf, k)
			}
		},
	}
}

func opList(p string) mc.SeqOp {
	return mc.SeqOp{
		Name:    fmt.Sprintf("readdir %q", p),
		Enabled: func(s any) bool { w := s.(*world); return w.ready() && w.mresolve(p) != nil },
		Do: func(c *mc.SeqCtx, s any) {
			w := s.(*world)
			o := &opctx{w: w, c: c}
			dir, ok := o.resolve(w.root(), p)
			if !ok {
				return
			}
			o.list(dir, w.mresolve(p), p)
		},
	}
}

// opAttack: every way of changing a CAS-backed file must be refused.
func opAttack(p, name string) mc.SeqOp {
	casFile := func(w *world) *mnode {
		m := w.mresolve(p)
		if m == nil || !w.loadable(m) {
			return nil
		}
		if k := w.mkids(m)[name]; k != nil && k.kind == kFile {
			return k
		}
		return nil
	}
	return mc.SeqOp{
		Name:    fmt.Sprintf("attack %q", joinPath(p, name)),
		Enabled: func(s any) bool { w := s.(*world); return w.ready() && casFile(w) != nil },
		Do: func(c *mc.SeqCtx, s any) {
			w := s.(*world)
			o := &opctx{w: w, c: c}
			dir, ok := o.resolve(w.root(), p)
			if !ok {
				return
			}
			full := joinPath(p, name)
			child, k, ok := o.lookup(dir, w.mresolve(p), p, name)
			if !ok {
				return
			}
			_, leaf := child.GetPair()
			refused := func(what string, st virtual.Status) {
				c.Logf("  %s -> status %d", what, st)
				if st == virtual.StatusOK {
					o.fail("immutable/"+what, "%s on the CAS-backed file %q is accepted (status OK); it must be refused", what, full)
				}
			}
			var a virtual.Attributes
			for _, t := range []struct {
				what  string
				share virtual.ShareMask
				trunc bool
			}{
				{"VirtualOpenSelf(write)", virtual.ShareMaskWrite, false},
				{"VirtualOpenSelf(read+write)", virtual.ShareMaskRead | virtual.ShareMaskWrite, false},
				{"VirtualOpenSelf(read,truncate)", virtual.ShareMaskRead, true},
				{"VirtualOpenSelf(write,truncate)", virtual.ShareMaskWrite, true},
			} {
				st := leaf.VirtualOpenSelf(ctx, t.share, &virtual.OpenExistingOptions{Truncate: t.trunc}, attrMask, &a)
				refused(t.what, st)
				if st == virtual.StatusOK {
					leaf.VirtualClose(t.share)
				}
			}
			for _, t := range []struct {
				what   string
				share  virtual.ShareMask
				create bool
				trunc  bool
			}{
				{"VirtualOpenChild(write)", virtual.ShareMaskWrite, false, false},
				{"VirtualOpenChild(read,truncate)", virtual.ShareMaskRead, false, true},
				{"VirtualOpenChild(read+write,create,truncate)", virtual.ShareMaskRead | virtual.ShareMaskWrite, true, true},
			} {
				var create *virtual.Attributes
				if t.create {
					create = (&virtual.Attributes{}).SetPermissions(virtual.PermissionsRead | virtual.PermissionsWrite)
				}
				l, _, _, st := dir.VirtualOpenChild(ctx, mk(name), t.share, create, &virtual.OpenExistingOptions{Truncate: t.trunc}, attrMask, &a)
				refused(t.what, st)
				if st == virtual.StatusOK && l != nil {
					l.VirtualClose(t.share)
				}
			}
			for _, size := range []uint64{0, 100} {
				var out virtual.Attributes
				refused(fmt.Sprintf("VirtualSetAttributes(size=%d)", size), leaf.VirtualSetAttributes(ctx, (&virtual.Attributes{}).SetSizeBytes(size), attrMask, &out))
			}
			refused("VirtualAllocate", leaf.VirtualAllocate(ctx, 0, 100))
			// A write without a preceding successful open for writing is
			// documented to be intercepted by the kernel; the code panics.
			// Both a status and that panic count as a refusal.
			func() {
				defer func() {
					if r := recover(); r != nil {
						c.Logf("  VirtualWrite -> panic %v", r)
					}
				}()
				n, st := leaf.VirtualWrite(ctx, []byte("X"), 0)
				c.Logf("  VirtualWrite -> n=%d status %d", n, st)
				if st == virtual.StatusOK {
					o.fail("immutable/VirtualWrite", "VirtualWrite on the CAS-backed file %q is accepted (n=%d)", full, n)
				}
			}()
			if c.Failed() {
				return
			}
			// The bytes are what they were.
			if !o.readFile(full, leaf, k) {
				var a2 virtual.Attributes
				leaf.VirtualGetAttributes(ctx, attrMask, &a2)
				o.compareNode("getattr-after-attack", full, &a2, false, k)
			}
		},
	}
}

func (w *world) modsLeft() bool { return w.mods < w.cfg.maxMods }

func expectStatus(o *opctx, what, full string, s virtual.Status, expectOK bool, reason string) bool {
	if (s == virtual.StatusOK) == expectOK {
		return true
	}
	if expectOK {
		o.fail("modify/"+what+"-refused", "%s %q fails with status %d although %s", what, full, s, reason)
	} else {
		o.fail("modify/"+what+"-accepted", "%s %q succeeds although %s", what, full, reason)
	}
	return false
}

func opRemove(p, name string) mc.SeqOp {
	return mc.SeqOp{
		Name:    fmt.Sprintf("remove %q", joinPath(p, name)),
		Enabled: func(s any) bool { w := s.(*world); return w.ready() && w.modsLeft() && w.mresolve(p) != nil },
		Do: func(c *mc.SeqCtx, s any) {
			w := s.(*world)
			o := &opctx{w: w, c: c}
			dir, ok := o.resolve(w.root(), p)
			if !ok {
				return
			}
			var st virtual.Status
			if o.call("VirtualRemove", func() bool {
				_, st = dir.VirtualRemove(ctx, mk(name), true, true)
				return st == virtual.StatusOK
			}) {
				return
			}
			c.Logf("  VirtualRemove -> status %d", st)
			m := w.mresolve(p)
			expectOK, reason := false, ""
			switch {
			case !w.loadable(m):
				reason = "the directory is malformed (" + w.why(m) + ")"
			case w.mkids(m)[name] == nil:
				reason = "the entry does not exist in the input root"
			case w.mkids(m)[name].kind != kDir:
				expectOK, reason = true, "it is a "+w.describeModel(w.mkids(m)[name])+" of the action's own tree"
			case !w.loadable(w.mkids(m)[name]):
				reason = "the child directory is malformed (" + w.why(w.mkids(m)[name]) + ")"
			case len(w.mkids(w.mkids(m)[name])) != 0:
				reason = "the child directory is not empty in the input root"
			default:
				expectOK, reason = true, "it is an empty directory"
			}
			if !expectStatus(o, "remove", joinPath(p, name), st, expectOK, reason) {
				return
			}
			if st == virtual.StatusOK {
				delete(w.mkids(m), name)
				m.dirty = true
				w.mods++
			}
		},
	}
}

func opCreate(p, name string) mc.SeqOp {
	return mc.SeqOp{
		Name:    fmt.Sprintf("create(O_CREAT|O_TRUNC)+write %q", joinPath(p, name)),
		Enabled: func(s any) bool { w := s.(*world); return w.ready() && w.modsLeft() && w.mresolve(p) != nil },
		Do: func(c *mc.SeqCtx, s any) {
			w := s.(*world)
			o := &opctx{w: w, c: c}
			dir, ok := o.resolve(w.root(), p)
			if !ok {
				return
			}
			full := joinPath(p, name)
			var st virtual.Status
			var leaf virtual.Leaf
			var a virtual.Attributes
			if o.call("VirtualOpenChild", func() bool {
				leaf, _, _, st = dir.VirtualOpenChild(ctx, mk(name), virtual.ShareMaskWrite,
					(&virtual.Attributes{}).SetPermissions(virtual.PermissionsRead|virtual.PermissionsWrite),
					&virtual.OpenExistingOptions{Truncate: true}, attrMask, &a)
				return st == virtual.StatusOK
			}) {
				return
			}
			c.Logf("  VirtualOpenChild(write,create,truncate) -> status %d", st)
			m := w.mresolve(p)
			var k *mnode
			if w.loadable(m) {
				k = w.mkids(m)[name]
			}
			switch {
			case !w.loadable(m):
				if !expectStatus(o, "create", full, st, false, "the directory is malformed ("+w.why(m)+")") {
					return
				}
			case k == nil:
				if !expectStatus(o, "create", full, st, true, "the name is free") {
					return
				}
			case k.kind == kFile:
				if st == virtual.StatusOK {
					o.fail("immutable/VirtualOpenChild(write,create,truncate)", "opening the CAS-backed file %q with O_CREAT|O_TRUNC for writing is accepted", full)
					leaf.VirtualClose(virtual.ShareMaskWrite)
					return
				}
			case k.kind == kLocalFile:
				if !expectStatus(o, "create", full, st, true, "it is a file created by the action") {
					return
				}
			default:
				if !expectStatus(o, "create", full, st, false, "it is a "+w.describeModel(k)) {
					return
				}
			}
			if st != virtual.StatusOK {
				return
			}
			n, ws := leaf.VirtualWrite(ctx, localData, 0)
			leaf.VirtualClose(virtual.ShareMaskWrite)
			if ws != virtual.StatusOK || n != len(localData) {
				o.fail("modify/write-local", "writing to the freshly created file %q: n=%d status %d", full, n, ws)
				return
			}
			w.mkids(m)[name] = &mnode{kind: kLocalFile, data: localData}
			m.dirty = true
			w.mods++
		},
	}
}

func opMkdir(p, name string) mc.SeqOp {
	return mc.SeqOp{
		Name:    fmt.Sprintf("mkdir %q", joinPath(p, name)),
		Enabled: func(s any) bool { w := s.(*world); return w.ready() && w.modsLeft() && w.mresolve(p) != nil },
		Do: func(c *mc.SeqCtx, s any) {
			w := s.(*world)
			o := &opctx{w: w, c: c}
			dir, ok := o.resolve(w.root(), p)
			if !ok {
				return
			}
			var st virtual.Status
			var a virtual.Attributes
			if o.call("VirtualMkdir", func() bool {
				_, _, st = dir.VirtualMkdir(ctx, mk(name), &virtual.Attributes{}, attrMask, &a)
				return st == virtual.StatusOK
			}) {
				return
			}
			c.Logf("  VirtualMkdir -> status %d", st)
			m := w.mresolve(p)
			switch {
			case !w.loadable(m):
				expectStatus(o, "mkdir", joinPath(p, name), st, false, "the directory is malformed ("+w.why(m)+")")
				return
			case w.mkids(m)[name] != nil:
				expectStatus(o, "mkdir", joinPath(p, name), st, false, "the name exists")
				return
			}
			if !expectStatus(o, "mkdir", joinPath(p, name), st, true, "the name is free") {
				return
			}
			w.mkids(m)[name] = &mnode{kind: kDir, spec: -1, kids: map[string]*mnode{}}
			m.dirty = true
			w.mods++
		},
	}
}

func opRename(p, name, q, newName string) mc.SeqOp {
	return mc.SeqOp{
		Name: fmt.Sprintf("rename %q -> %q", joinPath(p, name), joinPath(q, newName)),
		Enabled: func(s any) bool {
			w := s.(*world)
			return w.ready() && w.modsLeft() && w.mresolve(p) != nil && w.mresolve(q) != nil
		},
		Do: func(c *mc.SeqCtx, s any) {
			w := s.(*world)
			o := &opctx{w: w, c: c}
			src, ok := o.resolve(w.root(), p)
			if !ok {
				return
			}
			dst, ok := o.resolve(w.root(), q)
			if !ok {
				return
			}
			var st virtual.Status
			if o.call("VirtualRename", func() bool {
				_, _, st = src.VirtualRename(ctx, mk(name), dst, mk(newName))
				return st == virtual.StatusOK
			}) {
				return
			}
			c.Logf("  VirtualRename -> status %d", st)
			what := joinPath(p, name) + " -> " + joinPath(q, newName)
			ms, md := w.mresolve(p), w.mresolve(q)
			if !w.loadable(ms) || !w.loadable(md) {
				expectStatus(o, "rename", what, st, false, "a directory involved is malformed")
				return
			}
			sk, tk := w.mkids(ms)[name], w.mkids(md)[newName]
			switch {
			case sk == nil:
				expectStatus(o, "rename", what, st, false, "the source does not exist in the input root")
				return
			case tk == nil:
				if !expectStatus(o, "rename", what, st, true, "the source exists and the target name is free") {
					return
				}
			case tk.kind == kDir:
				switch {
				case sk.kind != kDir:
					expectStatus(o, "rename", what, st, false, "a leaf cannot replace a directory")
					return
				case !w.loadable(tk):
					expectStatus(o, "rename", what, st, false, "the target directory is malformed ("+w.why(tk)+")")
					return
				case len(w.mkids(tk)) != 0:
					expectStatus(o, "rename", what, st, false, "the target directory is not empty in the input root")
					return
				}
				if !expectStatus(o, "rename", what, st, true, "the target is an empty directory") {
					return
				}
			default:
				if sk.kind == kDir {
					expectStatus(o, "rename", what, st, false, "a directory cannot replace a leaf")
					return
				}
				if !expectStatus(o, "rename", what, st, true, "a leaf may replace a leaf") {
					return
				}
				if w.sameObject(sk, tk) {
					// Hard links to one file: POSIX says nothing happens.
					return
				}
			}
			delete(w.mkids(ms), name)
			w.mkids(md)[newName] = sk
			ms.dirty, md.dirty = true, true
			w.mods++
		},
	}
}

// ---------------------------------------------------------------------
// Structural oracle after every letter (through the read-only hook; does not
// trigger lazy loading) and state key.

func (w *world) compareLoaded(o *opctx, dir virtual.Directory, m *mnode, p string) {
	snap, ok := virtual.VerifInputrootSnapshot(dir)
	if !ok {
		o.fail("harness/not-in-memory-directory", "%q is not an inMemoryPrepopulatedDirectory", p)
		return
	}
	if !snap.Loaded {
		// Nothing to compare yet (locally created directories start out
		// lazy too, with an empty fetcher).
		return
	}
	var names []string
	for _, e := range snap.Entries {
		names = append(names, e.Name)
	}
	if !w.loadable(m) {
		o.fail("malformed/listed/initialised", "directory %q is malformed (%s) but has been initialised with the listing %q", p, w.why(m), names)
		return
	}
	kids := w.mkids(m)
	seen := map[string]bool{}
	for _, e := range snap.Entries {
		k := kids[e.Name]
		if k == nil || seen[e.Name] {
			o.fail("tree/extra-entry", "directory %q holds %q, the model holds %q", p, names, sortedNames(kids))
			return
		}
		seen[e.Name] = true
		if (e.Directory != nil) != (k.kind == kDir) {
			o.fail("tree/kind", "%q: directory=%t, the model says %s", joinPath(p, e.Name), e.Directory != nil, w.describeModel(k))
			return
		}
		if e.Directory != nil {
			w.compareLoaded(o, e.Directory, k, joinPath(p, e.Name))
			if o.failed() {
				return
			}
			continue
		}
		var a virtual.Attributes
		e.Leaf.VirtualGetAttributes(ctx, attrMask, &a)
		if !o.compareNode("tree", joinPath(p, e.Name), &a, false, k) {
			return
		}
	}
	if len(seen) != len(kids) || snap.MapSize != len(kids) {
		o.fail("tree/missing-entry", "directory %q holds %q (map size %d), the model holds %q", p, names, snap.MapSize, sortedNames(kids))
	}
}

func check(c *mc.SeqCtx, s any) {
	w := s.(*world)
	for _, p := range w.pending {
		c.FailP(prop, p.fp, "%s", p.msg)
	}
	o := &opctx{w: w, c: c}
	w.compareLoaded(o, w.root(), w.model, "")
	if len(w.cas.puts) != 0 {
		c.FailP(prop, "cas/put", "the CAS received Put(%v)", w.cas.puts)
	}
}

func dumpImpl(b *strings.Builder, dir virtual.Directory) {
	snap, _ := virtual.VerifInputrootSnapshot(dir)
	if !snap.Loaded {
		b.WriteByte('U')
		return
	}
	b.WriteString("L[")
	for _, e := range snap.Entries {
		fmt.Fprintf(b, "%s@%d:", e.Name, e.Cookie)
		if e.Directory != nil {
			dumpImpl(b, e.Directory)
		} else {
			var a virtual.Attributes
			e.Leaf.VirtualGetAttributes(ctx, attrMask, &a)
			b.WriteString(describeAttrs(&a))
		}
		b.WriteByte(' ')
	}
	b.WriteByte(']')
}

func key(s any) string {
	w := s.(*world)
	var b strings.Builder
	dumpImpl(&b, w.root())
	b.WriteByte('|')
	w.dumpModel(&b, w.model)
	keys, size, _ := cas.VerifInputrootCacheKeys(w.fetcher)
	fmt.Fprintf(&b, "|%v/%d|%s|f%d/%d|m%d|%t", keys, size, w.lru.dump(), w.cas.fault, w.cas.corrupt, w.mods, w.trees[0].merged)
	return b.String()
}

// ---------------------------------------------------------------------
// Final (destructive) oracle on a replay of every distinct state.

func final(c *mc.SeqCtx, s any) {
	w := s.(*world)
	if w.cas.fault == faultArmed {
		w.cas.fault = faultSpent
	}
	// The explored tree, completely: whatever was done before, the rest of
	// the tree is still what the input root says (retry after a failed
	// load included).
	o := &opctx{w: w, c: c, scope: "final/"}
	o.walk(w.root(), w.model, "")
	if c.Failed() {
		return
	}
	// The second action's tree from the same digest, cache and factories is
	// unaffected by anything the first action did.
	o2 := &opctx{w: w, c: c, scope: "isolation/"}
	if !w.tree2().merged {
		err := w.merge(1)
		if ok := w.c.loadable(0); ok != (err == nil) {
			o2.fail("merge-status", "MergeDirectoryContents of the second tree: err=%v, root loadable=%t", err, ok)
			return
		}
	}
	m2 := &mnode{kind: kDir, spec: -1, kids: map[string]*mnode{}}
	if w.trees[1].merged {
		m2 = &mnode{kind: kDir, spec: 0}
	}
	o2.walk(w.trees[1].dir, m2, "")
	if c.Failed() {
		return
	}
	// The CAS: no writes, same bytes.
	if len(w.cas.puts) != 0 {
		c.FailP(prop, "cas/put", "the CAS received Put(%v)", w.cas.puts)
		return
	}
	if len(w.cas.blobs) != len(w.c.blobs) {
		c.FailP(prop, "cas/blob-changed", "number of blobs changed")
		return
	}
	for k, v := range w.c.blobs {
		if !bytes.Equal(w.cas.blobs[k], v) {
			c.FailP(prop, "cas/blob-changed", "blob %s changed from %q to %q", k, v, w.cas.blobs[k])
			return
		}
	}
	// Tear everything down: every leaf that was ever created has been
	// unlinked exactly as often as it was linked.
	if err := w.top.RemoveAllChildren(false); err != nil {
		c.FailP(prop, "harness/teardown", "RemoveAllChildren: %v", err)
		return
	}
	if w.nfs != nil {
		stateless, stateful, dirs := w.nfs.VerifInputrootPool()
		if len(stateless) != 0 || stateful != 0 || dirs != 1 {
			c.FailP(prop, "leak/handle-pool", "after removing both trees the NFS handle pool still holds %d stateless leaves (link counts %v), %d stateful leaves, %d directories (expected 0, 0, 1): a leaf created by a failed or successful lazy load was not unlinked", len(stateless), stateless, stateful, dirs)
			return
		}
	}
	for _, l := range w.syms.leaves {
		if l.refs != 0 || l.underrun {
			c.FailP(prop, "leak/symlink", "%s: reference count %d after teardown (underrun=%t)", l.what, l.refs, l.underrun)
			return
		}
	}
	if w.pool.created != w.pool.closed {
		c.FailP(prop, "leak/file-pool", "%d files created, %d closed", w.pool.created, w.pool.closed)
	}
}

// ---------------------------------------------------------------------
// Seq construction.

func alphabet(c *compiled, cfg config) []mc.SeqOp {
	var ops []mc.SeqOp
	if cfg.explicitMerge {
		ops = append(ops, opMerge())
	}
	ops = append(ops, opArm())
	if cfg.corrupt {
		ops = append(ops, opCorrupt(corruptShort), opCorrupt(corruptBytes))
	}
	names := []string{"a", "b"}
	for _, p := range c.dirPaths {
		ops = append(ops, opList(p))
		for _, n := range names {
			ops = append(ops, opStat(p, n))
		}
	}
	// Mutation attempts on every CAS file of the pristine tree.
	for _, p := range c.dirPaths {
		for _, n := range names {
			if c.pristineKind(p, n) == kFile {
				ops = append(ops, opAttack(p, n))
			}
		}
	}
	if cfg.maxMods > 0 {
		for _, p := range c.dirPaths {
			for _, n := range names {
				ops = append(ops, opRemove(p, n), opCreate(p, n))
			}
			ops = append(ops, opMkdir(p, "c"))
			ops = append(ops, opRename(p, "a", p, "b"), opRename(p, "b", p, "a"), opRename(p, "a", p, "c"))
			if p != "" {
				ops = append(ops, opRename(p, "a", "", "c"))
			}
		}
	}
	return ops
}

// pristineKind returns the kind of p/name in the denoted tree, or -1.
func (c *compiled) pristineKind(p, name string) int {
	i := 0
	comps := append(splitPath(p), name)
	for idx, comp := range comps {
		if !c.loadable(i) {
			return -1
		}
		var hit *kid
		for _, k := range c.kids(i) {
			if k.name == comp {
				kk := k
				hit = &kk
				break
			}
		}
		if hit == nil {
			return -1
		}
		if idx == len(comps)-1 {
			return hit.kind
		}
		if hit.kind != kDir {
			return -1
		}
		i = hit.child
	}
	return kDir
}

func newSeq(c *compiled, cfg config) *mc.Seq {
	name := c.in.name
	if cfg.tag != "" {
		name += "#" + cfg.tag
	}
	return &mc.Seq{
		Name:   name,
		Props:  []string{prop},
		New:    func(*mc.SeqCtx) any { return newWorld(c, cfg) },
		Ops:    alphabet(c, cfg),
		Key:    key,
		Check:  check,
		Final:  final,
		Depth:  cfg.depth,
		Panics: []string{prop},
	}
}
