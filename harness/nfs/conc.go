package nfs

import (
	"fmt"
	"regexp"
	"sort"
	"strings"
	"sync"

	"verif/mc"

	"github.com/buildbarn/go-xdr/pkg/protocols/nfsv4"
)

// Engine A scenarios: requests that are in flight at the same time. The
// fake leaves and the fake directory contain scheduling points inside
// VirtualOpenChild/VirtualOpenSelf/VirtualRead/VirtualWrite/VirtualClose,
// i.e. at places where the servers have dropped their locks, so that other
// requests are processed while the original is parked inside the VFS.

// results collects what the threads observed (part of the state key).
type results struct {
	mu sync.Mutex
	m  map[string]string
	// locks: structured records of the C20 lock scenarios (conclocks.go).
	locks *lockRecs
}

func (r *results) set(k, v string) {
	r.mu.Lock()
	r.m[k] = v
	r.mu.Unlock()
}

func (r *results) get(k string) string {
	r.mu.Lock()
	defer r.mu.Unlock()
	return r.m[k]
}

func (r *results) dump() string {
	r.mu.Lock()
	defer r.mu.Unlock()
	var ks []string
	for k := range r.m {
		ks = append(ks, k)
	}
	sort.Strings(ks)
	var b strings.Builder
	for _, k := range ks {
		fmt.Fprintf(&b, "%s=%s;", k, r.m[k])
	}
	if r.locks != nil {
		for _, l := range r.locks.recs {
			if l == nil {
				b.WriteString("-|")
			} else {
				b.WriteString(l.String() + "|")
			}
		}
	}
	return b.String()
}

type concThread struct {
	name string
	run  func(w *world, x *mc.X, r *results)
}

type concEvent struct {
	name string
	fire func(w *world)
}

type concSpec struct {
	name     string
	props    []string
	liveness []string
	bounds   map[string]int
	prefix   func(w *world, f failer)
	threads  []concThread
	events   []concEvent
	// finish evaluates the scenario specific oracles after all threads
	// are done; the common ones (no leaf fault, balanced after expiry,
	// no records retained) follow.
	finish func(w *world, x *mc.X, r *results)
	// monitor, if set, runs at every quiescent point while monitorProp
	// (default C19) is being checked; whatever it remembers must go into
	// r (part of the key).
	monitor     func(w *world, x *mc.X, r *results)
	monitorProp string
	// lockRecords: number of request records of a C20 lock scenario.
	lockRecords int
}

func concScenario(s concSpec) *mc.Scenario {
	if s.bounds == nil {
		s.bounds = map[string]int{"quick": 3, "thorough": -1}
	}
	var cur struct {
		w *world
		r *results
	}
	// Every scenario also serves C14: no COMPOUND returns with a lock
	// held, and the concurrent requests never deadlock.
	props := append(append([]string(nil), s.props...), "C14")
	liveness := append(append([]string(nil), s.liveness...), "C14")
	return &mc.Scenario{
		Name: s.name, Props: props, Liveness: liveness, Livelock: liveness, Panics: props, Bounds: s.bounds,
		Build: func(x *mc.X) {
			w := newWorld(x)
			r := &results{m: map[string]string{}}
			cur.w, cur.r = w, r
			// The prefix runs on the controller: nothing is scheduled.
			s.prefix(w, x)
			w.inspect40()
			w.inspect41()
			for _, t := range s.threads {
				t := t
				x.Go(t.name, func() { t.run(w, x, r) })
			}
			for _, e := range s.events {
				e := e
				fired := false
				x.AddEvent(&mc.Event{Name: e.name, Enabled: func() bool { return !fired }, Fire: func() { fired = true; e.fire(w) }, Cost: 1})
			}
			x.SetKey(func() string { return w.serverDump() + w.fs.dump() + r.dump() + w.clk.Now().Sub(epoch).String() })
			if s.lockRecords > 0 {
				r.locks = &lockRecs{recs: make([]*lockRec, s.lockRecords)}
			}
			if s.monitor != nil {
				mp := s.monitorProp
				if mp == "" {
					mp = "C19"
				}
				x.Monitor(mp, func() { s.monitor(w, x, r) })
			}
			x.Monitor("C18", func() {
				w.fs.mu.Lock()
				faults := append([]string(nil), w.fs.faults...)
				w.fs.mu.Unlock()
				for _, m := range faults {
					fp := "closed-more-than-opened"
					if strings.Contains(m, "in progress") || strings.Contains(m, "not open") {
						fp = "io-on-closed-leaf"
					}
					x.FailP("C18", fp, "%s", m)
				}
			})
		},
		Finish: func(x *mc.X) {
			w, r := cur.w, cur.r
			x.Outcome("%s", r.dump())
			w.checkFaults(x)
			if s.finish != nil {
				s.finish(w, x, r)
			}
			if mc.Active("C18") {
				w.reclaimByExpiry(x, "after the concurrent requests")
			}
		},
	}
}

func statusOf(res *nfsv4.Compound4res) string {
	return fmt.Sprintf("%d/%d", res.Status, len(res.Resarray))
}

// --- NFSv4.0 helpers -------------------------------------------------------

func raw40io(k ioKind, cl, owner, file string) func(w *world, x *mc.X, r *results) {
	return func(w *world, x *mc.X, r *results) {
		op := w.client40(cl).owner(owner).files[file]
		res := w.compound(0, k.String(), putfh(op.leaf.handle), ioOp(k, op.sid))
		r.set(k.String(), statusOf(res))
	}
}

func raw40close(cl, owner, file string) func(w *world, x *mc.X, r *results) {
	return func(w *world, x *mc.X, r *results) {
		o := w.client40(cl).owner(owner)
		op := o.files[file]
		res := w.compound(0, "CLOSE", putfh(op.leaf.handle), &nfsv4.NfsArgop4_OP_CLOSE{Opclose: nfsv4.Close4args{Seqid: nextSeq(o.seq), OpenStateid: op.sid}})
		r.set("CLOSE", statusOf(res))
	}
}

func raw40downgrade(cl, owner, file string, access uint32) func(w *world, x *mc.X, r *results) {
	return func(w *world, x *mc.X, r *results) {
		o := w.client40(cl).owner(owner)
		op := o.files[file]
		res := w.compound(0, "OPEN_DOWNGRADE", putfh(op.leaf.handle), &nfsv4.NfsArgop4_OP_OPEN_DOWNGRADE{OpopenDowngrade: nfsv4.OpenDowngrade4args{Seqid: nextSeq(o.seq), OpenStateid: op.sid, ShareAccess: access}})
		r.set("OPEN_DOWNGRADE", statusOf(res))
	}
}

func raw40reregister(cl string) func(w *world, x *mc.X, r *results) {
	return func(w *world, x *mc.X, r *results) {
		res := w.compound(0, "SETCLIENTID", &nfsv4.NfsArgop4_OP_SETCLIENTID{Opsetclientid: nfsv4.Setclientid4args{
			Client: nfsv4.NfsClientId4{Verifier: nfsv4.Verifier4{2}, Id: []byte(cl)},
		}})
		ok := res.Resarray[0].(*nfsv4.NfsResop4_OP_SETCLIENTID).Opsetclientid.(*nfsv4.Setclientid4res_NFS4_OK)
		for i := 0; i < 2; i++ {
			x.ResetLocal(fmt.Sprintf("confirm%d", i))
			res := w.compound(0, "SETCLIENTID_CONFIRM", &nfsv4.NfsArgop4_OP_SETCLIENTID_CONFIRM{OpsetclientidConfirm: nfsv4.SetclientidConfirm4args{
				Clientid: ok.Resok4.Clientid, SetclientidConfirm: ok.Resok4.SetclientidConfirm,
			}})
			r.set(fmt.Sprintf("CONFIRM%d", i), statusOf(res))
			if res.Status == nfsv4.NFS4_OK {
				break
			}
		}
	}
}

// raw40downgradeUpgradeClose is one client thread that sends, one after the
// other, OPEN_DOWNGRADE to read-only, OPEN for write again (an upgrade of
// the same open by the same open-owner) and CLOSE, each with the state ID
// returned by its predecessor.
func raw40downgradeUpgradeClose(cl, owner, file string) func(w *world, x *mc.X, r *results) {
	return func(w *world, x *mc.X, r *results) {
		c := w.client40(cl)
		o := c.owner(owner)
		op := o.files[file]
		seq, sid := nextSeq(o.seq), op.sid
		res := w.compound(0, "OPEN_DOWNGRADE", putfh(op.leaf.handle), &nfsv4.NfsArgop4_OP_OPEN_DOWNGRADE{OpopenDowngrade: nfsv4.OpenDowngrade4args{Seqid: seq, OpenStateid: sid, ShareAccess: accRead}})
		r.set("OPEN_DOWNGRADE", statusOf(res))
		if res.Status != nfsv4.NFS4_OK {
			return
		}
		sid = res.Resarray[1].(*nfsv4.NfsResop4_OP_OPEN_DOWNGRADE).OpopenDowngrade.(*nfsv4.OpenDowngrade4res_NFS4_OK).Resok4.OpenStateid
		x.ResetLocal(fmt.Sprintf("downgraded:%d", sid.Seqid))
		seq = nextSeq(seq)
		res = w.compound(0, "OPEN(upgrade)", &nfsv4.NfsArgop4_OP_PUTROOTFH{}, &nfsv4.NfsArgop4_OP_OPEN{Opopen: nfsv4.Open4args{
			Seqid: seq, ShareAccess: accWrite, ShareDeny: nfsv4.OPEN4_SHARE_DENY_NONE,
			Owner: nfsv4.OpenOwner4{Clientid: c.id, Owner: []byte(owner)}, Openhow: openflag(howNoCreate), Claim: &nfsv4.OpenClaim4_CLAIM_NULL{File: file},
		}})
		r.set("OPEN(upgrade)", statusOf(res))
		if res.Status != nfsv4.NFS4_OK {
			return
		}
		sid = res.Resarray[1].(*nfsv4.NfsResop4_OP_OPEN).Opopen.(*nfsv4.Open4res_NFS4_OK).Resok4.Stateid
		x.ResetLocal(fmt.Sprintf("upgraded:%d", sid.Seqid))
		seq = nextSeq(seq)
		res = w.compound(0, "CLOSE", putfh(op.leaf.handle), &nfsv4.NfsArgop4_OP_CLOSE{Opclose: nfsv4.Close4args{Seqid: seq, OpenStateid: sid}})
		r.set("CLOSE", statusOf(res))
	}
}

func rawPoke(n int) func(w *world, x *mc.X, r *results) {
	return func(w *world, x *mc.X, r *results) {
		for i := 0; i < n; i++ {
			x.ResetLocal(fmt.Sprintf("poke%d", i))
			w.poke()
		}
	}
}

// --- NFSv4.1 helpers -------------------------------------------------------

func raw41(cl string, slot uint32, what string, ops func(w *world) []nfsv4.NfsArgop4) func(w *world, x *mc.X, r *results) {
	return func(w *world, x *mc.X, r *results) {
		c := w.c41[cl]
		s := c.session()
		res := w.compound(1, what, append([]nfsv4.NfsArgop4{sequenceOp(s, slot, s.seq[slot]+1)}, ops(w)...)...)
		r.set(what, statusOf(res))
	}
}

func ops41io(k ioKind, cl, owner, file string) func(w *world) []nfsv4.NfsArgop4 {
	return func(w *world) []nfsv4.NfsArgop4 {
		op := open41of(w, cl, owner, file)
		return []nfsv4.NfsArgop4{putfh(op.leaf.handle), ioOp(k, op.sid)}
	}
}

func ops41close(cl, owner, file string) func(w *world) []nfsv4.NfsArgop4 {
	return func(w *world) []nfsv4.NfsArgop4 {
		op := open41of(w, cl, owner, file)
		return []nfsv4.NfsArgop4{putfh(op.leaf.handle), &nfsv4.NfsArgop4_OP_CLOSE{Opclose: nfsv4.Close4args{OpenStateid: op.sid}}}
	}
}

func ops41downgrade(cl, owner, file string, access uint32) func(w *world) []nfsv4.NfsArgop4 {
	return func(w *world) []nfsv4.NfsArgop4 {
		op := open41of(w, cl, owner, file)
		return []nfsv4.NfsArgop4{putfh(op.leaf.handle), &nfsv4.NfsArgop4_OP_OPEN_DOWNGRADE{OpopenDowngrade: nfsv4.OpenDowngrade4args{OpenStateid: op.sid, ShareAccess: access}}}
	}
}

// raw41downgradeUpgradeClose is the NFSv4.1 twin of
// raw40downgradeUpgradeClose, on one slot of the client's session.
func raw41downgradeUpgradeClose(cl string, slot uint32, owner, file string) func(w *world, x *mc.X, r *results) {
	return func(w *world, x *mc.X, r *results) {
		c := w.c41[cl]
		s := c.session()
		op := open41of(w, cl, owner, file)
		seq, sid := s.seq[slot]+1, op.sid
		res := w.compound(1, "OPEN_DOWNGRADE", sequenceOp(s, slot, seq), putfh(op.leaf.handle), &nfsv4.NfsArgop4_OP_OPEN_DOWNGRADE{OpopenDowngrade: nfsv4.OpenDowngrade4args{OpenStateid: sid, ShareAccess: accRead}})
		r.set("OPEN_DOWNGRADE", statusOf(res))
		if res.Status != nfsv4.NFS4_OK {
			return
		}
		sid = res.Resarray[2].(*nfsv4.NfsResop4_OP_OPEN_DOWNGRADE).OpopenDowngrade.(*nfsv4.OpenDowngrade4res_NFS4_OK).Resok4.OpenStateid
		x.ResetLocal(fmt.Sprintf("downgraded:%d", sid.Seqid))
		seq++
		res = w.compound(1, "OPEN(upgrade)", sequenceOp(s, slot, seq), &nfsv4.NfsArgop4_OP_PUTROOTFH{}, &nfsv4.NfsArgop4_OP_OPEN{Opopen: nfsv4.Open4args{
			ShareAccess: accWrite, ShareDeny: nfsv4.OPEN4_SHARE_DENY_NONE,
			Owner: nfsv4.OpenOwner4{Clientid: c.id, Owner: []byte(owner)}, Openhow: openflag(howNoCreate), Claim: &nfsv4.OpenClaim4_CLAIM_NULL{File: file},
		}})
		r.set("OPEN(upgrade)", statusOf(res))
		if res.Status != nfsv4.NFS4_OK {
			return
		}
		sid = res.Resarray[2].(*nfsv4.NfsResop4_OP_OPEN).Opopen.(*nfsv4.Open4res_NFS4_OK).Resok4.Stateid
		x.ResetLocal(fmt.Sprintf("upgraded:%d", sid.Seqid))
		seq++
		res = w.compound(1, "CLOSE", sequenceOp(s, slot, seq), putfh(op.leaf.handle), &nfsv4.NfsArgop4_OP_CLOSE{Opclose: nfsv4.Close4args{OpenStateid: sid}})
		r.set("CLOSE", statusOf(res))
	}
}

func raw41newIncarnation(cl string) func(w *world, x *mc.X, r *results) {
	return func(w *world, x *mc.X, r *results) {
		res := w.compound(1, "EXCHANGE_ID", &nfsv4.NfsArgop4_OP_EXCHANGE_ID{OpexchangeId: nfsv4.ExchangeId4args{
			EiaClientowner:  nfsv4.ClientOwner4{CoVerifier: nfsv4.Verifier4{2}, CoOwnerid: []byte(cl)},
			EiaStateProtect: &nfsv4.StateProtect4A_SP4_NONE{},
		}})
		ok := res.Resarray[0].(*nfsv4.NfsResop4_OP_EXCHANGE_ID).OpexchangeId.(*nfsv4.ExchangeId4res_NFS4_OK)
		for i := 0; i < 2; i++ {
			x.ResetLocal(fmt.Sprintf("create%d", i))
			res := w.compound(1, "CREATE_SESSION", createSessionArgs(ok.EirResok4.EirClientid, ok.EirResok4.EirSequenceid))
			r.set(fmt.Sprintf("CREATE_SESSION%d", i), statusOf(res))
			if res.Status == nfsv4.NFS4_OK {
				break
			}
		}
	}
}

func raw41destroy(cl string) func(w *world, x *mc.X, r *results) {
	return func(w *world, x *mc.X, r *results) {
		c := w.client41(cl)
		s := c.session()
		res := w.compound(1, "DESTROY_SESSION", &nfsv4.NfsArgop4_OP_DESTROY_SESSION{OpdestroySession: nfsv4.DestroySession4args{DsaSessionid: s.id}})
		r.set("DESTROY_SESSION", statusOf(res))
		x.ResetLocal("destroyed-session")
		res = w.compound(1, "DESTROY_CLIENTID", &nfsv4.NfsArgop4_OP_DESTROY_CLIENTID{OpdestroyClientid: nfsv4.DestroyClientid4args{DcaClientid: c.id}})
		r.set("DESTROY_CLIENTID", statusOf(res))
	}
}

// balancedNow: the client has given up its only open and all I/O has
// returned, so every leaf must be closed exactly as often as it was opened
// already now, without waiting for any lease to expire.
func balancedNow(what string) func(w *world, x *mc.X, r *results) {
	return func(w *world, x *mc.X, r *results) {
		if ok, msg := w.fs.balanced(); !ok {
			x.FailP("C18", "concurrent/unbalanced-after-"+what, "after %s and the concurrent I/O both returned (%s): %s", what, r.dump(), msg)
		}
	}
}

func expectOK(keys ...string) func(w *world, x *mc.X, r *results) {
	return func(w *world, x *mc.X, r *results) {
		for _, k := range keys {
			if !strings.HasPrefix(r.get(k), "0/") {
				x.FailP("C18", "concurrent/entitled-refused/"+k, "%s with a valid state ID failed: %s", k, r.dump())
			}
		}
	}
}

func both(fs ...func(w *world, x *mc.X, r *results)) func(w *world, x *mc.X, r *results) {
	return func(w *world, x *mc.X, r *results) {
		for _, f := range fs {
			f(w, x, r)
		}
	}
}

// --- C19: duplicates of requests that are still being processed ------------

func open40args(cl *client40, owner, file string, seq uint32) []nfsv4.NfsArgop4 {
	return []nfsv4.NfsArgop4{&nfsv4.NfsArgop4_OP_PUTROOTFH{}, &nfsv4.NfsArgop4_OP_OPEN{Opopen: nfsv4.Open4args{
		Seqid: seq, ShareAccess: accRead, ShareDeny: nfsv4.OPEN4_SHARE_DENY_NONE,
		Owner: nfsv4.OpenOwner4{Clientid: cl.id, Owner: []byte(owner)}, Openhow: openflag(howNoCreate), Claim: &nfsv4.OpenClaim4_CLAIM_NULL{File: file},
	}}}
}

func dup40(tag, cl, owner, file string, seqDelta uint32) func(w *world, x *mc.X, r *results) {
	return func(w *world, x *mc.X, r *results) {
		c := w.c40[cl]
		seq := seqDelta
		if o, ok := c.owners[owner]; ok {
			seq += o.seq
		}
		res := w.compound(0, "OPEN", open40args(c, owner, file, seq)...)
		r.set(tag, fmt.Sprintf("%d:%x", res.Status, encodeRes(res)))
	}
}

func dup41(tag, cl string, slot uint32, file string) func(w *world, x *mc.X, r *results) {
	return func(w *world, x *mc.X, r *results) {
		c := w.c41[cl]
		s := c.session()
		res := w.compound(1, "OPEN41", sequenceOp(s, slot, s.seq[slot]+1), &nfsv4.NfsArgop4_OP_PUTROOTFH{}, &nfsv4.NfsArgop4_OP_OPEN{Opopen: nfsv4.Open4args{
			ShareAccess: accRead, ShareDeny: nfsv4.OPEN4_SHARE_DENY_NONE,
			Owner: nfsv4.OpenOwner4{Clientid: c.id, Owner: []byte("O9")}, Openhow: openflag(howNoCreate), Claim: &nfsv4.OpenClaim4_CLAIM_NULL{File: file},
		}}, &nfsv4.NfsArgop4_OP_GETFH{})
		r.set(tag, fmt.Sprintf("%d:%x", res.Status, encodeRes(res)))
	}
}

// sameReply: the duplicate got the original's bytes and the VFS saw one
// open of the file.
func sameReply(file string, opensBefore int) func(w *world, x *mc.X, r *results) {
	return func(w *world, x *mc.X, r *results) {
		a, b := r.get("original"), r.get("duplicate")
		if !strings.HasPrefix(a, "0:") {
			x.FailP("C19", "concurrent/original-failed", "the original request failed: %s", a)
			return
		}
		if a != b {
			x.FailP("C19", "concurrent/duplicate-different-reply", "the duplicate that arrived while the original was being processed was answered differently:\noriginal  %s\nduplicate %s", a, b)
		}
		leaf := w.fs.linked[file]
		if got := leaf.opens[bitRead]; got != opensBefore+1 {
			x.FailP("C19", "concurrent/executed-twice", "original and in-flight duplicate: leaf %s was opened %d times instead of once", leaf.id, got-opensBefore)
		}
	}
}

// noteInFlightDuplicate remembers that, at some quiescent point, a slot of
// an NFSv4.1 session was busy with a request AND had a duplicate of that
// request waiting for its result: the retransmission arrived while the
// original was being processed.
var busyWithWaiter = regexp.MustCompile(`busy\+[1-9]`)

func noteInFlightDuplicate(w *world, x *mc.X, r *results) {
	if r.get("waiter") == "" && busyWithWaiter.MatchString(w.inspect41().Dump) {
		r.set("waiter", "registered-while-original-in-progress")
	}
}

// noteMaxWaiters remembers the largest number of retransmissions seen
// waiting on one busy NFSv4.1 slot (evidence only: it makes the outcomes of
// the two-duplicates scenario distinguish "both waited" from "one waited").
var busyWaiters = regexp.MustCompile(`busy\+([0-9]+)`)

func noteMaxWaiters(w *world, x *mc.X, r *results) {
	for _, m := range busyWaiters.FindAllStringSubmatch(w.inspect41().Dump, -1) {
		if m[1] > r.get("max-waiters") {
			r.set("max-waiters", m[1])
		}
	}
}

// sameReplyUncached is sameReply for requests sent with sa_cachethis=false.
// Which of the two identical requests the server treats as the original is
// decided by the schedule. The one that arrived second
//   - WHILE the first was being processed (the slot was seen busy with a
//     waiter) "completes with the original's result": same bytes;
//   - after the first completed gets the same bytes or
//     NFS4ERR_RETRY_UNCACHED_REP (RFC 8881, section 2.10.6.1.3).
//
// Either way the file is opened once.
func sameReplyUncached(file string) func(w *world, x *mc.X, r *results) {
	return func(w *world, x *mc.X, r *results) {
		a, b := r.get("original"), r.get("duplicate")
		if !strings.HasPrefix(a, "0:") {
			a, b = b, a
		}
		if !strings.HasPrefix(a, "0:") {
			x.FailP("C19", "concurrent/original-failed", "neither of the two identical requests succeeded: %s / %s", a, b)
			return
		}
		if a != b {
			uncachedRep := fmt.Sprintf("%d:", nfsv4.NFS4ERR_RETRY_UNCACHED_REP)
			if r.get("waiter") != "" {
				x.FailP("C19", "concurrent/inflight-duplicate-different-reply", "sa_cachethis=false: the duplicate arrived while the original was being processed (slot busy with a waiter), but did not complete with the original's result:\noriginal  %s\nduplicate %s", a, b)
			} else if !strings.HasPrefix(b, uncachedRep) {
				x.FailP("C19", "concurrent/duplicate-different-reply", "sa_cachethis=false: the duplicate that arrived after the original completed was answered neither with the original's reply nor with NFS4ERR_RETRY_UNCACHED_REP:\noriginal  %s\nduplicate %s", a, b)
			}
		}
		leaf := w.fs.linked[file]
		if got := leaf.opens[bitRead]; got != 1 {
			x.FailP("C19", "concurrent/executed-twice", "original and duplicate (sa_cachethis=false): leaf %s was opened %d times instead of once", leaf.id, got)
		}
	}
}

// sameReplies generalises sameReply to several retransmissions of one
// request that are all in flight together with it: the requests are
// identical, so whichever enters the server first is executed; EVERY other
// one must end with exactly its bytes, and the VFS saw one open.
func sameReplies(file string, opensBefore int, tags ...string) func(w *world, x *mc.X, r *results) {
	return func(w *world, x *mc.X, r *results) {
		a := r.get(tags[0])
		if !strings.HasPrefix(a, "0:") {
			x.FailP("C19", "concurrent/original-failed", "the original request failed: %s", a)
			return
		}
		for _, t := range tags[1:] {
			if b := r.get(t); a != b {
				x.FailP("C19", "concurrent/duplicate-different-reply", "retransmission %q, which arrived while the original was being processed, was answered differently:\noriginal  %s\n%-9s %s", t, a, t, b)
			}
		}
		leaf := w.fs.linked[file]
		if got := leaf.opens[bitRead]; got != opensBefore+1 {
			x.FailP("C19", "concurrent/executed-twice", "original and %d in-flight retransmissions: leaf %s was opened %d times instead of once", len(tags)-1, leaf.id, got-opensBefore)
		}
	}
}

// next40close sends the open-owner's NEXT request (CLOSE of another file it
// has open, sequence number last+2) while OPEN (last+1) and its
// retransmission are in flight.
func next40close(tag, cl, owner, file string) func(w *world, x *mc.X, r *results) {
	return func(w *world, x *mc.X, r *results) {
		o := w.c40[cl].owners[owner]
		op := o.files[file]
		res := w.compound(0, "CLOSE(next seqid)", putfh(op.leaf.handle), &nfsv4.NfsArgop4_OP_CLOSE{Opclose: nfsv4.Close4args{Seqid: nextSeq(nextSeq(o.seq)), OpenStateid: op.sid}})
		r.set(tag, fmt.Sprintf("%d:%x", res.Status, encodeRes(res)))
	}
}

// sameReplyOrOvertaken is the oracle of "original, retransmission and the
// same open-owner's next request in flight together". The two OPENs are
// identical; the one the server executes is the original. The other one
// ends with the original's bytes, unless the request with the NEXT sequence
// number was processed before it got its turn: NFSv4.0 keeps one reply per
// owner, so a retransmission that the owner's next request has overtaken
// can only be refused (NFS4ERR_BAD_SEQID), without side effects. The next
// request itself is either executed (NFS4_OK) or, if it entered the server
// before the OPEN it follows, refused as misordered. The VFS saw one open.
func sameReplyOrOvertaken(file string, opensBefore int) func(w *world, x *mc.X, r *results) {
	return func(w *world, x *mc.X, r *results) {
		a, b, n := r.get("original"), r.get("duplicate"), r.get("next")
		if !strings.HasPrefix(a, "0:") {
			a, b = b, a
		}
		if !strings.HasPrefix(a, "0:") {
			x.FailP("C19", "concurrent/original-failed", "neither of the two identical OPEN requests succeeded: %s / %s (next request: %s)", a, b, n)
			return
		}
		badSeqid := fmt.Sprintf("%d:", nfsv4.NFS4ERR_BAD_SEQID)
		if a != b && !(strings.HasPrefix(b, badSeqid) && strings.HasPrefix(n, "0:")) {
			x.FailP("C19", "concurrent/duplicate-different-reply", "the retransmission was neither answered with the original's reply nor refused because the owner's next request had overtaken it:\noriginal  %s\nduplicate %s\nnext      %s", a, b, n)
		}
		if !strings.HasPrefix(n, "0:") && !strings.HasPrefix(n, badSeqid) {
			x.FailP("C19", "concurrent/next-request-misanswered", "the open-owner's next request (CLOSE, sequence number last+2) was neither executed nor refused as misordered: %s", n)
		}
		leaf := w.fs.linked[file]
		if got := leaf.opens[bitRead]; got != opensBefore+1 {
			x.FailP("C19", "concurrent/executed-twice", "original, retransmission and next request: leaf %s was opened %d times instead of once", leaf.id, got-opensBefore)
		}
	}
}

// --- C19: CREATE_SESSION that cannot be executed yet ------------------------

// delayedCreateSession is a new incarnation of client cl (same owner, new
// verifier): EXCHANGE_ID, then CREATE_SESSION, retransmitted with the SAME
// csa_sequence up to `attempts` times until it succeeds. While the confirmed
// incarnation has a request parked in the VFS the server answers
// NFS4ERR_DELAY without executing (or caching) anything.
func delayedCreateSession(cl string, attempts int) func(w *world, x *mc.X, r *results) {
	return func(w *world, x *mc.X, r *results) {
		res := w.compound(1, "EXCHANGE_ID", &nfsv4.NfsArgop4_OP_EXCHANGE_ID{OpexchangeId: nfsv4.ExchangeId4args{
			EiaClientowner:  nfsv4.ClientOwner4{CoVerifier: nfsv4.Verifier4{2}, CoOwnerid: []byte(cl)},
			EiaStateProtect: &nfsv4.StateProtect4A_SP4_NONE{},
		}})
		ok := res.Resarray[0].(*nfsv4.NfsResop4_OP_EXCHANGE_ID).OpexchangeId.(*nfsv4.ExchangeId4res_NFS4_OK)
		id, seq := ok.EirResok4.EirClientid, ok.EirResok4.EirSequenceid
		r.set("cs-args", fmt.Sprintf("%d/%d", id, seq))
		for i := 0; i < attempts; i++ {
			x.ResetLocal(fmt.Sprintf("create%d", i))
			res := w.compound(1, "CREATE_SESSION", createSessionArgs(id, seq))
			r.set(fmt.Sprintf("cs%d", i), fmt.Sprintf("%d:%x", res.Status, encodeRes(res)))
			noteSession41(r, res)
			if res.Status == nfsv4.NFS4_OK {
				break
			}
		}
	}
}

// createSessionRetransmissions judges the replies of delayedCreateSession
// once everything has returned. A retransmission is answered either by
// executing the request (NFS4_OK) or with the reply the request got before
// (here NFS4ERR_DELAY: not executed, try again) -- never with a reply that
// belongs to another sequence number. As soon as the old incarnation's
// request has returned the retransmission must succeed, and once it has
// succeeded every further retransmission gets exactly those bytes and
// creates no second session.
func createSessionRetransmissions(attempts int) func(w *world, x *mc.X, r *results) {
	return func(w *world, x *mc.X, r *results) {
		var id uint64
		var seq uint32
		if _, err := fmt.Sscanf(r.get("cs-args"), "%d/%d", &id, &seq); err != nil {
			return
		}
		okPrefix, delayPrefix := "0:", fmt.Sprintf("%d:", nfsv4.NFS4ERR_DELAY)
		first, success := r.get("cs0"), ""
		seen := map[string]bool{}
		judge := func(what, reply string, retransmission bool) {
			switch {
			case success != "":
				if reply != success {
					x.FailP("C19", "concurrent/create-session-retransmission-different-reply", "%s: the request had already been executed, but its retransmission was answered differently:\nexecuted  %s\nthis one  %s", what, success, reply)
				}
			case strings.HasPrefix(reply, okPrefix):
				success = reply
			case retransmission && !seen[reply]:
				x.FailP("C19", "concurrent/create-session-retransmission-misanswered", "%s (same csa_sequence %d; first reply %s) was neither executed nor answered like before, but with %s (NFS4ERR_SEQ_MISORDERED is %d, NFS4ERR_DELAY is %d)", what, seq, strings.SplitN(first, ":", 2)[0], strings.SplitN(reply, ":", 2)[0], nfsv4.NFS4ERR_SEQ_MISORDERED, nfsv4.NFS4ERR_DELAY)
			}
			seen[reply] = true
		}
		for i := 0; i < attempts; i++ {
			if reply := r.get(fmt.Sprintf("cs%d", i)); reply != "" {
				judge(fmt.Sprintf("CREATE_SESSION retransmission %d", i), reply, i > 0)
			}
		}
		if !strings.HasPrefix(first, okPrefix) && !strings.HasPrefix(first, delayPrefix) {
			// Not the history this scenario is about.
			return
		}
		if success == "" {
			res := w.compound(1, "CREATE_SESSION(after the old incarnation's request returned)", createSessionArgs(id, seq))
			noteSession41(r, res)
			reply := fmt.Sprintf("%d:%x", res.Status, encodeRes(res))
			judge("CREATE_SESSION retransmitted after the old incarnation's request had returned", reply, true)
			if success == "" {
				x.FailP("C19", "concurrent/create-session-never-executed", "CREATE_SESSION (csa_sequence %d) was first answered %s; retransmitted after the old incarnation's blocking request had returned it is still not executed: %s", seq, strings.SplitN(first, ":", 2)[0], strings.SplitN(reply, ":", 2)[0])
				return
			}
		}
		// Executed: one more retransmission gets the same bytes and
		// creates nothing.
		before := w.snapshot()
		res := w.compound(1, "CREATE_SESSION(retransmitted after execution)", createSessionArgs(id, seq))
		judge("CREATE_SESSION retransmitted after it had been executed", fmt.Sprintf("%d:%x", res.Status, encodeRes(res)), true)
		if after := w.snapshot(); after != before {
			x.FailP("C19", "concurrent/create-session-executed-twice", "the retransmission of an executed CREATE_SESSION changed state:\n--- before\n%s\n--- after\n%s", before, after)
		}
	}
}

func scenarios() []*mc.Scenario {
	var out []*mc.Scenario
	c18 := []string{"C18"}

	// ---- C18, NFSv4.0 ----
	p40 := prefix40Open("c1", "O1", "a", accBoth)
	out = append(out,
		concScenario(concSpec{name: "c40-read-close", props: c18, liveness: c18, prefix: p40,
			threads: []concThread{{"io", raw40io(ioRead, "c1", "O1", "a")}, {"close", raw40close("c1", "O1", "a")}},
			finish:  both(expectOK("CLOSE"), balancedNow("CLOSE"))}),
		concScenario(concSpec{name: "c40-write-downgrade-close", props: c18, liveness: c18, prefix: p40,
			threads: []concThread{{"io", raw40io(ioWrite, "c1", "O1", "a")}, {"downgrade", func(w *world, x *mc.X, r *results) {
				raw40downgrade("c1", "O1", "a", accRead)(w, x, r)
			}}},
			finish: expectOK("OPEN_DOWNGRADE")}),
		concScenario(concSpec{name: "c40-write-reregister", props: c18, liveness: c18, prefix: p40,
			threads: []concThread{{"io", raw40io(ioWrite, "c1", "O1", "a")}, {"register", raw40reregister("c1")}}}),
		// The WRITE parked in the leaf holds a clone of the read+write
		// share reservation that outlives the OPEN_DOWNGRADE; the same
		// open-owner then upgrades to write again and closes.
		concScenario(concSpec{name: "c40-write-downgrade-upgrade-close", props: c18, liveness: c18, prefix: p40,
			threads: []concThread{{"io", raw40io(ioWrite, "c1", "O1", "a")}, {"owner", raw40downgradeUpgradeClose("c1", "O1", "a")}},
			finish:  both(expectOK("OPEN_DOWNGRADE", "OPEN(upgrade)", "CLOSE"), balancedNow("CLOSE"))}),
		concScenario(concSpec{name: "c40-read-expiry", props: c18, liveness: c18, prefix: p40,
			threads: []concThread{{"io", raw40io(ioRead, "c1", "O1", "a")}, {"poke", rawPoke(2)}},
			events:  []concEvent{{"clock+lease", func(w *world) { w.advance(pastLease) }}}}),
	)

	// ---- C18, NFSv4.1 ----
	p41 := prefix41Open("d1", "O1", "a", accBoth)
	out = append(out,
		concScenario(concSpec{name: "c41-read-close", props: c18, liveness: c18, prefix: p41,
			threads: []concThread{{"io", raw41("d1", 0, "READ", ops41io(ioRead, "d1", "O1", "a"))}, {"close", raw41("d1", 1, "CLOSE", ops41close("d1", "O1", "a"))}},
			finish:  both(expectOK("CLOSE"), balancedNow("CLOSE"))}),
		concScenario(concSpec{name: "c41-write-downgrade", props: c18, liveness: c18, prefix: p41,
			threads: []concThread{{"io", raw41("d1", 0, "WRITE", ops41io(ioWrite, "d1", "O1", "a"))}, {"downgrade", raw41("d1", 1, "OPEN_DOWNGRADE", ops41downgrade("d1", "O1", "a", accRead))}},
			finish:  expectOK("OPEN_DOWNGRADE")}),
		concScenario(concSpec{name: "c41-write-downgrade-upgrade-close", props: c18, liveness: c18, prefix: p41,
			threads: []concThread{{"io", raw41("d1", 0, "WRITE", ops41io(ioWrite, "d1", "O1", "a"))}, {"owner", raw41downgradeUpgradeClose("d1", 1, "O1", "a")}},
			finish:  both(expectOK("OPEN_DOWNGRADE", "OPEN(upgrade)", "CLOSE"), balancedNow("CLOSE"))}),
		concScenario(concSpec{name: "c41-write-new-incarnation", props: c18, liveness: c18, prefix: p41,
			threads: []concThread{{"io", raw41("d1", 0, "WRITE", ops41io(ioWrite, "d1", "O1", "a"))}, {"register", raw41newIncarnation("d1")}}}),
		concScenario(concSpec{name: "c41-read-destroy", props: c18, liveness: c18, prefix: p41,
			threads: []concThread{{"io", raw41("d1", 0, "READ", ops41io(ioRead, "d1", "O1", "a"))}, {"destroy", raw41destroy("d1")}}}),
		concScenario(concSpec{name: "c41-write-expiry", props: c18, liveness: c18, prefix: p41,
			threads: []concThread{{"io", raw41("d1", 0, "WRITE", ops41io(ioWrite, "d1", "O1", "a"))}, {"poke", rawPoke(2)}},
			events:  []concEvent{{"clock+lease", func(w *world) { w.advance(pastLease) }}}}),
	)

	// ---- C19: in-flight duplicates ----
	c19 := []string{"C19"}
	out = append(out,
		// NFSv4.1: original parked in VirtualOpenChild, duplicate on the
		// same slot with the same sequence number, an unrelated request
		// on the other slot. (A request with the NEXT number of the same
		// slot or owner may legitimately overtake the duplicate and
		// invalidate it; "a new request proceeds normally" is checked
		// sequentially.)
		concScenario(concSpec{name: "c41-inflight-duplicate", props: []string{"C19", "C18"}, liveness: c19, prefix: prefix41Session("d1"),
			threads: []concThread{{"original", dup41("original", "d1", 0, "a")}, {"duplicate", dup41("duplicate", "d1", 0, "a")}, {"other", dup41("other", "d1", 1, "b")}},
			finish:  sameReply("a", 0)}),
		// The same with sa_cachethis=false: the reply is NOT kept in the
		// slot's replay cache (only a RETRY_UNCACHED_REP stub is), so a
		// duplicate that waits for the original must be handed the real
		// result. Without the unrelated request: all interleavings (unbounded).
		concScenario(concSpec{name: "c41-inflight-duplicate-uncached", props: []string{"C19", "C18"}, liveness: c19,
			bounds:  map[string]int{"quick": -1, "thorough": -1},
			prefix:  chain(func(w *world, f failer) { w.uncached41 = true }, prefix41Session("d1")),
			threads: []concThread{{"original", dup41("original", "d1", 0, "a")}, {"duplicate", dup41("duplicate", "d1", 0, "a")}},
			monitor: noteInFlightDuplicate,
			finish:  sameReplyUncached("a")}),
		// ... and with the unrelated request on the other slot.
		concScenario(concSpec{name: "c41-inflight-duplicate-uncached-3", props: []string{"C19"}, liveness: c19,
			bounds:  map[string]int{"quick": 2, "thorough": -1},
			prefix:  chain(func(w *world, f failer) { w.uncached41 = true }, prefix41Session("d1")),
			threads: []concThread{{"original", dup41("original", "d1", 0, "a")}, {"duplicate", dup41("duplicate", "d1", 0, "a")}, {"other", dup41("other", "d1", 1, "b")}},
			monitor: noteInFlightDuplicate,
			finish:  sameReplyUncached("a")}),
		// NFSv4.0, confirmed open-owner: original parked in
		// VirtualOpenChild with the server lock dropped.
		concScenario(concSpec{name: "c40-inflight-duplicate", props: []string{"C19", "C18"}, liveness: c19, prefix: prefix40Open("c1", "O1", "b", accRead),
			threads: []concThread{{"original", dup40("original", "c1", "O1", "a", 1)}, {"duplicate", dup40("duplicate", "c1", "O1", "a", 1)}, {"other", dup40("other", "c1", "O2", "b", 1)}},
			finish:  sameReply("a", 0)}),
		// NFSv4.0, open-owner that the server has never seen.
		concScenario(concSpec{name: "c40-inflight-duplicate-new-owner", props: []string{"C19", "C18"}, liveness: c19, prefix: prefix40Confirmed("c1"),
			threads: []concThread{{"original", dup40("original", "c1", "O7", "a", 1)}, {"duplicate", dup40("duplicate", "c1", "O7", "a", 1)}},
			finish:  sameReply("a", 0)}),
		// SEVERAL requests of the same open-owner waiting for the one
		// transaction that is parked in VirtualOpenChild (ALL interleavings
		// also in the quick tier: with state pruning these are < 2000
		// executions). Two retransmissions ...
		concScenario(concSpec{name: "c40-inflight-two-duplicates", props: []string{"C19", "C18"}, liveness: c19, prefix: prefix40Open("c1", "O1", "b", accRead),
			bounds:  map[string]int{"quick": -1, "thorough": -1},
			threads: []concThread{{"original", dup40("original", "c1", "O1", "a", 1)}, {"duplicate", dup40("duplicate", "c1", "O1", "a", 1)}, {"duplicate2", dup40("duplicate2", "c1", "O1", "a", 1)}},
			finish:  sameReplies("a", 0, "original", "duplicate", "duplicate2")}),
		// ... the same for an open-owner the server has never seen ...
		concScenario(concSpec{name: "c40-inflight-two-duplicates-new-owner", props: []string{"C19"}, liveness: c19, prefix: prefix40Confirmed("c1"),
			bounds:  map[string]int{"quick": -1, "thorough": -1},
			threads: []concThread{{"original", dup40("original", "c1", "O7", "a", 1)}, {"duplicate", dup40("duplicate", "c1", "O7", "a", 1)}, {"duplicate2", dup40("duplicate2", "c1", "O7", "a", 1)}},
			finish:  sameReplies("a", 0, "original", "duplicate", "duplicate2")}),
		// ... and a retransmission plus the open-owner's NEXT request
		// (CLOSE of its other file with sequence number last+2).
		concScenario(concSpec{name: "c40-inflight-duplicate-next-seqid", props: []string{"C19", "C18"}, liveness: c19, prefix: prefix40Open("c1", "O1", "b", accRead),
			bounds:  map[string]int{"quick": -1, "thorough": -1},
			threads: []concThread{{"original", dup40("original", "c1", "O1", "a", 1)}, {"duplicate", dup40("duplicate", "c1", "O1", "a", 1)}, {"next", next40close("next", "c1", "O1", "b")}},
			finish:  sameReplyOrOvertaken("a", 0)}),
		// NFSv4.1 twin: two retransmissions registered as waiters of one
		// busy slot, all interleavings.
		concScenario(concSpec{name: "c41-inflight-two-duplicates", props: []string{"C19"}, liveness: c19, prefix: prefix41Session("d1"),
			bounds:  map[string]int{"quick": -1, "thorough": -1},
			threads: []concThread{{"original", dup41("original", "d1", 0, "a")}, {"duplicate", dup41("duplicate", "d1", 0, "a")}, {"duplicate2", dup41("duplicate2", "d1", 0, "a")}},
			monitor: noteMaxWaiters,
			finish:  sameReplies("a", 0, "original", "duplicate", "duplicate2")}),
		// NFSv4.1 CREATE_SESSION of a new incarnation while the confirmed
		// incarnation has a request parked in the VFS (WRITE inside the
		// leaf, OPEN inside the directory): answered NFS4ERR_DELAY without
		// being executed, then retransmitted with the same csa_sequence.
		concScenario(concSpec{name: "c41-create-session-delayed-write", props: []string{"C19", "C18"}, liveness: c19, prefix: p41,
			threads: []concThread{{"io", raw41("d1", 0, "WRITE", ops41io(ioWrite, "d1", "O1", "a"))}, {"register", delayedCreateSession("d1", 2)}},
			finish:  both(createSessionRetransmissions(2), reregistered41("d1", "O1", "a"))}),
		concScenario(concSpec{name: "c41-create-session-delayed-open", props: []string{"C19", "C18"}, liveness: c19, prefix: prefix41Session("d1"),
			threads: []concThread{{"open", dup41("original", "d1", 0, "a")}, {"register", delayedCreateSession("d1", 2)}},
			finish:  both(createSessionRetransmissions(2), reregistered41("d1", "", ""))}),
	)
	return out
}
