package inputroot

// Catalogue of input roots (REv2 Directory DAGs) for property C17, the
// compilation of a catalogue entry into CAS blobs, and the *independent*
// specification of what each Directory message denotes (which names exist,
// of which kind, and whether the message is malformed).

import (
	"fmt"
	"sort"
	"strings"

	remoteexecution "github.com/bazelbuild/remote-apis/build/bazel/remote/execution/v2"
	"github.com/buildbarn/bb-storage/pkg/digest"
	"google.golang.org/protobuf/proto"
)

// How the digest field of an entry is written into the Directory message.
const (
	digOK      = iota
	digBadHash // hash of the wrong length
	digNegSize // negative size
	digNil     // no digest at all
)

type fileEnt struct {
	name string
	blob int // index into fileBlobs
	exec bool
	dig  int
}

type dirEnt struct {
	name  string
	child int // index into input.dirs; always greater than the index of the parent
	dig   int
}

type symEnt struct {
	name   string
	target string
}

type dirSpec struct {
	files []fileEnt
	dirs  []dirEnt
	syms  []symEnt
	// garbage: the blob stored under the digest is not a Directory message.
	garbage bool
	// absent: the blob is not stored in the CAS at all.
	absent bool
}

type input struct {
	name string
	dirs []dirSpec // dirs[0] is the root
}

// File contents. The last one is never stored in the CAS ("missing file blob").
var fileBlobs = [][]byte{
	[]byte("hello"),
	[]byte("WORLD!!"),
	[]byte(""),
	[]byte("ghost-not-in-cas"),
}

const (
	blobHello = 0
	blobWorld = 1
	blobEmpty = 2
	blobGhost = 3
)

const symTarget = "../tgt/x"

var digestFunction = digest.MustNewFunction("inst", remoteexecution.DigestFunction_SHA256)

func digestOf(data []byte) digest.Digest {
	g := digestFunction.NewGenerator(int64(len(data)))
	g.Write(data)
	return g.Sum()
}

func casKey(d digest.Digest) string { return d.GetKey(digest.KeyWithoutInstance) }

// Kinds of nodes of the denoted tree.
const (
	kDir = iota
	kFile
	kSym
	kLocalFile
)

// kid is one entry of the tree denoted by a well-formed Directory message.
type kid struct {
	name   string
	kind   int
	child  int // kDir
	blob   int // kFile
	exec   bool
	target string
}

// compiled is an input together with its blobs and its denotation.
type compiled struct {
	in         *input
	dirDigest  []digest.Digest
	fileDigest []digest.Digest
	// blobs: CAS key -> contents of everything that is stored.
	blobs map[string][]byte
	// isDir: CAS keys (stored or not) that are requested as Directory objects.
	isDir map[string]bool
	// malformed[i]: dirs[i] must surface as an error (invalid or duplicate
	// name, bad digest, not a Directory message).
	malformed []bool
	why       []string
	// dirPaths: every path of the denoted tree at which a directory is
	// found (unloadable directories included, their children excluded),
	// "" being the root; sorted.
	dirPaths []string
}

func validName(s string) bool {
	return s != "" && s != "." && s != ".." && !strings.ContainsAny(s, "/\x00")
}

func protoDigest(d digest.Digest, mode int) *remoteexecution.Digest {
	switch mode {
	case digBadHash:
		return &remoteexecution.Digest{Hash: "abcdef0123", SizeBytes: d.GetSizeBytes()}
	case digNegSize:
		return &remoteexecution.Digest{Hash: d.GetProto().Hash, SizeBytes: -1}
	case digNil:
		return nil
	}
	return d.GetProto()
}

func compile(in *input) *compiled {
	c := &compiled{
		in:        in,
		dirDigest: make([]digest.Digest, len(in.dirs)),
		blobs:     map[string][]byte{},
		isDir:     map[string]bool{},
		malformed: make([]bool, len(in.dirs)),
		why:       make([]string, len(in.dirs)),
	}
	for i, b := range fileBlobs {
		d := digestOf(b)
		c.fileDigest = append(c.fileDigest, d)
		if i != blobGhost {
			c.blobs[casKey(d)] = b
		}
	}
	for i := len(in.dirs) - 1; i >= 0; i-- {
		s := &in.dirs[i]
		msg := &remoteexecution.Directory{}
		names := map[string]int{}
		bad := func(format string, args ...any) {
			if !c.malformed[i] {
				c.malformed[i] = true
				c.why[i] = fmt.Sprintf(format, args...)
			}
		}
		for _, f := range s.files {
			msg.Files = append(msg.Files, &remoteexecution.FileNode{Name: f.name, Digest: protoDigest(c.fileDigest[f.blob], f.dig), IsExecutable: f.exec})
			names[f.name]++
			if !validName(f.name) {
				bad("invalid file name %q", f.name)
			}
			if f.dig != digOK {
				bad("bad digest of file %q", f.name)
			}
		}
		for _, d := range s.dirs {
			if d.child <= i || d.child >= len(in.dirs) {
				panic("catalogue: child index must be greater than parent index")
			}
			msg.Directories = append(msg.Directories, &remoteexecution.DirectoryNode{Name: d.name, Digest: protoDigest(c.dirDigest[d.child], d.dig)})
			names[d.name]++
			if !validName(d.name) {
				bad("invalid directory name %q", d.name)
			}
			if d.dig != digOK {
				bad("bad digest of directory %q", d.name)
			}
		}
		for _, l := range s.syms {
			msg.Symlinks = append(msg.Symlinks, &remoteexecution.SymlinkNode{Name: l.name, Target: l.target})
			names[l.name]++
			if !validName(l.name) {
				bad("invalid symlink name %q", l.name)
			}
		}
		for n, k := range names {
			if k > 1 {
				bad("duplicate name %q", n)
			}
		}
		data, err := proto.MarshalOptions{Deterministic: true}.Marshal(msg)
		if err != nil {
			panic(err)
		}
		if s.garbage {
			// Wire type 7 does not exist: not parseable as any message.
			data = []byte{0x0f, 0xff, 0xff, byte(i)}
			bad("not a Directory message")
		}
		c.dirDigest[i] = digestOf(data)
		c.isDir[casKey(c.dirDigest[i])] = true
		if !s.absent {
			c.blobs[casKey(c.dirDigest[i])] = data
		}
	}
	// Enumerate directory paths.
	seen := map[string]bool{}
	var walk func(p string, i int, depth int)
	walk = func(p string, i int, depth int) {
		if seen[p] {
			return
		}
		seen[p] = true
		c.dirPaths = append(c.dirPaths, p)
		if !c.loadable(i) {
			return
		}
		for _, k := range c.kids(i) {
			if k.kind == kDir {
				walk(joinPath(p, k.name), k.child, depth+1)
			}
		}
	}
	walk("", 0, 0)
	sort.Strings(c.dirPaths)
	return c
}

func joinPath(p, n string) string {
	if p == "" {
		return n
	}
	return p + "/" + n
}

func splitPath(p string) []string {
	if p == "" {
		return nil
	}
	return strings.Split(p, "/")
}

// loadable reports whether directory i denotes a listing at all.
func (c *compiled) loadable(i int) bool {
	return !c.malformed[i] && !c.in.dirs[i].absent
}

// kids returns the denotation of a well-formed directory, sorted by name.
func (c *compiled) kids(i int) []kid {
	s := &c.in.dirs[i]
	var r []kid
	for _, f := range s.files {
		r = append(r, kid{name: f.name, kind: kFile, blob: f.blob, exec: f.exec})
	}
	for _, d := range s.dirs {
		r = append(r, kid{name: d.name, kind: kDir, child: d.child})
	}
	for _, l := range s.syms {
		r = append(r, kid{name: l.name, kind: kSym, target: l.target})
	}
	sort.Slice(r, func(a, b int) bool { return r[a].name < r[b].name })
	return r
}

// ---------------------------------------------------------------------
// Catalogue.

// Entry options of the one-level class.
type leafOpt struct {
	tag string
	add func(in *input, d int, name string)
}

func addFile(blob int, exec bool) func(in *input, d int, name string) {
	return func(in *input, d int, name string) {
		in.dirs[d].files = append(in.dirs[d].files, fileEnt{name: name, blob: blob, exec: exec})
	}
}

func addSym(in *input, d int, name string) {
	in.dirs[d].syms = append(in.dirs[d].syms, symEnt{name: name, target: symTarget})
}

func addDir(spec dirSpec) func(in *input, d int, name string) {
	return func(in *input, d int, name string) {
		in.dirs = append(in.dirs, spec)
		in.dirs[d].dirs = append(in.dirs[d].dirs, dirEnt{name: name, child: len(in.dirs) - 1})
	}
}

var (
	specEmpty = dirSpec{}
	// F: a leaf directory with both blobs, one of them executable.
	specF = dirSpec{files: []fileEnt{{name: "a", blob: blobHello}, {name: "b", blob: blobWorld, exec: true}}}
	// G: a leaf directory with one executable file only.
	specG = dirSpec{files: []fileEnt{{name: "a", blob: blobWorld, exec: true}}}
)

func leafOpts() []leafOpt {
	return []leafOpt{
		{"none", func(*input, int, string) {}},
		{"f0", addFile(blobHello, false)},
		{"f0x", addFile(blobHello, true)},
		{"f1", addFile(blobWorld, false)},
		{"sym", addSym},
		{"dE", addDir(specEmpty)},
		{"dG", addDir(specG)},
	}
}

// catalogue returns all inputs, grouped by class through their name prefix:
//
//	w1/  one level: every combination of entry kinds for the names a and b
//	w2/  DAG shapes: chains, shared subtrees, empty directories, depth 3
//	m/   malformed directory one level below a well-formed root
//	mr/  malformed / unavailable root (explicit merge)
func catalogue() []*input {
	var r []*input
	opts := leafOpts()
	for _, oa := range opts {
		for _, ob := range opts {
			if ob.tag == "f0" || ob.tag == "dE" {
				// b ranges over a subset: the code treats names symmetrically.
				continue
			}
			in := &input{name: "w1/a=" + oa.tag + ",b=" + ob.tag, dirs: []dirSpec{{}}}
			oa.add(in, 0, "a")
			ob.add(in, 0, "b")
			r = append(r, in)
		}
	}

	d := func(name string, child int) dirEnt { return dirEnt{name: name, child: child} }
	f := func(name string, blob int, exec bool) fileEnt { return fileEnt{name: name, blob: blob, exec: exec} }
	s := func(name string) symEnt { return symEnt{name: name, target: symTarget} }
	w2 := []*input{
		{name: "w2/chain3", dirs: []dirSpec{
			{dirs: []dirEnt{d("a", 1)}, files: []fileEnt{f("b", blobHello, false)}},
			{dirs: []dirEnt{d("a", 2)}, syms: []symEnt{s("b")}},
			{dirs: []dirEnt{d("a", 3)}, files: []fileEnt{f("b", blobWorld, true)}},
			specF,
		}},
		{name: "w2/diamond", dirs: []dirSpec{
			{dirs: []dirEnt{d("a", 1), d("b", 1)}},
			{dirs: []dirEnt{d("a", 2)}, files: []fileEnt{f("b", blobHello, false)}},
			specF,
		}},
		{name: "w2/shared-depths", dirs: []dirSpec{
			{dirs: []dirEnt{d("a", 1), d("b", 2)}},
			{dirs: []dirEnt{d("a", 2)}, syms: []symEnt{s("b")}},
			specF,
		}},
		{name: "w2/binary4", dirs: []dirSpec{
			{dirs: []dirEnt{d("a", 1), d("b", 1)}},
			{dirs: []dirEnt{d("a", 2), d("b", 2)}},
			{dirs: []dirEnt{d("a", 3), d("b", 3)}},
			specF,
		}},
		{name: "w2/empties", dirs: []dirSpec{
			{dirs: []dirEnt{d("a", 2), d("b", 1)}},
			{dirs: []dirEnt{d("a", 2), d("b", 2)}},
			specEmpty,
		}},
		{name: "w2/empty-root", dirs: []dirSpec{{}}},
		{name: "w2/mix", dirs: []dirSpec{
			{dirs: []dirEnt{d("a", 1)}, syms: []symEnt{s("b")}},
			{dirs: []dirEnt{d("b", 2)}, files: []fileEnt{f("a", blobHello, true)}},
			{dirs: []dirEnt{d("b", 3)}, files: []fileEnt{f("a", blobWorld, false)}},
			specEmpty,
		}},
		{name: "w2/same-blob-exec", dirs: []dirSpec{
			{dirs: []dirEnt{d("a", 1)}, files: []fileEnt{f("b", blobHello, false)}},
			{files: []fileEnt{f("a", blobHello, false), f("b", blobHello, true)}},
		}},
		{name: "w2/empty-file", dirs: []dirSpec{
			{dirs: []dirEnt{d("b", 1)}, files: []fileEnt{f("a", blobEmpty, false)}},
			{files: []fileEnt{f("a", blobEmpty, true), f("b", blobHello, false)}},
		}},
		{name: "w2/two-syms", dirs: []dirSpec{
			{dirs: []dirEnt{d("a", 1)}, syms: []symEnt{s("b")}},
			{syms: []symEnt{s("a"), {name: "b", target: "/abs"}}},
		}},
	}
	r = append(r, w2...)

	// Malformed directories: M always also carries the valid entry b=f1 so
	// that a partial listing would be noticed.
	valid := fileEnt{name: "b", blob: blobWorld}
	var ms []struct {
		tag  string
		spec dirSpec
		sub  *dirSpec
	}
	addM := func(tag string, spec dirSpec) {
		ms = append(ms, struct {
			tag  string
			spec dirSpec
			sub  *dirSpec
		}{tag: tag, spec: spec})
	}
	for _, bad := range []struct{ tag, name string }{{"empty", ""}, {"dotdot", ".."}, {"slash", "a/b"}, {"dot", "."}} {
		addM("name-file-"+bad.tag, dirSpec{files: []fileEnt{{name: bad.name, blob: blobHello}, valid}})
		addM("name-sym-"+bad.tag, dirSpec{files: []fileEnt{valid}, syms: []symEnt{{name: bad.name, target: symTarget}}})
		// directory entry with a bad name: child index patched below
		addM("name-dir-"+bad.tag, dirSpec{files: []fileEnt{valid}, dirs: []dirEnt{{name: bad.name, child: -1}}})
	}
	addM("dup-file-file", dirSpec{files: []fileEnt{{name: "a", blob: blobHello}, {name: "a", blob: blobWorld, exec: true}, valid}})
	addM("dup-dir-dir", dirSpec{files: []fileEnt{valid}, dirs: []dirEnt{{name: "a", child: -1}, {name: "a", child: -1}}})
	addM("dup-sym-sym", dirSpec{files: []fileEnt{valid}, syms: []symEnt{{name: "a", target: symTarget}, {name: "a", target: "/other"}}})
	addM("dup-file-dir", dirSpec{files: []fileEnt{{name: "a", blob: blobHello}, valid}, dirs: []dirEnt{{name: "a", child: -1}}})
	addM("dup-file-sym", dirSpec{files: []fileEnt{{name: "a", blob: blobHello}, valid}, syms: []symEnt{{name: "a", target: symTarget}}})
	addM("dup-dir-sym", dirSpec{files: []fileEnt{valid}, dirs: []dirEnt{{name: "a", child: -1}}, syms: []symEnt{{name: "a", target: symTarget}}})
	addM("dup-sym-valid", dirSpec{files: []fileEnt{valid}, syms: []symEnt{{name: "a", target: symTarget}, {name: "b", target: symTarget}}})
	for _, bd := range []struct {
		tag string
		dig int
	}{{"badhash", digBadHash}, {"negsize", digNegSize}, {"nil", digNil}} {
		addM("digest-file-"+bd.tag, dirSpec{files: []fileEnt{{name: "a", blob: blobHello, dig: bd.dig}, valid}})
		addM("digest-dir-"+bd.tag, dirSpec{files: []fileEnt{valid}, dirs: []dirEnt{{name: "a", child: -1, dig: bd.dig}}})
		// a leaf has been created before the bad entry is reached
		addM("digest-file2-"+bd.tag, dirSpec{files: []fileEnt{valid, {name: "c", blob: blobHello, dig: bd.dig}}, syms: []symEnt{{name: "a", target: symTarget}}})
	}
	addM("garbage", dirSpec{garbage: true})
	addM("absent", dirSpec{absent: true, files: []fileEnt{valid}})
	for _, m := range ms {
		// root{a: M, b: f0}; M's directory children (if any) refer to G.
		in := &input{name: "m/" + m.tag, dirs: []dirSpec{
			{dirs: []dirEnt{{name: "a", child: 1}}, files: []fileEnt{{name: "b", blob: blobHello}}},
			m.spec,
			specG,
		}}
		for i := range in.dirs[1].dirs {
			in.dirs[1].dirs[i].child = 2
		}
		r = append(r, in)
	}
	r = append(r,
		&input{name: "m/deep-dup", dirs: []dirSpec{
			{dirs: []dirEnt{d("a", 1)}, files: []fileEnt{f("b", blobHello, false)}},
			{dirs: []dirEnt{d("a", 2), d("b", 3)}},
			{files: []fileEnt{f("a", blobHello, false), f("a", blobHello, false)}},
			specF,
		}},
		// Two child DIRECTORIES of the same name with DIFFERENT digests and
		// disjoint contents: a population that tolerates "already exists"
		// when creating the second one would silently build the union
		// a/a/{a,b}, a tree that no Directory message describes.
		&input{name: "m/dup-dir-dir-diff", dirs: []dirSpec{
			{dirs: []dirEnt{d("a", 1)}, files: []fileEnt{f("b", blobHello, false)}},
			{files: []fileEnt{valid}, dirs: []dirEnt{d("a", 2), d("a", 3)}},
			specG,
			{files: []fileEnt{f("b", blobHello, false)}},
		}},
		&input{name: "mr/dup-dir-dir-diff", dirs: []dirSpec{
			{files: []fileEnt{valid}, dirs: []dirEnt{d("a", 1), d("a", 2)}},
			specG,
			{files: []fileEnt{f("b", blobHello, false)}},
		}},
		&input{name: "m/absent-deep", dirs: []dirSpec{
			{dirs: []dirEnt{d("a", 1)}, files: []fileEnt{f("b", blobHello, false)}},
			{dirs: []dirEnt{d("a", 2)}, files: []fileEnt{f("b", blobWorld, false)}},
			{absent: true, files: []fileEnt{f("a", blobHello, false)}},
		}},
		&input{name: "m/ghost-file", dirs: []dirSpec{
			{dirs: []dirEnt{d("a", 1)}, files: []fileEnt{f("b", blobGhost, false)}},
			{files: []fileEnt{f("a", blobGhost, true), f("b", blobHello, false)}},
		}},
	)

	// Malformed / unavailable root: MergeDirectoryContents itself must fail.
	for _, m := range ms {
		switch m.tag {
		case "name-dir-dotdot", "name-file-slash", "dup-file-sym", "dup-sym-sym", "dup-dir-dir", "digest-file-negsize", "digest-dir-badhash", "garbage", "absent":
			in := &input{name: "mr/" + m.tag, dirs: []dirSpec{m.spec, specG}}
			in.dirs[0].dirs = append([]dirEnt(nil), in.dirs[0].dirs...)
			for i := range in.dirs[0].dirs {
				in.dirs[0].dirs[i].child = 1
			}
			r = append(r, in)
		}
	}
	return r
}
