package sizeclass

import (
	"context"
	"time"

	"github.com/buildbarn/bb-storage/pkg/clock"
)

// fullClock completes seqClock to a clock.Clock. The analyzer only calls Now.
type fullClock struct{ *seqClock }

func (fullClock) NewContextWithTimeout(parent context.Context, timeout time.Duration) (context.Context, context.CancelFunc) {
	panic("unexpected NewContextWithTimeout")
}

func (fullClock) NewTimer(d time.Duration) (clock.Timer, <-chan time.Time) {
	panic("unexpected NewTimer")
}

func (fullClock) NewTicker(d time.Duration) (clock.Ticker, <-chan time.Time) {
	panic("unexpected NewTicker")
}
