package schedseq

import (
	"context"
	"fmt"
	"sort"
	"strings"
	"sync"
	"time"

	"verif/mc"

	remoteexecution "github.com/bazelbuild/remote-apis/build/bazel/remote/execution/v2"
	"github.com/buildbarn/bb-remote-execution/pkg/scheduler/initialsizeclass"
	"github.com/buildbarn/bb-storage/pkg/blobstore"
	"github.com/buildbarn/bb-storage/pkg/blobstore/buffer"
	"github.com/buildbarn/bb-storage/pkg/clock"
	"github.com/buildbarn/bb-storage/pkg/digest"
	"github.com/google/uuid"
	"google.golang.org/grpc"
	"google.golang.org/grpc/codes"
	"google.golang.org/grpc/status"

	"cloud.google.com/go/longrunning/autogen/longrunningpb"
)

// ---------------------------------------------------------------------------
// Fake clock: time only advances through the "tick" letter; timers fire as
// part of that letter.

const tickUnit = time.Second

var epoch = time.Unix(1000, 0).UTC()

type fakeTimer struct {
	c        *fakeClock
	deadline time.Time
	ch       chan time.Time
	stopped  bool
}

func (t *fakeTimer) Stop() bool {
	t.c.mu.Lock()
	defer t.c.mu.Unlock()
	if t.stopped {
		return false
	}
	t.stopped = true
	for i, o := range t.c.timers {
		if o == t {
			t.c.timers = append(t.c.timers[:i], t.c.timers[i+1:]...)
			return true
		}
	}
	return false
}

type fakeClock struct {
	x      *mc.X
	mu     sync.Mutex // real mutex, never held across a scheduling point
	now    time.Time
	timers []*fakeTimer
	// pointNow makes every clock read of a managed thread a scheduling
	// point (concurrent scenarios: the scheduler samples the clock BEFORE
	// it takes its lock, so the two can be separated by other calls).
	pointNow bool
}

func newFakeClock(x *mc.X) *fakeClock { return &fakeClock{x: x, now: epoch} }

func (c *fakeClock) Now() time.Time {
	if c.pointNow {
		c.x.Point("clock.Now")
	}
	c.mu.Lock()
	defer c.mu.Unlock()
	return c.now
}

func (c *fakeClock) NewContextWithTimeout(parent context.Context, timeout time.Duration) (context.Context, context.CancelFunc) {
	panic("fakeClock.NewContextWithTimeout is not used by the scheduler")
}

func (c *fakeClock) NewTicker(d time.Duration) (clock.Ticker, <-chan time.Time) {
	panic("fakeClock.NewTicker is not used by the scheduler")
}

func (c *fakeClock) NewTimer(d time.Duration) (clock.Timer, <-chan time.Time) {
	c.mu.Lock()
	t := &fakeTimer{c: c, deadline: c.now.Add(d), ch: make(chan time.Time, 1)}
	c.timers = append(c.timers, t)
	c.mu.Unlock()
	// A worker actor that creates its idle-synchronization timer is in
	// getNextTask(): from here on its local state is a function of the
	// global state (which select it blocks in is visible as the worker's
	// "parked" flag in the dump), so its local history can be forgotten.
	if th := c.x.Current(); th != nil && strings.HasPrefix(th.Name, "W:") {
		c.x.ResetLocal(th.Name + ":in-sync")
	}
	return t, t.ch
}

// advance moves time forward and fires due timers (controller goroutine).
func (c *fakeClock) advance(d time.Duration) int {
	c.mu.Lock()
	defer c.mu.Unlock()
	c.now = c.now.Add(d)
	fired := 0
	kept := c.timers[:0]
	for _, t := range c.timers {
		if !t.deadline.After(c.now) {
			t.stopped = true
			t.ch <- c.now
			fired++
		} else {
			kept = append(kept, t)
		}
	}
	c.timers = kept
	return fired
}

// dump renders the armed timers relative to now.
func (c *fakeClock) dump() string {
	c.mu.Lock()
	defer c.mu.Unlock()
	var l []string
	for _, t := range c.timers {
		off := t.deadline.Sub(c.now) / tickUnit
		if off > 1000 {
			off = 1000 // cannot fire within any explored horizon
		}
		l = append(l, fmt.Sprint(int64(off)))
	}
	sort.Strings(l)
	return strings.Join(l, ",")
}

// ---------------------------------------------------------------------------
// Fake CAS: a map from action hash to Action message.

type fakeCAS struct {
	blobstore.BlobAccess
	mu      sync.Mutex
	actions map[string]*remoteexecution.Action
}

func newFakeCAS() *fakeCAS { return &fakeCAS{actions: map[string]*remoteexecution.Action{}} }

func (c *fakeCAS) put(hash string, a *remoteexecution.Action) {
	c.mu.Lock()
	c.actions[hash] = a
	c.mu.Unlock()
}

func (c *fakeCAS) Get(ctx context.Context, d digest.Digest) buffer.Buffer {
	c.mu.Lock()
	a, ok := c.actions[d.GetHashString()]
	c.mu.Unlock()
	if !ok {
		return buffer.NewBufferFromError(status.Error(codes.NotFound, "Action not found"))
	}
	return buffer.NewProtoBufferFromProto(a, buffer.UserProvided)
}

// ---------------------------------------------------------------------------
// Fake UUID generator: a counter.

func newUUIDGenerator() func() (uuid.UUID, error) {
	n := uint32(0)
	var mu sync.Mutex
	return func() (uuid.UUID, error) {
		mu.Lock()
		defer mu.Unlock()
		n++
		var u uuid.UUID
		u[0], u[1], u[2], u[3] = byte(n>>24), byte(n>>16), byte(n>>8), byte(n)
		u[6] = 0x40
		u[8] = 0x80
		return u, nil
	}
}

// ---------------------------------------------------------------------------
// Fake Execute stream: records messages; the client leaves after the first
// message (its context is cancelled from within Send), so that client
// threads never outlive their letter. The operation stays queued/executing,
// because OperationWithNoWaitersTimeout is far beyond every explored horizon.

type fakeStream struct {
	grpc.ServerStream
	ctx     context.Context
	cancel  context.CancelFunc
	msgs    []*longrunningpb.Operation
	onFirst func(*longrunningpb.Operation)
}

func (s *fakeStream) Context() context.Context { return s.ctx }

func (s *fakeStream) Send(op *longrunningpb.Operation) error {
	s.msgs = append(s.msgs, op)
	if len(s.msgs) == 1 {
		s.onFirst(op)
		s.cancel()
	}
	return nil
}

// ---------------------------------------------------------------------------
// Scripted initial size class analyzer. The Action's salt carries the
// script: salt[1] is the index of the size class the selector picks (clamped
// to the classes that exist); the expected duration is the Action's timeout.
// A failure reported by a worker on a class that is not the largest one
// requests exactly one retry on the largest class.

type scriptedAnalyzer struct{}

func (scriptedAnalyzer) Analyze(ctx context.Context, digestFunction digest.Function, action *remoteexecution.Action) (initialsizeclass.Selector, error) {
	idx := 0
	if len(action.Salt) > 1 {
		idx = int(action.Salt[1])
	}
	return &scriptedSelector{idx: idx, dur: action.Timeout.AsDuration()}, nil
}

type scriptedSelector struct {
	idx int
	dur time.Duration
}

func (s *scriptedSelector) Select(sizeClasses []uint32) (int, time.Duration, time.Duration, initialsizeclass.Learner) {
	i := s.idx
	if i >= len(sizeClasses) {
		i = len(sizeClasses) - 1
	}
	return i, s.dur, s.dur, &scriptedLearner{largest: i == len(sizeClasses)-1, dur: s.dur}
}

func (s *scriptedSelector) Abandoned() {}

type scriptedLearner struct {
	largest bool
	dur     time.Duration
}

func (l *scriptedLearner) Succeeded(duration time.Duration, sizeClasses []uint32) (int, time.Duration, time.Duration, initialsizeclass.Learner) {
	return 0, 0, 0, nil
}

func (l *scriptedLearner) Failed(timedOut bool) (time.Duration, time.Duration, initialsizeclass.Learner) {
	if l.largest {
		return 0, 0, nil
	}
	return l.dur, l.dur, &scriptedLearner{largest: true, dur: l.dur}
}

func (l *scriptedLearner) Abandoned() {}
