package nfs

import (
	"testing"

	"verif/mc"
)

func TestMC(t *testing.T) {
	var seqs []*mc.Seq
	seqs = append(seqs, seqs40()...)
	seqs = append(seqs, seqs41()...)
	scs := append(scenarios(), scenariosLocks()...)
	scs = append(scs, scenariosRound3()...)
	scs = append(scs, scenariosSweep()...)
	mc.Main(t, scs, seqs)
}
