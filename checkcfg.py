"""Configuration of /verif/check, aggregated from harness/*/props.json: which
harness packages serve which property, and which repository files get their
`sync` import redirected to the pkg/verifsync shim by the build overlay."""
import glob, json, os

VERIF = os.path.dirname(os.path.abspath(__file__))

TIER = {
    "quick": {"time_limit_s": 60, "hard_timeout_s": 900},
    "thorough": {"time_limit_s": 900, "hard_timeout_s": 5400},
}

OVERLAY_FILES = [
    "pkg/scheduler/in_memory_build_queue.go",
    "pkg/blobstore/batched_store_blob_access.go",
    "pkg/blobstore/blob_access_mutable_proto_store.go",
    "pkg/cleaner/idle_invoker.go",
    "pkg/clock/suspendable_clock.go",
    "pkg/sync/lock_pile.go",
    "pkg/filesystem/pool/bitmap_sector_allocator.go",
    "pkg/filesystem/virtual/in_memory_prepopulated_directory.go",
    "pkg/filesystem/virtual/pool_backed_file_allocator.go",
    "pkg/filesystem/virtual/nfs_handle_allocator.go",
    "pkg/filesystem/virtual/fuse_handle_allocator.go",
    "pkg/filesystem/virtual/stateless_handle_allocating_cas_file_factory.go",
    "pkg/filesystem/virtual/user_settable_symlink.go",
    "pkg/filesystem/virtual/nfsv4/nfs40_program.go",
    "pkg/filesystem/virtual/nfsv4/nfs41_program.go",
    "pkg/filesystem/virtual/nfsv4/opened_files_pool.go",
    "pkg/cas/caching_directory_fetcher.go",
    "pkg/builder/local_build_executor.go",
]

# Files whose `sync/atomic` import is redirected to pkg/verifsync/atomic (every
# atomic operation becomes a scheduling point).
ATOMIC_OVERLAY_FILES = [
    "pkg/filesystem/pool/quota_enforcing_file_pool.go",
]

PROPS = {}
for _f in sorted(glob.glob(os.path.join(VERIF, "harness", "*", "props.json"))):
    _c = json.load(open(_f))
    _h = _c.get("harness") or os.path.basename(os.path.dirname(_f))
    for _o in _c.get("overlay", []):
        if _o not in OVERLAY_FILES:
            OVERLAY_FILES.append(_o)
    for _o in _c.get("overlay_atomic", []):
        if _o not in ATOMIC_OVERLAY_FILES:
            ATOMIC_OVERLAY_FILES.append(_o)
    for _p, _pc in _c.get("properties", {}).items():
        _e = PROPS.setdefault(_p, {"harnesses": []})
        if _pc.get("primary", True) and "technique" in _pc:
            for _k, _v in _pc.items():
                if _k != "primary":
                    _e[_k] = _v
            _e["harnesses"].insert(0, _h)
        else:
            _e["harnesses"].append(_h)
            _e.setdefault("assumptions", [])
for _p in list(PROPS):
    if "technique" not in PROPS[_p]:
        del PROPS[_p]

# Properties not claimed, with the reason. Kept current by hand.
NOT_APPLICABLE = {}
for _p in ["C%02d" % i for i in range(1, 21)]:
    if _p not in PROPS:
        NOT_APPLICABLE[_p] = "check not built yet (work in progress; model checking applies, see DESIGN.md section 7)"
