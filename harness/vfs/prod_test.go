package vfs

import (
	"io"
	"sort"

	"verif/mc"

	"github.com/buildbarn/bb-remote-execution/pkg/filesystem/pool"
	"github.com/buildbarn/bb-remote-execution/pkg/filesystem/virtual"
	"github.com/buildbarn/bb-storage/pkg/filesystem"
	"github.com/buildbarn/bb-storage/pkg/filesystem/path"
)

// Engine A scenarios on the production wiring of a build directory (see
// pkg/builder/virtual_build_directory.go InstallHooks): real pool backed
// files with real in-memory named attribute (xattr) directories, decorated
// by the real NFS or FUSE handle allocator. Only the FilePool is a fake.
// Several lock classes nest here: directory mutex -> handle pool lock,
// directory mutex -> file lock -> named attribute directory mutex -> handle
// pool lock (when the last reference of a file with named attributes goes).

type memFile struct{ size int64 }

func (f *memFile) Close() error                            { return nil }
func (f *memFile) ReadAt(p []byte, off int64) (int, error) { return 0, io.EOF }
func (f *memFile) WriteAt(p []byte, off int64) (int, error) {
	f.size = max(f.size, off+int64(len(p)))
	return len(p), nil
}
func (f *memFile) Sync() error               { return nil }
func (f *memFile) Truncate(size int64) error { f.size = size; return nil }
func (f *memFile) Len() (int64, error)       { return f.size, nil }
func (f *memFile) GetNextRegionOffset(offset int64, regionType filesystem.RegionType) (int64, error) {
	return 0, io.EOF
}

type memPool struct{}

func (memPool) NewFile(holeSource pool.HoleSource, size uint64) (filesystem.FileReadWriter, error) {
	return &memFile{size: int64(size)}, nil
}

type prodTree struct {
	root   virtual.PrepopulatedDirectory
	logger *countingErrorLogger
}

func buildProdTree(nfs bool) *prodTree {
	rng := &counterRNG{}
	var handles virtual.StatefulHandleAllocator
	if nfs {
		handles = virtual.NewNFSHandleAllocator(rng)
	} else {
		handles = virtual.NewFUSEHandleAllocator(rng)
	}
	logger := &countingErrorLogger{}
	setter := func(virtual.AttributesMask, *virtual.Attributes) {}
	symlinks := virtual.NewHandleAllocatingSymlinkFactory(virtual.NewBaseSymlinkFactory(setter), handles.New(), path.UNIXFormat)
	namedAttributesFactory := virtual.NewInMemoryNamedAttributesFactory(
		virtual.NewHandleAllocatingFileAllocator(
			virtual.NewPoolBackedFileAllocator(memPool{}, logger, setter, virtual.InNamedAttributeDirectoryNamedAttributesFactory),
			handles),
		symlinks, logger, handles, frozenClock{})
	files := virtual.NewHandleAllocatingFileAllocator(
		virtual.NewPoolBackedFileAllocator(memPool{}, logger, setter, namedAttributesFactory),
		handles)
	return &prodTree{
		logger: logger,
		root: virtual.NewInMemoryPrepopulatedDirectory(files, symlinks, logger, handles, sort.Sort, func(string) bool { return false },
			frozenClock{}, virtual.CaseSensitiveComponentNormalizer, setter, namedAttributesFactory),
	}
}

const prodMask = virtual.AttributesMaskChangeID | virtual.AttributesMaskFileType | virtual.AttributesMaskHasNamedAttributes |
	virtual.AttributesMaskLinkCount | virtual.AttributesMaskSizeBytes | virtual.AttributesMaskFileHandle | virtual.AttributesMaskInodeNumber

// step runs one call, checks that it left no lock behind and that it returned
// the expected status.
func step(x *mc.X, thread string, i *int, name string, want []virtual.Status, fn func() virtual.Status) {
	got := fn()
	x.CheckNoLocksHeld(name)
	ok := false
	for _, w := range want {
		ok = ok || w == got
	}
	if !ok && !x.Free() {
		x.FailP("C14", "status/"+name+"/"+sname(got), "%s returned %s, legal: %s", name, sname(got), snames(want))
	}
	x.Outcome("%s=%s", name, sname(got))
	*i++
	x.ResetLocal(thread + "@" + string(rune('a'+*i)))
}

func prodScenario(name string, nfs bool) *mc.Scenario {
	ok := []virtual.Status{sOK}
	return &mc.Scenario{
		Name:     name,
		Props:    []string{"C14"},
		Liveness: []string{"C14"},
		Livelock: []string{"C14"},
		Panics:   []string{"C14"},
		Bounds:   map[string]int{"quick": 2, "thorough": 3},
		Build: func(x *mc.X) {
			t := buildProdTree(nfs)
			// T1: a file that gets a named attribute, is closed and
			// finally unlinked: the last reference releases the
			// named attribute directory with all locks held.
			x.Go("file-xattr", func() {
				i := 0
				var a virtual.Attributes
				var leaf virtual.Leaf
				step(x, "T1", &i, "VirtualOpenChild(/f)", ok, func() virtual.Status {
					var s virtual.Status
					leaf, _, _, s = t.root.VirtualOpenChild(ctx, mk("f"), virtual.ShareMaskRead|virtual.ShareMaskWrite, &virtual.Attributes{}, nil, prodMask, &a)
					return s
				})
				var attrDir virtual.Directory
				step(x, "T1", &i, "VirtualOpenNamedAttributes(/f)", ok, func() virtual.Status {
					var s virtual.Status
					attrDir, s = leaf.VirtualOpenNamedAttributes(ctx, true, prodMask, &a)
					return s
				})
				var attr virtual.Leaf
				step(x, "T1", &i, "VirtualOpenChild(/f#user.x)", ok, func() virtual.Status {
					var s virtual.Status
					attr, _, _, s = attrDir.VirtualOpenChild(ctx, mk("user.x"), virtual.ShareMaskWrite, &virtual.Attributes{}, nil, prodMask, &a)
					return s
				})
				step(x, "T1", &i, "VirtualClose(/f#user.x)", ok, func() virtual.Status {
					attr.VirtualClose(virtual.ShareMaskWrite)
					return sOK
				})
				// (T2's bulk removal may come first.)
				step(x, "T1", &i, "VirtualLink(/g=/f)", []virtual.Status{sOK, sStale, sNoEnt}, func() virtual.Status {
					_, s := t.root.VirtualLink(ctx, mk("g"), leaf, prodMask, &a)
					return s
				})
				step(x, "T1", &i, "VirtualRemove(/f)", []virtual.Status{sOK, sNoEnt}, func() virtual.Status {
					_, s := t.root.VirtualRemove(ctx, mk("f"), false, true)
					return s
				})
				step(x, "T1", &i, "VirtualClose(/f)", ok, func() virtual.Status {
					leaf.VirtualClose(virtual.ShareMaskRead | virtual.ShareMaskWrite)
					return sOK
				})
				// Somebody else may have removed g already.
				step(x, "T1", &i, "VirtualRemove(/g)", []virtual.Status{sOK, sNoEnt}, func() virtual.Status {
					_, s := t.root.VirtualRemove(ctx, mk("g"), false, true)
					return s
				})
			})
			// T2: a directory with a named attribute that is removed,
			// and a bulk removal of whatever the root holds.
			x.Go("dir-xattr", func() {
				i := 0
				var a virtual.Attributes
				var d virtual.Directory
				step(x, "T2", &i, "VirtualMkdir(/d)", ok, func() virtual.Status {
					var s virtual.Status
					d, _, s = t.root.VirtualMkdir(ctx, mk("d"), &virtual.Attributes{}, prodMask, &a)
					return s
				})
				var attrDir virtual.Directory
				step(x, "T2", &i, "VirtualOpenNamedAttributes(/d)", ok, func() virtual.Status {
					var s virtual.Status
					attrDir, s = d.VirtualOpenNamedAttributes(ctx, true, prodMask, &a)
					return s
				})
				step(x, "T2", &i, "VirtualMknod(/d#user.y)", ok, func() virtual.Status {
					ca := (&virtual.Attributes{}).SetFileType(filesystem.FileTypeSymlink).SetSymlinkTarget(path.UNIXFormat.NewParser("t"))
					_, _, s := attrDir.VirtualMknod(ctx, mk("user.y"), ca, prodMask, &a)
					return s
				})
				step(x, "T2", &i, "VirtualLookup(/d)", ok, func() virtual.Status {
					_, s := t.root.VirtualLookup(ctx, mk("d"), prodMask, &a)
					return s
				})
				step(x, "T2", &i, "VirtualRemove(/d)", ok, func() virtual.Status {
					_, s := t.root.VirtualRemove(ctx, mk("d"), true, false)
					return s
				})
				step(x, "T2", &i, "RemoveAllChildren(/)", ok, func() virtual.Status {
					return errStatus(t.root.RemoveAllChildren(false))
				})
			})
			// T3: a reader that looks at everything with attributes
			// that need the locks of files and named attribute
			// directories.
			x.Go("reader", func() {
				i := 0
				step(x, "T3", &i, "VirtualReadDir(/)", ok, func() virtual.Status {
					return t.root.VirtualReadDir(ctx, 0, prodMask, &pageReporter{limit: -1})
				})
				step(x, "T3", &i, "VirtualLookup(/f)", []virtual.Status{sOK, sNoEnt}, func() virtual.Status {
					var a virtual.Attributes
					_, s := t.root.VirtualLookup(ctx, mk("f"), prodMask, &a)
					return s
				})
			})
			// No state key: the interesting state (reference counts of
			// files, named attribute directories hanging off files)
			// can only be read under locks a parked thread may hold.
			// The scenario is explored statelessly within its bound.
		},
	}
}
