package outputs

import (
	"runtime"
	"strings"
	"sync"
	"time"

	"github.com/buildbarn/bb-remote-execution/pkg/filesystem/pool"
	"github.com/buildbarn/bb-remote-execution/pkg/filesystem/virtual"
	"github.com/buildbarn/bb-remote-execution/pkg/proto/remoteworker"
	"github.com/buildbarn/bb-storage/pkg/filesystem"
)

// Lingering writer: when the fake runner's Run returns, one declared output
// file (the first regular file at or below a declared location) has been
// truncated and rewritten with lingerHead through a descriptor that is STILL
// OPEN FOR WRITING (a background process the command left behind, or
// write-back that has not finished). The writer appends lingerTail and closes
// only after the executor announced UploadingOutputs AND the upload of that
// file had its chance to act, i.e. when one of the following is observed:
//   - the uploader sleeps in fileBackedFile.waitAndOpenReadFrozen (it waits
//     for writers, as it should);
//   - the pool file holding exactly lingerHead was read (the uploader did not
//     wait and is digesting a prefix);
//   - Execute returned.
// The worker's maximum writable-file upload delay (one minute on the fake
// clock) never expires by itself. The model holds the FINAL contents; the
// ordinary verifier then demands "listed digest = digest of the final bytes
// = digest of the object in the CAS" (or an error status). The sequencing is
// by these observations only, not by elapsed time.
const (
	lingerHead = "head+"
	lingerTail = "tail"
)

type lingeringWriter struct {
	updates    chan *remoteworker.CurrentState_Executing
	leaf       virtual.Leaf
	execDone   chan struct{}
	writerDone chan struct{}
	headRead   chan struct{}
	once       sync.Once
	opened     bool
}

func newLingeringWriter(updates chan *remoteworker.CurrentState_Executing) *lingeringWriter {
	return &lingeringWriter{updates: updates, execDone: make(chan struct{}), writerDone: make(chan struct{}), headRead: make(chan struct{})}
}

// NewFile: the FilePool handed to Execute; files report reads of lingerHead.
func (l *lingeringWriter) NewFile(holeSource pool.HoleSource, size uint64) (filesystem.FileReadWriter, error) {
	return &lingerFile{memFile: memFile{data: make([]byte, size)}, l: l}, nil
}

type lingerFile struct {
	memFile
	l *lingeringWriter
}

func (f *lingerFile) ReadAt(p []byte, off int64) (int, error) {
	n, err := f.memFile.ReadAt(p, off)
	if string(f.data) == lingerHead {
		f.l.once.Do(func() { close(f.l.headRead) })
	}
	return n, err
}

func firstFile(n *node, loc []string) []string {
	if n == nil {
		return nil
	}
	switch n.kind {
	case kFile:
		return loc
	case kDir:
		for _, k := range n.names() {
			if r := firstFile(n.children[k], append(append([]string(nil), loc...), k)); r != nil {
				return r
			}
		}
	}
	return nil
}

// open is called by the fake runner after the command produced its outputs.
func (l *lingeringWriter) open(r *fakeRunner) {
	vb, ok := r.b.(*virtualBackend)
	if !ok {
		panic("harness: lingering writer needs the virtual build directory")
	}
	var loc []string
	for _, dl := range r.locs {
		if loc = firstFile(r.model.lookup(dl), dl); loc != nil {
			break
		}
	}
	if loc == nil {
		close(l.writerDone)
		return // nothing to linger on
	}
	parent := vLookupDir(vb.top, underRoot(loc[:len(loc)-1]))
	if parent == nil {
		panic("harness: lingering writer: parent of " + locString(loc) + " not found")
	}
	var out virtual.Attributes
	leaf, _, _, s := parent.VirtualOpenChild(bg, comp(loc[len(loc)-1]), virtual.ShareMaskWrite, nil, &virtual.OpenExistingOptions{Truncate: true}, 0, &out)
	if s != virtual.StatusOK {
		panic("harness: lingering writer: VirtualOpenChild " + locString(loc) + " failed")
	}
	if _, s := leaf.VirtualWrite(bg, []byte(lingerHead), 0); s != virtual.StatusOK {
		panic("harness: lingering writer: VirtualWrite failed")
	}
	r.model.lookup(loc).data = lingerHead + lingerTail
	l.leaf = leaf
	l.opened = true
	go l.run()
}

func uploaderWaitsForWriters() bool {
	buf := make([]byte, 4<<20)
	buf = buf[:runtime.Stack(buf, true)]
	for _, rec := range strings.Split(string(buf), "\n\n") {
		header, _, _ := strings.Cut(rec, "\n")
		if strings.Contains(header, "[select") && strings.Contains(rec, "waitAndOpenReadFrozen") {
			return true
		}
	}
	return false
}

func (l *lingeringWriter) run() {
	defer close(l.writerDone)
	// 1. The executor announces the upload phase.
	uploading := false
	for !uploading {
		select {
		case u := <-l.updates:
			_, uploading = u.ExecutionState.(*remoteworker.CurrentState_Executing_UploadingOutputs)
		case <-l.execDone:
			uploading = true
		}
	}
	// 2. The upload of the file had its chance.
	for polls := 0; ; polls++ {
		select {
		case <-l.headRead:
		case <-l.execDone:
		default:
			if !uploaderWaitsForWriters() {
				if polls > 200000 {
					panic("harness: lingering writer: neither a read, nor a waiting uploader, nor the end of Execute was observed")
				}
				time.Sleep(50 * time.Microsecond)
				continue
			}
		}
		break
	}
	// 3. The last bytes, then close. (Blocks while the file is frozen by an
	// upload in progress.)
	if _, s := l.leaf.VirtualWrite(bg, []byte(lingerTail), uint64(len(lingerHead))); s != virtual.StatusOK {
		panic("harness: lingering writer: VirtualWrite of the tail failed")
	}
	l.leaf.VirtualClose(virtual.ShareMaskWrite)
}

// executeReturned: Execute is back; wait for the writer to finish so that the
// model and the file system are final before the verifier runs.
func (l *lingeringWriter) executeReturned() {
	close(l.execDone)
	if l.opened {
		<-l.writerDone
	}
}
