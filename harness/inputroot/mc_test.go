package inputroot

import (
	"os"
	"runtime"
	"runtime/debug"
	"strings"
	"testing"

	"verif/mc"
)

// seqs builds one Engine B exploration per catalogue entry (plus a few
// configuration variants of representative entries).
func seqs(tier string) []*mc.Seq {
	thorough := tier == "thorough"
	var r []*mc.Seq
	add := func(c *compiled, cfg config) {
		// Bounds by size of the alphabet (about 12 letters per directory
		// path of the input root): histories of up to depth letters with at
		// most maxMods successful local modifications and one CAS failure.
		cfg.maxMods = 2
		letters := len(alphabet(c, cfg))
		if cfg.corrupt {
			// The two storage corruption letters do not count for the
			// depth: the variant is explored as deep as the input itself.
			letters -= 2
		}
		var quick, thor int
		switch {
		case letters <= 25:
			quick, thor = 5, 7
		case letters <= 45:
			quick, thor = 4, 6
		case letters <= 100:
			quick, thor = 4, 5
			cfg.maxMods = 1
		default:
			// w2/binary4: 15 directory paths. Exploration, faults and
			// mutation attempts only in the quick tier.
			quick, thor = 3, 4
			cfg.maxMods = 0
		}
		if cfg.tag != "" && letters > 25 && cfg.maxMods > 1 {
			// Configuration variants of an input that is also explored
			// in the default configuration.
			cfg.maxMods = 1
		}
		if thorough {
			cfg.maxMods++
		}
		cfg.depth = map[string]int{"quick": quick, "thorough": thor}
		r = append(r, newSeq(c, cfg))
	}
	variants := map[string][]config{
		"w1/a=f0,b=f1":      {{tag: "fuse", cacheCount: 1000}, {tag: "corrupt", nfs: true, cacheCount: 1000, corrupt: true}},
		"w1/a=f0x,b=f0x":    {{tag: "fuse", cacheCount: 1000}, {tag: "fuse-corrupt", cacheCount: 1000, corrupt: true}},
		"w1/a=f0,b=dG":      {{tag: "merge", nfs: true, cacheCount: 1000, explicitMerge: true}, {tag: "fuse", cacheCount: 1000}, {tag: "corrupt", nfs: true, cacheCount: 1000, corrupt: true}},
		"w2/shared-depths":  {{tag: "fuse", cacheCount: 1000}, {tag: "cache1", nfs: true, cacheCount: 1}, {tag: "cache2", nfs: true, cacheCount: 2}, {tag: "warm", nfs: true, cacheCount: 1000, warm: true}},
		"w2/chain3":         {{tag: "cache1", nfs: true, cacheCount: 1}},
		"w2/mix":            {{tag: "merge", nfs: true, cacheCount: 1000, explicitMerge: true}, {tag: "warm", nfs: true, cacheCount: 1000, warm: true}, {tag: "corrupt", nfs: true, cacheCount: 1000, corrupt: true}},
		"w2/same-blob-exec": {{tag: "fuse", cacheCount: 1000}, {tag: "monitor", nfs: true, cacheCount: 1000, monitor: true}},
		"w1/a=f0x,b=dG":     {{tag: "monitor", nfs: true, cacheCount: 1000, monitor: true}},
		"w2/two-syms":       {{tag: "fuse", cacheCount: 1000}},
		"m/dup-file-sym":    {{tag: "fuse", cacheCount: 1000}},
		"m/deep-dup":        {{tag: "warm", nfs: true, cacheCount: 1000, warm: true}, {tag: "cache1", nfs: true, cacheCount: 1}},
	}
	for _, in := range catalogue() {
		c := compile(in)
		add(c, config{nfs: true, cacheCount: 1000, explicitMerge: strings.HasPrefix(in.name, "mr/")})
		for _, v := range variants[in.name] {
			add(c, v)
		}
		delete(variants, in.name)
	}
	if len(variants) != 0 {
		panic("variant of an input that is not in the catalogue")
	}
	// The non-virtual path (NaiveBuildDirectory + HardlinkingFileFetcher on
	// an in-memory file system) for a subset of the catalogue.
	naive := map[string][]int{
		"w1/a=f0,b=f0x": {1000, 1}, "w1/a=f0x,b=dG": {1000}, "w1/a=sym,b=dG": {1000}, "w1/a=dE,b=f1": {1000},
		"w2/same-blob-exec": {1000, 1}, "w2/diamond": {1000, 1}, "w2/mix": {1000}, "w2/empty-file": {1000}, "w2/two-syms": {1000}, "w2/chain3": {1000, 2},
		"m/dup-file-file": {1000}, "m/dup-file-dir": {1000}, "m/dup-dir-sym": {1000}, "m/dup-sym-sym": {1000}, "m/dup-dir-dir": {1000},
		"m/name-file-dotdot": {1000}, "m/name-dir-slash": {1000}, "m/name-sym-empty": {1000},
		"m/digest-file-negsize": {1000}, "m/digest-dir-badhash": {1000}, "m/digest-file-nil": {1000},
		"m/ghost-file": {1000}, "m/absent-deep": {1000}, "m/garbage": {1000}, "m/deep-dup": {1000},
		"mr/dup-file-sym": {1000}, "mr/absent": {1000},
		"m/dup-dir-dir-diff": {1000}, "mr/dup-dir-dir-diff": {1000},
	}
	for _, in := range catalogue() {
		for _, maxFiles := range naive[in.name] {
			r = append(r, newNaiveSeq(compile(in), maxFiles, map[string]int{"quick": 5, "thorough": 7}))
		}
		delete(naive, in.name)
	}
	if len(naive) != 0 {
		panic("naive variant of an input that is not in the catalogue")
	}
	return r
}

func TestMC(t *testing.T) {
	// Thousands of tiny short-lived object graphs per second: collect less often.
	debug.SetGCPercent(800)
	// Every scenario is its own worker process and the dispatcher runs many
	// of them side by side: a few OS threads per process are enough.
	if os.Getenv("GOMAXPROCS") == "" {
		runtime.GOMAXPROCS(4)
	}
	all := seqs(os.Getenv("MC_TIER"))
	// Development aid: INPUTROOT_ONLY=substr1,substr2 restricts the run to
	// the scenarios whose name contains one of the substrings.
	if only := os.Getenv("INPUTROOT_ONLY"); only != "" {
		var sel []*mc.Seq
		for _, s := range all {
			for _, sub := range strings.Split(only, ",") {
				if strings.Contains(s.Name, sub) {
					sel = append(sel, s)
					break
				}
			}
		}
		all = sel
	}
	mc.Main(t, nil, all)
}
