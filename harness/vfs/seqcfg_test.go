package vfs

import (
	"fmt"
	"regexp"
	"strings"

	"verif/mc"
)

// Slots: 0 = root, 1 = "D", 2 = "E", optionally 3 = "X" (the directory most
// recently created by VirtualMkdir / CreateAndEnterPrepopulatedDirectory).
// Slots keep pointing to the same directory object whatever happens to it,
// so they turn into retained handles of removed directories.
const (
	R = 0
	D = 1
	E = 2
	X = 3
	O = 4 // root of a second, independent hierarchy (seq-errors only)
)

var slotNames = []string{"/", "D", "E", "X", "O"}

type loc struct {
	d int
	n string
}

func (l loc) String() string { return slotNames[l.d] + ":" + l.n }

type opList struct {
	ops []mc.SeqOp
}

func slotsBound(slots ...int) func(any) bool {
	return func(x any) bool {
		s := x.(*st)
		if s.poisoned {
			return false
		}
		for _, i := range slots {
			if s.slots[i] == nil {
				return false
			}
		}
		return true
	}
}

func (l *opList) add(name string, enabled func(any) bool, kind string, body func(s *st)) {
	l.ops = append(l.ops, mc.SeqOp{
		Name:    name,
		Enabled: enabled,
		Do: func(c *mc.SeqCtx, x any) {
			s := x.(*st)
			s.do(c, kind, func() { body(s) })
		},
	})
}

func (l *opList) openCreate(at ...loc) {
	for _, a := range at {
		l.add("VirtualOpenChild(create|open) "+a.String(), slotsBound(a.d), "VirtualOpenChild", func(s *st) { s.vOpenChild(a.d, a.n, true, true) })
	}
}

func (l *opList) openExclusive(at ...loc) {
	for _, a := range at {
		l.add("VirtualOpenChild(exclusive) "+a.String(), slotsBound(a.d), "VirtualOpenChild", func(s *st) { s.vOpenChild(a.d, a.n, true, false) })
	}
}

func (l *opList) openExisting(at ...loc) {
	for _, a := range at {
		l.add("VirtualOpenChild(existing) "+a.String(), slotsBound(a.d), "VirtualOpenChild", func(s *st) { s.vOpenChild(a.d, a.n, false, true) })
	}
}

func (l *opList) mkdir(at ...loc) {
	for _, a := range at {
		l.add("VirtualMkdir "+a.String(), slotsBound(a.d), "VirtualMkdir", func(s *st) { s.vMkdir(a.d, a.n) })
	}
}

func (l *opList) mknod(t nodType, at ...loc) {
	tn := [...]string{"symlink", "fifo", "chardev"}[t]
	for _, a := range at {
		l.add("VirtualMknod("+tn+") "+a.String(), slotsBound(a.d), "VirtualMknod", func(s *st) { s.vMknod(a.d, a.n, t) })
	}
}

func (l *opList) link(at ...loc) {
	for _, a := range at {
		en := slotsBound(a.d)
		l.add("VirtualLink(last leaf) "+a.String(), func(x any) bool { return en(x) && x.(*st).lastLeaf != nil }, "VirtualLink", func(s *st) { s.vLink(a.d, a.n) })
	}
}

func (l *opList) lookup(at ...loc) {
	for _, a := range at {
		l.add("VirtualLookup "+a.String(), slotsBound(a.d), "VirtualLookup", func(s *st) { s.vLookup(a.d, a.n) })
	}
}

func (l *opList) lookupPlain(at ...loc) {
	for _, a := range at {
		l.add("VirtualLookup(no locked attributes) "+a.String(), slotsBound(a.d), "VirtualLookup", func(s *st) { s.vLookupMask(a.d, a.n, maskPlain) })
	}
}

func (l *opList) foreign(at ...loc) {
	for _, a := range at {
		l.add("VirtualLink(foreign leaf) "+a.String(), slotsBound(a.d), "VirtualLink", func(s *st) { s.vLinkForeign(a.d, a.n) })
		l.add("VirtualRename(to foreign directory) "+a.String(), slotsBound(a.d), "VirtualRename", func(s *st) { s.vRenameForeign(a.d, a.n) })
	}
}

func (l *opList) installHooks(dirs ...int) {
	for _, d := range dirs {
		l.add("InstallHooks "+slotNames[d], slotsBound(d), "InstallHooks", func(s *st) { s.installHooks(d) })
	}
}

func (l *opList) rename(from, to []loc) {
	for _, f := range from {
		for _, t := range to {
			en := slotsBound(f.d, t.d)
			l.add("VirtualRename "+f.String()+" -> "+t.String(), func(x any) bool {
				if !en(x) {
					return false
				}
				s := x.(*st)
				// Renaming a directory below itself is left
				// open upstream (TODO in VirtualRename).
				return !s.m.renameWouldCycle(s.slots[f.d], f.n, s.slots[t.d])
			}, "VirtualRename", func(s *st) { s.vRename(f.d, f.n, t.d, t.n) })
		}
	}
}

const (
	rmDirOnly  = 1
	rmLeafOnly = 2
	rmBoth     = 3
)

func (l *opList) remove(flags int, at ...loc) {
	fn := [...]string{"", "rmdir", "unlink", "any"}[flags]
	for _, a := range at {
		l.add("VirtualRemove("+fn+") "+a.String(), slotsBound(a.d), "VirtualRemove", func(s *st) { s.vRemove(a.d, a.n, flags&rmDirOnly != 0, flags&rmLeafOnly != 0) })
	}
}

func (l *opList) readDirFull(dirs ...int) {
	for _, d := range dirs {
		l.add("VirtualReadDir(all) "+slotNames[d], slotsBound(d), "VirtualReadDir", func(s *st) { s.vReadDirFull(d) })
	}
}

func (l *opList) getAttributes(dirs ...int) {
	for _, d := range dirs {
		l.add("VirtualGetAttributes "+slotNames[d], slotsBound(d), "VirtualGetAttributes", func(s *st) { s.vGetChangeID(d) })
	}
}

func (l *opList) createChildren(d int, overwrite bool, label string, children ...childSpec) {
	l.add(fmt.Sprintf("CreateChildren(%s, overwrite=%t) %s", label, overwrite, slotNames[d]), slotsBound(d), "CreateChildren", func(s *st) { s.bCreateChildren(d, children, overwrite) })
}

func (l *opList) createAndEnter(at ...loc) {
	for _, a := range at {
		l.add("CreateAndEnterPrepopulatedDirectory "+a.String(), slotsBound(a.d), "CreateAndEnterPrepopulatedDirectory", func(s *st) { s.bCreateAndEnter(a.d, a.n) })
	}
}

func (l *opList) bRemove(at ...loc) {
	for _, a := range at {
		l.add("Remove "+a.String(), slotsBound(a.d), "Remove", func(s *st) { s.bRemove(a.d, a.n) })
	}
}

func (l *opList) bRemoveAll(at ...loc) {
	for _, a := range at {
		l.add("RemoveAll "+a.String(), slotsBound(a.d), "RemoveAll", func(s *st) { s.bRemoveAll(a.d, a.n) })
	}
}

func (l *opList) removeAllChildren(deleteSelf bool, dirs ...int) {
	for _, d := range dirs {
		l.add(fmt.Sprintf("RemoveAllChildren(%t) %s", deleteSelf, slotNames[d]), slotsBound(d), "RemoveAllChildren", func(s *st) { s.bRemoveAllChildren(d, deleteSelf) })
	}
}

func (l *opList) filterChildren(mode filterMode, dirs ...int) {
	mn := [...]string{"observe", "remove-all", "stop"}[mode]
	for _, d := range dirs {
		l.add("FilterChildren("+mn+") "+slotNames[d], slotsBound(d), "FilterChildren", func(s *st) { s.bFilterChildren(d, mode) })
	}
}

func (l *opList) lookupChild(at ...loc) {
	for _, a := range at {
		l.add("LookupChild "+a.String(), slotsBound(a.d), "LookupChild", func(s *st) { s.bLookupChild(a.d, a.n) })
	}
}

func (l *opList) bReadDir(dirs ...int) {
	for _, d := range dirs {
		l.add("ReadDir "+slotNames[d], slotsBound(d), "ReadDir", func(s *st) { s.bReadDir(d) })
	}
}

func (l *opList) lookupAllChildren(dirs ...int) {
	for _, d := range dirs {
		l.add("LookupAllChildren "+slotNames[d], slotsBound(d), "LookupAllChildren", func(s *st) { s.bLookupAllChildren(d) })
	}
}

func (l *opList) armFailures() {
	l.add("env: next NewFile fails", func(x any) bool { s := x.(*st); return !s.poisoned && !s.w.failNewFile }, "env", func(s *st) {
		s.w.failNewFile = true
		s.m.armedNewFile = true
	})
	l.add("env: next LookupSymlink fails", func(x any) bool { s := x.(*st); return !s.poisoned && !s.w.failSymlink }, "env", func(s *st) {
		s.w.failSymlink = true
		s.m.armedSymlink = true
	})
}

func (l *opList) listing(d int) {
	for _, page := range []int{1, 2} {
		l.add(fmt.Sprintf("VirtualReadDir(first page of %d) %s", page, slotNames[d]), slotsBound(d), "VirtualReadDir", func(s *st) { s.listStart(d, page) })
		l.add(fmt.Sprintf("VirtualReadDir(next page of %d)", page), func(x any) bool {
			s := x.(*st)
			return !s.poisoned && s.lst != nil && !s.lst.done
		}, "VirtualReadDir", func(s *st) { s.listNext(page) })
	}
}

// caseDependentHiddenMatcher: patterns as used in production configurations
// (macOS resource forks / Finder files, NFS silly renames). Its answer for a
// name and for the lower-cased name differ for ".DS_Store" (hidden; ".ds_store"
// is not) and for ".NFS00A1" (visible; ".nfs00a1" is hidden).
var caseDependentHiddenPattern = regexp.MustCompile(`^\._|^\.DS_Store$|^\.nfs[0-9a-f]+$`)

func caseDependentHiddenMatcher(name string) bool {
	return caseDependentHiddenPattern.MatchString(name)
}

// ---------------------------------------------------------------------------
// Canned trees.

// setupTree builds  /a (file, also the "last leaf"), /d/ (slot D), /d/b
// (file), /d/e/ (slot E), optionally a file in E, through the real calls.
func setupTree(fileInE bool) func(c *mc.SeqCtx, s *st) {
	return func(c *mc.SeqCtx, s *st) {
		s.do(c, "setup", func() { s.bCreateAndEnter(R, "d") })
		s.slots[D] = s.m.find(s.slots[R], "d").node
		s.do(c, "setup", func() { s.bCreateAndEnter(D, "e") })
		s.slots[E] = s.m.find(s.slots[D], "e").node
		s.do(c, "setup", func() { s.vOpenChild(D, "b", true, false) })
		if fileInE {
			s.do(c, "setup", func() { s.vOpenChild(E, "a", true, false) })
		}
		s.do(c, "setup", func() { s.vOpenChild(R, "a", true, false) })
		if s.cfg.slotX >= 0 {
			s.slots[s.cfg.slotX] = nil
		}
	}
}

func at(d int, names ...string) []loc {
	var r []loc
	for _, n := range names {
		r = append(r, loc{d, n})
	}
	return r
}

func cat(ls ...[]loc) []loc {
	var r []loc
	for _, l := range ls {
		r = append(r, l...)
	}
	return r
}

func file(name string) childSpec { return childSpec{name: name} }
func dir(name string) childSpec  { return childSpec{name: name, dir: true} }
func lazyDir(name string, failOnce bool, files, dirs []string) childSpec {
	return childSpec{name: name, dir: true, lazy: &mLazy{spec: lazySpec{files: files, dirs: dirs}, failOnce: failOnce}}
}

var seqCfgs = []*seqCfg{
	{
		// Rename / remove / link semantics between three directories,
		// including retained handles of removed directories.
		name: "seq-rename", nslots: 3, slotX: -1, setup: setupTree(false),
		depth: map[string]int{"quick": 4, "thorough": 6},
		ops: func(cfg *seqCfg) []mc.SeqOp {
			var l opList
			places := cat(at(R, "a", "b", "d"), at(D, "b", "e"), at(E, "a"))
			l.rename(places, places)
			l.remove(rmDirOnly, cat(at(R, "a", "d"), at(D, "e"))...)
			l.remove(rmLeafOnly, cat(at(R, "a", "d"), at(D, "b"))...)
			l.remove(rmBoth, cat(at(R, "d"), at(D, "e"), at(E, "a"))...)
			l.link(cat(at(R, "b"), at(D, "b"), at(E, "a"))...)
			l.openCreate(cat(at(R, "b"), at(D, "e"), at(E, "a"))...)
			l.openExclusive(at(R, "a")...)
			l.openExisting(cat(at(R, "a", "d"), at(E, "a"))...)
			l.mkdir(cat(at(R, "d", "b"), at(D, "e"), at(E, "a"))...)
			l.mknod(nodSymlink, at(R, "b")...)
			l.lookup(cat(at(R, "d"), at(D, "e"))...)
			l.lookupPlain(cat(at(R, "d", "a"), at(D, "n"))...)
			return l.ops
		},
	},
	{
		// Worker facing bulk calls mixed with a few kernel facing ones.
		name: "seq-bulk", nslots: 4, slotX: X, setup: setupTree(true),
		depth: map[string]int{"quick": 4, "thorough": 5},
		ops: func(cfg *seqCfg) []mc.SeqOp {
			var l opList
			for _, ow := range []bool{false, true} {
				l.createChildren(R, ow, "{a:file}", file("a"))
				l.createChildren(R, ow, "{b:file,d:dir}", file("b"), dir("d"))
				l.createChildren(D, ow, "{e:file}", file("e"))
				l.createChildren(E, ow, "{a:dir,c:file}", dir("a"), file("c"))
			}
			l.createChildren(X, false, "{a:file}", file("a"))
			l.createChildren(R, true, "{}")
			l.createAndEnter(cat(at(R, "d", "a", "c"), at(D, "e", "b"), at(E, "a"), at(X, "a"))...)
			l.bRemove(cat(at(R, "a", "d"), at(D, "e", "b"), at(E, "a"))...)
			l.bRemoveAll(cat(at(R, "a", "d", "c"), at(D, "e"))...)
			l.removeAllChildren(false, R, D, E)
			l.removeAllChildren(true, R, D, E)
			l.filterChildren(filterObserve, R, D)
			l.filterChildren(filterRemoveAll, R, D)
			l.filterChildren(filterStop, R)
			l.lookupChild(cat(at(R, "d"), at(D, "e"), at(E, "a"))...)
			l.bReadDir(R, D)
			l.lookupAllChildren(R, D)
			l.mkdir(cat(at(D, "e"), at(E, "a"))...)
			l.openCreate(cat(at(D, "a"), at(E, "a"))...)
			l.remove(rmBoth, cat(at(R, "d"), at(D, "e"))...)
			l.rename(at(D, "e", "b"), at(R, "a", "c"))
			l.link(at(E, "b")...)
			return l.ops
		},
	},
	{
		// Paginated listings of D = {b, e/, a, c} with arbitrary
		// mutations between the pages.
		name: "seq-readdir", nslots: 3, slotX: -1,
		setup: func(c *mc.SeqCtx, s *st) {
			setupTree(false)(c, s)
			s.do(c, "setup", func() { s.vOpenChild(D, "a", true, false) })
			s.do(c, "setup", func() { s.vMknod(D, "c", nodFIFO) })
		},
		depth: map[string]int{"quick": 5, "thorough": 7},
		ops: func(cfg *seqCfg) []mc.SeqOp {
			var l opList
			l.listing(D)
			l.openCreate(at(D, "n")...)
			l.mkdir(at(D, "n")...)
			l.remove(rmBoth, at(D, "a", "b", "c", "e")...)
			l.rename(at(D, "a", "b"), at(D, "b", "n"))
			l.rename(at(R, "a"), at(D, "a", "c"))
			l.rename(at(D, "c"), at(R, "c"))
			l.link(at(D, "n")...)
			l.createChildren(D, true, "{b:file}", file("b"))
			l.createChildren(D, true, "{a:file,n:dir}", file("a"), dir("n"))
			l.removeAllChildren(false, D)
			return l.ops
		},
	},
	{
		// Case-insensitive names.
		name: "seq-casefold", fold: true, nslots: 3, slotX: -1,
		setup: func(c *mc.SeqCtx, s *st) {
			s.do(c, "setup", func() { s.bCreateAndEnter(R, "d") })
			s.slots[D] = s.m.find(s.slots[R], "d").node
			s.do(c, "setup", func() { s.vOpenChild(R, "a", true, false) })
		},
		depth: map[string]int{"quick": 4, "thorough": 6},
		ops: func(cfg *seqCfg) []mc.SeqOp {
			var l opList
			l.openCreate(cat(at(R, "A", "b"), at(D, "A", "a"))...)
			l.openExclusive(at(R, "A")...)
			l.mkdir(cat(at(R, "A", "B"), at(D, "a"))...)
			l.mknod(nodFIFO, at(D, "B")...)
			places := cat(at(R, "a", "A", "B"), at(D, "A", "b"))
			l.rename(places, places)
			l.rename(at(R, "D"), at(R, "b"))
			l.remove(rmBoth, cat(at(R, "A", "b", "D"), at(D, "a"))...)
			l.lookup(cat(at(R, "A", "a", "D"), at(D, "A"))...)
			l.link(cat(at(R, "B"), at(D, "a"))...)
			l.createChildren(R, false, "{A:file}", file("A"))
			l.createChildren(R, true, "{A:file}", file("A"))
			l.createChildren(R, true, "{B:dir}", dir("B"))
			l.createAndEnter(at(R, "A", "D")...)
			l.bRemove(at(R, "A", "B")...)
			l.bRemoveAll(at(R, "D")...)
			l.lookupChild(at(R, "A", "D")...)
			l.readDirFull(R)
			l.bReadDir(R)
			return l.ops
		},
	},
	{
		// Hidden files (names starting with .hid): invisible in
		// listings, do not keep a directory from being removed.
		name: "seq-hidden", hidden: true, nslots: 4, slotX: X,
		setup: func(c *mc.SeqCtx, s *st) {
			s.do(c, "setup", func() { s.bCreateAndEnter(R, "d") })
			s.slots[D] = s.m.find(s.slots[R], "d").node
			s.do(c, "setup", func() { s.bCreateAndEnter(D, "e") })
			s.slots[E] = s.m.find(s.slots[D], "e").node
			s.do(c, "setup", func() { s.vOpenChild(E, ".hid", true, false) })
			s.slots[X] = nil
		},
		depth: map[string]int{"quick": 4, "thorough": 6},
		ops: func(cfg *seqCfg) []mc.SeqOp {
			var l opList
			l.openCreate(cat(at(D, ".hid", "a"), at(E, "a"))...)
			l.mknod(nodSymlink, at(D, ".hidden")...)
			l.mkdir(cat(at(E, ".hidir"), at(R, "x"))...)
			l.link(cat(at(D, ".hid2"), at(R, "a"))...)
			l.remove(rmDirOnly, cat(at(R, "d"), at(D, "e"))...)
			l.remove(rmLeafOnly, cat(at(D, ".hid"), at(E, ".hid", "a"))...)
			l.rename(at(R, "x"), cat(at(R, "d"), at(D, "e")))
			l.rename(at(D, "e"), at(R, "x"))
			l.rename(at(E, ".hid"), cat(at(D, "a", ".hid"), at(E, "a")))
			l.rename(at(E, "a"), at(E, ".hid"))
			l.bRemove(cat(at(R, "d"), at(D, "e"))...)
			l.bRemoveAll(at(D, "e")...)
			l.removeAllChildren(false, E)
			l.removeAllChildren(true, D)
			l.filterChildren(filterObserve, R)
			l.filterChildren(filterRemoveAll, D)
			l.lookup(cat(at(E, ".hid"), at(D, ".hid"))...)
			l.lookupChild(at(E, ".hid")...)
			l.readDirFull(D, E)
			l.bReadDir(E)
			l.lookupAllChildren(E)
			l.createChildren(E, true, "{.hid:file}", file(".hid"))
			l.createAndEnter(at(E, ".hid")...)
			return l.ops
		},
	},
	{
		// Case-insensitive names TOGETHER with hidden-file patterns whose
		// answer differs between a name and its lower-cased (normalised)
		// form, in both directions: ".DS_Store" is hidden but ".ds_store"
		// is not; ".NFS00A1" is not hidden but ".nfs00a1" would be. The
		// matcher sees the name an entry was created under, at the
		// listing sites as well as in the emptiness rule of rmdir /
		// Remove / directory-over-directory rename / markDeleted.
		name: "seq-casefold-hidden", fold: true, matcher: caseDependentHiddenMatcher, nslots: 3, slotX: -1,
		setup: func(c *mc.SeqCtx, s *st) {
			s.do(c, "setup", func() { s.bCreateAndEnter(R, "d") })
			s.slots[D] = s.m.find(s.slots[R], "d").node
			s.do(c, "setup", func() { s.bCreateAndEnter(D, "e") })
			s.slots[E] = s.m.find(s.slots[D], "e").node
			s.do(c, "setup", func() { s.vOpenChild(E, ".DS_Store", true, false) })
		},
		depth: map[string]int{"quick": 4, "thorough": 6},
		ops: func(cfg *seqCfg) []mc.SeqOp {
			var l opList
			l.openCreate(cat(at(E, ".DS_Store", ".ds_store", ".NFS00A1", "a"), at(D, ".NFS00A1", ".ds_store"))...)
			l.mkdir(at(R, "x")...)
			// The emptiness rules.
			l.remove(rmDirOnly, cat(at(R, "d"), at(D, "e", "E"))...)
			l.bRemove(cat(at(R, "d"), at(D, "e"))...)
			l.rename(at(R, "x"), cat(at(R, "d", "D"), at(D, "e")))
			l.rename(at(D, "e"), at(R, "x"))
			l.removeAllChildren(true, D)
			// Moving files between hidden / visible spellings.
			l.remove(rmLeafOnly, at(E, ".DS_Store", ".ds_store", ".NFS00A1", "a")...)
			l.rename(at(E, ".DS_Store"), cat(at(E, ".ds_store", ".NFS00A1", "a"), at(D, ".DS_Store")))
			l.rename(at(E, ".NFS00A1"), cat(at(E, ".nfs00a1", ".DS_Store"), at(D, ".nfs00a1")))
			l.rename(at(E, "a"), at(E, ".DS_Store", ".nfs00a1"))
			l.link(at(E, ".DS_STORE", ".nfs00a1")...)
			// Listing sites.
			l.lookup(at(E, ".ds_store", ".nfs00a1")...)
			l.lookupChild(at(E, ".DS_Store")...)
			l.readDirFull(D, E)
			l.bReadDir(E)
			l.lookupAllChildren(E)
			l.filterChildren(filterObserve, D)
			l.filterChildren(filterRemoveAll, D)
			return l.ops
		},
	},
	{
		// Lazily initialised directories: /d is materialised on first
		// access to {a (file), e/ (again lazy)}; its fetcher fails once.
		name: "seq-lazy", nslots: 3, slotX: -1,
		setup: func(c *mc.SeqCtx, s *st) {
			s.do(c, "setup", func() {
				s.bCreateChildren(R, []childSpec{lazyDir("d", true, []string{"a"}, []string{"e"})}, false)
			})
			s.slots[D] = s.m.find(s.slots[R], "d").node
			s.do(c, "setup", func() { s.vOpenChild(R, "a", true, false) })
		},
		autoBind: []autoBind{{slot: E, parent: D, name: "e"}},
		depth:    map[string]int{"quick": 5, "thorough": 7},
		ops: func(cfg *seqCfg) []mc.SeqOp {
			var l opList
			l.lookup(cat(at(D, "a", "e"), at(R, "d"))...)
			l.readDirFull(D)
			l.getAttributes(D)
			l.remove(rmDirOnly, cat(at(R, "d"), at(D, "e"))...)
			l.remove(rmLeafOnly, at(D, "a")...)
			l.mkdir(cat(at(R, "x"), at(D, "x"))...)
			l.rename(at(R, "x"), cat(at(R, "d"), at(D, "e")))
			l.rename(at(R, "a"), at(D, "a", "b"))
			l.rename(at(D, "a"), at(R, "b"))
			l.openCreate(cat(at(D, "b"), at(E, "a"))...)
			l.link(at(D, "b")...)
			l.bRemove(cat(at(R, "d"), at(D, "e"))...)
			l.bRemoveAll(at(R, "d")...)
			l.removeAllChildren(false, D, R)
			l.removeAllChildren(true, D)
			l.filterChildren(filterObserve, R)
			l.filterChildren(filterRemoveAll, R)
			l.lookupChild(at(D, "a")...)
			l.bReadDir(D)
			l.lookupAllChildren(D)
			l.createChildren(D, false, "{a:file}", file("a"))
			l.createChildren(D, true, "{e:lazy{a}}", lazyDir("e", false, []string{"a"}, nil))
			l.createChildren(R, true, "{d:lazy{a,e/} fails once}", lazyDir("d", true, []string{"a"}, []string{"e"}))
			l.createAndEnter(at(D, "e", "a")...)
			return l.ops
		},
	},
	{
		// Error returns: every call against a removed directory (slot D
		// after its removal), a directory whose materialisation fails,
		// with failing allocators, wrong kinds and occupied names.
		name: "seq-errors", nslots: 5, slotX: -1,
		setup: func(c *mc.SeqCtx, s *st) {
			setupTree(true)(c, s)
			s.do(c, "setup", func() {
				s.bCreateChildren(R, []childSpec{lazyDir("z", true, []string{"a"}, nil)}, false)
			})
			s.slots[X] = s.m.find(s.slots[R], "z").node
			// A second hierarchy with its own root.
			other := s.m.newDir(1, &mLazy{})
			s.slots[O] = other
			s.bindDir(other, newRoot(s.w, false, false))
		},
		depth: map[string]int{"quick": 3, "thorough": 4},
		ops: func(cfg *seqCfg) []mc.SeqOp {
			var l opList
			// Ways to turn D / E into tombstones.
			l.removeAllChildren(true, D)
			l.bRemoveAll(at(R, "d")...)
			l.remove(rmBoth, at(E, "a")...)
			l.remove(rmDirOnly, at(D, "e")...)
			l.armFailures()
			for _, d := range []int{R, D, E, X} {
				l.openCreate(at(d, "a", "n")...)
				l.openExclusive(at(d, "a")...)
				l.openExisting(at(d, "a", "e", "n")...)
				l.mkdir(at(d, "a", "n")...)
				l.mknod(nodSymlink, at(d, "a", "n")...)
				l.mknod(nodCharDev, at(d, "n")...)
				l.link(at(d, "a", "n")...)
				l.lookup(at(d, "a", "n")...)
				l.remove(rmDirOnly, at(d, "a", "e")...)
				l.remove(rmLeafOnly, at(d, "e", "n")...)
				l.readDirFull(d)
				l.getAttributes(d)
				l.createChildren(d, false, "{a:file}", file("a"))
				l.createChildren(d, true, "{n:dir}", dir("n"))
				l.createAndEnter(at(d, "a", "n")...)
				l.bRemove(at(d, "a", "e", "n")...)
				l.bRemoveAll(at(d, "n")...)
				l.removeAllChildren(false, d)
				l.filterChildren(filterRemoveAll, d)
				l.lookupChild(at(d, "n")...)
				l.bReadDir(d)
				l.lookupAllChildren(d)
			}
			l.foreign(at(R, "a")...)
			l.installHooks(R, D)
			l.lookupPlain(at(R, "a", "d", "n")...)
			// Across hierarchies: files may move, directories may not.
			l.mkdir(at(O, "d")...)
			l.rename(at(R, "a", "d"), at(O, "a", "d"))
			l.rename(at(O, "a", "d"), at(R, "n", "d"))
			l.rename(at(R, "a", "d", "z", "n"), cat(at(R, "z"), at(D, "n"), at(E, "a"), at(X, "a", "n")))
			l.rename(cat(at(D, "b", "n"), at(X, "a")), cat(at(R, "n", "d"), at(D, "n"), at(E, "n")))
			return l.ops
		},
	},
}

// leakDepth gives the depths of the C14 variants of the configurations: the
// same alphabets, but only the lock probe after every call matters there (no
// final read oracle), so they are explored less deeply in the quick tier.
var leakDepth = map[string]map[string]int{
	"seq-rename":          {"quick": 3, "thorough": 5},
	"seq-bulk":            {"quick": 3, "thorough": 5},
	"seq-readdir":         {"quick": 3, "thorough": 5},
	"seq-casefold":        {"quick": 3, "thorough": 5},
	"seq-hidden":          {"quick": 3, "thorough": 5},
	"seq-casefold-hidden": {"quick": 3, "thorough": 4},
	"seq-lazy":            {"quick": 4, "thorough": 6},
	"seq-errors":          {"quick": 2, "thorough": 4},
}

func buildSeqs() []*mc.Seq {
	var r []*mc.Seq
	for _, cfg := range seqCfgs {
		cfg := cfg
		r = append(r, &mc.Seq{
			Name:   cfg.name,
			Props:  []string{"C13"},
			New:    func(c *mc.SeqCtx) any { return newSt(c, cfg) },
			Ops:    cfg.ops(cfg),
			Key:    func(x any) string { return x.(*st).key() },
			Final:  func(c *mc.SeqCtx, x any) { x.(*st).final(c) },
			Depth:  cfg.depth,
			Panics: []string{"C13"},
		})
	}
	// The same kind of sequences through the FUSE front end, issued by a
	// kernel model with protocol-accurate lookup counts (fuse_test.go).
	r = append(r, fuseSeq())
	for _, cfg := range seqCfgs {
		cfg := cfg
		r = append(r, &mc.Seq{
			Name:   "leak-" + strings.TrimPrefix(cfg.name, "seq-"),
			Props:  []string{"C14"},
			New:    func(c *mc.SeqCtx) any { return newSt(c, cfg) },
			Ops:    cfg.ops(cfg),
			Key:    func(x any) string { return x.(*st).key() },
			Depth:  leakDepth[cfg.name],
			Panics: []string{"C14"},
		})
	}
	return r
}
