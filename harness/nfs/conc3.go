package nfs

import (
	"encoding/hex"
	"fmt"
	"strings"

	"verif/mc"

	"github.com/buildbarn/go-xdr/pkg/protocols/nfsv4"
)

// Engine A scenarios of strengthening round 3 (C18).
//
// (1) I/O in flight across CLOSE *and a further event that detaches the
// half-closed open-owner file from its open-owner* before the I/O returns:
// the open-owner's next seqid'ed transaction, collection of the then unused
// open-owner after the lease time, re-registration of the client. The I/O
// holds a clone of the share reservation; whatever happened to the state it
// was cloned from in the meantime, the leaf must be closed exactly once as
// soon as CLOSE and the I/O have both returned.
//
// (2) Re-registration of a client while its previous instance is busy inside
// the VFS: the confirming request (SETCLIENTID_CONFIRM, CREATE_SESSION) is
// answered NFS4ERR_DELAY and retried. Once the retry has succeeded and the
// parked request has returned "the client re-registered": every file of the
// previous instance is closed, its state IDs are refused and (4.1) its
// sessions are gone -- now, not only when its lease happens to run out.

// leafBalancedNow: the named file has been closed by the client and the I/O
// on it has returned: opens = closes on that leaf, whatever else is open.
func leafBalancedNow(file, what string) func(w *world, x *mc.X, r *results) {
	return func(w *world, x *mc.X, r *results) {
		leaf := w.fs.linked[file]
		w.fs.mu.Lock()
		opens, closes := leaf.opens, leaf.closes
		w.fs.mu.Unlock()
		for b := 0; b < 2; b++ {
			if opens[b] != closes[b] {
				x.FailP("C18", "concurrent/unbalanced-after-"+what, "after %s and the concurrent I/O both returned (%s): leaf %s was opened %d times for %s and closed %d times", what, r.dump(), leaf.id, opens[b], bitNames[b], closes[b])
				return
			}
		}
	}
}

// raw40closeThenOpen is one client thread: CLOSE of file, then the SAME
// open-owner's next transaction, an OPEN of file2 with the next sequence
// number (which makes the server drop the replay information of the CLOSE
// and with it the half-closed open-owner file).
func raw40closeThenOpen(cl, owner, file, file2 string) func(w *world, x *mc.X, r *results) {
	return func(w *world, x *mc.X, r *results) {
		c := w.client40(cl)
		o := c.owner(owner)
		op := o.files[file]
		seq := nextSeq(o.seq)
		res := w.compound(0, "CLOSE", putfh(op.leaf.handle), &nfsv4.NfsArgop4_OP_CLOSE{Opclose: nfsv4.Close4args{Seqid: seq, OpenStateid: op.sid}})
		r.set("CLOSE", statusOf(res))
		if res.Status != nfsv4.NFS4_OK {
			return
		}
		x.ResetLocal("closed")
		seq = nextSeq(seq)
		res = w.compound(0, "OPEN(next)", &nfsv4.NfsArgop4_OP_PUTROOTFH{}, &nfsv4.NfsArgop4_OP_OPEN{Opopen: nfsv4.Open4args{
			Seqid: seq, ShareAccess: accRead, ShareDeny: nfsv4.OPEN4_SHARE_DENY_NONE,
			Owner: nfsv4.OpenOwner4{Clientid: c.id, Owner: []byte(owner)}, Openhow: openflag(howNoCreate), Claim: &nfsv4.OpenClaim4_CLAIM_NULL{File: file2},
		}})
		r.set("OPEN(next)", statusOf(res))
	}
}

// raw40closeThenPoke: CLOSE, then n requests that refer to no client (they
// make the server collect whatever has expired by then).
func raw40closeThenPoke(cl, owner, file string, n int) func(w *world, x *mc.X, r *results) {
	return func(w *world, x *mc.X, r *results) {
		raw40close(cl, owner, file)(w, x, r)
		rawPoke(n)(w, x, r)
	}
}

// raw40reregisterNoted is raw40reregister that remembers what it needs to
// retry SETCLIENTID_CONFIRM once more after everything has returned.
func raw40reregisterNoted(cl string, attempts int) func(w *world, x *mc.X, r *results) {
	return func(w *world, x *mc.X, r *results) {
		res := w.compound(0, "SETCLIENTID", &nfsv4.NfsArgop4_OP_SETCLIENTID{Opsetclientid: nfsv4.Setclientid4args{
			Client: nfsv4.NfsClientId4{Verifier: nfsv4.Verifier4{2}, Id: []byte(cl)},
		}})
		ok := res.Resarray[0].(*nfsv4.NfsResop4_OP_SETCLIENTID).Opsetclientid.(*nfsv4.Setclientid4res_NFS4_OK)
		r.set("scid-args", fmt.Sprintf("%d/%s", ok.Resok4.Clientid, hex.EncodeToString(ok.Resok4.SetclientidConfirm[:])))
		for i := 0; i < attempts; i++ {
			x.ResetLocal(fmt.Sprintf("confirm%d", i))
			res := w.compound(0, "SETCLIENTID_CONFIRM", &nfsv4.NfsArgop4_OP_SETCLIENTID_CONFIRM{OpsetclientidConfirm: nfsv4.SetclientidConfirm4args{
				Clientid: ok.Resok4.Clientid, SetclientidConfirm: ok.Resok4.SetclientidConfirm,
			}})
			r.set(fmt.Sprintf("CONFIRM%d", i), statusOf(res))
			if res.Status == nfsv4.NFS4_OK {
				r.set("reregistered", "yes")
				break
			}
		}
	}
}

func raw40closeThenReregister(cl, owner, file string) func(w *world, x *mc.X, r *results) {
	return func(w *world, x *mc.X, r *results) {
		raw40close(cl, owner, file)(w, x, r)
		x.ResetLocal("closed")
		raw40reregisterNoted(cl, 2)(w, x, r)
	}
}

// reregistered40 is the oracle of "NFSv4.0 client re-registers while its
// previous instance is busy": if SETCLIENTID_CONFIRM has only been answered
// NFS4ERR_DELAY so far it is sent once more (nothing of the previous instance
// is in flight any more). Once it has succeeded the client has re-registered:
// all leaves are balanced NOW (the new instance has opened nothing) and the
// previous instance's state ID is refused.
func reregistered40(cl, owner, file string) func(w *world, x *mc.X, r *results) {
	return func(w *world, x *mc.X, r *results) {
		if r.get("reregistered") == "" {
			var id uint64
			var vhex string
			if _, err := fmt.Sscanf(r.get("scid-args"), "%d/%s", &id, &vhex); err != nil {
				return
			}
			var v nfsv4.Verifier4
			raw, _ := hex.DecodeString(vhex)
			copy(v[:], raw)
			res := w.compound(0, "SETCLIENTID_CONFIRM(after everything returned)", &nfsv4.NfsArgop4_OP_SETCLIENTID_CONFIRM{OpsetclientidConfirm: nfsv4.SetclientidConfirm4args{Clientid: id, SetclientidConfirm: v}})
			r.set("CONFIRM-final", statusOf(res))
			if res.Status != nfsv4.NFS4_OK {
				// Not re-registered (e.g. the pending record expired in
				// the meantime): nothing to judge here.
				return
			}
		}
		if ok, msg := w.fs.balanced(); !ok {
			x.FailP("C18", "reregistered/unbalanced", "NFSv4.0 client %s re-registered (SETCLIENTID with a new verifier confirmed; %s) and none of its requests is in flight, but: %s", cl, r.dump(), msg)
		}
		op := w.c40[cl].owners[owner].files[file]
		res := w.compound(0, "READ(state ID of the previous instance)", putfh(op.leaf.handle), ioOp(ioRead, op.sid))
		if res.Status == nfsv4.NFS4_OK {
			x.FailP("C18", "reregistered/old-stateid-honoured", "NFSv4.0 client %s re-registered, but READ with an open state ID of its previous instance still succeeds", cl)
		}
	}
}

// noteSession41 remembers the session a successful CREATE_SESSION returned.
func noteSession41(r *results, res *nfsv4.Compound4res) {
	if res.Status != nfsv4.NFS4_OK || len(res.Resarray) != 1 {
		return
	}
	if op, ok := res.Resarray[0].(*nfsv4.NfsResop4_OP_CREATE_SESSION); ok {
		if okRes, ok := op.OpcreateSession.(*nfsv4.CreateSession4res_NFS4_OK); ok {
			r.set("cs-session", hex.EncodeToString(okRes.CsrResok4.CsrSessionid[:]))
		}
	}
}

// reregistered41 is the NFSv4.1 twin: evaluated after
// createSessionRetransmissions, i.e. after CREATE_SESSION of the new
// incarnation has been retransmitted until it succeeded and the old
// incarnation's parked request has returned.
func reregistered41(cl, owner, file string) func(w *world, x *mc.X, r *results) {
	return func(w *world, x *mc.X, r *results) {
		raw, err := hex.DecodeString(r.get("cs-session"))
		if err != nil || len(raw) != nfsv4.NFS4_SESSIONID_SIZE {
			return
		}
		c := w.c41[cl]
		// (1) Everything the previous incarnation had open is closed;
		// the new one has opened nothing.
		if ok, msg := w.fs.balanced(); !ok {
			x.FailP("C18", "reregistered/unbalanced", "NFSv4.1 client %s re-registered (EXCHANGE_ID with a new verifier, CREATE_SESSION answered NFS4_OK; %s) and none of its requests is in flight, but: %s", cl, shortDump(r), msg)
		}
		// (2) Its session is gone, and with it the way to present its
		// state IDs.
		old := c.sessions[0]
		ops := []nfsv4.NfsArgop4{sequenceOp(old, 1, old.seq[1]+1), &nfsv4.NfsArgop4_OP_PUTROOTFH{}}
		var op *open41
		if owner != "" {
			op = open41of(w, cl, owner, file)
			ops = []nfsv4.NfsArgop4{sequenceOp(old, 1, old.seq[1]+1), putfh(op.leaf.handle), ioOp(ioRead, op.sid)}
		}
		res := w.compound(1, "SEQUENCE(session of the previous incarnation)+READ", ops...)
		if opStatus(res, 0) == nfsv4.NFS4_OK {
			if op != nil && res.Status == nfsv4.NFS4_OK {
				x.FailP("C18", "reregistered/old-stateid-honoured", "NFSv4.1 client %s re-registered, but READ with an open state ID of its previous incarnation (through that incarnation's session) still succeeds", cl)
			}
			x.FailP("C18", "reregistered/old-session-valid", "NFSv4.1 client %s re-registered, but SEQUENCE on the session of its previous incarnation is still answered NFS4_OK instead of NFS4ERR_BADSESSION (compound status %d)", cl, res.Status)
		}
		// (3) The old state ID presented through the NEW session.
		if op != nil {
			var s session41
			copy(s.id[:], raw)
			s.valid = true
			res := w.compound(1, "READ(state ID of the previous incarnation, new session)", sequenceOp(&s, 0, 1), putfh(op.leaf.handle), ioOp(ioRead, op.sid))
			if opStatus(res, 0) == nfsv4.NFS4_OK && res.Status == nfsv4.NFS4_OK {
				x.FailP("C18", "reregistered/old-stateid-honoured", "NFSv4.1 client %s re-registered, but READ with an open state ID of its previous incarnation (through the new session) succeeds", cl)
			}
		}
	}
}

// shortDump renders the results without the (long) reply bytes.
func shortDump(r *results) string {
	var b strings.Builder
	for _, kv := range strings.Split(r.dump(), ";") {
		if i := strings.IndexByte(kv, ':'); i >= 0 && len(kv) > i+17 {
			kv = kv[:i+17] + "..."
		}
		b.WriteString(kv + ";")
	}
	return b.String()
}

// ops41closeReopenClose: one NFSv4.1 client thread that closes the file,
// opens it again (same owner, same file: a NEW open-owner file for the same
// handle) and closes that one, too.
func raw41closeReopenClose(cl string, slot uint32, owner, file string) func(w *world, x *mc.X, r *results) {
	return func(w *world, x *mc.X, r *results) {
		c := w.c41[cl]
		s := c.session()
		op := open41of(w, cl, owner, file)
		seq := s.seq[slot] + 1
		res := w.compound(1, "CLOSE", sequenceOp(s, slot, seq), putfh(op.leaf.handle), &nfsv4.NfsArgop4_OP_CLOSE{Opclose: nfsv4.Close4args{OpenStateid: op.sid}})
		r.set("CLOSE", statusOf(res))
		if res.Status != nfsv4.NFS4_OK {
			return
		}
		x.ResetLocal("closed")
		seq++
		res = w.compound(1, "OPEN(again)", sequenceOp(s, slot, seq), &nfsv4.NfsArgop4_OP_PUTROOTFH{}, &nfsv4.NfsArgop4_OP_OPEN{Opopen: nfsv4.Open4args{
			ShareAccess: accRead, ShareDeny: nfsv4.OPEN4_SHARE_DENY_NONE,
			Owner: nfsv4.OpenOwner4{Clientid: c.id, Owner: []byte(owner)}, Openhow: openflag(howNoCreate), Claim: &nfsv4.OpenClaim4_CLAIM_NULL{File: file},
		}})
		r.set("OPEN(again)", statusOf(res))
		if res.Status != nfsv4.NFS4_OK {
			return
		}
		sid := res.Resarray[2].(*nfsv4.NfsResop4_OP_OPEN).Opopen.(*nfsv4.Open4res_NFS4_OK).Resok4.Stateid
		x.ResetLocal(fmt.Sprintf("reopened:%d", sid.Seqid))
		seq++
		res = w.compound(1, "CLOSE(again)", sequenceOp(s, slot, seq), putfh(op.leaf.handle), &nfsv4.NfsArgop4_OP_CLOSE{Opclose: nfsv4.Close4args{OpenStateid: sid}})
		r.set("CLOSE(again)", statusOf(res))
	}
}

func scenariosRound3() []*mc.Scenario {
	var out []*mc.Scenario
	c18 := []string{"C18"}
	p40 := prefix40Open("c1", "O1", "a", accBoth)
	p41 := prefix41Open("d1", "O1", "a", accBoth)
	clock := []concEvent{{"clock+lease", func(w *world) { w.advance(pastLease) }}}

	for _, k := range []ioKind{ioRead, ioWrite} {
		n := strings.ToLower(k.String())
		out = append(out,
			// I/O parked in the leaf, CLOSE, the open-owner's next
			// transaction (OPEN of another file), then the I/O returns.
			concScenario(concSpec{name: "c40-" + n + "-close-next-open", props: c18, liveness: c18, prefix: p40,
				threads: []concThread{{"io", raw40io(k, "c1", "O1", "a")}, {"owner", raw40closeThenOpen("c1", "O1", "a", "b")}},
				finish:  both(expectOK("CLOSE", "OPEN(next)"), leafBalancedNow("a", "CLOSE"))}),
		)
	}
	out = append(out,
		// ... CLOSE, then the lease time passes: the now unused open-owner
		// is collected (the client itself is held by the I/O) ...
		concScenario(concSpec{name: "c40-read-close-owner-expiry", props: c18, liveness: c18, prefix: p40,
			threads: []concThread{{"io", raw40io(ioRead, "c1", "O1", "a")}, {"closer", raw40closeThenPoke("c1", "O1", "a", 2)}},
			events:  clock,
			finish:  leafBalancedNow("a", "CLOSE")}),
		// ... CLOSE, then the client re-registers (answered NFS4ERR_DELAY
		// as long as the I/O holds the previous instance).
		concScenario(concSpec{name: "c40-read-close-reregister", props: c18, liveness: c18, prefix: p40,
			threads: []concThread{{"io", raw40io(ioRead, "c1", "O1", "a")}, {"owner", raw40closeThenReregister("c1", "O1", "a")}},
			finish:  both(leafBalancedNow("a", "CLOSE"), reregistered40("c1", "O1", "a"))}),
		// Re-registration alone, with the oracle "re-registered => reclaimed now".
		concScenario(concSpec{name: "c40-read-reregister-retry", props: c18, liveness: c18, prefix: p40,
			threads: []concThread{{"io", raw40io(ioRead, "c1", "O1", "a")}, {"register", raw40reregisterNoted("c1", 2)}},
			finish:  reregistered40("c1", "O1", "a")}),
		// NFSv4.1: CLOSE detaches at once; the same owner then opens and
		// closes the same file again while the first READ is still parked.
		concScenario(concSpec{name: "c41-read-close-reopen-close", props: c18, liveness: c18, prefix: p41,
			threads: []concThread{{"io", raw41("d1", 0, "READ", ops41io(ioRead, "d1", "O1", "a"))}, {"owner", raw41closeReopenClose("d1", 1, "O1", "a")}},
			finish:  both(expectOK("CLOSE", "OPEN(again)", "CLOSE(again)"), balancedNow("CLOSE"))}),
		// NFSv4.1 re-registration with a READ of the old incarnation parked
		// in the leaf (the WRITE and OPEN variants are the two
		// c41-create-session-delayed-* scenarios in conc.go).
		concScenario(concSpec{name: "c41-create-session-delayed-read", props: []string{"C18", "C19"}, liveness: c18, prefix: p41,
			threads: []concThread{{"io", raw41("d1", 0, "READ", ops41io(ioRead, "d1", "O1", "a"))}, {"register", delayedCreateSession("d1", 2)}},
			finish:  both(createSessionRetransmissions(2), reregistered41("d1", "O1", "a"))}),
	)
	return out
}
