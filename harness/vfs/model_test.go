package vfs

import (
	"fmt"
	"sort"
	"strings"

	"github.com/buildbarn/bb-remote-execution/pkg/filesystem/virtual"
)

// Boring reference hierarchy: directories are nodes holding a list of
// (name -> node) entries, leaves are nodes with a link count. Removed
// directories stay around as tombstones (deleted=true) because callers may
// retain handles to them. Lazily initialised directories carry the contents
// they will get on first access.

type mLazy struct {
	spec     lazySpec
	failOnce bool
}

type mNode struct {
	id  int
	dir bool

	// Directories.
	entries []*mEntry
	deleted bool
	lazy    *mLazy
	fs      int // hierarchy the directory was created in

	// Leaves.
	kind  leafKind
	nlink int
}

type mEntry struct {
	serial int
	name   string
	norm   string
	node   *mNode
}

type model struct {
	fold     bool // case-insensitive names
	hiddenOn bool // names starting with ".hid" are hidden files
	// hiddenFn, if set, replaces the ".hid" rule. It is always applied to
	// the name an entry was CREATED under (never to its normalised form),
	// as every listing site of the implementation does.
	hiddenFn   func(string) bool
	nextSerial int
	nextNode   int

	// Environment answers armed for the next allocation.
	armedNewFile bool
	armedSymlink bool

	// Per-operation bookkeeping for the change counter oracle.
	modified map[*mNode]bool // entry set changed: counter must grow
	exempt   map[*mNode]bool // lazily materialised / removed itself: no demand
}

func (m *model) beginOp() {
	m.modified = map[*mNode]bool{}
	m.exempt = map[*mNode]bool{}
}

func (m *model) norm(s string) string {
	if m.fold {
		return strings.ToLower(s)
	}
	return s
}

func (m *model) isHidden(name string) bool {
	if m.hiddenFn != nil {
		return m.hiddenFn(name)
	}
	return m.hiddenOn && strings.HasPrefix(name, ".hid")
}

func (m *model) newDir(fs int, lz *mLazy) *mNode {
	n := &mNode{id: m.nextNode, dir: true, lazy: lz, fs: fs}
	m.nextNode++
	return n
}

func (m *model) newLeaf(kind leafKind) *mNode {
	n := &mNode{id: m.nextNode, kind: kind, nlink: 1}
	m.nextNode++
	return n
}

func (m *model) find(d *mNode, name string) *mEntry {
	nn := m.norm(name)
	for _, e := range d.entries {
		if e.norm == nn {
			return e
		}
	}
	return nil
}

func (m *model) attach(d *mNode, name string, n *mNode) {
	d.entries = append(d.entries, &mEntry{serial: m.nextSerial, name: name, norm: m.norm(name), node: n})
	m.nextSerial++
	m.modified[d] = true
}

func (m *model) detach(d *mNode, e *mEntry) {
	for i, x := range d.entries {
		if x == e {
			d.entries = append(d.entries[:i:i], d.entries[i+1:]...)
			m.modified[d] = true
			return
		}
	}
	panic("model: detach of unknown entry")
}

// ensure materialises a lazily initialised directory. It returns false if
// the fetch failed (which consumes the armed failure).
func (m *model) ensure(d *mNode) bool {
	if d.lazy == nil {
		return true
	}
	if d.lazy.failOnce {
		d.lazy.failOnce = false
		return false
	}
	lz := d.lazy
	d.lazy = nil
	type item struct {
		name string
		dir  bool
	}
	var items []item
	for _, n := range lz.spec.files {
		items = append(items, item{n, false})
	}
	for _, n := range lz.spec.dirs {
		items = append(items, item{n, true})
	}
	sort.Slice(items, func(i, j int) bool { return items[i].name < items[j].name })
	for _, it := range items {
		if it.dir {
			m.attach(d, it.name, m.newDir(d.fs, &mLazy{}))
		} else {
			m.attach(d, it.name, m.newLeaf(kindFile))
		}
	}
	// Materialisation is not a modification in the sense of the
	// statement, yet upstream bumps the counter once per child:
	// accept both.
	delete(m.modified, d)
	m.exempt[d] = true
	return true
}

// emptyVisible: the directory only holds hidden files (rmdir succeeds).
func (m *model) emptyVisible(d *mNode) bool {
	for _, e := range d.entries {
		if e.node.dir || !m.isHidden(e.name) {
			return false
		}
	}
	return true
}

func (m *model) unlink(l *mNode) {
	if l.nlink <= 0 {
		panic("model: unlink of a leaf without links")
	}
	l.nlink--
}

// markDeleted turns an (apart from hidden files) empty directory into a
// tombstone.
func (m *model) markDeleted(d *mNode) {
	if d.deleted {
		return
	}
	for len(d.entries) > 0 {
		e := d.entries[0]
		m.detach(d, e)
		m.unlink(e.node)
	}
	d.deleted = true
	m.exempt[d] = true
}

func (m *model) removeAllChildren(d *mNode, deleteSelf bool) {
	if d.lazy != nil {
		// Never materialised: becomes empty without anybody
		// having seen the contents. Upstream does not bump the
		// counter here: accept both.
		d.lazy = nil
		m.exempt[d] = true
		if deleteSelf {
			m.markDeleted(d)
		}
		return
	}
	old := d.entries
	if len(old) > 0 {
		d.entries = nil
		m.modified[d] = true
	}
	if deleteSelf {
		m.markDeleted(d)
	}
	for _, e := range old {
		if e.node.dir {
			m.removeAllChildren(e.node, true)
		} else {
			m.unlink(e.node)
		}
	}
}

// isAncestorOrSelf reports whether a is b or an ancestor of b.
func (m *model) isAncestorOrSelf(a, b *mNode) bool {
	seen := map[*mNode]bool{}
	var walk func(x *mNode) bool
	walk = func(x *mNode) bool {
		if x == b {
			return true
		}
		if seen[x] {
			return false
		}
		seen[x] = true
		for _, e := range x.entries {
			if e.node.dir && walk(e.node) {
				return true
			}
		}
		return false
	}
	return walk(a)
}

// ---------------------------------------------------------------------------
// Verdicts.

const (
	sOK       = virtual.StatusOK
	sExist    = virtual.StatusErrExist
	sIO       = virtual.StatusErrIO
	sIsDir    = virtual.StatusErrIsDir
	sNoEnt    = virtual.StatusErrNoEnt
	sNotDir   = virtual.StatusErrNotDir
	sNotEmpty = virtual.StatusErrNotEmpty
	sPerm     = virtual.StatusErrPerm
	sStale    = virtual.StatusErrStale
	sSymlink  = virtual.StatusErrSymlink
	sInval    = virtual.StatusErrInval
	sXDev     = virtual.StatusErrXDev
	// sOther stands for "an error this harness has no name for".
	sOther = virtual.Status(-1)
)

var statusNames = map[virtual.Status]string{
	sOK: "OK", sExist: "EEXIST", sIO: "EIO", sIsDir: "EISDIR", sNoEnt: "ENOENT", sNotDir: "ENOTDIR",
	sNotEmpty: "ENOTEMPTY", sPerm: "EPERM", sStale: "ESTALE", sSymlink: "ESYMLINK", sInval: "EINVAL",
	sXDev: "EXDEV", virtual.StatusErrAccess: "EACCES", sOther: "EOTHER",
}

func sname(s virtual.Status) string {
	if n, ok := statusNames[s]; ok {
		return n
	}
	return fmt.Sprintf("status(%d)", int(s))
}

func snames(l []virtual.Status) string {
	var r []string
	for _, s := range l {
		r = append(r, sname(s))
	}
	return "{" + strings.Join(r, ",") + "}"
}

// verdict compares the status the implementation returned with the set of
// errors the reference hierarchy allows. An empty set means the call must
// succeed. apply tells whether the effect has to be applied to the model.
func verdict(got virtual.Status, errs []virtual.Status) (apply bool, bad string) {
	if got == sOK {
		if len(errs) > 0 {
			return false, "returned OK, reference demands one of " + snames(errs)
		}
		return true, ""
	}
	for _, e := range errs {
		if e == got {
			return false, ""
		}
	}
	if len(errs) == 0 {
		return false, "returned " + sname(got) + ", reference demands OK"
	}
	return false, "returned " + sname(got) + ", reference demands one of " + snames(errs)
}

// ---------------------------------------------------------------------------
// Operations. Every function receives the status the implementation
// returned, checks it and, if the call succeeded legitimately, applies the
// effect. The returned string is empty or describes the mismatch.

// created is filled in by operations that create a node.
type outcome struct {
	bad     string
	node    *mNode // node created / found
	applied bool
}

func (m *model) opOpenChild(d *mNode, name string, create, existing bool, got virtual.Status) outcome {
	if !m.ensure(d) {
		_, bad := verdict(got, []virtual.Status{sIO})
		return outcome{bad: bad}
	}
	if e := m.find(d, name); e != nil {
		var errs []virtual.Status
		switch {
		case !existing:
			errs = append(errs, sExist)
		case e.node.dir:
			errs = append(errs, sIsDir)
		case e.node.kind != kindFile:
			// Leaf specific; NFSv4 wants NFS4ERR_SYMLINK for
			// all irregular files.
			errs = append(errs, sSymlink)
		}
		ok, bad := verdict(got, errs)
		return outcome{bad: bad, node: e.node, applied: ok}
	}
	var errs []virtual.Status
	if d.deleted || !create {
		errs = append(errs, sNoEnt)
	} else if m.armedNewFile {
		m.armedNewFile = false
		errs = append(errs, sIO)
	}
	ok, bad := verdict(got, errs)
	if !ok {
		return outcome{bad: bad}
	}
	n := m.newLeaf(kindFile)
	m.attach(d, name, n)
	return outcome{node: n, applied: true}
}

func (m *model) mayAttach(d *mNode, name string) []virtual.Status {
	if d.deleted {
		return []virtual.Status{sNoEnt}
	}
	if m.find(d, name) != nil {
		return []virtual.Status{sExist}
	}
	return nil
}

func (m *model) opMkdir(d *mNode, name string, got virtual.Status) outcome {
	if !m.ensure(d) {
		_, bad := verdict(got, []virtual.Status{sIO})
		return outcome{bad: bad}
	}
	ok, bad := verdict(got, m.mayAttach(d, name))
	if !ok {
		return outcome{bad: bad}
	}
	n := m.newDir(d.fs, &mLazy{})
	m.attach(d, name, n)
	return outcome{node: n, applied: true}
}

type nodType int

const (
	nodSymlink nodType = iota
	nodFIFO
	nodCharDev
)

func (m *model) opMknod(d *mNode, name string, t nodType, got virtual.Status) outcome {
	if !m.ensure(d) {
		_, bad := verdict(got, []virtual.Status{sIO})
		return outcome{bad: bad}
	}
	errs := m.mayAttach(d, name)
	if t == nodCharDev {
		errs = append(errs, sPerm)
	} else if t == nodSymlink && len(errs) == 0 && m.armedSymlink {
		m.armedSymlink = false
		errs = append(errs, sIO)
	}
	ok, bad := verdict(got, errs)
	if !ok {
		return outcome{bad: bad}
	}
	kind := kindSymlink
	if t == nodFIFO {
		kind = kindFIFO
	}
	n := m.newLeaf(kind)
	m.attach(d, name, n)
	return outcome{node: n, applied: true}
}

func (m *model) opLink(d *mNode, name string, l *mNode, got virtual.Status) outcome {
	if !m.ensure(d) {
		_, bad := verdict(got, []virtual.Status{sIO})
		return outcome{bad: bad}
	}
	errs := m.mayAttach(d, name)
	if l.nlink == 0 {
		// A file without any name left cannot get a new one.
		errs = append(errs, sStale, sNoEnt)
	}
	ok, bad := verdict(got, errs)
	if !ok {
		return outcome{bad: bad}
	}
	l.nlink++
	m.attach(d, name, l)
	return outcome{node: l, applied: true}
}

func (m *model) opLookup(d *mNode, name string, got virtual.Status) outcome {
	if !m.ensure(d) {
		_, bad := verdict(got, []virtual.Status{sIO})
		return outcome{bad: bad}
	}
	e := m.find(d, name)
	if e == nil {
		_, bad := verdict(got, []virtual.Status{sNoEnt})
		return outcome{bad: bad}
	}
	ok, bad := verdict(got, nil)
	return outcome{bad: bad, node: e.node, applied: ok}
}

// renameWouldCycle: the source is a directory and the target directory is
// the source or lies below it. Upstream leaves this case open (TODO in
// VirtualRename); the alphabets do not contain it.
func (m *model) renameWouldCycle(dOld *mNode, nOld string, dNew *mNode) bool {
	if dOld.lazy != nil {
		return false
	}
	e := m.find(dOld, nOld)
	return e != nil && e.node.dir && m.isAncestorOrSelf(e.node, dNew)
}

func (m *model) opRename(dOld *mNode, nOld string, dNew *mNode, nNew string, got virtual.Status) outcome {
	if !m.ensure(dOld) || !m.ensure(dNew) {
		_, bad := verdict(got, []virtual.Status{sIO})
		return outcome{bad: bad}
	}
	oldE := m.find(dOld, nOld)
	newE := m.find(dNew, nNew)
	var errs []virtual.Status
	if oldE == nil {
		errs = append(errs, sNoEnt)
	}
	if newE == nil && dNew.deleted {
		errs = append(errs, sNoEnt)
	}
	if oldE != nil && newE != nil && oldE.node != newE.node {
		switch {
		case newE.node.dir && !oldE.node.dir:
			errs = append(errs, sIsDir)
		case !newE.node.dir && oldE.node.dir:
			errs = append(errs, sNotDir)
		case newE.node.dir && oldE.node.dir && dOld.fs != dNew.fs:
			errs = append(errs, sXDev)
		case newE.node.dir && oldE.node.dir:
			if !m.ensure(newE.node) {
				errs = append(errs, sIO)
			} else if !m.emptyVisible(newE.node) {
				errs = append(errs, sNotEmpty, sExist)
			}
		}
	}
	if oldE != nil && newE == nil && oldE.node.dir && dOld.fs != dNew.fs {
		// A directory cannot move to another hierarchy.
		errs = append(errs, sXDev)
	}
	ok, bad := verdict(got, errs)
	if !ok {
		return outcome{bad: bad}
	}
	if newE != nil && newE.node == oldE.node {
		// Same file under both names (or the very same entry):
		// POSIX demands that nothing happens.
		if newE == oldE && nOld != nNew {
			// Same entry under a different spelling (case
			// folding): upstream keeps the old spelling, a
			// POSIX style file system would adopt the new one.
			// Accept both; listings are compared normalised.
			m.exempt[dOld] = true
		}
		return outcome{applied: true}
	}
	n := oldE.node
	m.detach(dOld, oldE)
	if newE != nil {
		m.detach(dNew, newE)
		if newE.node.dir {
			m.markDeleted(newE.node)
		} else {
			m.unlink(newE.node)
		}
	}
	m.attach(dNew, nNew, n)
	return outcome{applied: true, node: n}
}

func (m *model) opRemove(d *mNode, name string, rmDir, rmLeaf bool, got virtual.Status) outcome {
	if !m.ensure(d) {
		_, bad := verdict(got, []virtual.Status{sIO})
		return outcome{bad: bad}
	}
	e := m.find(d, name)
	var errs []virtual.Status
	switch {
	case e == nil:
		errs = append(errs, sNoEnt)
	case e.node.dir:
		if !rmDir {
			// unlink() of a directory: EPERM (POSIX) or EISDIR (Linux).
			errs = append(errs, sPerm, sIsDir)
		} else if !m.ensure(e.node) {
			errs = append(errs, sIO)
		} else if !m.emptyVisible(e.node) {
			errs = append(errs, sNotEmpty, sExist)
		}
	default:
		if !rmLeaf {
			errs = append(errs, sNotDir)
		}
	}
	ok, bad := verdict(got, errs)
	if !ok {
		return outcome{bad: bad}
	}
	m.detach(d, e)
	if e.node.dir {
		m.markDeleted(e.node)
	} else {
		m.unlink(e.node)
	}
	return outcome{applied: true, node: e.node}
}

// childSpec describes one child handed to CreateChildren.
type childSpec struct {
	name string
	dir  bool
	lazy *mLazy // for directories
}

func (m *model) opCreateChildren(d *mNode, children []childSpec, overwrite bool, got virtual.Status) (outcome, []*mNode) {
	if !m.ensure(d) {
		_, bad := verdict(got, []virtual.Status{sIO})
		return outcome{bad: bad}, nil
	}
	var errs []virtual.Status
	if d.deleted {
		errs = append(errs, sNoEnt)
	} else if !overwrite {
		for _, c := range children {
			if m.find(d, c.name) != nil {
				errs = append(errs, sExist)
				break
			}
		}
	}
	ok, bad := verdict(got, errs)
	if !ok {
		return outcome{bad: bad}, nil
	}
	var removed []*mEntry
	for _, c := range children {
		if e := m.find(d, c.name); e != nil {
			m.detach(d, e)
			removed = append(removed, e)
		}
	}
	sorted := append([]childSpec(nil), children...)
	sort.Slice(sorted, func(i, j int) bool { return sorted[i].name < sorted[j].name })
	made := map[string]*mNode{}
	for _, c := range sorted {
		var n *mNode
		if c.dir {
			lz := &mLazy{}
			if c.lazy != nil {
				cp := *c.lazy
				lz = &cp
			}
			n = m.newDir(d.fs, lz)
		} else {
			n = m.newLeaf(kindFile)
		}
		made[c.name] = n
		m.attach(d, c.name, n)
	}
	for _, e := range removed {
		if e.node.dir {
			m.removeAllChildren(e.node, true)
		} else {
			m.unlink(e.node)
		}
	}
	var nodes []*mNode
	for _, c := range children {
		nodes = append(nodes, made[c.name])
	}
	return outcome{applied: true}, nodes
}

func (m *model) opCreateAndEnter(d *mNode, name string, got virtual.Status) outcome {
	if !m.ensure(d) {
		_, bad := verdict(got, []virtual.Status{sIO})
		return outcome{bad: bad}
	}
	if e := m.find(d, name); e != nil {
		ok, bad := verdict(got, nil)
		if !ok {
			return outcome{bad: bad}
		}
		if e.node.dir {
			return outcome{applied: true, node: e.node}
		}
		m.detach(d, e)
		m.unlink(e.node)
		n := m.newDir(d.fs, &mLazy{})
		m.attach(d, name, n)
		return outcome{applied: true, node: n}
	}
	var errs []virtual.Status
	if d.deleted {
		errs = append(errs, sNoEnt)
	}
	ok, bad := verdict(got, errs)
	if !ok {
		return outcome{bad: bad}
	}
	n := m.newDir(d.fs, &mLazy{})
	m.attach(d, name, n)
	return outcome{applied: true, node: n}
}

func (m *model) opRemoveAll(d *mNode, name string, got virtual.Status) outcome {
	if !m.ensure(d) {
		_, bad := verdict(got, []virtual.Status{sIO})
		return outcome{bad: bad}
	}
	e := m.find(d, name)
	if e == nil {
		_, bad := verdict(got, []virtual.Status{sNoEnt})
		return outcome{bad: bad}
	}
	ok, bad := verdict(got, nil)
	if !ok {
		return outcome{bad: bad}
	}
	m.detach(d, e)
	if e.node.dir {
		m.removeAllChildren(e.node, true)
	} else {
		m.unlink(e.node)
	}
	return outcome{applied: true}
}

// visible lists the entries a directory listing shows.
func (m *model) visible(d *mNode) []*mEntry {
	var r []*mEntry
	for _, e := range d.entries {
		if e.node.dir || !m.isHidden(e.name) {
			r = append(r, e)
		}
	}
	return r
}

// filterPlan computes what FilterChildren has to report when called on d:
// every leaf stored in the materialised part of the hierarchy and every
// directory that has not been materialised yet.
type filterPlan struct {
	leaves []*mNode // with multiplicity
	lazies []*mNode
}

func (m *model) planFilter(d *mNode, p *filterPlan, seen map[*mNode]bool) {
	if seen[d] {
		return
	}
	seen[d] = true
	if d.lazy != nil {
		p.lazies = append(p.lazies, d)
		return
	}
	for _, e := range d.entries {
		if !e.node.dir {
			p.leaves = append(p.leaves, e.node)
		}
	}
	for _, e := range d.entries {
		if e.node.dir {
			m.planFilter(e.node, p, seen)
		}
	}
}

// applyFilterRemoveAll applies the effect of a filter that removes
// everything it is shown.
func (m *model) applyFilterRemoveAll(d *mNode, seen map[*mNode]bool) {
	if seen[d] {
		return
	}
	seen[d] = true
	if d.lazy != nil {
		m.removeAllChildren(d, false)
		return
	}
	for _, e := range append([]*mEntry(nil), d.entries...) {
		if !e.node.dir {
			m.detach(d, e)
			m.unlink(e.node)
		}
	}
	for _, e := range d.entries {
		if e.node.dir {
			m.applyFilterRemoveAll(e.node, seen)
		}
	}
}
