package worker

import (
	"fmt"
	"strings"
	"time"

	"verif/mc"

	remoteexecution "github.com/bazelbuild/remote-apis/build/bazel/remote/execution/v2"
	"github.com/buildbarn/bb-remote-execution/pkg/builder"
	"github.com/buildbarn/bb-storage/pkg/digest"
	"google.golang.org/protobuf/proto"
)

// activeExecs returns the executions whose fake Execute has not returned,
// in start order. Callers hold e.mu.
func (e *env) activeExecs() []*execution {
	var l []*execution
	for _, o := range e.execs {
		if o.active {
			l = append(l, o)
		}
	}
	return l
}

func (e *env) beginShutdown() {
	e.mu.Lock()
	already := e.shutdown
	e.shutdown = true
	e.mu.Unlock()
	if !already {
		e.cancel()
		close(e.shutdownCh)
	}
}

// build constructs a fresh BuildClient with its fakes, launches the real
// worker thread loop and registers the environment events.
func build(x *mc.X, c config) *env {
	e := newEnv(x, c)
	instanceName, err := digest.NewInstanceName("main")
	if err != nil {
		panic(err)
	}
	e.bc = builder.NewBuildClient(
		fakeScheduler{e}, fakeExecutor{e}, nil, fakeClock{e},
		map[string]string{"hostname": "w", "thread": "0"},
		instanceName,
		&remoteexecution.Platform{}, 0)
	builder.LaunchWorkerThread(fakeGroup{e}, e.bc, "w/0")

	locked := func(f func() bool) func() bool {
		return func() bool {
			e.mu.Lock()
			defer e.mu.Unlock()
			return f()
		}
	}

	// The timer of Run's select expires. Offered only while the worker
	// thread is durably blocked in that select, so the select never has
	// two ready cases.
	x.AddEvent(&mc.Event{Name: "timer", Free: true,
		Enabled: locked(func() bool {
			return e.nativeBlocked() && e.inSelect && e.timer != nil && !e.timer.fired && !e.timer.stopped
		}),
		Fire: func() {
			e.mu.Lock()
			t := e.timer
			t.fired = true
			if e.now < t.deadline {
				e.now = t.deadline
			}
			now := e.abs(e.now)
			e.mu.Unlock()
			t.ch <- now
		}})
	// LaunchWorkerThread's error back-off uses package time directly, i.e.
	// the bubble's fake time, which only advances while the controller
	// itself sleeps: 5 s is the upper bound of the random back-off.
	x.AddEvent(&mc.Event{Name: "backoff-elapses", Free: true,
		Enabled: locked(func() bool { return e.nativeBlocked() && e.expectBackoff }),
		Fire: func() {
			e.mu.Lock()
			e.expectBackoff = false
			e.mu.Unlock()
			time.Sleep(5 * time.Second)
		}})
	// Executor steps. Slot j addresses the j-th executor that has not
	// returned yet (there is more than one only if the client is broken).
	for j := 0; j < 2; j++ {
		j := j
		pick := func() *execution {
			a := e.activeExecs()
			if j < len(a) {
				return a[j]
			}
			return nil
		}
		send := func(cmd int) func() {
			return func() {
				e.mu.Lock()
				ex := pick()
				e.mu.Unlock()
				ex.cmd <- cmd
			}
		}
		x.AddEvent(&mc.Event{Name: fmt.Sprintf("exec%d:progress", j), Free: true,
			Enabled: locked(func() bool {
				ex := pick()
				return ex != nil && !e.done && len(ex.sent) < e.cfg.maxProgress
			}),
			Fire: send(cmdProgress)})
		// Completion: Execute returns, after which the client's goroutine
		// publishes the completion and closes the channel without any
		// scheduling point in between. It is not offered while the worker
		// thread is blocked in Run's select, because the non-blocking drain
		// that follows would race with that close (see props.json).
		canComplete := locked(func() bool {
			return pick() != nil && !(e.nativeBlocked() && e.inSelect)
		})
		x.AddEvent(&mc.Event{Name: fmt.Sprintf("exec%d:complete-ok", j), Free: true, Enabled: canComplete, Fire: send(cmdOK)})
		failCost := 0
		if c.failCost {
			failCost = 1
		}
		x.AddEvent(&mc.Event{Name: fmt.Sprintf("exec%d:complete-fail", j), Free: !c.failCost, Cost: failCost, Enabled: canComplete, Fire: send(cmdFail)})
	}
	x.AddEvent(&mc.Event{Name: "shutdown", Free: c.shutdownCost == 0, Cost: c.shutdownCost,
		Enabled: locked(func() bool { return !e.shutdown && !e.done && !e.atLate }),
		Fire:    e.beginShutdown})
	x.AddEvent(&mc.Event{Name: "clock+45s", Cost: 1,
		Enabled: locked(func() bool { return !e.done && e.mayThink && e.jumps < e.cfg.maxJumps && !e.atLate }),
		Fire: func() {
			e.mu.Lock()
			e.jumps++
			e.now += jumpSize
			e.mu.Unlock()
		}})
	x.AddEvent(&mc.Event{Name: "teardown:shutdown", Teardown: true,
		Enabled: locked(func() bool { return !e.shutdown }),
		Fire:    e.beginShutdown})

	x.SetKey(e.key)
	x.Monitor(prop, func() {
		e.mu.Lock()
		n := len(e.activeExecs())
		e.mu.Unlock()
		if n > 1 {
			x.FailP(prop, "two-active", "%d fake Execute calls are active at once", n)
		}
		// The worker thread is blocked, but neither in Run's select, nor in
		// the error back-off, nor in the scheduler's long poll: it waits for
		// an executor to stop. It must have cancelled that executor.
		e.mu.Lock()
		defer e.mu.Unlock()
		if e.nativeBlocked() && !e.inSelect && !e.expectBackoff && !e.overWait {
			for _, o := range e.activeExecs() {
				if o.ctx.Err() == nil {
					x.FailP(prop, "wait-without-cancel", "worker thread waits for executor #%d (a%d) to stop without having cancelled it", o.ord, o.dig)
				}
			}
		}
	})
	return e
}

func rel(t, now time.Duration) string {
	return fmt.Sprint(int64((t - now) / time.Second))
}

// key is the canonical global state: client (through the verif dump hook),
// environment and monitor state. Times are relative to the manual clock.
func (e *env) key() string {
	e.mu.Lock()
	defer e.mu.Unlock()
	var b strings.Builder
	s := builder.VerifWorkerDump(e.bc)
	kind, ex := classify(s.CurrentState)
	c := e.cur()
	switch kind {
	case kIdle:
		b.WriteString("I")
	case kExec:
		fmt.Fprintf(&b, "E%d.%d", digestID(ex.ActionDigest), progressIndex(c, ex))
	case kDone:
		r := ex.GetCompleted()
		own := c != nil && proto.Equal(r, c.respCopy)
		fmt.Fprintf(&b, "C%d.%v.%v", digestID(ex.ActionDigest), r.GetStatus() != nil, own)
	}
	until := "nil"
	if s.SchedulerMayThinkExecutingUntil != nil {
		until = rel(s.SchedulerMayThinkExecutingUntil.Sub(base), e.now)
	}
	fmt.Fprintf(&b, "|u=%s|n=%s|x=%v|p=%d", until, rel(s.NextSynchronizationAt.Sub(base), e.now), s.ExecutionActive, s.PendingUpdates)
	// Environment.
	fmt.Fprintf(&b, "|sh=%v|sc=%d|rf=%d|j=%d", e.shutdown, e.syncCount, e.readyFails, e.jumps)
	if t := e.timer; t != nil && e.inSelect {
		fmt.Fprintf(&b, "|t=%s.%v.%v", rel(t.deadline, e.now), t.fired, t.stopped)
	}
	for _, o := range e.execs {
		if o.active || o == c {
			res := 0
			if o.resp != nil {
				res = 1
				if o.failed {
					res = 2
				}
			}
			fmt.Fprintf(&b, "|X%d.%v.%v.%d.%d.%d.%d", o.dig, o.active, o.ctx.Err() != nil, len(o.sent), res, o.stale, o.ord%3)
		}
	}
	// Worker position flags and monitors.
	fmt.Fprintf(&b, "|w=%v%v%v%v%v%v%v%v%v%v%v", e.started, e.done, e.atHook, e.inSelect, e.expectBackoff, e.runBoundary, e.termBefore, e.now1Pending, e.mustExit, e.overWait, e.cfg.late && e.pastSelect && !e.runBoundary)
	d := "-"
	if e.mayThink {
		d = rel(e.d, e.now)
	}
	wn := false
	if e.wantNew {
		wn = true
	}
	started := c != nil && c.ord > e.wantNewAfter
	fmt.Fprintf(&b, "|m=%s.%v.%v.%s|nr=%v|wi=%v|wn=%v.%v|lk=%d", d, e.certainIdle, e.lostIdle, rel(e.n, e.now), e.needReadiness, e.wantIdle, wn, wn && started, e.lastReqKind)
	return b.String()
}

// finish runs the end-of-execution oracles and publishes the outcome.
func (e *env) finish() {
	e.mu.Lock()
	done := e.done
	active := len(e.activeExecs())
	log := strings.Join(e.reqLog, " ") + " " + e.exitNote
	e.mu.Unlock()
	if !done {
		e.x.FailP(prop, "noexit/end", "worker thread did not terminate")
	}
	if active > 0 {
		e.x.FailP(prop, "executor-left-running", "%d executor(s) still running at the end", active)
	}
	e.x.Outcome("%s", log)
}
