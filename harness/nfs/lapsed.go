package nfs

import (
	"fmt"
	"time"

	"github.com/buildbarn/go-xdr/pkg/protocols/nfsv4"
)

// "... and completely once ... the client's lease has expired" (C18), judged
// at EVERY explored state, not only after everybody has gone quiet: a server
// that finds expired clients only while some other client stays silent (an
// expiry list that is assumed to be ordered by last contact, inspected from
// its head, with a renewing client stuck in front of it) passes the end-state
// oracle reclaimByExpiry, because there all clients expire together.
//
// Expiry is lazy (the servers collect expired clients when a request enters)
// and the lease comparison has a boundary, so a client is only judged when
//
//	lastEntry - lastContact >= lease + one clock step (lease/2)
//
// where lastContact is the last time the CLIENT sent any request naming its
// client ID, a session or a state ID of its own (successful or not: an upper
// bound of the server's "last seen"), and lastEntry is the last time ANY
// request entered that server. Then: the server holds no confirmed record,
// session, open or lock state ID of that client, and every file that only
// such clients still had open is closed as often as it was opened. The active
// half (finalOracle) lets a request enter and then presents the client ID /
// session: it must be refused.

const lapseAfter = lease + halfLease

// contactKey renders, for the state key, everything the oracle below and its
// future depend on.
func (w *world) contactKey(minor int, lastContact time.Time) string {
	age := w.clk.Now().Sub(lastContact)
	if age > lapseAfter {
		age = lapseAfter
	}
	return fmt.Sprintf("contact=%s judged=%v", age, w.judged(minor, lastContact))
}

func (w *world) judged(minor int, lastContact time.Time) bool {
	e := w.entered(minor)
	return !e.IsZero() && e.Sub(lastContact) >= lapseAfter
}

func (w *world) entered(minor int) time.Time {
	w.entryMu.Lock()
	defer w.entryMu.Unlock()
	return w.lastEntry[minor]
}

func (w *world) lapsed40(c *client40) bool { return c.haveID && w.judged(0, c.lastContact) }
func (w *world) lapsed41(c *client41) bool { return c.haveID && w.judged(1, c.lastContact) }

// checkLapsed is the passive half; the identifier renamings must be fresh.
func (w *world) checkLapsed(f failer) {
	since := func(t time.Time, minor int) string {
		return fmt.Sprintf("its last request was sent %s before the last request entered the NFSv4.%d server (lease time %s)", w.entered(minor).Sub(t), minor, lease)
	}
	lapsedHolds := map[*fakeLeaf]string{}
	otherHolds := map[*fakeLeaf]bool{}
	for _, c := range sortedClients40(w) {
		lapsed := w.lapsed40(c)
		if lapsed {
			if _, ok := w.names40["confirmed:"+cidKey(c.id)[4:]]; ok {
				f.FailP("C18", "lease-expired/client-retained", "NFSv4.0 client %s: %s, but the server still has its confirmed record\n%s", c.long, since(c.lastContact, 0), w.inspect40().Dump)
			}
		}
		_, opens := c.allOpens()
		for _, op := range opens {
			if !op.valid {
				continue
			}
			if !lapsed {
				otherHolds[op.leaf] = true
				continue
			}
			lapsedHolds[op.leaf] = "NFSv4.0 client " + c.long
			if _, ok := w.names40[sidKey40(op.sid)]; ok {
				f.FailP("C18", "lease-expired/state-retained", "NFSv4.0 client %s: %s, but the server still knows its open state ID for %s", c.long, since(c.lastContact, 0), op.leaf.id)
			}
		}
	}
	for _, c := range sortedClients41(w) {
		lapsed := w.lapsed41(c)
		if lapsed {
			if _, ok := w.names41["confirmed:"+cidKey(c.id)[4:]]; ok {
				f.FailP("C18", "lease-expired/client-retained", "NFSv4.1 client %s: %s, but the server still has its confirmed record\n%s", c.owner, since(c.lastContact, 1), w.inspect41().Dump)
			}
			for _, s := range c.sessions {
				if _, ok := w.names41["sess:"+fmt.Sprintf("%x", s.id[:])]; ok {
					f.FailP("C18", "lease-expired/session-retained", "NFSv4.1 client %s: %s, but the server still has one of its sessions", c.owner, since(c.lastContact, 1))
				}
			}
		}
		for _, op := range c.allOpens() {
			if !op.valid {
				continue
			}
			if !lapsed {
				otherHolds[op.leaf] = true
				continue
			}
			lapsedHolds[op.leaf] = "NFSv4.1 client " + c.owner
			if _, ok := w.names41[sidKey41(c.id, op.sid)]; ok {
				f.FailP("C18", "lease-expired/state-retained", "NFSv4.1 client %s: %s, but the server still knows its open state ID for %s", c.owner, since(c.lastContact, 1), op.leaf.id)
			}
		}
	}
	// Files that only clients with an expired lease still had open.
	for _, l := range w.fs.leaves {
		who, ok := lapsedHolds[l]
		if !ok || otherHolds[l] {
			continue
		}
		for b := 0; b < 2; b++ {
			if n := l.openCount(b); n != 0 {
				f.FailP("C18", "lease-expired/leaf-still-open", "leaf %s is still open for %s (%d more opens than closes) although the only clients that had not closed it (%s) have not contacted the server for more than the lease time plus %s and a request has entered the server since", l.id, bitNames[b], n, who, halfLease)
			}
		}
	}
}

// probeLapsed is the active half (destructive: run on the throw-away
// instance of finalOracle): a request enters each server, then the passive
// half is evaluated and the client IDs / sessions of the clients whose lease
// has expired are presented.
func (w *world) probeLapsed(f failer) {
	w.poke()
	w.refreshNames()
	w.checkLapsed(f)
	for _, c := range sortedClients40(w) {
		if !w.lapsed40(c) {
			continue
		}
		res := w.compound(0, "RENEW(expired client)", &nfsv4.NfsArgop4_OP_RENEW{Oprenew: nfsv4.Renew4args{Clientid: c.id}})
		if res.Status == nfsv4.NFS4_OK {
			f.FailP("C18", "lease-expired/clientid-accepted", "RENEW with the client ID of NFSv4.0 client %s, whose last request was sent %s ago (lease time %s), was answered NFS4_OK", c.long, w.clk.Now().Sub(c.lastContact), lease)
		}
	}
	for _, c := range sortedClients41(w) {
		if !w.lapsed41(c) {
			continue
		}
		for _, s := range c.sessions {
			res := w.compound(1, "SEQUENCE(expired client)", sequenceOp(s, 1, s.seq[1]+1))
			if opStatus(res, 0) == nfsv4.NFS4_OK {
				s.seq[1]++
			}
			if res.Status == nfsv4.NFS4_OK {
				f.FailP("C18", "lease-expired/session-accepted", "SEQUENCE on a session of NFSv4.1 client %s, whose last request was sent %s ago (lease time %s), was answered NFS4_OK", c.owner, w.clk.Now().Sub(c.lastContact), lease)
			}
		}
	}
	w.refreshNames()
}
