package schedseq

import (
	"context"
	"fmt"
	"sort"
	"strings"

	"verif/mc"

	remoteexecution "github.com/bazelbuild/remote-apis/build/bazel/remote/execution/v2"
	"github.com/buildbarn/bb-remote-execution/pkg/scheduler/initialsizeclass"
	"github.com/buildbarn/bb-remote-execution/pkg/scheduler/invocation"
	"github.com/buildbarn/bb-remote-execution/pkg/scheduler/platform"
	"github.com/buildbarn/bb-remote-execution/pkg/scheduler/routing"
	"github.com/buildbarn/bb-storage/pkg/digest"
	"google.golang.org/grpc/codes"
	"google.golang.org/grpc/status"
)

// Engine B: direct enumeration of operation sequences on the two sequential
// components C05 anchors besides the build queue: platform.Trie and
// routing.DemultiplexingActionRouter. Reference: a map plus a naive
// longest-prefix scan. States are NOT merged (the key is the history), since
// the internal shape of the trie is not observable: every sequence up to the
// depth is executed.

var (
	seqPrefixes  = []string{"", "a", "a/b", "b"}
	seqPlatforms = []string{"P1", "P2"}
	seqProbes    = []string{"", "a", "a/b", "a/b/c", "ab", "b", "b/a", "c"}
)

type refEntry struct {
	prefix, platform string
	value            int
}

func refLongest(ref []refEntry, inst, plat string) int {
	best, bestLen := -1, -1
	for _, e := range ref {
		if e.platform == plat && instancePrefixOf(e.prefix, inst) && len(e.prefix) > bestLen {
			best, bestLen = e.value, len(e.prefix)
		}
	}
	return best
}

func refExact(ref []refEntry, inst, plat string) int {
	for _, e := range ref {
		if e.platform == plat && e.prefix == inst {
			return e.value
		}
	}
	return -1
}

type trieState struct {
	trie *platform.Trie
	ref  []refEntry
	hist []string
}

func trieSeq() *mc.Seq {
	var ops []mc.SeqOp
	find := func(st *trieState, p, q string) int {
		for i, e := range st.ref {
			if e.prefix == p && e.platform == q {
				return i
			}
		}
		return -1
	}
	n := 0
	for _, p := range seqPrefixes {
		for _, q := range seqPlatforms {
			p, q := p, q
			n++
			v := n
			ops = append(ops, mc.SeqOp{Name: fmt.Sprintf("set %q %s =%d", p, q, v), Do: func(c *mc.SeqCtx, s any) {
				st := s.(*trieState)
				st.trie.Set(platform.MustNewKey(p, platforms[q]), v)
				if i := find(st, p, q); i >= 0 {
					st.ref[i].value = v
				} else {
					st.ref = append(st.ref, refEntry{p, q, v})
				}
				st.hist = append(st.hist, fmt.Sprintf("s%d", v))
			}})
			// Overwrite with another value (the scheduler does this when
			// it moves the last platform queue into a freed slot).
			ops = append(ops, mc.SeqOp{Name: fmt.Sprintf("set %q %s =0", p, q), Enabled: func(s any) bool { return find(s.(*trieState), p, q) >= 0 }, Do: func(c *mc.SeqCtx, s any) {
				st := s.(*trieState)
				st.trie.Set(platform.MustNewKey(p, platforms[q]), 0)
				st.ref[find(st, p, q)].value = 0
				st.hist = append(st.hist, fmt.Sprintf("z%d", v))
			}})
			ops = append(ops, mc.SeqOp{Name: fmt.Sprintf("remove %q %s", p, q), Enabled: func(s any) bool { return find(s.(*trieState), p, q) >= 0 }, Do: func(c *mc.SeqCtx, s any) {
				st := s.(*trieState)
				st.trie.Remove(platform.MustNewKey(p, platforms[q]))
				i := find(st, p, q)
				st.ref = append(st.ref[:i:i], st.ref[i+1:]...)
				st.hist = append(st.hist, fmt.Sprintf("r%d", v))
			}})
		}
	}
	return &mc.Seq{
		Name: "c05-trie", Props: []string{"C05"}, Panics: []string{"C05"},
		New:   func(c *mc.SeqCtx) any { return &trieState{trie: platform.NewTrie()} },
		Ops:   ops,
		Key:   func(s any) string { return strings.Join(s.(*trieState).hist, ",") },
		Depth: map[string]int{"quick": 4, "thorough": 5},
		Check: func(c *mc.SeqCtx, s any) {
			st := s.(*trieState)
			for _, inst := range seqProbes {
				for _, q := range seqPlatforms {
					k := platform.MustNewKey(inst, platforms[q])
					if got, want := st.trie.GetLongestPrefix(k), refLongest(st.ref, inst, q); got != want {
						c.FailP("C05", "trie/longest-prefix", "after %v: GetLongestPrefix(%q, %s) = %d, the longest registered prefix has value %d (registered: %v)", st.hist, inst, q, got, want, st.ref)
						return
					}
					if got, want := st.trie.GetExact(k), refExact(st.ref, inst, q); got != want {
						c.FailP("C05", "trie/exact", "after %v: GetExact(%q, %s) = %d, want %d (registered: %v)", st.hist, inst, q, got, want, st.ref)
						return
					}
					if got, want := st.trie.ContainsExact(k), refExact(st.ref, inst, q) >= 0; got != want {
						c.FailP("C05", "trie/contains", "after %v: ContainsExact(%q, %s) = %v, want %v (registered: %v)", st.hist, inst, q, got, want, st.ref)
						return
					}
				}
			}
		},
	}
}

// ---------------------------------------------------------------------------

type tagRouter struct{ tag string }

func (r tagRouter) RouteAction(ctx context.Context, digestFunction digest.Function, action *remoteexecution.Action, requestMetadata *remoteexecution.RequestMetadata) (*remoteexecution.Action, platform.Key, []invocation.Key, initialsizeclass.Selector, error) {
	return action, platform.Key{}, []invocation.Key{invocation.Key(r.tag)}, nil, nil
}

type demuxState struct {
	ar   *routing.DemultiplexingActionRouter
	ref  []refEntry
	tags []string
	hist []string
}

func demuxSeq() *mc.Seq {
	var ops []mc.SeqOp
	for _, p := range seqPrefixes {
		for _, q := range seqPlatforms {
			p, q := p, q
			ops = append(ops, mc.SeqOp{Name: fmt.Sprintf("register %q %s", p, q), Do: func(c *mc.SeqCtx, s any) {
				st := s.(*demuxState)
				tag := fmt.Sprintf("router#%d(%q,%s)", len(st.tags), p, q)
				err := st.ar.RegisterActionRouter(mustInst(p), platforms[q], tagRouter{tag})
				dup := refExact(st.ref, p, q) >= 0
				st.hist = append(st.hist, fmt.Sprintf("%q/%s", p, q))
				switch {
				case dup && status.Code(err) != codes.AlreadyExists:
					c.FailP("C05", "demux/duplicate", "after %v: second registration of (%q, %s) returned %v, want AlreadyExists", st.hist, p, q, err)
				case !dup && err != nil:
					c.FailP("C05", "demux/register", "after %v: registration of (%q, %s) failed: %v", st.hist, p, q, err)
				case !dup:
					st.ref = append(st.ref, refEntry{p, q, len(st.tags)})
					st.tags = append(st.tags, tag)
				}
			}})
		}
	}
	return &mc.Seq{
		Name: "c05-demux", Props: []string{"C05"}, Panics: []string{"C05"},
		New: func(c *mc.SeqCtx) any {
			return &demuxState{ar: routing.NewDemultiplexingActionRouter(platform.ActionKeyExtractor, tagRouter{"default"})}
		},
		Ops: ops,
		Key: func(s any) string {
			st := s.(*demuxState)
			// Registration order determines the stored indices.
			var l []string
			for _, e := range st.ref {
				l = append(l, fmt.Sprintf("%q/%s", e.prefix, e.platform))
			}
			return strings.Join(l, ",")
		},
		Depth: map[string]int{"quick": 4, "thorough": 6},
		Check: func(c *mc.SeqCtx, s any) {
			st := s.(*demuxState)
			for _, inst := range seqProbes {
				for _, q := range seqPlatforms {
					_, _, keys, _, err := st.ar.RouteAction(context.Background(), digest.MustNewFunction(inst, remoteexecution.DigestFunction_SHA256), &remoteexecution.Action{Platform: platforms[q]}, nil)
					want := "default"
					if i := refLongest(st.ref, inst, q); i >= 0 {
						want = st.tags[i]
					}
					if err != nil || len(keys) != 1 || string(keys[0]) != want {
						c.FailP("C05", "demux/route", "after registering %v: request for instance %q platform %s was routed to %v (err %v), the router with the longest registered prefix is %s", st.hist, inst, q, keys, err, want)
						return
					}
				}
			}
		},
	}
}

func seqs() []*mc.Seq {
	l := []*mc.Seq{trieSeq(), demuxSeq()}
	sort.Slice(l, func(i, j int) bool { return l[i].Name < l[j].Name })
	return l
}
