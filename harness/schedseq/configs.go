package schedseq

func w(n int, prefix, plat string, sc uint32) workerDecl {
	return workerDecl{name: "W:" + string(rune('0'+n)), host: "w" + string(rune('0'+n)), prefix: prefix, platform: plat, sc: sc}
}

// wr: a worker of the root P1 queue whose ID also names its rack.
func wr(n int, rack string) workerDecl {
	d := w(n, "", "P1", 0)
	d.extra = map[string]string{"rack": rack}
	return d
}

func configs() []*config {
	onePQ := func(limits ...int) []pqDecl {
		return []pqDecl{{prefix: "", platform: "P1", sizeClasses: []uint32{0}, limits: limits}}
	}
	return []*config{
		{
			// Operations queued directly in invocations of varying depth:
			// priority, expected duration, age; direct operations before
			// child invocations.
			name: "c04-order", props: []string{"C04"}, mixedRouter: true,
			predeclared: onePQ(),
			workers:     []workerDecl{w(1, "", "P1", 0)},
			execs: []execDecl{
				{name: "I1.p0.d1", platform: "P1", corr: "I1", prio: 0, dur: 1},
				{name: "I1.p0.d2", platform: "P1", corr: "I1", prio: 0, dur: 2},
				{name: "I1.p50.d2", platform: "P1", corr: "I1", prio: 50, dur: 2},
				{name: "I1X.p0.d2", platform: "P1", corr: "I1", tool: "X", prio: 0, dur: 2},
				{name: "root.p50.d1", platform: "P1", prio: 50, dur: 1},
			},
			maxTicks: 1,
			depth:    map[string]int{"quick": 5, "thorough": 7}, shards: 4,
		},
		{
			// Fairness between (nested) invocations: score, least
			// recently served, hand-over to the most closely related worker.
			name: "c04-fair", props: []string{"C04"},
			predeclared: onePQ(),
			workers:     []workerDecl{w(1, "", "P1", 0), w(2, "", "P1", 0)},
			execs: []execDecl{
				{name: "I1X", platform: "P1", corr: "I1", tool: "X", prio: 0, dur: 1},
				{name: "I1Y", platform: "P1", corr: "I1", tool: "Y", prio: 0, dur: 1},
				{name: "I2X", platform: "P1", corr: "I2", tool: "X", prio: 0, dur: 1},
				{name: "I2X.p50", platform: "P1", corr: "I2", tool: "X", prio: 50, dur: 1},
			},
			maxTicks: 1,
			depth:    map[string]int{"quick": 5, "thorough": 7}, shards: 4,
		},
		{
			// Per-level stickiness windows (limits 3 ticks at level 0, 1 tick
			// at level 1): only a tie may be turned, only within the window
			// of that level.
			name: "c04-sticky", props: []string{"C04"},
			predeclared: onePQ(3, 1),
			workers:     []workerDecl{w(1, "", "P1", 0), w(2, "", "P1", 0)},
			execs: []execDecl{
				{name: "I1X", platform: "P1", corr: "I1", tool: "X", prio: 0, dur: 1},
				{name: "I1Y", platform: "P1", corr: "I1", tool: "Y", prio: 0, dur: 1},
				{name: "I2X", platform: "P1", corr: "I2", tool: "X", prio: 0, dur: 1},
			},
			maxTicks: 2,
			depth:    map[string]int{"quick": 5, "thorough": 7}, shards: 4,
		},
		{
			// Same, started from a state in which the worker's level-0 and
			// level-1 windows will differ: W:1 waits, I1X is handed to it at
			// t=0, one tick passes.
			name: "c04-sticky-warm", props: []string{"C04"},
			predeclared: onePQ(3, 1),
			workers:     []workerDecl{w(1, "", "P1", 0)},
			execs: []execDecl{
				{name: "I1X", platform: "P1", corr: "I1", tool: "X", prio: 0, dur: 1},
				{name: "I1Y", platform: "P1", corr: "I1", tool: "Y", prio: 0, dur: 1},
				{name: "I1X.p50", platform: "P1", corr: "I1", tool: "X", prio: 50, dur: 1},
				{name: "I2X", platform: "P1", corr: "I2", tool: "X", prio: 0, dur: 1},
			},
			prefix:   []string{"W:1", "I1X", "tick"},
			maxTicks: 3,
			depth:    map[string]int{"quick": 5, "thorough": 7}, shards: 4,
		},
		{
			// Started from a state in which the level-0 window (2 ticks) of
			// W:1 has just expired although it kept serving invocation I1,
			// while I2 has been waiting since t=0.
			name: "c04-sticky-warm2", props: []string{"C04"},
			predeclared: onePQ(2, 1),
			workers:     []workerDecl{w(1, "", "P1", 0)},
			execs: []execDecl{
				{name: "I1X", platform: "P1", corr: "I1", tool: "X", prio: 0, dur: 1},
				{name: "I1Y", platform: "P1", corr: "I1", tool: "Y", prio: 0, dur: 1},
				{name: "I2X", platform: "P1", corr: "I2", tool: "X", prio: 0, dur: 1},
			},
			prefix:   []string{"W:1", "I1X", "I2X", "tick", "I1Y", "W:1", "tick"},
			maxTicks: 3,
			depth:    map[string]int{"quick": 4, "thorough": 7}, shards: 2,
		},
		{
			// Nested invocations whose queued operations have different
			// priorities: the score of the parent must use the priority of
			// the operation it would hand out next, also after executing
			// counts below it changed. Started from: I1X handed to W:1,
			// I1X.p50 and two I1Y queued, W:1 completes and takes an I1Y.
			name: "c04-nested-prio", props: []string{"C04"},
			predeclared: onePQ(),
			workers:     []workerDecl{w(1, "", "P1", 0)},
			execs: []execDecl{
				{name: "I1X", platform: "P1", corr: "I1", tool: "X", prio: 0, dur: 1},
				{name: "I1X.p50", platform: "P1", corr: "I1", tool: "X", prio: 50, dur: 1},
				{name: "I1Y", platform: "P1", corr: "I1", tool: "Y", prio: 0, dur: 1},
				{name: "I2X", platform: "P1", corr: "I2", tool: "X", prio: 0, dur: 1},
			},
			prefix:   []string{"W:1", "I1X", "I1X.p50", "I1Y", "I1Y", "W:1"},
			maxTicks: 2,
			depth:    map[string]int{"quick": 4, "thorough": 7}, shards: 2,
		},
		{
			// Mixed priorities inside ONE leaf invocation under depth-2
			// nesting, three workers: [A,L] holds a priority 0 and a
			// priority 100 operation, [B,M] two of priority 50. Once the
			// priority 0 operation has been handed out (and is still
			// executing), every ancestor of [A,L] must advertise priority
			// 100: A scores (1+1)*2 = 4 against B's 1*2^.5 and then B's
			// (1+1)*2^.5 = 2.83, so the documented order is a0 b1 b2. Also
			// [A,N] (priority 0, a second leaf below A) and further
			// arrivals.
			name: "c04-nested-mixed", props: []string{"C04"},
			predeclared: onePQ(),
			workers:     []workerDecl{w(1, "", "P1", 0), w(2, "", "P1", 0), w(3, "", "P1", 0)},
			execs: []execDecl{
				{name: "AL.p0", platform: "P1", corr: "A", tool: "L", prio: 0, dur: 1},
				{name: "AL.p100", platform: "P1", corr: "A", tool: "L", prio: 100, dur: 1},
				{name: "BM.p50", platform: "P1", corr: "B", tool: "M", prio: 50, dur: 1},
				{name: "AN.p0", platform: "P1", corr: "A", tool: "N", prio: 0, dur: 1},
			},
			prefix: []string{"AL.p0", "AL.p100", "BM.p50", "BM.p50"},
			depth:  map[string]int{"quick": 4, "thorough": 6}, shards: 4,
		},
		{
			// The same from a state in which the best operation of the leaf
			// is already executing on W:1 (handed over directly) and the
			// leaf holds operations of three different priorities.
			name: "c04-nested-mixed2", props: []string{"C04"},
			predeclared: onePQ(),
			workers:     []workerDecl{w(1, "", "P1", 0), w(2, "", "P1", 0), w(3, "", "P1", 0)},
			execs: []execDecl{
				{name: "AL.p0", platform: "P1", corr: "A", tool: "L", prio: 0, dur: 1},
				{name: "AL.p50", platform: "P1", corr: "A", tool: "L", prio: 50, dur: 1},
				{name: "AL.p150", platform: "P1", corr: "A", tool: "L", prio: 150, dur: 1},
				{name: "BM.p50", platform: "P1", corr: "B", tool: "M", prio: 50, dur: 1},
			},
			prefix: []string{"W:1", "AL.p0", "AL.p50", "AL.p150", "BM.p50", "BM.p50"},
			depth:  map[string]int{"quick": 4, "thorough": 6}, shards: 4,
		},
		{
			// Reversed limits: short level-0 window, long level-1 window.
			name: "c04-sticky-rev", props: []string{"C04"},
			predeclared: onePQ(1, 3),
			workers:     []workerDecl{w(1, "", "P1", 0)},
			execs: []execDecl{
				{name: "I1X", platform: "P1", corr: "I1", tool: "X", prio: 0, dur: 1},
				{name: "I1Y", platform: "P1", corr: "I1", tool: "Y", prio: 0, dur: 1},
				{name: "I1X.p50", platform: "P1", corr: "I1", tool: "X", prio: 50, dur: 1},
				{name: "I2X", platform: "P1", corr: "I2", tool: "X", prio: 0, dur: 1},
			},
			prefix:   []string{"W:1", "I1X", "tick", "tick", "tick"},
			maxTicks: 4,
			depth:    map[string]int{"quick": 5, "thorough": 7}, shards: 4,
		},
		{
			// In-flight deduplication against an EXECUTING task: the action
			// T is executing on W:1 for invocation [I3,X]; requests for the
			// same action from [I1,X] join that task, which makes W:1 an
			// executing worker of I1 and of [I1,X] without anything being
			// dequeued; then workers ask for work.
			name: "c04-dedup-exec", props: []string{"C04"},
			predeclared: onePQ(),
			workers:     []workerDecl{w(1, "", "P1", 0), w(2, "", "P1", 0)},
			execs: []execDecl{
				{name: "T.I3X", platform: "P1", corr: "I3", tool: "X", prio: 0, dur: 1, share: "T", prefixOnly: true},
				{name: "T.I1X", platform: "P1", corr: "I1", tool: "X", prio: 0, dur: 1, share: "T"},
				{name: "I1X", platform: "P1", corr: "I1", tool: "X", prio: 0, dur: 1},
				{name: "I1Y", platform: "P1", corr: "I1", tool: "Y", prio: 0, dur: 1},
				{name: "I2X", platform: "P1", corr: "I2", tool: "X", prio: 0, dur: 1},
			},
			prefix:   []string{"W:1", "T.I3X"},
			maxTicks: 1,
			depth:    map[string]int{"quick": 5, "thorough": 7}, shards: 4,
		},
		{
			// Executing WORKERS, not operations: the task T executing on W:1
			// is part of [I1,X] and [I1,Y], so I1 has two executing
			// operations on one worker and scores (1+1); against an I2
			// operation of priority 150 (score 2^1.5) the difference
			// decides. Requests from [I2,X] make W:1 an executing worker of
			// I2 as well.
			name: "c04-dedup-workers", props: []string{"C04"},
			predeclared: onePQ(),
			workers:     []workerDecl{w(1, "", "P1", 0), w(2, "", "P1", 0)},
			execs: []execDecl{
				{name: "T.I1X", platform: "P1", corr: "I1", tool: "X", prio: 0, dur: 1, share: "T", prefixOnly: true},
				{name: "T.I1Y", platform: "P1", corr: "I1", tool: "Y", prio: 0, dur: 1, share: "T", prefixOnly: true},
				{name: "T.I2X", platform: "P1", corr: "I2", tool: "X", prio: 0, dur: 1, share: "T"},
				{name: "I1X", platform: "P1", corr: "I1", tool: "X", prio: 0, dur: 1},
				{name: "I2X.p150", platform: "P1", corr: "I2", tool: "X", prio: 150, dur: 1},
			},
			prefix:   []string{"W:1", "T.I1X", "T.I1Y"},
			maxTicks: 1,
			depth:    map[string]int{"quick": 5, "thorough": 7}, shards: 2,
		},
		{
			// In-flight deduplication from scratch: requests for one action
			// from [I1,X], [I1,Y] and [I2,X] (and repeated from the same
			// invocation) while its task is queued or executing; one task
			// is then queued in several invocations, leaves all of them
			// when it is handed out, counts as an executing worker of each,
			// and its worker afterwards last served their common ancestor.
			name: "c04-dedup", props: []string{"C04"},
			inspect:     []string{"inspect"},
			predeclared: onePQ(),
			workers:     []workerDecl{w(1, "", "P1", 0), w(2, "", "P1", 0)},
			execs: []execDecl{
				{name: "T.I1X", platform: "P1", corr: "I1", tool: "X", prio: 0, dur: 1, share: "T"},
				{name: "T.I1Y", platform: "P1", corr: "I1", tool: "Y", prio: 0, dur: 1, share: "T"},
				{name: "T.I2X", platform: "P1", corr: "I2", tool: "X", prio: 0, dur: 1, share: "T"},
				{name: "I2X", platform: "P1", corr: "I2", tool: "X", prio: 0, dur: 1},
			},
			maxTicks: 1,
			depth:    map[string]int{"quick": 5, "thorough": 7}, shards: 4,
		},
		{
			// A window that expired although the worker never stopped
			// serving the invocation (level 0, limit 2 ticks): W:1 has held
			// an I1 task since t=0, at t=2 I2 appears. I1 is then still the
			// fair pick once (least recently served); that must not restart
			// the window, so the next tie goes to I2.
			name: "c04-sticky-expired0", props: []string{"C04"},
			predeclared: onePQ(2),
			workers:     []workerDecl{w(1, "", "P1", 0)},
			execs: []execDecl{
				{name: "I1X", platform: "P1", corr: "I1", tool: "X", prio: 0, dur: 1},
				{name: "I1Y", platform: "P1", corr: "I1", tool: "Y", prio: 0, dur: 1},
				{name: "I2X", platform: "P1", corr: "I2", tool: "X", prio: 0, dur: 1},
			},
			prefix:   []string{"W:1", "I1X", "tick", "tick", "I2X", "I1X"},
			maxTicks: 4,
			depth:    map[string]int{"quick": 5, "thorough": 7}, shards: 2,
		},
		{
			// The same at level 1 (limits 9 ticks / 1 tick): W:1 has held an
			// [I1,X] task since t=0, at t=1 [I1,Y] appears.
			name: "c04-sticky-expired1", props: []string{"C04"},
			predeclared: onePQ(9, 1),
			workers:     []workerDecl{w(1, "", "P1", 0)},
			execs: []execDecl{
				{name: "I1X", platform: "P1", corr: "I1", tool: "X", prio: 0, dur: 1},
				{name: "I1Y", platform: "P1", corr: "I1", tool: "Y", prio: 0, dur: 1},
				{name: "I2X", platform: "P1", corr: "I2", tool: "X", prio: 0, dur: 1},
			},
			prefix:   []string{"W:1", "I1X", "tick", "I1Y", "I1X"},
			maxTicks: 3,
			depth:    map[string]int{"quick": 5, "thorough": 7}, shards: 2,
		},
		{
			// Two workers, one level (limit 2 ticks): W:2 executes an I2
			// task, so I1 strictly has the lowest score while W:1 serves it
			// beyond its window (t=0..2). A drain lets W:2 finish without
			// taking new work, which turns I1 against I2 into a tie that
			// must go to the least recently served I2.
			name: "c04-sticky-drain", props: []string{"C04"},
			predeclared: onePQ(2),
			workers:     []workerDecl{w(1, "", "P1", 0), w(2, "", "P1", 0)},
			execs: []execDecl{
				{name: "I1X", platform: "P1", corr: "I1", tool: "X", prio: 0, dur: 1},
				{name: "I2X", platform: "P1", corr: "I2", tool: "X", prio: 0, dur: 1},
			},
			drains:   []drainDecl{{name: "d:w2", platform: "P1", pattern: map[string]string{"host": "w2"}}},
			prefix:   []string{"W:2", "I2X", "I1X", "I1X", "I1X", "I2X", "W:1", "tick", "tick"},
			maxTicks: 3,
			depth:    map[string]int{"quick": 5, "thorough": 7}, shards: 4,
		},
		{
			// Routing: nested instance name prefixes, two platforms,
			// predeclared and worker-created queues, workers that stop
			// synchronizing (queue removal and re-creation), start-up grace
			// period of 2 ticks.
			name: "c05-route", props: []string{"C05"},
			inspect:     []string{"inspect"},
			predeclared: []pqDecl{{prefix: "a", platform: "P1", sizeClasses: []uint32{0}}},
			workers:     []workerDecl{w(1, "", "P1", 0), w(2, "a/b", "P1", 0), w(3, "a", "P2", 0)},
			execs: []execDecl{
				{name: "x:/P1", inst: "", platform: "P1", corr: "I1", dur: 1},
				{name: "x:a/P1", inst: "a", platform: "P1", corr: "I1", dur: 1},
				{name: "x:a/b/c/P1", inst: "a/b/c", platform: "P1", corr: "I1", dur: 1},
				{name: "x:a/bb/P2", inst: "a/bb", platform: "P2", corr: "I1", dur: 1},
				{name: "x:x/P2", inst: "x", platform: "P2", corr: "I1", dur: 1},
			},
			wt: 1, qt: 2, maxTicks: 5,
			depth: map[string]int{"quick": 5, "thorough": 7}, shards: 8,
			probes: []string{"", "a", "a/b", "a/b/c", "a/bb", "ab", "x"},
		},
		{
			// Removal of worker-created platform queues in every order
			// (the list of platform queues is kept contiguous by moving the
			// last one into the freed slot; the trie must follow).
			name: "c05-remove", props: []string{"C05"},
			// Only ListPlatformQueues here (the one call that deals with the
			// list of platform queues this scenario permutes); the other
			// read-only calls are letters of c05-route/-sizeclass/-drain/-inspect.
			inspect: []string{"i:pq"},
			workers: []workerDecl{w(1, "", "P1", 0), w(2, "a", "P1", 0), w(3, "a/b", "P1", 0), w(4, "a", "P2", 0)},
			execs: []execDecl{
				{name: "x:a/b/P1", inst: "a/b", platform: "P1", corr: "I1", dur: 1},
			},
			wt: 1, qt: 1, maxTicks: 6,
			depth: map[string]int{"quick": 6, "thorough": 8}, shards: 8,
			probes: []string{"", "a", "a/b", "a/b/c", "b"},
		},
		{
			// Size classes: predeclared {1,4}, worker-created class 2 that
			// disappears again, scripted selector picking index 0/1/2,
			// failures retried on the largest class.
			name: "c05-sizeclass", props: []string{"C05"}, fail: true,
			inspect:     []string{"inspect"},
			predeclared: []pqDecl{{prefix: "", platform: "P1", sizeClasses: []uint32{1, 4}}},
			workers:     []workerDecl{w(1, "", "P1", 1), w(2, "", "P1", 2), w(3, "", "P1", 4)},
			execs: []execDecl{
				{name: "x.sc0", platform: "P1", corr: "I1", dur: 1, scIdx: 0},
				{name: "x.sc1", platform: "P1", corr: "I1", dur: 1, scIdx: 1},
				{name: "x.sc2", platform: "P1", corr: "I1", dur: 1, scIdx: 2},
			},
			wt: 1, qt: 1, maxTicks: 3,
			depth: map[string]int{"quick": 5, "thorough": 7}, shards: 4,
			probes: []string{"", "a"},
		},
		{
			// In-flight deduplication DURING a size class retry: the shared
			// action T (selector index 0: size class 1) is handed to W:1,
			// which may report a failure; the task is then retried on size
			// class 4 - queued there while W:3 is absent or busy - and
			// further requests for T from invocations I1/I2 join it. The
			// current attempt selected size class 4: every operation of the
			// task must sit in that queue, only W:3 may receive it; W:1/W:2
			// (size class 1) keep asking for work meanwhile. One large
			// worker only, so that the hand-over of a task that is part of
			// several invocations has a single candidate (see c04-handover-multi
			// for the choice among several).
			name: "c05-sizeclass-dedup", props: []string{"C05"}, fail: true,
			predeclared: []pqDecl{{prefix: "", platform: "P1", sizeClasses: []uint32{1, 4}}},
			workers:     []workerDecl{w(1, "", "P1", 1), w(2, "", "P1", 1), w(3, "", "P1", 4)},
			execs: []execDecl{
				{name: "T.I1", platform: "P1", corr: "I1", dur: 1, scIdx: 0, share: "T"},
				{name: "T.I2", platform: "P1", corr: "I2", dur: 1, scIdx: 0, share: "T"},
				// A second shared action whose FIRST attempt already
				// selects size class 4 (selector index 1).
				{name: "U.I1", platform: "P1", corr: "I1", dur: 1, scIdx: 1, share: "U"},
				{name: "U.I2", platform: "P1", corr: "I2", dur: 1, scIdx: 1, share: "U"},
			},
			prefix: []string{"W:1", "T.I1"},
			depth:  map[string]int{"quick": 5, "thorough": 7}, shards: 4,
			probes: []string{""},
		},
		{
			// Platform rewriting: DemultiplexingActionRouter (keyed on the
			// Action's platform) sends every request for platform P2 to a
			// SimpleActionRouter with StaticKeyExtractor(P1): the request
			// must be queued in the P1 queue with the longest prefix of ITS
			// OWN instance name (a, a/b or x), never in the P2 queue and
			// never under the instance name of an earlier request; requests
			// for P1 are routed as they are. Instance name "" has no queue:
			// rejected, rewritten or not.
			name: "c05-rewrite", props: []string{"C05"},
			rewrite: map[string]string{"P2": "P1"},
			predeclared: []pqDecl{
				{prefix: "a", platform: "P1", sizeClasses: []uint32{0}},
				{prefix: "a/b", platform: "P1", sizeClasses: []uint32{0}},
				{prefix: "x", platform: "P1", sizeClasses: []uint32{0}},
				{prefix: "a", platform: "P2", sizeClasses: []uint32{0}},
			},
			workers: []workerDecl{w(1, "a", "P1", 0), w(2, "a/b", "P1", 0), w(3, "x", "P1", 0), w(4, "a", "P2", 0)},
			execs: []execDecl{
				{name: "x:a/c/P2", inst: "a/c", platform: "P2", corr: "I1", dur: 1},
				{name: "x:a/b/P2", inst: "a/b", platform: "P2", corr: "I1", dur: 1},
				{name: "x:x/y/P2", inst: "x/y", platform: "P2", corr: "I1", dur: 1},
				{name: "x:a/P1", inst: "a", platform: "P1", corr: "I1", dur: 1},
				{name: "x:/P2", inst: "", platform: "P2", corr: "I1", dur: 1},
			},
			qt: 1, maxTicks: 1,
			depth: map[string]int{"quick": 4, "thorough": 6}, shards: 4,
			probes: []string{"", "a", "a/b", "a/c", "x/y"},
		},
		{
			// Drains and terminating workers. Worker IDs {host, rack}; the
			// patterns have two fields, one field (d:all: none).
			name: "c05-drain", props: []string{"C05", "C04"},
			inspect:     []string{"inspect"},
			predeclared: onePQ(),
			workers:     []workerDecl{wr(1, "r1"), wr(2, "r1")},
			execs: []execDecl{
				{name: "x1", platform: "P1", corr: "I1", dur: 1},
			},
			drains: []drainDecl{
				{name: "d:w1", platform: "P1", pattern: map[string]string{"host": "w1", "rack": "r1"}},
				{name: "d:all", platform: "P1", pattern: map[string]string{}},
			},
			terms: []termDecl{{name: "term:w2", pattern: map[string]string{"host": "w2"}}},
			depth: map[string]int{"quick": 5, "thorough": 7}, shards: 4,
			probes: []string{""},
		},
		{
			// Tasks the scheduler completes WITHOUT the worker
			// (KillOperations) and the worker's periodic non-blocking
			// "still executing" Synchronize: the scheduler considers the
			// worker idle, the worker does not know yet; its report is
			// answered at once - with the next queued task, unless the
			// worker matches a drain or is terminating. Started from: W:1
			// executes an x1, a second x1 is queued.
			name: "c05-drain-kill", props: []string{"C05", "C04"}, exec: true, kill: true,
			predeclared: onePQ(),
			workers:     []workerDecl{w(1, "", "P1", 0), w(2, "", "P1", 0)},
			execs: []execDecl{
				{name: "x1", platform: "P1", corr: "I1", dur: 1},
			},
			drains: []drainDecl{{name: "d:w1", platform: "P1", pattern: map[string]string{"host": "w1"}}},
			terms:  []termDecl{{name: "term:w1", pattern: map[string]string{"host": "w1"}}},
			prefix: []string{"W:1", "x1", "x1"},
			depth:  map[string]int{"quick": 4, "thorough": 6}, shards: 4,
			probes: []string{""},
		},
		{
			// Read-only operator/inspection calls as letters of their own
			// (one letter per BuildQueueState method, see inspect.go) between
			// requests and worker calls, on platform queues registered OUT
			// OF ListPlatformQueues' sort order: "b" before "a/b" before
			// "a", and under "a" platform os=zzz before os=aaa. Sorted they
			// are a/Pa, a/Pz, a/b/Pz, b/Pz: every position differs.
			name: "c05-inspect", props: []string{"C05"},
			inspect: inspectLetters,
			predeclared: []pqDecl{
				{prefix: "b", platform: "Pz", sizeClasses: []uint32{0}},
				{prefix: "a/b", platform: "Pz", sizeClasses: []uint32{0}},
				{prefix: "a", platform: "Pz", sizeClasses: []uint32{0}},
				{prefix: "a", platform: "Pa", sizeClasses: []uint32{0}},
			},
			workers: []workerDecl{w(1, "b", "Pz", 0), w(2, "a", "Pa", 0), w(3, "a/b", "Pz", 0)},
			execs: []execDecl{
				{name: "x:b/Pz", inst: "b", platform: "Pz", corr: "I1", dur: 1},
				{name: "x:a/b/c/Pz", inst: "a/b/c", platform: "Pz", corr: "I1", dur: 1},
				{name: "x:a/Pa", inst: "a", platform: "Pa", corr: "I2", dur: 1},
				{name: "x:a/c/Pz", inst: "a/c", platform: "Pz", corr: "I2", dur: 1},
			},
			depth: map[string]int{"quick": 4, "thorough": 6}, shards: 8,
			probes: []string{"", "a", "a/b", "a/b/c", "a/c", "b", "b/a"}, plats: []string{"Pa", "Pz"},
		},
		{
			// Listing order (ListInvocationChildren QUEUED / ListQueuedOperations)
			// as a letter: the calls re-sort the heaps.
			name: "c04-list", props: []string{"C04"}, mixedRouter: true, list: true,
			inspect:     []string{"inspect"},
			predeclared: onePQ(),
			workers:     []workerDecl{w(1, "", "P1", 0)},
			execs: []execDecl{
				{name: "I1.p0.d1", platform: "P1", corr: "I1", prio: 0, dur: 1},
				{name: "I1.p50.d2", platform: "P1", corr: "I1", prio: 50, dur: 2},
				{name: "I2.p0.d2", platform: "P1", corr: "I2", prio: 0, dur: 2},
				{name: "I2Y.p50.d1", platform: "P1", corr: "I2", tool: "Y", prio: 50, dur: 1},
			},
			maxTicks: 1,
			depth:    map[string]int{"quick": 5, "thorough": 7}, shards: 4,
		},
		{
			// An invocation that has operations queued DIRECTLY and a queued
			// child invocation at the same time (paths [], [I1], [I1,X],
			// [I2]), negative priorities: I1's direct operation has
			// priority 0, the operation of its child [I1,X] the better
			// priority -300, the sibling I2 lies in between (-100). Direct
			// operations go first, so the operation I1 hands out next is the
			// priority 0 one and I1 must be scored with 0: I2 (1*2^-1) goes
			// before I1 (1*2^0), and [I1,X] comes after I1's direct one.
			name: "c04-mixed-depth-prio", props: []string{"C04"}, mixedRouter: true,
			predeclared: onePQ(),
			workers:     []workerDecl{w(1, "", "P1", 0)},
			execs: []execDecl{
				{name: "I1.p0", platform: "P1", corr: "I1", prio: 0, dur: 1},
				{name: "I1X.m300", platform: "P1", corr: "I1", tool: "X", prio: -300, dur: 1},
				{name: "I2.m100", platform: "P1", corr: "I2", prio: -100, dur: 1},
				{name: "I2Y.m200", platform: "P1", corr: "I2", tool: "Y", prio: -200, dur: 1},
			},
			depth: map[string]int{"quick": 5, "thorough": 7}, shards: 4,
		},
		{
			// Priorities from the far ends of the int32 range REv2 allows
			// (+-200000, and 150000 against 149900): only the DIFFERENCE of
			// two priorities enters the comparison of two scores, 2^(p/100)
			// itself is not representable. Started from: W:1 executes an
			// operation of A since t=0, W:2 one of B since t=1 (so A is the
			// least recently served one, but has the higher or equal score
			// wherever the executing workers or the priorities differ).
			name: "c04-prio-extreme", props: []string{"C04"},
			predeclared: onePQ(),
			workers:     []workerDecl{w(1, "", "P1", 0), w(2, "", "P1", 0)},
			execs: []execDecl{
				{name: "A.p200000", platform: "P1", corr: "A", tool: "X", prio: 200000, dur: 1},
				{name: "B.p200000", platform: "P1", corr: "B", tool: "X", prio: 200000, dur: 1},
				{name: "A.m200000", platform: "P1", corr: "A", tool: "X", prio: -200000, dur: 1},
				{name: "B.m200000", platform: "P1", corr: "B", tool: "X", prio: -200000, dur: 1},
				{name: "A.p150000", platform: "P1", corr: "A", tool: "X", prio: 150000, dur: 1},
				{name: "B.p149900", platform: "P1", corr: "B", tool: "X", prio: 149900, dur: 1},
			},
			prefix:   []string{"W:1", "A.p200000", "tick", "W:2", "B.p200000"},
			maxTicks: 1,
			depth:    map[string]int{"quick": 4, "thorough": 5}, shards: 4,
		},
		{
			// Priorities 0 and 100: scores can be mathematically equal
			// across priorities (2*1 == 1*2); such near-ties are accepted
			// either way.
			name: "c04-prio100", props: []string{"C04"},
			predeclared: onePQ(),
			workers:     []workerDecl{w(1, "", "P1", 0), w(2, "", "P1", 0)},
			execs: []execDecl{
				{name: "I1X.p0", platform: "P1", corr: "I1", tool: "X", prio: 0, dur: 1},
				{name: "I2X.p100", platform: "P1", corr: "I2", tool: "X", prio: 100, dur: 1},
				{name: "I3X.p100", platform: "P1", corr: "I3", tool: "X", prio: 100, dur: 1},
			},
			depth: map[string]int{"quick": 6, "thorough": 8}, shards: 4,
		},
	}
}
