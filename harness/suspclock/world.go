// Package suspclock is the model-checking harness for property C11
// (execution timeouts fire, compensated for storage stalls, but bounded). It
// drives the REAL clock.SuspendableClock of /repo over a fake base clock whose
// time only advances through controller events ("ticks"), under the
// controlled scheduler of /verif/mc.
//
// Time model (DESIGN.md C11): one tick is the time quantum. A tick is an
// environment event that is only enabled at FULL quiescence (every thread
// natively blocked or finished), i.e. computation is instantaneous relative
// to a tick. Which side of a tick a Suspend/Resume/cancel falls on is a free
// choice, and a fired base timer still races with them for the clock's mutex.
//
// Base timers FIRE promptly (the value they publish is stamped with their
// firing instant T = their deadline), but the value may be DELIVERED LATE to
// the goroutine of the clock under test: up to maxLate ticks - and any
// Suspend/Resume/cancel steps - may pass between T and the delivery ("late
// tick", a deviation of cost 1 each). This models a clock goroutine that is
// scheduled late on a loaded worker; once a value is delivered it is
// processed within the same instant. The deadline of the base CONTEXT is
// always prompt.
// The fake base clock has a timer resolution of one tick: a timer armed for
// less than one tick (the zero-length re-arm of threshold 0) fires at the
// next tick.
package suspclock

import (
	"context"
	"fmt"
	"sort"
	"strings"
	"sync"
	"time"

	"verif/mc"

	"github.com/buildbarn/bb-storage/pkg/clock"
)

const (
	prop = "C11"
	tick = time.Second
	// maxLate: a due base timer is delivered at most this many ticks after
	// its firing instant.
	maxLate = 2
)

var epoch = time.Unix(1000, 0)

// ---------------------------------------------------------------------------
// Fake base clock.

type fakeTimer struct {
	c        *fakeClock
	id       int
	deadline int // tick
	ch       chan time.Time
	state    int // 0 armed, 1 fired, 2 stopped
	// isCap: the maximum-suspension timer of SuspendableClock.NewTimer (the
	// first base timer of a NewTimer scenario), as opposed to a timer of
	// the re-arm loop.
	isCap bool
	// uAtDue: reference unsuspended running time of the command at the
	// firing instant (recorded by the tick that reaches the deadline).
	uAtDue int
}

func (t *fakeTimer) Stop() bool {
	t.c.mu.Lock()
	defer t.c.mu.Unlock()
	if t.state == 0 {
		t.state = 2
		return true
	}
	return false
}

type fakeContext struct {
	c        *fakeClock
	parent   context.Context
	deadline int
	done     chan struct{}
	err      error
}

func (f *fakeContext) Deadline() (time.Time, bool) { return f.c.at(f.deadline), true }
func (f *fakeContext) Done() <-chan struct{}       { return f.done }
func (f *fakeContext) Value(key any) any           { return f.parent.Value(key) }
func (f *fakeContext) Err() error {
	f.c.mu.Lock()
	defer f.c.mu.Unlock()
	return f.err
}

func (f *fakeContext) finish(err error) {
	f.c.mu.Lock()
	defer f.c.mu.Unlock()
	if f.err == nil {
		f.err = err
		close(f.done)
	}
}

// fakeClock: time advances only through advance(); timers and context
// deadlines are delivered only through deliver*().
type fakeClock struct {
	x        *mc.X
	mu       sync.Mutex
	now      int
	timers   []*fakeTimer
	contexts []*fakeContext
	nextID   int
	// roundedUp counts timers armed for less than one tick.
	roundedUp int
	// busy: a due timer / deadline has been delivered to the goroutine of
	// the clock under test and that goroutine has not yet come back to its
	// select (it re-arms a base timer right before). While busy, no
	// further delivery is made unless everything is quiescent: at most one
	// case of the goroutine's select is ever ready when it is evaluated,
	// so Go's random choice among ready cases never comes into play.
	busy bool
	// capFirst: the first timer created is the maximum-suspension timer.
	capFirst bool
	// onRearm is called (without c.mu) when the goroutine of the clock
	// under test arms a base timer after having processed a delivery.
	onRearm func(d time.Duration)
	// onDeliver is called (without c.mu) for every delivered timer.
	onDeliver func(t *fakeTimer, now int)
}

func (c *fakeClock) at(t int) time.Time { return epoch.Add(time.Duration(t) * tick) }

func (c *fakeClock) Now() time.Time {
	c.mu.Lock()
	defer c.mu.Unlock()
	return c.at(c.now)
}

func (c *fakeClock) ticksOf(d time.Duration) int {
	if d < tick {
		c.roundedUp++
		return 1
	}
	return int((d + tick - 1) / tick)
}

func (c *fakeClock) NewTimer(d time.Duration) (clock.Timer, <-chan time.Time) {
	c.mu.Lock()
	defer c.mu.Unlock()
	t := &fakeTimer{c: c, id: c.nextID, deadline: c.now + c.ticksOf(d), ch: make(chan time.Time, 1)}
	t.isCap = c.capFirst && t.id == 0
	c.nextID++
	c.timers = append(c.timers, t)
	// The goroutines of the clock under test arm a base timer at the top
	// of every iteration of their loop. Their only local state at that
	// point is the duration just armed (part of the key through the armed
	// timer) and constants fixed at creation (initial/final total
	// unsuspended time: functions of the clock state at creation, which is
	// part of the key): forget the history of earlier iterations.
	if c.x != nil {
		c.x.ResetLocal(fmt.Sprintf("armed:%d", t.deadline-c.now))
	}
	rearm := c.busy
	c.busy = false
	if rearm && c.onRearm != nil {
		c.mu.Unlock()
		c.onRearm(d)
		c.mu.Lock()
	}
	return t, t.ch
}

func (c *fakeClock) NewContextWithTimeout(parent context.Context, d time.Duration) (context.Context, context.CancelFunc) {
	c.mu.Lock()
	defer c.mu.Unlock()
	f := &fakeContext{c: c, parent: parent, deadline: c.now + c.ticksOf(d), done: make(chan struct{})}
	c.contexts = append(c.contexts, f)
	return f, func() { f.finish(context.Canceled) }
}

func (c *fakeClock) NewTicker(d time.Duration) (clock.Ticker, <-chan time.Time) {
	panic("NewTicker is not modelled")
}

// dueTimers returns the armed timers whose deadline has been reached, oldest first.
func (c *fakeClock) dueTimers() []*fakeTimer {
	c.mu.Lock()
	defer c.mu.Unlock()
	var l []*fakeTimer
	for _, t := range c.timers {
		if t.state == 0 && t.deadline <= c.now {
			l = append(l, t)
		}
	}
	return l
}

func (c *fakeClock) dueContexts() []*fakeContext {
	c.mu.Lock()
	defer c.mu.Unlock()
	var l []*fakeContext
	for _, f := range c.contexts {
		if f.err == nil && f.deadline <= c.now {
			l = append(l, f)
		}
	}
	return l
}

func (c *fakeClock) isBusy() bool {
	c.mu.Lock()
	defer c.mu.Unlock()
	return c.busy
}

func (c *fakeClock) deliverContext(f *fakeContext) {
	c.mu.Lock()
	c.busy = true
	c.mu.Unlock()
	f.finish(context.DeadlineExceeded)
}

// deliverTimer hands the value of a due timer to its receiver. The value is
// stamped with the firing instant (the deadline), which may lie in the past.
func (c *fakeClock) deliverTimer(t *fakeTimer) {
	c.mu.Lock()
	c.busy = true
	t.state = 1
	v := c.at(t.deadline)
	now := c.now
	c.mu.Unlock()
	if c.onDeliver != nil {
		c.onDeliver(t, now)
	}
	t.ch <- v // buffered, never blocks
}

// dueKinds: is a loop timer / the cap timer due and undelivered, and how late
// is the oldest of them?
func (c *fakeClock) dueKinds() (loop, capT bool, oldest int) {
	c.mu.Lock()
	defer c.mu.Unlock()
	for _, t := range c.timers {
		if t.state == 0 && t.deadline <= c.now {
			if t.isCap {
				capT = true
			} else {
				loop = true
			}
			if l := c.now - t.deadline; l > oldest {
				oldest = l
			}
		}
	}
	return
}

// markDue records the reference accounting at the firing instant of the
// timers that fire now.
func (c *fakeClock) markDue(u int) {
	c.mu.Lock()
	defer c.mu.Unlock()
	for _, t := range c.timers {
		if t.state == 0 && t.deadline == c.now {
			t.uAtDue = u
		}
	}
}

func (c *fakeClock) nowTick() int {
	c.mu.Lock()
	defer c.mu.Unlock()
	return c.now
}

func (c *fakeClock) advance() {
	c.mu.Lock()
	c.now++
	c.mu.Unlock()
}

// key: u is the current reference unsuspended running time (a due timer is
// described by its lateness and by the unsuspended time that has passed since
// its firing instant).
func (c *fakeClock) key(u int) string {
	c.mu.Lock()
	defer c.mu.Unlock()
	var b strings.Builder
	fmt.Fprintf(&b, "now=%d,busy=%v|T", c.now, c.busy)
	var ts []string
	for _, t := range c.timers {
		if t.state == 0 && t.deadline <= c.now {
			ts = append(ts, fmt.Sprintf("%d/%d/%v", t.deadline-c.now, u-t.uAtDue, t.isCap))
		} else if t.state == 0 {
			ts = append(ts, fmt.Sprintf("%d", t.deadline-c.now))
		} else if len(t.ch) > 0 {
			ts = append(ts, "undrained")
		}
	}
	sort.Strings(ts)
	b.WriteString(strings.Join(ts, ","))
	b.WriteString("|C")
	for _, f := range c.contexts {
		fmt.Fprintf(&b, "%d:%v,", f.deadline-c.now, f.err)
	}
	return b.String()
}

// ---------------------------------------------------------------------------
// A gate parks a harness thread natively until the controller fires the
// corresponding event.

type gate struct {
	w       *world
	ch      chan struct{}
	waiting bool
}

func (w *world) newGate() *gate { return &gate{w: w, ch: make(chan struct{}, 1)} }

// wait blocks until the gate is opened; it returns false if the scenario is
// being torn down instead.
func (g *gate) wait() bool {
	g.w.mu.Lock()
	g.waiting = true
	g.w.mu.Unlock()
	ok := true
	select {
	case <-g.ch:
	case <-g.w.stop:
		ok = false
	}
	g.w.mu.Lock()
	g.waiting = false
	g.w.mu.Unlock()
	return ok
}

func (g *gate) isWaiting() bool {
	g.w.mu.Lock()
	defer g.w.mu.Unlock()
	return g.waiting && len(g.ch) == 0
}

func (g *gate) open() { g.ch <- struct{}{} }

// ---------------------------------------------------------------------------
// world: fakes + reference accounting + monitor of one execution.

type params struct {
	d, maxSusp, threshold int // ticks
	// maxStart: the command starts at tick <= maxStart.
	maxStart int
	timer    bool // exercise NewTimer instead of NewContextWithTimeout
	// exec: the clock is exercised through the REAL
	// builder.NewLocalBuildExecutor(...).Execute() (see exec_test.go); maxPre:
	// number of ticks that may pass between the consumption of the
	// FetchingInputs update and the entry of runner.Run.
	exec   bool
	maxPre int
}

type world struct {
	x  *mc.X
	p  params
	mu sync.Mutex

	clk  *fakeClock
	stop chan struct{}

	// Reference accounting.
	refCount int // outstanding suspensions (completed Suspend calls minus Resume calls)
	started  bool
	done     bool // the command observed completion and was judged
	wall, u  int  // ticks since the command started / of those, ticks with refCount == 0
	// cancelled: the command called cancel() / Stop().
	cancelled bool
	// Late delivery: lateU = ticks that counted into u and were taken while
	// a due timer of the re-arm loop was undelivered; lateCap = ticks taken
	// while the due maximum-suspension timer (NewTimer) was undelivered.
	lateU, lateCap int
	// The most recent timer delivery: instant of the delivery, firing
	// instant of the timer, reference u at the firing instant.
	delivNow, delivStamp, delivU int

	// Storage readers: number of Suspend/Resume calls made, current
	// nesting depth, and the operation chosen by the last reader event.
	ops, depth [2]int
	next       [2]byte

	readerGate [2]*gate
	startGate  *gate
	finishGate *gate

	// Observed objects (for the state key).
	ctx       context.Context
	tmr       clock.Timer
	tmrCh     <-chan time.Time
	startDump string

	// Executor scenarios (exec_test.go).
	ex execState
}

func (w *world) fail(fingerprint, format string, args ...any) {
	if w.x.Free() {
		return
	}
	w.x.FailP(prop, fingerprint, format, args...)
}

// rho is the slack caused by the one-tick timer resolution: only with
// threshold 0 does the clock arm timers shorter than one tick.
func (w *world) rho() int {
	if w.p.threshold == 0 {
		return 1
	}
	return 0
}

func (w *world) limit() int { return w.p.d + w.p.maxSusp }

// lower is the smallest unsuspended running time at which the timeout may
// fire: more than timeout - threshold; with threshold 0 firing at exactly the
// timeout conforms as well.
func (w *world) lower() int {
	if w.p.threshold == 0 {
		return w.p.d
	}
	return w.p.d - w.p.threshold + 1
}

// upperU: the largest unsuspended running time at which the timeout may be
// detected: the timeout, plus the resolution slack, plus the unsuspended
// ticks during which the expiry of a loop timer was in flight (delivered late).
func (w *world) upperU() int { return w.p.d + w.rho() + w.lateU }

// upperWall: the wall-clock bound, plus the ticks during which the expiry of
// the maximum-suspension timer was in flight.
func (w *world) upperWall() int { return w.limit() + w.lateCap }

// inWindow: may the timeout be raised at the current instant?
func (w *world) inWindow() bool {
	return (w.lower() <= w.u && w.u <= w.upperU()) || (w.limit() <= w.wall && w.wall <= w.upperWall())
}

// ---------------------------------------------------------------------------
// Executor scenarios (see exec_test.go): state of the fakes around the real
// localBuildExecutor and the reference snapshot taken when runner.Run returns.

type execState struct {
	fetchGate *gate // MergeDirectoryContents blocks here ("fetching inputs")
	consGate  *gate // the consumer of executionStateUpdates blocks here before every receive
	// consumed: number of updates received by the consumer; lastUpdate: kind
	// of the most recent one.
	consumed   int
	lastUpdate string
	// preTicks: ticks taken before runner.Run was entered; fetched: the
	// input root has been merged; returned: Execute has returned.
	preTicks int
	fetched  bool
	returned bool
	snap     execSnapshot
}

// execSnapshot: the reference accounting of the command's run interval
// [runner.Run entered, runner.Run returned], frozen at its end.
type execSnapshot struct {
	taken    bool
	own      bool  // the command finished by itself (the runner returns its own result)
	ctxErr   error // otherwise: the error of the run context that ended the command
	wall, u  int
	inWindow bool
	late     bool
	lo       int // smallest acceptable reported duration (see world.judge)
	window   string
}
