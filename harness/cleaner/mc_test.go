package cleaner

import (
	"fmt"
	"io"
	"log"
	"os"
	"sort"
	"sync/atomic"
	"testing"

	"verif/mc"

	remoteexecution "github.com/bazelbuild/remote-apis/build/bazel/remote/execution/v2"
	"github.com/buildbarn/bb-remote-execution/pkg/builder"
	re_cleaner "github.com/buildbarn/bb-remote-execution/pkg/cleaner"
	runner_pb "github.com/buildbarn/bb-remote-execution/pkg/proto/runner"
	"github.com/buildbarn/bb-remote-execution/pkg/runner"
	"github.com/buildbarn/bb-storage/pkg/digest"
	"github.com/buildbarn/bb-storage/pkg/filesystem"
	"github.com/buildbarn/bb-storage/pkg/filesystem/path"
)

var (
	digestA = digest.MustNewDigest("inst", remoteexecution.DigestFunction_SHA256, "aaaaaaaaaaaaaaaa11111111111111111111111111111111aaaaaaaaaaaaaaaa", 123)
	digestB = digest.MustNewDigest("inst", remoteexecution.DigestFunction_SHA256, "bbbbbbbbbbbbbbbb22222222222222222222222222222222bbbbbbbbbbbbbbbb", 456)
)

// action of a worker thread: nil digest = "may run in parallel".
type action struct{ d *digest.Digest }

type config struct {
	name       string
	workers    [][]action // one script per worker thread
	runnerOps  []string   // script of the runner thread ("Run", "CheckReadiness")
	maxFaults  int
	maxCancels int
	bounds     map[string]int
	shards     int
}

func scenario(c config) *mc.Scenario {
	// One execution at a time per process: the world of the current
	// execution is handed from Build to Finish through this variable.
	var cur *world
	return &mc.Scenario{
		Name:     c.name,
		Props:    []string{"C12", "C14"},
		Liveness: []string{"C12", "C14"},
		Livelock: []string{"C12", "C14"},
		Panics:   []string{"C12"},
		Bounds:   c.bounds,
		// The search is unbounded (state pruning); faults and
		// cancellations are bounded by the harness itself.
		PreemptFree: true,
		Shards:   c.shards,
		Build: func(x *mc.X) {
			w := newWorld(x, c.maxFaults, c.maxCancels)
			cur = w
			idle := re_cleaner.NewIdleInvoker(w.clean)
			var counter atomic.Uint64
			creator := builder.NewSharedBuildDirectoryCreator(
				builder.NewCleanBuildDirectoryCreator(
					builder.NewRootBuildDirectoryCreator(&fakeDir{w: w, n: w.root}),
					idle),
				&counter)
			cleanRunner := runner.NewCleanRunner(&fakeRunner{w: w}, idle)

			x.SetKey(func() string {
				uc, cl := re_cleaner.VerifIdleInvokerDump(idle)
				k := fmt.Sprintf("ii=%d,%v|n=%d|%s", uc, cl, counter.Load(), w.key())
				if dbgKeys != nil {
					dbgKeys[k]++
				}
				return k
			})

			for i, script := range c.workers {
				script := script
				t := w.addThread(fmt.Sprintf("W%d", i+1))
				x.Go(t.name, func() { w.workerThread(t, creator, script) })
			}
			if len(c.runnerOps) > 0 {
				t := w.addThread("R")
				x.Go(t.name, func() { w.runnerThread(t, cleanRunner, c.runnerOps) })
			}

			// Context cancellation of a thread that is in the
			// acquiring half of a call (in particular while it
			// waits for an in-flight cleaning).
			for _, n := range w.order {
				t := w.threads[n]
				x.AddEvent(&mc.Event{
					Name: "cancel:" + t.name,
					Enabled: func() bool {
						w.mu.Lock()
						defer w.mu.Unlock()
						if t.call != "acquire" || t.cancelled || w.cancels >= w.maxCancels {
							return false
						}
						// The context is only consulted while waiting for an
						// in-flight cleaner call of another thread: offering the
						// cancellation at other instants would only duplicate
						// behaviours.
						_, inFlight := re_cleaner.VerifIdleInvokerDump(idle)
						return inFlight && w.cleaning != t.name && t.pre == 0 && !w.holders[t.name]
					},
					Fire: func() {
						w.mu.Lock()
						t.cancelled = true
						w.cancels++
						w.mu.Unlock()
						t.cancel()
					},
				})
			}
		},
		Finish: func(x *mc.X) { cur.finish(x) },
	}
}

// finish is installed per execution (it needs the world).
func (w *world) finish(x *mc.X) {
	w.mu.Lock()
	defer w.mu.Unlock()
	if len(w.holders) != 0 || w.cleaning != "" {
		w.fail("final/busy", "all threads finished but the monitor still sees users %v / cleaning by %q", w.holderList(), w.cleaning)
	}
	var left []string
	for n := range w.root.children {
		if !w.removalFaulted[n] {
			left = append(left, n)
		}
	}
	sort.Strings(left)
	if len(left) > 0 {
		w.fail("final/root-not-empty", "all actions ended but the root build directory still contains %v (no removal fault was injected for these)", left)
	}
	x.Outcome("cleans=%d faults=%d cancels=%d left=%d", w.cleans, w.faults, w.cancels, len(w.root.children))
}

func (w *world) workerThread(t *thread, creator builder.BuildDirectoryCreator, script []action) {
	x := w.x
	for i, a := range script {
		w.setPos(t, i)
		x.ResetLocal(fmt.Sprintf("%s#%d", t.name, i))
		w.beginCall(t, "acquire")
		bd, trace, err := creator.GetBuildDirectory(t.ctx, a.d)
		w.endCall(t, "acquire", err == nil, err != nil)
		x.CheckNoLocksHeld("GetBuildDirectory")
		x.Logf("%s: GetBuildDirectory -> err=%v", t.name, err)
		if err != nil {
			w.checkGone(t, "GetBuildDirectory(error)")
			x.Outcome("%s#%d=acquire-error", t.name, i)
			continue
		}
		w.checkStarted(t, trace)

		// The action: the directory must be empty, then it
		// leaves a file behind.
		x.ResetLocal(fmt.Sprintf("%s#%d/hold", t.name, i))
		entries, _ := bd.ReadDir()
		if len(entries) != 0 {
			w.fail("not-empty-on-entry", "build directory of %s is not empty when the action starts: %d entries", t.name, len(entries))
		}
		if err := bd.Mknod(path.MustNewComponent("out-"+t.name), 0o666, filesystem.DeviceNumber{}); err != nil {
			w.fail("not-empty-on-entry", "build directory of %s: creating a file failed: %v", t.name, err)
		}

		x.ResetLocal(fmt.Sprintf("%s#%d/close", t.name, i))
		w.beginCall(t, "close")
		err = bd.Close()
		w.endCall(t, "close", err == nil, true)
		x.CheckNoLocksHeld("BuildDirectory.Close")
		x.Logf("%s: Close -> err=%v", t.name, err)
		w.checkGone(t, "Close")
		if err != nil {
			x.Outcome("%s#%d=close-error", t.name, i)
		} else {
			x.Outcome("%s#%d=ok", t.name, i)
		}
	}
	w.finishThread(t)
}

func (w *world) finishThread(t *thread) {
	w.mu.Lock()
	t.finished = true
	w.mu.Unlock()
	w.x.ResetLocal(t.name + "#end")
}

func (w *world) setPos(t *thread, i int) {
	w.mu.Lock()
	t.pos = i
	w.mu.Unlock()
}

// checkStarted: a successful GetBuildDirectory handed out a directory of the
// thread's own whose path is the one reported.
func (w *world) checkStarted(t *thread, trace *path.Trace) {
	w.mu.Lock()
	defer w.mu.Unlock()
	if !w.holders[t.name] {
		w.fail("start-without-acquire", "GetBuildDirectory of %s succeeded but the action never touched the environment as a user", t.name)
	}
	if t.dir == nil {
		w.fail("no-own-directory", "GetBuildDirectory of %s succeeded without entering a subdirectory", t.name)
		return
	}
	if got, want := trace.GetUNIXString(), t.dir.name; got != want {
		w.fail("wrong-path", "GetBuildDirectory of %s reports path %q but the directory handed out is %q", t.name, got, want)
	}
	for _, n := range w.order {
		o := w.threads[n]
		if o != t && o.dir == t.dir && o.call != "" {
			w.fail("shared-directory", "actions of %s and %s run in the same directory %q", t.name, o.name, t.dir.name)
		}
	}
}

// checkGone: the action of t ended; its directory must be gone unless a
// removal fault was injected for it.
func (w *world) checkGone(t *thread, call string) {
	w.mu.Lock()
	defer w.mu.Unlock()
	if t.created != "" {
		if _, ok := w.root.children[t.created]; ok && !w.removalFaulted[t.created] {
			w.fail("left-behind/"+call, "%s of %s returned but its build directory %q still exists (no removal fault injected)", call, t.name, t.created)
		}
	}
	t.dir = nil
}

func (w *world) runnerThread(t *thread, r runner_pb.RunnerServer, ops []string) {
	x := w.x
	for i, op := range ops {
		w.setPos(t, i)
		x.ResetLocal(fmt.Sprintf("%s#%d", t.name, i))
		w.beginCall(t, "acquire")
		var err error
		switch op {
		case "Run":
			_, err = r.Run(t.ctx, &runner_pb.RunRequest{})
		default:
			_, err = r.CheckReadiness(t.ctx, &runner_pb.CheckReadinessRequest{})
		}
		w.endCall(t, op, false, true)
		x.CheckNoLocksHeld("cleanRunner." + op)
		x.Logf("%s: %s -> err=%v", t.name, op, err)
		x.Outcome("%s#%d=%v", t.name, i, err == nil)
	}
	w.finishThread(t)
}

var configs = []config{
	{
		name:      "digest+parallel+run",
		workers:   [][]action{{{&digestA}}, {{nil}}},
		runnerOps: []string{"Run"},
		maxFaults: 2, maxCancels: 1,
		bounds: map[string]int{"quick": -1, "thorough": -1},
	},
	{
		name:      "parallel+parallel+readiness",
		workers:   [][]action{{{nil}}, {{nil}}},
		runnerOps: []string{"CheckReadiness"},
		maxFaults: 2, maxCancels: 1,
		bounds: map[string]int{"quick": -1, "thorough": -1},
	},
	{
		name:      "reuse-digest-twice+parallel-twice",
		workers:   [][]action{{{&digestA}, {&digestA}}, {{nil}, {nil}}},
		maxFaults: 1, maxCancels: 1,
		bounds: map[string]int{"quick": -1, "thorough": -1},
	},
}

var dbgKeys map[string]int

func TestMC(t *testing.T) {
	log.SetOutput(io.Discard)
	if os.Getenv("DBG_KEYS") != "" {
		dbgKeys = map[string]int{}
		defer func() {
			f, _ := os.Create(os.Getenv("DBG_KEYS"))
			for k, n := range dbgKeys {
				fmt.Fprintf(f, "%d %s\n", n, k)
			}
			f.Close()
		}()
	}
	scs := []*mc.Scenario{}
	for _, c := range configs {
		scs = append(scs, scenario(c))
	}
	mc.Main(t, scs, nil)
}
