package vfs

import (
	"context"
	"fmt"
	"sort"
	"testing"

	"verif/mc"

	"github.com/buildbarn/bb-remote-execution/pkg/filesystem/virtual"
	"github.com/buildbarn/bb-storage/pkg/clock"
	"github.com/buildbarn/bb-storage/pkg/filesystem/path"
	"github.com/buildbarn/bb-storage/pkg/random"
)

func mk(name string) path.Component { return path.MustNewComponent(name) }

type tree struct {
	root   virtual.PrepopulatedDirectory
	d1, d2 virtual.PrepopulatedDirectory
	e      virtual.PrepopulatedDirectory
}

func mustDir(p virtual.PrepopulatedDirectory, name string) virtual.PrepopulatedDirectory {
	d, err := p.CreateAndEnterPrepopulatedDirectory(mk(name))
	if err != nil {
		panic(err)
	}
	return d
}

// buildTree creates /d1/{a/,e/} and /d2/b/ on the real implementation.
func buildTree() *tree {
	root := virtual.NewInMemoryPrepopulatedDirectory(nil, nil, nil, virtual.NewFUSEHandleAllocator(random.FastThreadSafeGenerator), sort.Sort, func(string) bool { return false }, clock.SystemClock, virtual.CaseSensitiveComponentNormalizer, func(virtual.AttributesMask, *virtual.Attributes) {}, virtual.NoNamedAttributesFactory)
	t := &tree{root: root}
	t.d1 = mustDir(root, "d1")
	t.d2 = mustDir(root, "d2")
	mustDir(t.d1, "a")
	t.e = mustDir(t.d1, "e")
	mustDir(t.d2, "b")
	return t
}

type call struct {
	name string
	fn   func(t *tree) string
}

var ctx = context.Background()

func rename(from func(*tree) virtual.PrepopulatedDirectory, a string, to func(*tree) virtual.PrepopulatedDirectory, b string) func(*tree) string {
	return func(t *tree) string {
		_, _, s := from(t).VirtualRename(ctx, mk(a), to(t), mk(b))
		return fmt.Sprint(s)
	}
}

func d1(t *tree) virtual.PrepopulatedDirectory   { return t.d1 }
func d2(t *tree) virtual.PrepopulatedDirectory   { return t.d2 }
func de(t *tree) virtual.PrepopulatedDirectory   { return t.e }
func root(t *tree) virtual.PrepopulatedDirectory { return t.root }

func concurrentScenario(name string, calls ...call) *mc.Scenario {
	return &mc.Scenario{
		Name:     name,
		Props:    []string{"C14"},
		Liveness: []string{"C14"},
		Livelock: []string{"C14"},
		Panics:   []string{"C14"},
		Bounds:   map[string]int{"quick": 3, "thorough": -1},
		Build: func(x *mc.X) {
			t := buildTree()
			for _, c := range calls {
				c := c
				x.Go(c.name, func() {
					r := c.fn(t)
					x.CheckNoLocksHeld(c.name)
					x.Outcome("%s=%s", c.name, r)
				})
			}
		},
	}
}

func TestMC(t *testing.T) {
	scenarios := []*mc.Scenario{
		concurrentScenario("rename-opposite",
			call{"T1", rename(d1, "a", d2, "a2")},
			call{"T2", rename(d2, "b", d1, "b2")},
			call{"T3", func(t *tree) string {
				var a virtual.Attributes
				_, s := t.d1.VirtualLookup(ctx, mk("a"), virtual.AttributesMaskChangeID, &a)
				return fmt.Sprint(s)
			}}),
		{
			Name: "enter-removed", Props: []string{"C14"}, Liveness: []string{"C14"}, Panics: []string{"C14"},
			Build: func(x *mc.X) {
				t := buildTree()
				x.Go("T1", func() {
					t.d1.VirtualRemove(ctx, mk("e"), true, true)
					_, err := t.e.CreateAndEnterPrepopulatedDirectory(mk("x"))
					x.CheckNoLocksHeld("CreateAndEnterPrepopulatedDirectory")
					x.Outcome("err=%v", err)
				})
			},
		},
	}
	mc.Main(t, scenarios, nil)
}
