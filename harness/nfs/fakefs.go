package nfs

import (
	"context"
	"fmt"
	"io"
	"sort"
	"strings"
	"sync"
	"time"

	"verif/mc"

	"github.com/buildbarn/bb-remote-execution/pkg/filesystem/virtual"
	"github.com/buildbarn/bb-storage/pkg/clock"
	"github.com/buildbarn/bb-storage/pkg/filesystem"
	"github.com/buildbarn/bb-storage/pkg/filesystem/path"
)

// ---------------------------------------------------------------------------
// Fake clock: time only moves when the harness says so.

type fakeClock struct {
	mu  sync.Mutex
	now time.Time
}

var epoch = time.Unix(1000000, 0)

func newFakeClock() *fakeClock { return &fakeClock{now: epoch} }

func (c *fakeClock) Now() time.Time {
	c.mu.Lock()
	defer c.mu.Unlock()
	return c.now
}

func (c *fakeClock) advance(d time.Duration) {
	c.mu.Lock()
	c.now = c.now.Add(d)
	c.mu.Unlock()
}

func (c *fakeClock) NewContextWithTimeout(parent context.Context, timeout time.Duration) (context.Context, context.CancelFunc) {
	panic("fakeClock.NewContextWithTimeout: not used by the NFSv4 programs")
}

func (c *fakeClock) NewTimer(d time.Duration) (clock.Timer, <-chan time.Time) {
	panic("fakeClock.NewTimer: not used by the NFSv4 programs")
}

func (c *fakeClock) NewTicker(d time.Duration) (clock.Ticker, <-chan time.Time) {
	panic("fakeClock.NewTicker: not used by the NFSv4 programs")
}

// ---------------------------------------------------------------------------
// Fake random number generator: every identifier is the next value of a
// counter, so identifiers never repeat and an execution is a function of
// the operation sequence. Uint32 (only used for the initial CREATE_SESSION
// sequence number) is constant so that it needs no canonicalisation.

type fakeRNG struct {
	mu sync.Mutex
	n  uint64
}

func (r *fakeRNG) next() uint64 {
	r.mu.Lock()
	defer r.mu.Unlock()
	r.n++
	return r.n
}

func (r *fakeRNG) Float64() float64            { panic("fakeRNG.Float64") }
func (r *fakeRNG) Int64N(n int64) int64        { panic("fakeRNG.Int64N") }
func (r *fakeRNG) IntN(n int) int              { panic("fakeRNG.IntN") }
func (r *fakeRNG) Shuffle(int, func(i, j int)) { panic("fakeRNG.Shuffle") }
func (r *fakeRNG) Uint32() uint32              { return 1000 }
func (r *fakeRNG) Uint64() uint64              { return 0xC100000000000000 | r.next() }
func (r *fakeRNG) Read(p []byte) (int, error) {
	v := r.next()
	for i := range p {
		p[i] = 0
	}
	// Big endian in the trailing bytes, marker in the first byte,
	// so that the value never looks like a special state ID.
	if len(p) > 0 {
		p[0] = 0xAB
	}
	for i := len(p) - 1; i >= 1 && v != 0; i-- {
		p[i] = byte(v)
		v >>= 8
	}
	return len(p), nil
}

// ---------------------------------------------------------------------------
// Fake file system: one directory, regular files identified by
// "<name>#<generation>" handles.

const (
	bitRead  = 0
	bitWrite = 1
)

var bitNames = [2]string{"read", "write"}

func maskBits(m virtual.ShareMask) []int {
	var r []int
	if m&virtual.ShareMaskRead != 0 {
		r = append(r, bitRead)
	}
	if m&virtual.ShareMaskWrite != 0 {
		r = append(r, bitWrite)
	}
	return r
}

type fakeFS struct {
	x  *mc.X // nil under Engine B
	mu sync.Mutex

	rootHandle []byte
	root       *fakeDir
	linked     map[string]*fakeLeaf
	leaves     []*fakeLeaf
	change     uint64
	creates    int
	removes    int
	// faults are violations observed by the fakes themselves.
	faults []string
	// pointFilter restricts which VFS calls are scheduling points
	// (Engine A); nil = all.
	pointFilter func(label string) bool
}

func newFakeFS(x *mc.X, names ...string) *fakeFS {
	fs := &fakeFS{x: x, rootHandle: []byte("ROOT"), linked: map[string]*fakeLeaf{}, change: 1}
	fs.root = &fakeDir{fs: fs}
	for _, n := range names {
		fs.newLeaf(n)
	}
	return fs
}

func (fs *fakeFS) newLeaf(name string) *fakeLeaf {
	gen := 1
	for _, l := range fs.leaves {
		if l.name == name {
			gen++
		}
	}
	l := &fakeLeaf{fs: fs, name: name, id: fmt.Sprintf("%s#%d", name, gen)}
	l.handle = []byte("FH:" + l.id)
	fs.leaves = append(fs.leaves, l)
	fs.linked[name] = l
	return l
}

func (fs *fakeFS) point(label string) {
	if fs.x != nil && (fs.pointFilter == nil || fs.pointFilter(label)) {
		fs.x.Point(label)
	}
}

func (fs *fakeFS) fault(format string, args ...any) {
	fs.faults = append(fs.faults, fmt.Sprintf(format, args...))
}

// resolve is the virtual.HandleResolver handed to the OpenedFilesPool:
// like the real handle allocators it only resolves objects that are
// still linked into the file system.
func (fs *fakeFS) resolve(r io.ByteReader) (virtual.DirectoryChild, virtual.Status) {
	var h []byte
	for {
		c, err := r.ReadByte()
		if err != nil {
			break
		}
		h = append(h, c)
	}
	fs.mu.Lock()
	defer fs.mu.Unlock()
	if string(h) == string(fs.rootHandle) {
		return virtual.DirectoryChild{}.FromDirectory(fs.root), virtual.StatusOK
	}
	for _, l := range fs.linked {
		if string(l.handle) == string(h) {
			return virtual.DirectoryChild{}.FromLeaf(l), virtual.StatusOK
		}
	}
	return virtual.DirectoryChild{}, virtual.StatusErrStale
}

func (fs *fakeFS) leafByHandle(h []byte) *fakeLeaf {
	for _, l := range fs.leaves {
		if string(l.handle) == string(h) {
			return l
		}
	}
	return nil
}

// linkedNames lists the leaves the directory (and hence the handle
// resolver) still knows, for messages.
func (fs *fakeFS) linkedNames() string {
	fs.mu.Lock()
	defer fs.mu.Unlock()
	var ids []string
	for _, l := range fs.linked {
		ids = append(ids, l.id)
	}
	sort.Strings(ids)
	return strings.Join(ids, ",")
}

// dump renders the file system state canonically.
func (fs *fakeFS) dump() string {
	fs.mu.Lock()
	defer fs.mu.Unlock()
	var b strings.Builder
	fmt.Fprintf(&b, "FS change=%d linked:", fs.change)
	var names []string
	for n := range fs.linked {
		names = append(names, n)
	}
	sort.Strings(names)
	for _, n := range names {
		b.WriteString(" " + fs.linked[n].id)
	}
	for _, l := range fs.leaves {
		fmt.Fprintf(&b, "\n leaf %s open=r%d,w%d size=%d io=%d,%d,%d inflight=%d", l.id, l.opens[0]-l.closes[0], l.opens[1]-l.closes[1], l.size, l.reads, l.writes, l.setattrs, l.inflight)
	}
	fmt.Fprintf(&b, "\n faults=%d\n", len(fs.faults))
	return b.String()
}

// sideEffects renders all counters that a retransmitted request must not
// change.
func (fs *fakeFS) sideEffects() string {
	fs.mu.Lock()
	defer fs.mu.Unlock()
	var b strings.Builder
	fmt.Fprintf(&b, "change=%d creates=%d removes=%d", fs.change, fs.creates, fs.removes)
	for _, l := range fs.leaves {
		fmt.Fprintf(&b, " %s[o=%v c=%v r=%d w=%d s=%d t=%d]", l.id, l.opens, l.closes, l.reads, l.writes, l.setattrs, l.truncates)
	}
	return b.String()
}

// ioCounters renders what I/O served from this leaf changes (not the opens
// and closes); allCounters adds those.
func (l *fakeLeaf) ioCounters() string {
	l.fs.mu.Lock()
	defer l.fs.mu.Unlock()
	return fmt.Sprintf("%s[r=%d w=%d s=%d t=%d size=%d]", l.id, l.reads, l.writes, l.setattrs, l.truncates, l.size)
}

func (l *fakeLeaf) allCounters() string {
	l.fs.mu.Lock()
	defer l.fs.mu.Unlock()
	return fmt.Sprintf("%s[o=%v c=%v r=%d w=%d s=%d t=%d size=%d]", l.id, l.opens, l.closes, l.reads, l.writes, l.setattrs, l.truncates, l.size)
}

func (fs *fakeFS) balanced() (bool, string) {
	fs.mu.Lock()
	defer fs.mu.Unlock()
	for _, l := range fs.leaves {
		for b := 0; b < 2; b++ {
			if l.opens[b] != l.closes[b] {
				return false, fmt.Sprintf("leaf %s: opened %d times for %s, closed %d times", l.id, l.opens[b], bitNames[b], l.closes[b])
			}
		}
	}
	return true, ""
}

type fakeNode struct{}

func (fakeNode) VirtualApply(data any) bool { return false }
func (fakeNode) VirtualOpenNamedAttributes(ctx context.Context, createDirectory bool, requested virtual.AttributesMask, attributes *virtual.Attributes) (virtual.Directory, virtual.Status) {
	return nil, virtual.StatusErrNoEnt
}

type fakeDir struct {
	fakeNode
	fs *fakeFS
}

func (d *fakeDir) VirtualGetAttributes(ctx context.Context, requested virtual.AttributesMask, a *virtual.Attributes) {
	fs := d.fs
	fs.mu.Lock()
	defer fs.mu.Unlock()
	a.SetFileHandle(fs.rootHandle)
	a.SetFileType(filesystem.FileTypeDirectory)
	a.SetPermissions(virtual.PermissionsRead | virtual.PermissionsWrite | virtual.PermissionsExecute)
	a.SetChangeID(fs.change)
	a.SetInodeNumber(1)
	a.SetLinkCount(2)
	a.SetSizeBytes(0)
	a.SetHasNamedAttributes(false)
	a.SetIsInNamedAttributeDirectory(false)
}

func (d *fakeDir) VirtualSetAttributes(ctx context.Context, in *virtual.Attributes, requested virtual.AttributesMask, a *virtual.Attributes) virtual.Status {
	return virtual.StatusErrPerm
}

func (d *fakeDir) VirtualOpenChild(ctx context.Context, name path.Component, shareAccess virtual.ShareMask, createAttributes *virtual.Attributes, existingOptions *virtual.OpenExistingOptions, requested virtual.AttributesMask, out *virtual.Attributes) (virtual.Leaf, virtual.AttributesMask, virtual.ChangeInfo, virtual.Status) {
	fs := d.fs
	fs.point("vfs:openchild:" + name.String())
	fs.mu.Lock()
	defer fs.mu.Unlock()
	var respected virtual.AttributesMask
	ci := virtual.ChangeInfo{Before: fs.change, After: fs.change}
	l, ok := fs.linked[name.String()]
	if ok {
		if existingOptions == nil {
			return nil, 0, virtual.ChangeInfo{}, virtual.StatusErrExist
		}
		if existingOptions.Truncate {
			l.size = 0
			l.truncates++
			respected |= virtual.AttributesMaskSizeBytes
		}
	} else {
		if createAttributes == nil {
			return nil, 0, virtual.ChangeInfo{}, virtual.StatusErrNoEnt
		}
		l = fs.newLeaf(name.String())
		fs.change++
		fs.creates++
		ci.After = fs.change
		if sz, ok := createAttributes.GetSizeBytes(); ok {
			l.size = sz
			respected |= virtual.AttributesMaskSizeBytes
		}
	}
	l.openLocked(shareAccess)
	l.attributesLocked(out)
	return l, respected, ci, virtual.StatusOK
}

func (d *fakeDir) VirtualLookup(ctx context.Context, name path.Component, requested virtual.AttributesMask, out *virtual.Attributes) (virtual.DirectoryChild, virtual.Status) {
	fs := d.fs
	fs.mu.Lock()
	defer fs.mu.Unlock()
	l, ok := fs.linked[name.String()]
	if !ok {
		return virtual.DirectoryChild{}, virtual.StatusErrNoEnt
	}
	l.attributesLocked(out)
	return virtual.DirectoryChild{}.FromLeaf(l), virtual.StatusOK
}

func (d *fakeDir) VirtualRemove(ctx context.Context, name path.Component, removeDirectory, removeLeaf bool) (virtual.ChangeInfo, virtual.Status) {
	fs := d.fs
	fs.mu.Lock()
	defer fs.mu.Unlock()
	if _, ok := fs.linked[name.String()]; !ok {
		return virtual.ChangeInfo{}, virtual.StatusErrNoEnt
	}
	delete(fs.linked, name.String())
	ci := virtual.ChangeInfo{Before: fs.change, After: fs.change + 1}
	fs.change++
	fs.removes++
	return ci, virtual.StatusOK
}

func (d *fakeDir) VirtualLink(ctx context.Context, name path.Component, leaf virtual.Leaf, requested virtual.AttributesMask, attributes *virtual.Attributes) (virtual.ChangeInfo, virtual.Status) {
	return virtual.ChangeInfo{}, virtual.StatusErrPerm
}

func (d *fakeDir) VirtualMkdir(ctx context.Context, name path.Component, createAttributes *virtual.Attributes, requested virtual.AttributesMask, out *virtual.Attributes) (virtual.Directory, virtual.ChangeInfo, virtual.Status) {
	return nil, virtual.ChangeInfo{}, virtual.StatusErrPerm
}

func (d *fakeDir) VirtualMknod(ctx context.Context, name path.Component, createAttributes *virtual.Attributes, requested virtual.AttributesMask, out *virtual.Attributes) (virtual.Leaf, virtual.ChangeInfo, virtual.Status) {
	return nil, virtual.ChangeInfo{}, virtual.StatusErrPerm
}

func (d *fakeDir) VirtualReadDir(ctx context.Context, firstCookie uint64, requested virtual.AttributesMask, reporter virtual.DirectoryEntryReporter) virtual.Status {
	return virtual.StatusOK
}

func (d *fakeDir) VirtualRename(ctx context.Context, oldName path.Component, newDirectory virtual.Directory, newName path.Component) (virtual.ChangeInfo, virtual.ChangeInfo, virtual.Status) {
	return virtual.ChangeInfo{}, virtual.ChangeInfo{}, virtual.StatusErrPerm
}

// fakeLeaf counts opens and closes per access bit, and checks that reads
// and writes only happen while the corresponding bit is open.
type fakeLeaf struct {
	fakeNode
	fs     *fakeFS
	name   string
	id     string
	handle []byte

	opens, closes                      [2]int
	reads, writes, setattrs, truncates int
	inflight                           int
	size                               uint64
}

func (l *fakeLeaf) openLocked(m virtual.ShareMask) {
	for _, b := range maskBits(m) {
		l.opens[b]++
	}
}

func (l *fakeLeaf) openCount(b int) int {
	l.fs.mu.Lock()
	defer l.fs.mu.Unlock()
	return l.opens[b] - l.closes[b]
}

func (l *fakeLeaf) attributesLocked(a *virtual.Attributes) {
	a.SetFileHandle(l.handle)
	a.SetFileType(filesystem.FileTypeRegularFile)
	a.SetPermissions(virtual.PermissionsRead | virtual.PermissionsWrite)
	a.SetChangeID(uint64(l.writes + l.setattrs + l.truncates))
	a.SetInodeNumber(uint64(len(l.id)))
	a.SetLinkCount(1)
	a.SetSizeBytes(l.size)
	a.SetHasNamedAttributes(false)
	a.SetIsInNamedAttributeDirectory(false)
}

func (l *fakeLeaf) VirtualGetAttributes(ctx context.Context, requested virtual.AttributesMask, a *virtual.Attributes) {
	l.fs.mu.Lock()
	defer l.fs.mu.Unlock()
	l.attributesLocked(a)
}

func (l *fakeLeaf) VirtualSetAttributes(ctx context.Context, in *virtual.Attributes, requested virtual.AttributesMask, a *virtual.Attributes) virtual.Status {
	l.fs.point("vfs:setattr:" + l.id)
	l.fs.mu.Lock()
	defer l.fs.mu.Unlock()
	if sz, ok := in.GetSizeBytes(); ok {
		l.size = sz
	}
	l.setattrs++
	l.attributesLocked(a)
	return virtual.StatusOK
}

func (l *fakeLeaf) VirtualAllocate(ctx context.Context, off, size uint64) virtual.Status {
	return virtual.StatusErrPerm
}

func (l *fakeLeaf) VirtualSeek(ctx context.Context, offset uint64, regionType filesystem.RegionType) (*uint64, virtual.Status) {
	return nil, virtual.StatusErrPerm
}

func (l *fakeLeaf) VirtualOpenSelf(ctx context.Context, shareAccess virtual.ShareMask, options *virtual.OpenExistingOptions, requested virtual.AttributesMask, a *virtual.Attributes) virtual.Status {
	l.fs.point("vfs:openself:" + l.id)
	l.fs.mu.Lock()
	defer l.fs.mu.Unlock()
	if options != nil && options.Truncate {
		l.size = 0
		l.truncates++
	}
	l.openLocked(shareAccess)
	l.attributesLocked(a)
	return virtual.StatusOK
}

func (l *fakeLeaf) ioStart(b int, what string) {
	l.fs.mu.Lock()
	if l.opens[b]-l.closes[b] < 1 {
		l.fs.fault("%s on leaf %s while it is not open for %s (opens=%v closes=%v)", what, l.id, bitNames[b], l.opens, l.closes)
	}
	l.inflight++
	l.fs.mu.Unlock()
	// The I/O itself takes time: other requests may be processed
	// in between.
	l.fs.point("vfs:" + what + ":" + l.id)
	l.fs.mu.Lock()
	if l.opens[b]-l.closes[b] < 1 {
		l.fs.fault("leaf %s was closed for %s while %s was in progress (opens=%v closes=%v)", l.id, bitNames[b], what, l.opens, l.closes)
	}
	l.inflight--
	l.fs.mu.Unlock()
}

func (l *fakeLeaf) VirtualRead(ctx context.Context, buf []byte, offset uint64) (int, bool, virtual.Status) {
	l.ioStart(bitRead, "read")
	l.fs.mu.Lock()
	defer l.fs.mu.Unlock()
	l.reads++
	return 0, true, virtual.StatusOK
}

func (l *fakeLeaf) VirtualWrite(ctx context.Context, buf []byte, offset uint64) (int, virtual.Status) {
	l.ioStart(bitWrite, "write")
	l.fs.mu.Lock()
	defer l.fs.mu.Unlock()
	l.writes++
	if end := offset + uint64(len(buf)); end > l.size {
		l.size = end
	}
	return len(buf), virtual.StatusOK
}

func (l *fakeLeaf) VirtualClose(shareAccess virtual.ShareMask) {
	l.fs.point("vfs:close:" + l.id)
	l.fs.mu.Lock()
	defer l.fs.mu.Unlock()
	for _, b := range maskBits(shareAccess) {
		l.closes[b]++
		if l.closes[b] > l.opens[b] {
			l.fs.fault("leaf %s closed for %s more often (%d) than opened (%d)", l.id, bitNames[b], l.closes[b], l.opens[b])
		}
	}
}
