package suspclock

import (
	"context"
	"fmt"
	"testing"
	"time"

	"verif/mc"

	re_clock "github.com/buildbarn/bb-remote-execution/pkg/clock"
	"github.com/buildbarn/bb-remote-execution/pkg/proto/remoteworker"
)

// Suspend/Resume calls per storage reader and nesting depth per reader. The
// first bracket of each reader is free; a further or nested bracket is a
// deviation (cost 1 for R1, cost 3 for R2, i.e. R2's are only explored by the
// unbounded thorough tier).
var (
	maxReaderOps = [2]int{4, 4}
	extraCost    = [2]int{1, 3}
)

const maxReaderDepth = 2

// dumpClock renders the accounting state of the clock under test, reduced to
// what its code can still observe: while suspended, unsuspensionStart is dead
// (Resume overwrites it before anything reads it); while running, only the
// sum totalUnsuspended + (t - unsuspensionStart) is ever formed, for instants
// t >= now - maxLate (late deliveries carry stamps of the past). For
// t > unsuspensionStart that sum is cur - (now - t); for t <= unsuspensionStart
// the guarded branch of getTotalUnsuspendedWithTime yields totalUnsuspended =
// cur - age with age = now - unsuspensionStart. Which of the two applies to a
// stamp t >= now - maxLate is determined by min(age, maxLate+1), now and in
// every future state.
func (w *world) dumpClock(clk *re_clock.SuspendableClock) string {
	n, start, total := re_clock.VerifSuspendableClockDump(clk)
	if n != 0 {
		return fmt.Sprintf("sc=%d,tu=%d", n, int(total/tick))
	}
	age := w.clk.Now().Sub(start)
	cur := int((total + age) / tick)
	if age > (maxLate+1)*tick {
		age = (maxLate + 1) * tick
	}
	return fmt.Sprintf("sc=0,cur=%d,age=%d", cur, int(age/tick))
}

func (w *world) key(clk *re_clock.SuspendableClock) string {
	dc := w.dumpClock(clk)
	w.mu.Lock()
	defer w.mu.Unlock()
	s := w.clk.key(w.u) + "|" + dc
	// The last delivery only matters at the instant at which it was made.
	ld := "-"
	if w.delivNow == w.clk.nowTick() {
		ld = fmt.Sprintf("%d/%d", w.delivNow-w.delivStamp, w.u-w.delivU)
	}
	s += fmt.Sprintf("|rc=%d,st=%v,dn=%v,w=%d,u=%d,cx=%v,lu=%d,lc=%d,ld=%s|r=%d/%d,%d/%d|g=%v%v%v%v|sd=%s",
		w.refCount, w.started, w.done, w.wall, w.u, w.cancelled, w.lateU, w.lateCap, ld,
		w.ops[0], w.depth[0], w.ops[1], w.depth[1],
		w.readerGate[0].waiting, w.readerGate[1].waiting, w.startGate.waiting, w.finishGate.waiting,
		w.startDump)
	if w.ctx != nil {
		err, ud, _ := re_clock.VerifSuspendableContextDump(w.ctx)
		s += fmt.Sprintf("|ctx=%v,%d", err, int(ud/tick))
	}
	if w.tmr != nil {
		st, _ := re_clock.VerifSuspendableTimerStopped(w.tmr)
		s += fmt.Sprintf("|tmr=%v,%d", st, len(w.tmrCh))
	}
	if w.p.exec {
		s += w.execKey()
	}
	return s
}

func (w *world) reader(i int, clk *re_clock.SuspendableClock) {
	x := w.x
	for {
		w.mu.Lock()
		tag := fmt.Sprintf("R%d@%d/%d", i+1, w.ops[i], w.depth[i])
		fin := w.ops[i] >= maxReaderOps[i]
		w.mu.Unlock()
		x.ResetLocal(tag)
		if fin || !w.readerGate[i].wait() {
			return
		}
		w.mu.Lock()
		op := w.next[i]
		w.mu.Unlock()
		if op == 'S' {
			clk.Suspend()
			w.mu.Lock()
			w.refCount++
			w.depth[i]++
		} else {
			clk.Resume()
			w.mu.Lock()
			w.refCount--
			w.depth[i]--
		}
		w.ops[i]++
		w.mu.Unlock()
		x.Logf("R%d: %c done (reference suspension count now %d)", i+1, op, w.refCount)
	}
}

func (w *world) begin() {
	w.mu.Lock()
	w.started = true
	w.wall, w.u = 0, 0
	w.mu.Unlock()
}

// judge evaluates the completion of the command / the firing of the timer at
// the current instant. deadlineExceeded: completion by timeout (as opposed to
// the command's own cancellation).
func (w *world) judge(what string, deadlineExceeded bool, reported time.Duration, haveReported bool) {
	w.mu.Lock()
	defer w.mu.Unlock()
	p := w.p
	if deadlineExceeded {
		if !w.inWindow() {
			kind := "early"
			if w.u > w.upperU() || w.wall > w.upperWall() {
				kind = "late"
			}
			w.fail("timeout-outside-window/"+kind, "%s: timeout raised at wall=%d unsuspended=%d ticks after the start, but timeout=%d threshold=%d maximum suspension=%d (late ticks: %d unsuspended with a loop timer in flight, %d with the cap timer in flight): allowed only when %d <= unsuspended <= %d or %d <= wall <= %d (cancelled by the command: %v)",
				what, w.wall, w.u, p.d, p.threshold, p.maxSusp, w.lateU, w.lateCap, w.lower(), w.upperU(), w.limit(), w.upperWall(), w.cancelled)
		}
	} else if !w.cancelled {
		w.fail("spurious-cancel", "%s: completed as cancelled at wall=%d unsuspended=%d although the command never cancelled", what, w.wall, w.u)
	}
	if haveReported && reported != time.Duration(w.u)*tick {
		// A timeout detected through a base timer whose value was
		// delivered late (stamp T < now) may report the unsuspended
		// running time as of any instant between T and now.
		lo := w.u
		if deadlineExceeded && w.delivNow == w.clk.nowTick() {
			lo = w.delivU
		}
		if reported < time.Duration(lo)*tick || reported > time.Duration(w.u)*tick {
			w.fail("unsuspended-duration", "%s: reported unsuspended duration %v, but the command ran unsuspended for %d ticks (accepted: %d..%d; wall=%d, deadlineExceeded=%v, cancelled=%v)", what, reported, w.u, lo, w.u, w.wall, deadlineExceeded, w.cancelled)
		}
	}
	w.x.Outcome("%s de=%v cancelled=%v wall=%d u=%d", what, deadlineExceeded, w.cancelled, w.wall, w.u)
	w.done = true
}

// commandContext: the "command" of an action: runs under a context with the
// execution timeout, may finish (cancel) at a chosen instant.
func (w *world) commandContext(clk *re_clock.SuspendableClock) {
	x := w.x
	x.ResetLocal("cmd@start")
	if !w.startGate.wait() {
		return
	}
	w.begin()
	ctx, cancel := clk.NewContextWithTimeout(context.Background(), time.Duration(w.p.d)*tick)
	w.mu.Lock()
	w.ctx = ctx
	w.mu.Unlock()
	if !x.Free() {
		sd := w.dumpClock(clk)
		w.mu.Lock()
		w.startDump = sd
		w.mu.Unlock()
	}
	x.ResetLocal("cmd@wait")
	g := w.finishGate
	w.mu.Lock()
	g.waiting = true
	w.mu.Unlock()
	select {
	case <-ctx.Done():
		w.mu.Lock()
		g.waiting = false
		w.mu.Unlock()
	case <-g.ch:
		w.mu.Lock()
		g.waiting = false
		w.cancelled = true
		w.mu.Unlock()
		x.Logf("cmd: finishes, cancels the timeout context")
		cancel()
		<-ctx.Done()
	}
	x.ResetLocal("cmd@done")
	err := ctx.Err()
	v, ok := ctx.Value(re_clock.UnsuspendedDurationKey{}).(time.Duration)
	x.Logf("cmd: context done err=%v unsuspended=%v", err, v)
	switch err {
	case context.DeadlineExceeded:
		w.judge("context", true, v, ok)
	case context.Canceled:
		w.judge("context", false, v, ok)
	default:
		w.fail("bad-error", "context is done but Err() = %v", err)
		w.judge("context", false, v, ok)
	}
	if !ok {
		w.fail("unsuspended-duration", "context does not provide UnsuspendedDurationKey")
	}
	cancel()
	x.ResetLocal("cmd@end")
}

// commandTimer: same, for NewTimer.
func (w *world) commandTimer(clk *re_clock.SuspendableClock) {
	x := w.x
	x.ResetLocal("cmd@start")
	if !w.startGate.wait() {
		return
	}
	w.begin()
	t, ch := clk.NewTimer(time.Duration(w.p.d) * tick)
	w.mu.Lock()
	w.tmr, w.tmrCh = t, ch
	w.mu.Unlock()
	if !x.Free() {
		sd := w.dumpClock(clk)
		w.mu.Lock()
		w.startDump = sd
		w.mu.Unlock()
	}
	x.ResetLocal("cmd@wait")
	g := w.finishGate
	w.mu.Lock()
	g.waiting = true
	w.mu.Unlock()
	select {
	case v := <-ch:
		w.mu.Lock()
		g.waiting = false
		w.mu.Unlock()
		x.Logf("cmd: timer fired with value %v", v.Sub(epoch))
		w.judge("timer", true, 0, false)
		w.checkTimerValue(v)
		x.ResetLocal("cmd@fired")
		if t.Stop() {
			w.fail("timer-stop", "Stop() returned true after the timer had fired")
		}
	case <-g.ch:
		w.mu.Lock()
		g.waiting = false
		w.cancelled = true
		w.mu.Unlock()
		x.ResetLocal("cmd@stopping")
		if t.Stop() {
			// (Upstream: a firing that is already in flight may
			// still deliver a value afterwards; not judged.)
			w.judge("timer", false, 0, false)
		} else {
			// Stop() == false: the timer must have fired.
			v := <-ch
			w.judge("timer", true, 0, false)
			w.checkTimerValue(v)
		}
	}
	x.ResetLocal("cmd@end")
}

// checkTimerValue: the value published by the timer is the firing instant of
// the base timer whose delivery made it fire (the current instant unless that
// delivery was late).
func (w *world) checkTimerValue(v time.Time) {
	now := w.clk.nowTick()
	w.mu.Lock()
	want := now
	if w.delivNow == now {
		want = w.delivStamp
	}
	w.mu.Unlock()
	if !v.Equal(w.clk.at(want)) {
		w.fail("timer-value", "timer published %v at %v, but the base timer that made it fire had fired at %v", v.Sub(epoch), w.clk.at(now).Sub(epoch), w.clk.at(want).Sub(epoch))
	}
}

// onDeliver records the delivery of a base timer.
func (w *world) onDeliver(t *fakeTimer, now int) {
	w.mu.Lock()
	w.delivNow, w.delivStamp, w.delivU = now, t.deadline, t.uAtDue
	u := w.u
	w.mu.Unlock()
	if now > t.deadline {
		w.x.Logf("base timer that fired at tick %d is delivered %d tick(s) late (unsuspended running time then %d, now %d)", t.deadline, now-t.deadline, t.uAtDue, u)
	}
}

// onRearm: the goroutine of the clock under test has processed the expiry of
// a base timer stamped T and, instead of raising the timeout, arms the next
// timer for nd. It must not grant more than the budget that was left at T:
// nd <= max(0, timeout - U(T)). (The unmodified code computes
// timeout - current with U(T) <= current <= U(now).)
func (w *world) onRearm(nd time.Duration) {
	w.mu.Lock()
	defer w.mu.Unlock()
	if !w.started || w.done || w.delivNow != w.clk.nowTick() {
		return
	}
	rem := w.p.d - w.delivU
	if rem < 0 {
		rem = 0
	}
	if nd > time.Duration(rem)*tick {
		w.fail("rearm-beyond-budget", "the expiry of the base timer that fired at tick %d (processed at tick %d) was answered by re-arming for %v, but at the firing instant the command had already run unsuspended for %d of its %d ticks: at most %d may be granted (threshold %d, wall=%d, unsuspended now=%d)",
			w.delivStamp, w.delivNow, nd, w.delivU, w.p.d, rem, w.p.threshold, w.wall, w.u)
	}
}

// doTick lets one tick pass. late: although a due base timer has not been
// delivered yet.
func (w *world) doTick(late bool) {
	p := w.p
	w.mu.Lock()
	defer w.mu.Unlock()
	loopDue, capDue, _ := w.clk.dueKinds()
	if w.started && !w.done && !late {
		// Full quiescence, no expiry in flight, and the command has
		// not observed completion.
		if w.wall >= w.upperWall() {
			w.fail("bound-exceeded", "wall-clock bound violated: %d ticks after the start (timeout %d + maximum suspension %d, %d late ticks of the cap timer) the timeout has still not fired (unsuspended=%d)", w.wall, p.d, p.maxSusp, w.lateCap, w.u)
		} else if w.u >= w.upperU() {
			w.fail("timeout-missed", "the command has run unsuspended for %d ticks (timeout %d, wall=%d, %d unsuspended late ticks) and the timeout has still not fired although no expiry is in flight", w.u, p.d, w.wall, w.lateU)
		}
	}
	w.clk.advance()
	if w.started && !w.done {
		w.wall++
		if w.refCount == 0 {
			w.u++
		}
		if late {
			if loopDue && w.refCount == 0 {
				w.lateU++
			}
			if capDue {
				w.lateCap++
			}
		}
	}
	w.clk.markDue(w.u)
}

func name(p params) string {
	k := "ctx"
	if p.timer {
		k = "timer"
	}
	if p.exec {
		k = "exec"
	}
	return fmt.Sprintf("%s-d%d-m%d-t%d", k, p.d, p.maxSusp, p.threshold)
}

func scenario(p params, bounds map[string]int) *mc.Scenario {
	return &mc.Scenario{
		Name:     name(p),
		Props:    []string{"C11"},
		Liveness: []string{"C11"},
		Livelock: []string{"C11"},
		Panics:   []string{"C11"},
		Bounds:   bounds,
		MaxSteps: 600,
		// Thread switches are free; the deviations that the quick tier
		// bounds are: extra/nested suspension brackets, and deliveries
		// of a due timer while another thread is in mid-step.
		PreemptFree: true,
		Build: func(x *mc.X) {
			w := &world{x: x, p: p, clk: &fakeClock{x: x, capFirst: p.timer}, stop: make(chan struct{}), delivNow: -1}
			w.clk.onDeliver, w.clk.onRearm = w.onDeliver, w.onRearm
			w.readerGate[0], w.readerGate[1] = w.newGate(), w.newGate()
			w.startGate, w.finishGate = w.newGate(), w.newGate()
			clk := re_clock.NewSuspendableClock(w.clk, time.Duration(p.maxSusp)*tick, time.Duration(p.threshold)*tick)
			x.AdoptAnonymous()
			x.SetKey(func() string { return w.key(clk) })

			x.Go("R1", func() { w.reader(0, clk) })
			if p.exec {
				// The real localBuildExecutor, one storage reader.
				w.ex.fetchGate, w.ex.consGate = w.newGate(), w.newGate()
				updates := make(chan *remoteworker.CurrentState_Executing)
				x.Go("EXEC", func() { w.execThread(clk, updates) })
				x.Go("CONS", func() { w.consumer(updates) })
				w.addExecEvents()
			} else {
				x.Go("R2", func() { w.reader(1, clk) })
				if p.timer {
					x.Go("CMD", func() { w.commandTimer(clk) })
				} else {
					x.Go("CMD", func() { w.commandContext(clk) })
				}
			}

			hardMax := p.maxStart + p.maxPre + w.limit() + 2 + maxLate

			// 1. Time passes: only at full quiescence. "tick": no due
			// timer / deadline is awaiting delivery (for ticks taken while
			// an expiry is in flight see "tick-late" below).
			x.AddEvent(&mc.Event{
				Name: "tick", OnlyIdle: true,
				Enabled: func() bool {
					w.mu.Lock()
					started, done := w.started, w.done
					w.mu.Unlock()
					if done || len(w.clk.dueTimers()) > 0 || len(w.clk.dueContexts()) > 0 {
						return false
					}
					w.clk.mu.Lock()
					now := w.clk.now
					w.clk.mu.Unlock()
					return now < hardMax && started
				},
				Fire: func() { w.doTick(false) },
			})
			// 2. Delivery of due base timers (one at a time) and of the
			// base context's deadline. They may also be delivered while
			// another thread is in mid-step (a deviation), so that the
			// firing races with Suspend/Resume/Err/Stop for the clock's
			// mutex - but never while an earlier delivery is still being
			// processed (see fakeClock.busy).
			for k := 0; k < 2; k++ {
				k := k
				x.AddEvent(&mc.Event{
					Name:    fmt.Sprintf("deliver:timer#%d", k),
					Enabled: func() bool { return !w.clk.isBusy() && len(w.clk.dueTimers()) > k },
					Fire:    func() { w.clk.deliverTimer(w.clk.dueTimers()[k]) },
				})
			}
			x.AddEvent(&mc.Event{
				Name:    "deliver:context-deadline",
				Enabled: func() bool { return !w.clk.isBusy() && len(w.clk.dueContexts()) > 0 },
				Fire:    func() { w.clk.deliverContext(w.clk.dueContexts()[0]) },
			})
			// 2b. Late delivery: a tick passes although the value of a
			// due base timer has not been delivered yet (the goroutine of
			// the clock under test is scheduled late). Opening such a
			// window costs 2 deviations (the quick tier explores every
			// position of ONE late window, combined with the free reader
			// brackets, cancellation instants and delivery orders; several
			// windows and windows combined with other deviations are left
			// to the thorough tier); extending an open window up to maxLate
			// ticks is free. The deadline of the base context is always
			// prompt. (Must come after the deliver events: the first
			// enabled event is free.)
			lateEnabled := func(extend bool) func() bool {
				return func() bool {
					w.mu.Lock()
					started, done := w.started, w.done
					w.mu.Unlock()
					if !started || done || w.clk.isBusy() || len(w.clk.dueContexts()) > 0 {
						return false
					}
					loopDue, capDue, oldest := w.clk.dueKinds()
					return (loopDue || capDue) && oldest < maxLate && (oldest > 0) == extend && w.clk.nowTick() < hardMax
				}
			}
			x.AddEvent(&mc.Event{
				Name: "tick-late", OnlyIdle: true, IdleCost: 2,
				Enabled: lateEnabled(false),
				Fire:    func() { w.doTick(true) },
			})
			x.AddEvent(&mc.Event{
				Name: "tick-late+", OnlyIdle: true,
				Enabled: lateEnabled(true),
				Fire:    func() { w.doTick(true) },
			})
			// Deliveries that nobody is waiting for any more (the
			// clock's goroutine has gone): only at full quiescence.
			x.AddEvent(&mc.Event{
				Name: "deliver:stale", OnlyIdle: true,
				Enabled: func() bool {
					return w.clk.isBusy() && (len(w.clk.dueTimers()) > 0 || len(w.clk.dueContexts()) > 0)
				},
				Fire: func() {
					if l := w.clk.dueTimers(); len(l) > 0 {
						w.clk.deliverTimer(l[0])
					} else {
						w.clk.deliverContext(w.clk.dueContexts()[0])
					}
				},
			})
			// 3. The command starts / finishes.
			x.AddEvent(&mc.Event{
				Name: "cmd:start", OnlyIdle: true,
				Enabled: func() bool { return w.startGate.isWaiting() },
				Fire:    func() { w.startGate.open() },
			})
			x.AddEvent(&mc.Event{
				Name: "cmd:finish", OnlyIdle: true,
				Enabled: func() bool {
					w.mu.Lock()
					done := w.done
					w.mu.Unlock()
					return !done && w.finishGate.isWaiting()
				},
				Fire: func() { w.finishGate.open() },
			})
			// 4. Storage readers: first bracket free, further / nested
			// brackets are deviations.
			for i := 0; i < 2; i++ {
				i := i
				ready := func() (ops, depth int, ok bool) {
					w.mu.Lock()
					defer w.mu.Unlock()
					g := w.readerGate[i]
					return w.ops[i], w.depth[i], !w.done && g.waiting && len(g.ch) == 0 && w.ops[i] < maxReaderOps[i]
				}
				fire := func(op byte) func() {
					return func() {
						w.mu.Lock()
						w.next[i] = op
						w.mu.Unlock()
						w.readerGate[i].open()
					}
				}
				x.AddEvent(&mc.Event{
					Name: fmt.Sprintf("R%d:Suspend", i+1), OnlyIdle: true,
					Enabled: func() bool {
						ops, depth, ok := ready()
						return ok && ops == 0 && depth == 0
					},
					Fire: fire('S'),
				})
				x.AddEvent(&mc.Event{
					Name: fmt.Sprintf("R%d:Resume", i+1), OnlyIdle: true,
					Enabled: func() bool {
						_, depth, ok := ready()
						return ok && depth > 0
					},
					Fire: fire('R'),
				})
				x.AddEvent(&mc.Event{
					Name: fmt.Sprintf("R%d:Suspend+", i+1), IdleCost: extraCost[i], OnlyIdle: true,
					Enabled: func() bool {
						ops, depth, ok := ready()
						// a Suspend must leave room for its Resume
						return ok && ops > 0 && depth < maxReaderDepth && ops+depth+2 <= maxReaderOps[i]
					},
					Fire: fire('S'),
				})
			}
			// 5. Time passing before the command starts (a deviation of
			// cost 3: thorough tier only).
			x.AddEvent(&mc.Event{
				Name: "tick-before-start", OnlyIdle: true, IdleCost: 3,
				Enabled: func() bool {
					w.mu.Lock()
					started := w.started
					w.mu.Unlock()
					w.clk.mu.Lock()
					now := w.clk.now
					w.clk.mu.Unlock()
					return !started && now < p.maxStart
				},
				Fire: func() { w.clk.advance() },
			})
			// Teardown.
			x.AddEvent(&mc.Event{
				Name: "teardown:finish-cmd", Teardown: true,
				Enabled: func() bool { return w.finishGate.isWaiting() },
				Fire:    func() { w.finishGate.open() },
			})
			stopped := false
			x.AddEvent(&mc.Event{
				Name: "teardown:stop", Teardown: true,
				Enabled: func() bool { return !stopped },
				Fire:    func() { stopped = true; close(w.stop) },
			})
		},
	}
}

func TestMC(t *testing.T) {

	var scs []*mc.Scenario
	for _, timer := range []bool{false, true} {
		for _, d := range []int{2, 3} {
			for _, m := range []int{0, 1, 3} {
				for _, th := range []int{0, 1} {
					p := params{d: d, maxSusp: m, threshold: th, maxStart: 1, timer: timer}
					scs = append(scs, scenario(p, map[string]int{"quick": 2, "thorough": -1}))
				}
			}
		}
	}
	// The executor's use of the clock (exec_test.go).
	for _, p := range []params{
		{d: 2, maxSusp: 1, threshold: 1},
		{d: 2, maxSusp: 0, threshold: 0},
		{d: 3, maxSusp: 3, threshold: 0},
	} {
		p.exec, p.maxPre = true, 2
		scs = append(scs, scenario(p, map[string]int{"quick": 0, "thorough": -1}))
	}
	// Interleaved Resume calls of overlapping suspensions (overlap_test.go).
	scs = append(scs, overlapScenario(2, 3), overlapScenario(3, 2))
	mc.Main(t, scs, seqs())
}
