package locks

import (
	"fmt"
	"strconv"

	"verif/mc"

	"github.com/buildbarn/bb-remote-execution/pkg/filesystem/virtual"
)

// Engine B on the real virtual.ByteRangeLockSet[O], driven with the protocol
// of its only caller (nfsv4.OpenedFile): lock = Test, then Set iff Test found
// no conflict; unlock = Set unconditionally.

type lsState[O comparable] struct {
	impl   virtual.ByteRangeLockSet[O]
	owners []O
	m      *model
	// entries of the table after the previous operation (cached dump).
	cur      []entry
	curValid bool
}

func (s *lsState[O]) dump() ([]entry, bool) {
	d, ok := s.impl.VerifLocksDump()
	return convertDump(d, s.owners), ok
}

// entries returns the table as it was after the last Set.
func (s *lsState[O]) entries() []entry {
	if !s.curValid {
		s.cur, _ = s.dump()
		s.curValid = true
	}
	return s.cur
}

func appendEntries(b []byte, es []entry) []byte {
	for _, e := range es {
		b = strconv.AppendInt(b, int64(e.owner), 10)
		b = append(b, ':')
		b = strconv.AppendInt(b, int64(e.typ), 10)
		b = append(b, ':')
		b = strconv.AppendUint(b, e.start, 16)
		b = append(b, ':')
		b = strconv.AppendUint(b, e.end, 16)
		b = append(b, ';')
	}
	return b
}

func lsKey[O comparable](s *lsState[O]) string {
	b := appendEntries(make([]byte, 0, 256), s.entries())
	b = append(b, '|')
	b = s.m.appendKey(b)
	return string(b)
}

func locksetSeq[O comparable](name string, owners []O, points []uint64, depth map[string]int) *mc.Seq {
	if points[0] != 0 || points[len(points)-1] != maxOff {
		panic("point set must contain 0 and the maximum offset")
	}
	seq := &mc.Seq{
		Name:   name,
		Props:  []string{"C20"},
		Panics: []string{"C20"},
		Depth:  depth,
		New: func(c *mc.SeqCtx) any {
			s := &lsState[O]{owners: owners, m: newModel(points, len(owners))}
			s.impl.Initialize()
			return s
		},
		Key: func(s any) string { return lsKey(s.(*lsState[O])) },
		Check: func(c *mc.SeqCtx, x any) {
			s := x.(*lsState[O])
			es, ok := s.dump()
			if f := compareTable(es, ok, s.m); f != nil {
				c.FailP("C20", "lockset/"+f.fingerprint, "%s", f.message)
			}
		},
	}
	for _, r := range allRanges(points) {
		for o := range owners {
			for _, t := range []lockType{tShared, tExcl, tNone} {
				o, r, t := o, r, t
				start, end := points[r.i], points[r.j]
				kind := "lock-" + typeName(t)
				if t == tNone {
					kind = "unlock"
				}
				seq.Ops = append(seq.Ops, mc.SeqOp{
					Name: fmt.Sprintf("%c %s [%s,%s)", 'A'+o, kind, offName(start), offName(end)),
					Do: func(c *mc.SeqCtx, x any) {
						s := x.(*lsState[O])
						req := virtual.ByteRangeLock[O]{Start: start, End: end, Owner: owners[o], Type: t}
						if c.Replaying {
							// Prefix that was already checked when it was explored:
							// same calls, no oracles.
							if t != tNone && s.impl.Test(&req) != nil {
								return
							}
							s.impl.Set(&req)
							s.m.set(o, r.i, r.j, t)
							s.curValid = false
							return
						}
						before := s.entries()
						if t != tNone {
							// LOCK: Test first.
							want := s.m.conflict(o, r.i, r.j, t)
							got := s.impl.Test(&req)
							if after, ok := s.dump(); !ok || !sameEntries(after, before) {
								c.FailP("C20", "lockset/test-mutates/"+kind, "Test(%v) changed the table: %s -> %s", req, entriesString(before), entriesString(after))
							}
							if req.Start != start || req.End != end || req.Owner != owners[o] || req.Type != t {
								c.FailP("C20", "lockset/test-mutates-request/"+kind, "Test changed its argument")
							}
							switch {
							case got == nil && want:
								c.FailP("C20", "lockset/test/missed-conflict/"+kind, "Test reports no conflict for a request that must be denied (another owner holds a byte of the range, one side exclusive): table %s model %s", entriesString(before), s.m)
							case got != nil && !want:
								c.FailP("C20", "lockset/test/false-conflict/"+kind, "Test reports conflict %v for a request that must be granted: table %s model %s", *got, entriesString(before), s.m)
							case got != nil:
								re := convertDump([]virtual.ByteRangeLock[O]{*got}, owners)[0]
								if why := checkConflictingLock(s.m, o, start, end, t, re); why != "" {
									c.FailP("C20", "lockset/test/bogus-conflicting-lock/"+kind, "%s: reported %s; table %s model %s", why, re, entriesString(before), s.m)
								}
							}
							if got != nil || want {
								// Denied (by the implementation, which is what the
								// real caller obeys, or by the model after a
								// reported mismatch): no Set.
								c.Logf("    denied")
								return
							}
						}
						delta := s.impl.Set(&req)
						if req.Start != start || req.End != end || req.Owner != owners[o] || req.Type != t {
							c.FailP("C20", "lockset/set-mutates-request/"+kind, "Set changed its argument")
						}
						s.m.set(o, r.i, r.j, t)
						after, _ := s.dump()
						s.cur, s.curValid = after, true
						if c.Verbose() {
							c.Logf("    delta=%d table=%s model=%s", delta, entriesString(after), s.m)
						}
						if delta != len(after)-len(before) {
							c.FailP("C20", "lockset/delta/"+kind, "Set returned delta %d, number of entries went from %d to %d: %s -> %s", delta, len(before), len(after), entriesString(before), entriesString(after))
						}
						// Per-owner view of the same bookkeeping (what lockCount of
						// the NFS server accumulates): only the requesting owner's
						// entries may change in number.
						for o2 := range owners {
							if o2 != o && countOwner(after, o2) != countOwner(before, o2) {
								c.FailP("C20", "lockset/foreign-entries/"+kind, "request of owner %c changed the number of entries of owner %c: %s -> %s", 'A'+o, 'A'+o2, entriesString(before), entriesString(after))
							}
						}
					},
				})
			}
		}
	}
	return seq
}
