package mc

import (
	"fmt"
	"runtime"
	"strings"
	"sync"
	"time"
)

// Seq is an explicit-state exploration of operation sequences on a real,
// purely sequential component (Engine B). A state is the operation list
// reaching it; successors are built by replaying that list on a fresh
// instance plus one operation; states with equal keys are merged.
type Seq struct {
	Name  string
	Props []string
	// New creates a fresh instance (system under test plus reference model).
	New func(c *SeqCtx) any
	// Ops is the alphabet, simplest first.
	Ops []SeqOp
	// Key is the canonical state key (implementation dump plus model dump).
	Key func(s any) string
	// Check runs non-destructive invariants after every operation.
	Check func(c *SeqCtx, s any)
	// Final runs a destructive differential oracle ("close everything
	// ⇒ capacity is back") on a separate replayed instance of every
	// distinct state.
	Final func(c *SeqCtx, s any)
	// Depth per tier.
	Depth map[string]int
	// Panics lists properties for which a panic inside an operation is a
	// violation.
	Panics []string
	// Serial disables the worker pool (for components with process globals).
	Serial bool
}

// SeqOp is one letter of the alphabet.
type SeqOp struct {
	Name string
	// Enabled may veto the operation in a state (optional).
	Enabled func(s any) bool
	// Do applies the operation to the implementation and the model and
	// compares results, reporting mismatches through c.FailP.
	Do func(c *SeqCtx, s any)
}

// SeqCtx collects the violation of one replay.
type SeqCtx struct {
	violation *Violation
	verbose   bool
	log       []string
	step      int
	// Replaying is true while the already-checked prefix is re-applied.
	Replaying bool
}

// FailP records a violation of property prop.
func (c *SeqCtx) FailP(prop, fingerprint, format string, args ...any) {
	if !Active(prop) || c.Replaying {
		return
	}
	if c.violation == nil {
		c.violation = &Violation{Fingerprint: prop + "/" + fingerprint, Message: fmt.Sprintf(format, args...), Step: c.step}
	}
}

// Failed reports whether a violation was recorded.
func (c *SeqCtx) Failed() bool { return c.violation != nil }

// Logf adds to the narrative in replay mode.
func (c *SeqCtx) Logf(format string, args ...any) {
	if c.verbose {
		c.log = append(c.log, fmt.Sprintf(format, args...))
	}
}

// Verbose reports whether a narrative is being recorded.
func (c *SeqCtx) Verbose() bool { return c.verbose }

// SeqOptions of one exploration.
type SeqOptions struct {
	Prop      string
	Known     map[string]bool
	Tier      string
	Depth     int
	MaxStates int
	TimeLimit time.Duration
}

type seqEmit struct {
	key  [16]byte
	hist []int
	viol *Violation
	ok   bool
	n    int64
}

func (s *Seq) apply(c *SeqCtx, hist []int, extra int, final bool) (inst any, applied bool, transitions int64) {
	defer func() {
		if r := recover(); r != nil {
			buf := make([]byte, 4096)
			buf = buf[:runtime.Stack(buf, false)]
			c.Replaying = false
			p := activeProp
			if !(has(s.Panics, p) || p == "") {
				// not a violation of the property being checked:
				// treat the state as terminal.
				applied = false
				return
			}
			if c.violation == nil {
				c.violation = &Violation{Fingerprint: p + "/panic/" + firstLine(fmt.Sprint(r)), Message: fmt.Sprintf("panic: %v\n%s", r, buf), Step: c.step}
			}
			applied = false
		}
	}()
	c.Replaying = true
	inst = s.New(c)
	for i, o := range hist {
		c.step = i
		if c.verbose {
			c.log = append(c.log, fmt.Sprintf("[%d] %s", i, s.Ops[o].Name))
			c.Replaying = false
		}
		s.Ops[o].Do(c, inst)
		transitions++
	}
	c.Replaying = false
	c.step = len(hist)
	if extra >= 0 {
		op := s.Ops[extra]
		if op.Enabled != nil && !op.Enabled(inst) {
			return inst, false, transitions
		}
		if c.verbose {
			c.log = append(c.log, fmt.Sprintf("[%d] %s", len(hist), op.Name))
		}
		op.Do(c, inst)
		transitions++
		if s.Check != nil && c.violation == nil {
			s.Check(c, inst)
		}
	}
	if final && s.Final != nil && c.violation == nil {
		s.Final(c, inst)
	}
	return inst, true, transitions
}

func (s *Seq) opNames(hist []int) []string {
	r := []string{}
	for _, o := range hist {
		r = append(r, s.Ops[o].Name)
	}
	return r
}

// ExploreSeq runs the breadth-first search.
func ExploreSeq(s *Seq, opt SeqOptions) *Result {
	start := time.Now()
	depth := opt.Depth
	if depth == 0 {
		depth = s.Depth[opt.Tier]
	}
	if depth == 0 {
		depth = 4
	}
	res := &Result{Scenario: s.Name, Property: opt.Prop, Engine: "B", Bound: depth, Exhaustive: true, Shard: "0/1"}
	seen := map[[16]byte]struct{}{}
	seenFP := map[string]bool{}
	workers := runtime.NumCPU()
	if s.Serial {
		workers = 1
	}

	record := func(v *Violation, hist []int) bool {
		if seenFP[v.Fingerprint] {
			return false
		}
		seenFP[v.Fingerprint] = true
		f := Found{Violation: *v, Scenario: s.Name, Known: opt.Known[v.Fingerprint], Labels: s.opNames(hist), Choices: append([]int(nil), hist...)}
		if i := strings.IndexByte(v.Fingerprint, '/'); i > 0 {
			f.Property = v.Fingerprint[:i]
		}
		res.Violations = append(res.Violations, f)
		return !f.Known
	}

	// Initial state.
	{
		c := &SeqCtx{}
		inst, _, _ := s.apply(c, nil, -1, false)
		if s.Check != nil && c.violation == nil {
			s.Check(c, inst)
		}
		if c.violation != nil && record(c.violation, nil) {
			res.Exhaustive = false
			res.CapsHit = append(res.CapsHit, "stopped_at_first_violation")
		}
		seen[hashKey(s.Key(inst))] = struct{}{}
		if s.Final != nil {
			c := &SeqCtx{}
			s.apply(c, nil, -1, true)
			if c.violation != nil && record(c.violation, nil) {
				res.Exhaustive = false
			}
		}
	}
	frontier := [][]int{{}}
	stopped := !res.Exhaustive
	completedDepth := 0
levels:
	for d := 0; d < depth && len(frontier) > 0 && !stopped; d++ {
		emits := make([][]seqEmit, len(frontier))
		var wg sync.WaitGroup
		next := make(chan int, len(frontier))
		for i := range frontier {
			next <- i
		}
		close(next)
		deadline := time.Time{}
		if opt.TimeLimit > 0 {
			deadline = start.Add(opt.TimeLimit)
		}
		var timedOut bool
		var tmu sync.Mutex
		for w := 0; w < workers; w++ {
			wg.Add(1)
			go func() {
				defer wg.Done()
				for i := range next {
					if !deadline.IsZero() && time.Now().After(deadline) {
						tmu.Lock()
						timedOut = true
						tmu.Unlock()
						return
					}
					h := frontier[i]
					out := make([]seqEmit, 0, len(s.Ops))
					for o := range s.Ops {
						c := &SeqCtx{}
						inst, ok, n := s.apply(c, h, o, false)
						e := seqEmit{n: n}
						if c.violation != nil {
							e.viol = c.violation
							e.hist = append(append([]int(nil), h...), o)
						} else if ok {
							e.ok = true
							e.key = hashKey(s.Key(inst))
							e.hist = append(append([]int(nil), h...), o)
						}
						out = append(out, e)
					}
					emits[i] = out
				}
			}()
		}
		wg.Wait()
		if timedOut {
			res.Exhaustive = false
			res.CapsHit = append(res.CapsHit, fmt.Sprintf("time_limit=%s at depth %d", opt.TimeLimit, d+1))
			break
		}
		var nf [][]int
		for _, out := range emits {
			for _, e := range out {
				res.Transitions += e.n
				res.Executions++
				if e.viol != nil {
					if record(e.viol, e.hist) {
						res.Exhaustive = false
						res.CapsHit = append(res.CapsHit, "stopped_at_first_violation")
						stopped = true
						break levels
					}
					continue
				}
				if !e.ok {
					continue
				}
				if _, dup := seen[e.key]; dup {
					continue
				}
				seen[e.key] = struct{}{}
				nf = append(nf, e.hist)
				if len(res.Samples) < 3 && d >= 1 {
					res.Samples = append(res.Samples, s.opNames(e.hist))
				}
			}
		}
		// Destructive differential oracle on every new state.
		if s.Final != nil && len(nf) > 0 {
			viol := make([]*Violation, len(nf))
			var wg sync.WaitGroup
			next := make(chan int, len(nf))
			for i := range nf {
				next <- i
			}
			close(next)
			var cnt int64
			var cmu sync.Mutex
			for w := 0; w < workers; w++ {
				wg.Add(1)
				go func() {
					defer wg.Done()
					var n int64
					for i := range next {
						if !deadline.IsZero() && time.Now().After(deadline) {
							tmu.Lock()
							timedOut = true
							tmu.Unlock()
							return
						}
						c := &SeqCtx{}
						_, _, k := s.apply(c, nf[i], -1, true)
						n += k
						viol[i] = c.violation
					}
					cmu.Lock()
					cnt += n
					cmu.Unlock()
				}()
			}
			wg.Wait()
			res.Transitions += cnt
			if timedOut {
				res.Exhaustive = false
				res.CapsHit = append(res.CapsHit, fmt.Sprintf("time_limit=%s in final oracle of depth %d", opt.TimeLimit, d+1))
			}
			for i, v := range viol {
				if v != nil && record(v, nf[i]) {
					res.Exhaustive = false
					res.CapsHit = append(res.CapsHit, "stopped_at_first_violation")
					stopped = true
					break levels
				}
			}
		}
		if timedOut {
			break
		}
		completedDepth = d + 1
		res.MaxDepth = completedDepth
		frontier = nf
		if opt.MaxStates > 0 && len(seen) > opt.MaxStates {
			res.Exhaustive = false
			res.CapsHit = append(res.CapsHit, fmt.Sprintf("max_states=%d after depth %d", opt.MaxStates, completedDepth))
			break
		}
	}
	if len(res.Samples) == 0 && len(frontier) > 0 {
		res.Samples = append(res.Samples, s.opNames(frontier[0]))
	}
	res.States = len(seen)
	res.DistinctOutcomes = len(seen)
	res.WallS = time.Since(start).Seconds()
	return res
}

func replaySeq(s *Seq, ops []string) {
	idx := map[string]int{}
	for i, o := range s.Ops {
		idx[o.Name] = i
	}
	var hist []int
	for _, n := range ops {
		i, ok := idx[n]
		if !ok {
			fmt.Printf("REPLAY-ERROR unknown op %q\n", n)
			return
		}
		hist = append(hist, i)
	}
	c := &SeqCtx{verbose: true}
	if len(hist) > 0 {
		last := hist[len(hist)-1]
		s.apply(c, hist[:len(hist)-1], last, true)
	} else {
		s.apply(c, nil, -1, true)
	}
	for _, l := range c.log {
		fmt.Println(l)
	}
	if c.violation != nil {
		fmt.Printf("REPLAY-VIOLATION %s: %s\n", c.violation.Fingerprint, c.violation.Message)
	} else {
		fmt.Println("REPLAY-OK")
	}
}
