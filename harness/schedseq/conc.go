package schedseq

import (
	"context"
	"crypto/sha256"
	"encoding/hex"
	"fmt"
	"math"
	"sort"
	"strings"
	"sync"
	"time"

	"verif/mc"

	remoteexecution "github.com/bazelbuild/remote-apis/build/bazel/remote/execution/v2"
	"github.com/buildbarn/bb-remote-execution/pkg/proto/buildqueuestate"
	"github.com/buildbarn/bb-remote-execution/pkg/proto/remoteworker"
	"github.com/buildbarn/bb-remote-execution/pkg/scheduler"
	"google.golang.org/grpc/codes"
	"google.golang.org/grpc/metadata"
	"google.golang.org/grpc/status"
	"google.golang.org/protobuf/proto"
	"google.golang.org/protobuf/types/known/durationpb"
	"google.golang.org/protobuf/types/known/emptypb"

	"cloud.google.com/go/longrunning/autogen/longrunningpb"
)

// Concurrent scenarios: a few threads perform scripted Execute/Synchronize
// calls on the real InMemoryBuildQueue with TRUE interleaving (Engine A,
// unbounded number of preemptions): every clock read of the scheduler and every
// acquisition of its lock is a scheduling point, so "T1 samples the clock,
// other calls that sampled it later are served first, T1 enters the lock"
// is explored.
//
// Oracle: the history of calls as observed by the harness (begin and end of
// every call in one global logical order, the fake clock at both moments,
// the response) must be LINEARIZABLE with respect to the sequential
// reference policy of model.go: there must be a total order of the calls
// that respects real time (a call that returned before another one began
// comes first), and a non-decreasing assignment of times (each within the
// clock values the call's interval spans), under which every response is in
// the set the documented policy admits (set-valued on ties, exactly as in
// the sequence explorer). Calls that overlap are thereby unordered; the
// policy is only asserted where the order of service follows from the
// observations alone - e.g. a task cannot have been handed out before the
// Execute call that created it began.

const (
	csExec        = iota // Execute of a fresh action
	csSync               // Synchronize of a worker that reports being idle
	csSyncDone           // Synchronize reporting completion of the task the worker holds
	csTick               // the fake clock advances by one tick
	csJoin               // wait until the named thread has finished its script
	csAddDrain           // operator: AddDrain of the named drain
	csRemoveDrain        // operator: RemoveDrain of the named drain
)

type concStep struct {
	kind int
	arg  string // Execute letter / worker name / thread name
}

func cExec(letter string) concStep { return concStep{csExec, letter} }
func cSync(worker string) concStep { return concStep{csSync, worker} }
func cDone(worker string) concStep { return concStep{csSyncDone, worker} }
func cTick() concStep              { return concStep{csTick, ""} }
func cJoin(thread string) concStep { return concStep{csJoin, thread} }
func cDrain(name string) concStep  { return concStep{csAddDrain, name} }
func cUndrain(name string) concStep {
	return concStep{csRemoveDrain, name}
}

type concThread struct {
	name  string
	steps []concStep
}

type concConfig struct {
	name    string
	limits  []int
	workers []workerDecl
	execs   []execDecl
	// setup runs sequentially before any thread exists.
	setup   []concStep
	threads []concThread
	bounds  map[string]int
	// drains: drains the operator steps refer to. A scenario with drains is
	// judged by the final-state oracle (checkFinal) instead of the
	// linearizability check, which does not model blocking calls.
	drains []drainDecl
	// yield: every release of the scheduler's lock is followed by a
	// scheduling point (code that reads shared state after dropping it).
	yield bool
}

// hOp is one observed call.
type hOp struct {
	kind       int // csExec, csSync, csAddDrain or csRemoveDrain
	d          *drainDecl
	e          *execDecl
	w          *workerDecl
	complete   bool   // Synchronize reports completion of held
	held       string // hash of the task the worker reports
	hash       string // Execute: action hash
	begin, end int    // global logical times of call and return
	cb, ce     int    // fake clock (ticks) at call and return
	done       bool
	code       codes.Code
	stage      string // Execute: first stage reported to the client
	got        string // Synchronize: hash of the task handed out
	suffix     string
}

type concSys struct {
	s       *sys
	cc      *concConfig
	lseq    int
	hist    []*hOp
	held    map[string]string // worker name -> hash of the task it holds
	letters map[string]string // action hash -> "letter#n"
	done    map[string]chan struct{}
	active  map[string]bool // drain name -> in force (set when the call returns)
}

func (c *fakeClock) peek() int {
	c.mu.Lock()
	defer c.mu.Unlock()
	return int(c.now.Sub(epoch) / tickUnit)
}

func (cc *concConfig) config() *config {
	return &config{
		name: cc.name, props: []string{"C04"},
		predeclared: []pqDecl{{prefix: "", platform: "P1", sizeClasses: []uint32{0}, limits: cc.limits}},
		workers:     cc.workers, execs: cc.execs, drains: cc.drains,
	}
}

func buildConc(x *mc.X, cc *concConfig) *concSys {
	s := newSys(x, cc.config(), 0)
	c := &concSys{s: s, cc: cc, held: map[string]string{}, letters: map[string]string{}, done: map[string]chan struct{}{}, active: map[string]bool{}}
	// Sequential set-up on the controller goroutine (no scheduling points:
	// hooks return immediately for unmanaged goroutines).
	c.run(cc.setup)
	s.clock.pointNow = true
	for i := range cc.threads {
		c.done[cc.threads[i].name] = make(chan struct{})
	}
	for i := range cc.threads {
		th := &cc.threads[i]
		x.Go(th.name, func() {
			c.runThread(th)
			close(c.done[th.name])
		})
	}
	if len(cc.drains) > 0 {
		// The final-state oracle only looks at the scheduler's state, the
		// drains in force and the result of every call (not at their
		// order): states can be merged.
		x.SetKey(c.key)
	}
	x.AddEvent(&mc.Event{Name: "teardown", Teardown: true, Enabled: func() bool { return !s.torn }, Fire: func() {
		// Nothing is enabled any more: every thread has finished its
		// script or is durably blocked inside the scheduler, whose lock
		// is free. This is the final state of the history.
		if len(cc.drains) > 0 {
			c.checkFinal(x)
		}
		s.mu.Lock()
		s.torn = true
		s.mu.Unlock()
		s.cancel()
	}})
	return c
}

// runThread runs the script of one thread. In the scenarios with a state key a
// thread carries nothing from one call to the next but its script position
// (results are recorded in the history, which is part of the key).
func (c *concSys) runThread(th *concThread) {
	if len(c.cc.drains) == 0 {
		c.run(th.steps)
		return
	}
	for i := range th.steps {
		c.s.x.ResetLocal(fmt.Sprintf("%s@%d", th.name, i))
		c.run(th.steps[i : i+1])
	}
	c.s.x.ResetLocal(th.name + "@end")
}

// key: scheduler dump, fake clock, drains in force and what every call has
// returned so far (in order of the calls' beginnings per thread, which is
// script order; the global order of calls of different threads is not part of
// it).
func (c *concSys) key() string {
	s := c.s
	s.mu.Lock()
	defer s.mu.Unlock()
	var b strings.Builder
	b.WriteString(s.implKey(scheduler.VerifSeqSnapshot(s.bq)))
	fmt.Fprintf(&b, "|T%s|torn%v|", s.clock.dump(), s.torn)
	for _, d := range c.cc.drains {
		fmt.Fprintf(&b, "%s=%v,", d.name, c.active[d.name])
	}
	var ops []string
	for _, op := range c.hist {
		o := fmt.Sprintf("k%d", op.kind)
		switch op.kind {
		case csExec:
			o += op.e.name + "#" + c.taskName(op.hash)
		case csSync:
			o += op.w.name
		default:
			o += op.d.name
		}
		if op.done {
			o += fmt.Sprintf("=%s/%s/%s", op.code, op.stage, c.taskName(op.got))
		}
		ops = append(ops, o)
	}
	sort.Strings(ops)
	b.WriteString(strings.Join(ops, ";"))
	return b.String()
}

func (c *concSys) run(steps []concStep) {
	for _, st := range steps {
		switch st.kind {
		case csExec:
			var e *execDecl
			for i := range c.cc.execs {
				if c.cc.execs[i].name == st.arg {
					e = &c.cc.execs[i]
				}
			}
			c.doExec(e)
		case csSync, csSyncDone:
			var w *workerDecl
			for i := range c.cc.workers {
				if c.cc.workers[i].name == st.arg {
					w = &c.cc.workers[i]
				}
			}
			c.doSync(w, st.kind == csSyncDone)
		case csTick:
			c.s.clock.advance(tickUnit)
		case csJoin:
			<-c.done[st.arg]
		case csAddDrain, csRemoveDrain:
			var d *drainDecl
			for i := range c.cc.drains {
				if c.cc.drains[i].name == st.arg {
					d = &c.cc.drains[i]
				}
			}
			c.doDrain(d, st.kind == csAddDrain)
		}
	}
}

func (c *concSys) beginOp(op *hOp) bool {
	s := c.s
	s.mu.Lock()
	defer s.mu.Unlock()
	if s.torn {
		return false
	}
	c.lseq++
	op.begin, op.cb = c.lseq, s.clock.peek()
	op.end, op.ce = math.MaxInt, -1
	c.hist = append(c.hist, op)
	return true
}

// endOp must be called with s.mu held.
func (c *concSys) endOp(op *hOp) {
	if c.s.torn {
		return // the call was released by the teardown: it never returned
	}
	c.lseq++
	op.end, op.ce, op.done = c.lseq, c.s.clock.peek(), true
}

func (c *concSys) doExec(e *execDecl) {
	s := c.s
	if e.share != "" {
		panic("concurrent scenarios do not use shared actions")
	}
	op := &hOp{kind: csExec, e: e}
	s.mu.Lock()
	s.seq++
	n := s.seq
	s.mu.Unlock()
	sum := sha256.Sum256([]byte(fmt.Sprintf("action-%d", n)))
	op.hash = hex.EncodeToString(sum[:])
	s.cas.put(op.hash, &remoteexecution.Action{
		CommandDigest:   &remoteexecution.Digest{Hash: op.hash, SizeBytes: 1},
		InputRootDigest: &remoteexecution.Digest{Hash: op.hash, SizeBytes: 2},
		Platform:        platformName(e.platform),
		Timeout:         durationpb.New(time.Duration(e.dur) * tickUnit),
		Salt:            []byte{byte(n), byte(e.scIdx)},
	})
	s.mu.Lock()
	c.letters[op.hash] = fmt.Sprintf("%s#%d", e.name, n)
	s.mu.Unlock()
	if !c.beginOp(op) {
		return
	}
	md, err := proto.Marshal(&remoteexecution.RequestMetadata{CorrelatedInvocationsId: e.corr, ToolInvocationId: e.tool})
	if err != nil {
		panic(err)
	}
	ctx, cancel := context.WithCancel(metadata.NewIncomingContext(s.ctx, metadata.Pairs("build.bazel.remote.execution.v2.requestmetadata-bin", string(md))))
	defer cancel()
	stream := &fakeStream{ctx: ctx, cancel: cancel}
	stream.onFirst = func(o *longrunningpb.Operation) {
		var meta remoteexecution.ExecuteOperationMetadata
		if err := o.Metadata.UnmarshalTo(&meta); err != nil {
			panic(err)
		}
		s.mu.Lock()
		op.stage = meta.Stage.String()
		s.mu.Unlock()
	}
	err = s.bq.Execute(&remoteexecution.ExecuteRequest{
		InstanceName:    e.inst,
		ActionDigest:    &remoteexecution.Digest{Hash: op.hash, SizeBytes: 100},
		ExecutionPolicy: &remoteexecution.ExecutionPolicy{Priority: e.prio},
	}, stream)
	s.mu.Lock()
	defer s.mu.Unlock()
	op.code = status.Code(err)
	if len(stream.msgs) > 0 {
		op.code = codes.OK // accepted; the error is our own cancellation
	}
	c.endOp(op)
}

func (c *concSys) doSync(w *workerDecl, complete bool) {
	s := c.s
	op := &hOp{kind: csSync, w: w}
	s.mu.Lock()
	if h := c.held[w.name]; complete && h != "" {
		op.complete, op.held = true, h
	}
	s.mu.Unlock()
	if !c.beginOp(op) {
		return
	}
	req := &remoteworker.SynchronizeRequest{
		WorkerId:           map[string]string{"host": w.host},
		InstanceNamePrefix: w.prefix,
		Platform:           platformName(w.platform),
		SizeClass:          w.sc,
	}
	if op.complete {
		req.CurrentState = &remoteworker.CurrentState{WorkerState: &remoteworker.CurrentState_Executing_{Executing: &remoteworker.CurrentState_Executing{
			ActionDigest: &remoteexecution.Digest{Hash: op.held, SizeBytes: 100},
			ExecutionState: &remoteworker.CurrentState_Executing_Completed{Completed: &remoteexecution.ExecuteResponse{
				Result: &remoteexecution.ActionResult{},
			}},
		}}}
	} else {
		req.CurrentState = &remoteworker.CurrentState{WorkerState: &remoteworker.CurrentState_Idle{Idle: &emptypb.Empty{}}}
	}
	resp, err := s.bq.Synchronize(s.ctx, req)
	s.mu.Lock()
	defer s.mu.Unlock()
	op.code = status.Code(err)
	if op.complete {
		delete(c.held, w.name)
	}
	if ex := resp.GetDesiredState().GetExecuting(); err == nil && ex != nil {
		op.got, op.suffix = ex.ActionDigest.GetHash(), ex.InstanceNameSuffix
		c.held[w.name] = op.got
	}
	c.endOp(op)
}

func (c *concSys) doDrain(d *drainDecl, add bool) {
	s := c.s
	op := &hOp{kind: csRemoveDrain, d: d}
	if add {
		op.kind = csAddDrain
	}
	if !c.beginOp(op) {
		return
	}
	req := &buildqueuestate.AddOrRemoveDrainRequest{SizeClassQueueName: scqName(d.prefix, d.platform, d.sc), WorkerIdPattern: d.pattern}
	var err error
	if add {
		_, err = s.bq.AddDrain(s.ctx, req)
	} else {
		_, err = s.bq.RemoveDrain(s.ctx, req)
	}
	s.mu.Lock()
	defer s.mu.Unlock()
	op.code = status.Code(err)
	if err == nil {
		c.active[d.name] = add
	}
	c.endOp(op)
}

// checkFinal is the oracle of the scenarios with operator calls. It judges
// the FINAL state of an interleaving only (transient states - a worker woken
// by AddDrain that has not yet re-entered the scheduler - are legitimate):
// "no task stays queued while an undrained worker of its queue is waiting".
// Every operator and client call has returned by then; a Synchronize call
// that has not returned is a worker waiting for work.
func (c *concSys) checkFinal(x *mc.X) {
	if x.Free() {
		return
	}
	s := c.s
	s.mu.Lock()
	defer s.mu.Unlock()
	var blocked []*hOp
	for _, op := range c.hist {
		switch {
		case op.kind == csSync && !op.done:
			blocked = append(blocked, op)
		case !op.done:
			// A client or operator call that never returned: left to
			// the engine's deadlock detection.
			return
		}
	}
	st := scheduler.VerifSeqSnapshot(s.bq)
	queued := map[scqKey][]string{}
	for _, pq := range st.PlatformQueues {
		for _, q := range pq.SizeClassQueues {
			got := map[string][]string{}
			s.collectQueued(q.Root, got)
			var paths []string
			for p := range got {
				paths = append(paths, p)
			}
			sort.Strings(paths)
			k := scqKey{pqKey{pq.InstanceNamePrefix, s.platNames[pq.Platform]}, q.SizeClass}
			for _, p := range paths {
				for _, h := range got[p] {
					queued[k] = append(queued[k], c.taskName(h))
				}
			}
		}
	}
	var drains []string
	for _, d := range c.cc.drains {
		if c.active[d.name] {
			drains = append(drains, d.name)
		}
	}
	for _, op := range blocked {
		w := op.w
		k := scqKey{pqKey{w.prefix, w.platform}, w.sc}
		drained := false
		for i := range c.cc.drains {
			d := &c.cc.drains[i]
			if c.active[d.name] && (scqKey{pqKey{d.prefix, d.platform}, d.sc}) == k && workerMatches(map[string]string{"host": w.host}, d.pattern) {
				drained = true
			}
		}
		if drained {
			continue
		}
		if len(queued[k]) > 0 {
			x.FailP("C04", "conc/work-conservation", "final state: task(s) %v stay queued in %v while worker %s of that queue is blocked in Synchronize waiting for work and no drain matches it (drains in force: %v).\n  observed calls:\n    %s",
				queued[k], k, w.name, drains, c.renderHistory())
			return
		}
		// A waiting, undrained worker must be one of the workers an
		// arriving task would be handed to (otherwise every later task
		// stays queued next to it): the oracle the sequence explorer
		// applies at every letter boundary.
		for _, pq := range st.PlatformQueues {
			for _, q := range pq.SizeClassQueues {
				if (scqKey{pqKey{pq.InstanceNamePrefix, s.platNames[pq.Platform]}, q.SizeClass}) != k {
					continue
				}
				for _, iw := range q.Workers {
					if s.hostNames[iw.Key] == w.name && !iw.Parked && !iw.Terminating {
						x.FailP("C04", "conc/eligible-worker-not-offered", "final state: worker %s is blocked in Synchronize waiting for work, no drain matches it (drains in force: %v), but it is not among the idle synchronizing workers an arriving task would be handed to.\n  observed calls:\n    %s",
							w.name, drains, c.renderHistory())
						return
					}
				}
			}
		}
	}
	// Every accepted task is somewhere: queued or handed to a worker.
	for _, op := range c.hist {
		if op.kind != csExec || op.code != codes.OK {
			continue
		}
		found := false
		for _, l := range queued {
			for _, n := range l {
				if n == c.taskName(op.hash) {
					found = true
				}
			}
		}
		for _, o := range c.hist {
			if o.kind == csSync && o.got == op.hash {
				found = true
			}
		}
		if !found {
			x.FailP("C04", "conc/task-lost", "final state: task %s was accepted but is neither queued nor was it handed to a worker.\n  observed calls:\n    %s", c.taskName(op.hash), c.renderHistory())
			return
		}
	}
}

// ---------------------------------------------------------------------------
// Rendering

func (c *concSys) taskName(hash string) string {
	if hash == "" {
		return "-"
	}
	if n, ok := c.letters[hash]; ok {
		return n
	}
	return "?" + hash[:6]
}

func (c *concSys) renderOp(op *hOp) string {
	var b strings.Builder
	end, ce := "never", "-"
	if op.done {
		end, ce = fmt.Sprint(op.end), fmt.Sprint(op.ce)
	}
	fmt.Fprintf(&b, "[call@%d return@%s clock %d..%s] ", op.begin, end, op.cb, ce)
	if op.kind == csAddDrain || op.kind == csRemoveDrain {
		name := "AddDrain"
		if op.kind == csRemoveDrain {
			name = "RemoveDrain"
		}
		fmt.Fprintf(&b, "%s %v", name, op.d.pattern)
		if op.done {
			fmt.Fprintf(&b, " -> %s", op.code)
		}
	} else if op.kind == csExec {
		fmt.Fprintf(&b, "Execute %s -> %s %s", c.taskName(op.hash), op.code, op.stage)
	} else {
		fmt.Fprintf(&b, "Synchronize %s", op.w.name)
		if op.complete {
			fmt.Fprintf(&b, " (completed %s)", c.taskName(op.held))
		} else {
			b.WriteString(" (idle)")
		}
		if op.done {
			fmt.Fprintf(&b, " -> %s %s", op.code, c.taskName(op.got))
		} else {
			b.WriteString(" -> blocked")
		}
	}
	return b.String()
}

func (c *concSys) renderHistory() string {
	var l []string
	for _, op := range c.hist {
		l = append(l, c.renderOp(op))
	}
	return strings.Join(l, "\n    ")
}

// ---------------------------------------------------------------------------
// Linearizability against the sequential reference policy.

type linStep struct {
	op *hOp
	t  int
}

const (
	linOK = iota
	linReject
	linUnsupported
)

type linResult struct {
	status  int
	fp, msg string
}

// replay applies the calls in the given order and at the given times to a
// fresh reference model and compares every response with what the policy
// admits.
func (c *concSys) replay(seq []linStep) linResult {
	cfg := c.s.cfg
	var failed *linResult
	m := newModel(epoch, ticks(0), ticks(0), func(prop, fp, format string, args ...any) {
		if failed == nil {
			failed = &linResult{linReject, fp, fmt.Sprintf(format, args...)}
		}
	})
	for _, d := range cfg.predeclared {
		var limits []time.Duration
		for _, l := range d.limits {
			limits = append(limits, time.Duration(l)*tickUnit)
		}
		m.predeclare(pqKey{d.prefix, d.platform}, limits, d.sizeClasses)
	}
	workers := map[string]*mWorker{}
	reject := func(fp, format string, args ...any) linResult {
		return linResult{linReject, fp, fmt.Sprintf(format, args...)}
	}
	for _, st := range seq {
		op := st.op
		now := epoch.Add(time.Duration(st.t) * tickUnit)
		m.expire(now)
		switch op.kind {
		case csExec:
			e := op.e
			if !op.done {
				return linResult{status: linUnsupported}
			}
			t := &mTask{hash: op.hash, inst: e.inst, platform: e.platform,
				dur: time.Duration(e.dur) * tickUnit, scIdx: e.scIdx, letter: c.taskName(op.hash)}
			t.ops = []*mOp{{t: t, path: cfg.modelPath(e), prio: e.prio, at: now}}
			want, t2 := m.execute(t)
			if failed != nil {
				return *failed
			}
			if want != op.code {
				return reject("conc/execute-code", "Execute %s returned %s, expected %s", t.letter, op.code, want)
			}
			if want != codes.OK {
				continue
			}
			switch t2.state {
			case tHanded:
				// Direct hand-over to a blocked worker: two calls take
				// effect at one instant; not modelled here.
				return linResult{status: linUnsupported}
			case tQueued:
				if op.stage != remoteexecution.ExecutionStage_QUEUED.String() {
					return reject("conc/execute-stage", "Execute %s reported %s although no worker was waiting", t.letter, op.stage)
				}
			}
		case csSync:
			w := workers[op.w.name]
			if w == nil {
				d := op.w
				w = &mWorker{name: d.name, id: map[string]string{"host": d.host}, scq: scqKey{pqKey{d.prefix, d.platform}, d.sc}}
				workers[d.name] = w
			}
			kind := syncIdle
			if op.complete {
				if w.task == nil || w.task.hash != op.held {
					return reject("conc/worker-task", "worker %s reports completion of %s which it does not hold at this point", w.name, c.taskName(op.held))
				}
				kind = syncCompleteOK
			} else if w.task != nil {
				return linResult{status: linUnsupported}
			}
			m.preSync(w, kind)
			if failed != nil {
				return *failed
			}
			_, q := m.registered(w)
			if w.expectErr != codes.OK || q == nil {
				return linResult{status: linUnsupported}
			}
			if !op.done {
				// The call never returned: it must not have found work.
				if w.waiting(q) && len(q.queued) > 0 {
					return reject("conc/work-conservation", "Synchronize of undrained worker %s blocks although %s is queued", w.name, q.queued[0].t.letter)
				}
				continue
			}
			if op.code != codes.OK || op.got == "" {
				return linResult{status: linUnsupported}
			}
			if len(q.queued) == 0 {
				// The worker would have blocked until a later Execute
				// handed it a task: not modelled here.
				return linResult{status: linUnsupported}
			}
			m.received(w, op.got, op.suffix)
			if failed != nil {
				return *failed
			}
			m.postSyncReturn(w)
		}
	}
	return linResult{status: linOK}
}

type linVerdict struct {
	ok          bool
	unsupported bool
	replays     int
	deepestLen  int
	deepest     linResult
	deepestSeq  string
}

var linCache sync.Map // rendered history -> *linVerdict

func (c *concSys) linearizable() *linVerdict {
	key := c.renderHistory()
	if v, ok := linCache.Load(key); ok {
		return v.(*linVerdict)
	}
	v := &linVerdict{deepestLen: -1}
	ops := c.hist
	final := c.s.clock.peek()
	used := make([]bool, len(ops))
	var dfs func(seq []linStep, lastT int) bool
	dfs = func(seq []linStep, lastT int) bool {
		if len(seq) > 0 {
			r := c.replay(seq)
			v.replays++
			switch r.status {
			case linReject:
				if len(seq) > v.deepestLen {
					v.deepestLen, v.deepest = len(seq), r
					var l []string
					for _, st := range seq {
						l = append(l, fmt.Sprintf("call@%d at t=%d", st.op.begin, st.t))
					}
					v.deepestSeq = strings.Join(l, ", ")
				}
				return false
			case linUnsupported:
				v.unsupported = true
				return true
			}
		}
		if len(seq) == len(ops) {
			return true
		}
		for i, op := range ops {
			if used[i] {
				continue
			}
			// Real time: every call that returned before op began must
			// already have taken effect.
			eligible := true
			for j, o := range ops {
				if !used[j] && j != i && o.end < op.begin {
					eligible = false
				}
			}
			if !eligible {
				continue
			}
			lo, hi := op.cb, op.ce
			if !op.done {
				hi = final
			}
			if lastT > lo {
				lo = lastT
			}
			for t := lo; t <= hi; t++ {
				used[i] = true
				ok := dfs(append(seq[:len(seq):len(seq)], linStep{op, t}), t)
				used[i] = false
				if ok {
					return true
				}
			}
		}
		return false
	}
	v.ok = dfs(nil, 0)
	linCache.Store(key, v)
	return v
}

func (c *concSys) finish(x *mc.X) {
	s := c.s
	s.mu.Lock()
	defer s.mu.Unlock()
	var out []string
	for _, op := range c.hist {
		if op.kind == csSync {
			out = append(out, fmt.Sprintf("%s<%s", op.w.name, c.taskName(op.got)))
		}
	}
	if x.Free() {
		return
	}
	if len(c.cc.drains) > 0 {
		// Judged by checkFinal at the end of the interleaving.
		x.Outcome("%s", strings.Join(out, ";"))
		return
	}
	v := c.linearizable()
	if v.unsupported {
		out = append(out, "unsupported-order")
	}
	x.Outcome("%s", strings.Join(out, ";"))
	if !v.ok {
		x.FailP("C04", "conc/"+v.deepest.fp, "no order of the observed calls that respects real time explains the responses under the documented policy (%d candidate orders/times examined).\n  observed calls:\n    %s\n  candidate that got furthest (%s) fails with: %s",
			v.replays, c.renderHistory(), v.deepestSeq, v.deepest.msg)
	}
}

// ---------------------------------------------------------------------------
// The scenarios

func concConfigs() []*concConfig {
	four := []workerDecl{w(1, "", "P1", 0), w(2, "", "P1", 0), w(3, "", "P1", 0), w(4, "", "P1", 0)}
	bounds := map[string]int{"quick": -1, "thorough": -1}
	return []*concConfig{
		{
			// "Ties go to the least recently served invocation", with the
			// service times stamped by calls that sampled the clock before
			// they got the scheduler's lock. Z has two operations queued;
			// W:1 asks for work concurrently with: tick, W:2 is served (from
			// Z), tick, two operations of a NEW invocation Y arrive. If W:1
			// is served from Y, that happened after Y appeared, hence after
			// Z was served: the next tie between Y and Z (one executing
			// worker each) must go to Z.
			name: "c04-conc-lrs", workers: four,
			execs: []execDecl{
				{name: "z", platform: "P1", corr: "Z", tool: "T", dur: 1},
				{name: "y", platform: "P1", corr: "Y", tool: "T", dur: 1},
			},
			setup: []concStep{cExec("z"), cExec("z")},
			threads: []concThread{
				{"L", []concStep{cSync("W:1")}},
				{"M", []concStep{cTick(), cSync("W:2"), cTick(), cExec("y"), cExec("y"), cJoin("L"), cSync("W:3"), cSync("W:4")}},
			},
			bounds: bounds,
		},
		{
			// The stickiness window test (level 0, 2 ticks) in a call that
			// sampled the clock while the window was still open: W:1 has
			// served A since t=1; B (appeared at t=0, never served, its
			// best operation of priority 0) is the less recently served
			// one. W:1 reports completion at t=2, concurrently with: tick,
			// a new operation of A arrives at t=3. If W:1 receives that
			// operation it was decided at t>=3, when the window had closed:
			// the tie must have gone to B.
			name: "c04-conc-window", limits: []int{2}, workers: four,
			execs: []execDecl{
				{name: "a", platform: "P1", corr: "A", tool: "T", dur: 1},
				{name: "b.p50", platform: "P1", corr: "B", tool: "T", prio: 50, dur: 1},
				{name: "b", platform: "P1", corr: "B", tool: "T", dur: 1},
			},
			setup: []concStep{cExec("b.p50"), cTick(), cExec("a"), cSync("W:1"), cExec("b"), cTick()},
			threads: []concThread{
				{"L", []concStep{cDone("W:1")}},
				{"M", []concStep{cTick(), cExec("a"), cJoin("L"), cSync("W:2"), cSync("W:3")}},
			},
			bounds: bounds,
		},
		{
			// The start of a stickiness window stamped by a call that
			// sampled the clock early: W:1 asks for work at t=1,
			// concurrently with: tick, invocation A appears at t=2. If W:1
			// is served from A, its window (2 ticks) started at t>=2 and is
			// still open at t=3, when it reports completion and A (served
			// at t>=2) ties with the less recently served B: the window
			// turns the tie, W:1 must stay with A.
			name: "c04-conc-stamp", limits: []int{2}, workers: four,
			execs: []execDecl{
				{name: "a", platform: "P1", corr: "A", tool: "T", dur: 1},
				{name: "b.p50", platform: "P1", corr: "B", tool: "T", prio: 50, dur: 1},
				{name: "b", platform: "P1", corr: "B", tool: "T", dur: 1},
			},
			setup: []concStep{cExec("b.p50"), cTick()},
			threads: []concThread{
				{"L", []concStep{cSync("W:1")}},
				{"M", []concStep{cTick(), cExec("a"), cJoin("L"), cExec("a"), cExec("b"), cTick(), cDone("W:1"), cSync("W:2"), cSync("W:3")}},
			},
			bounds: bounds,
		},
		{
			// The wait loop of worker.getNextTask() against operator calls:
			// W:1 waits for work; the operator adds a drain that matches it
			// (which wakes it up and takes it out of the idle list) and
			// removes the drain again, then a task arrives. In every
			// interleaving - in particular "AddDrain wakes the worker,
			// RemoveDrain completes, only then the worker re-acquires the
			// scheduler's lock" - the history must end with the task at the
			// worker, not queued next to a waiting, undrained worker.
			name: "c04-conc-undrain", workers: four,
			execs:  []execDecl{{name: "a", platform: "P1", corr: "A", tool: "T", dur: 1}},
			drains: []drainDecl{{name: "d:w1", platform: "P1", pattern: map[string]string{"host": "w1"}}},
			threads: []concThread{
				{"L", []concStep{cSync("W:1")}},
				{"M", []concStep{cDrain("d:w1"), cUndrain("d:w1"), cExec("a")}},
			},
			bounds: bounds,
		},
		{
			// Operator calls only, with a scheduling point after every
			// release of the scheduler's lock as well (the wait loop reads
			// scheduler state right before and after dropping the lock): in
			// the end the worker must be back among the workers a new task
			// would be handed to. (No Execute here: a client that gives up
			// while its task changes stage leaves a Go select with two ready
			// cases, which the engine cannot replay.)
			name: "c04-conc-undrain-yield", workers: four, yield: true,
			drains: []drainDecl{{name: "d:w1", platform: "P1", pattern: map[string]string{"host": "w1"}}},
			threads: []concThread{
				{"L", []concStep{cSync("W:1")}},
				{"M", []concStep{cDrain("d:w1"), cUndrain("d:w1")}},
			},
			bounds: bounds,
		},
		{
			// The same with the client as a third thread: the task may
			// arrive before, between and after the operator's calls, and
			// while the worker is between wake-up and re-entry.
			name: "c04-conc-undrain-client", workers: four,
			execs:  []execDecl{{name: "a", platform: "P1", corr: "A", tool: "T", dur: 1}},
			drains: []drainDecl{{name: "d:w1", platform: "P1", pattern: map[string]string{"host": "w1"}}},
			threads: []concThread{
				{"L", []concStep{cSync("W:1")}},
				{"M", []concStep{cDrain("d:w1"), cUndrain("d:w1")}},
				{"K", []concStep{cExec("a")}},
			},
			bounds: bounds,
		},
		{
			// Two waiting workers, a drain that matches every worker (both
			// are woken and must both come back), two tasks. Three threads
			// with a blocking call each: at most 3 preemptions in the quick
			// tier, 5 in the thorough one (unbounded does not finish).
			name: "c04-conc-undrain-two", workers: four,
			execs:  []execDecl{{name: "a", platform: "P1", corr: "A", tool: "T", dur: 1}},
			drains: []drainDecl{{name: "d:all", platform: "P1", pattern: map[string]string{}}},
			threads: []concThread{
				{"L1", []concStep{cSync("W:1")}},
				{"L2", []concStep{cSync("W:2")}},
				{"M", []concStep{cDrain("d:all"), cUndrain("d:all"), cExec("a"), cExec("a")}},
			},
			bounds: map[string]int{"quick": 3, "thorough": 5},
		},
	}
}

func concScenario(cc *concConfig) *mc.Scenario {
	var cur *concSys
	return &mc.Scenario{
		Name:             cc.name,
		Props:            []string{"C04"},
		Liveness:         []string{"C04"},
		Panics:           []string{"C04"},
		Bounds:           cc.bounds,
		YieldAfterUnlock: cc.yield,
		Build:            func(x *mc.X) { cur = buildConc(x, cc) },
		Finish:           func(x *mc.X) { cur.finish(x) },
	}
}
