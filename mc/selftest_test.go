package mc

import (
	"fmt"
	"os"
	"os/exec"
	"path/filepath"
	"strings"
	"testing"

	"github.com/buildbarn/bb-remote-execution/pkg/verifsync"
)

// Toy system: a counter incremented non-atomically by 3 threads. Used to
// validate that state-key pruning finds the same set of final values as the
// plain stateless search, and that a seeded lost-update is always found.
func counterScenario(keyed bool, final map[int]int) *Scenario {
	return &Scenario{
		Name: "counter", Props: []string{"T"},
		Build: func(x *X) {
			var mu verifsync.Mutex
			c := 0
			if keyed {
				x.SetKey(func() string { return fmt.Sprint(c) })
			}
			done := 0
			for i := 0; i < 3; i++ {
				x.Go(fmt.Sprintf("T%d", i), func() {
					mu.Lock()
					v := c
					mu.Unlock()
					mu.Lock()
					c = v + 1
					done++
					if done == 3 {
						final[c]++
						if c < 3 {
							x.FailP("T", "lost", "lost update: c=%d", c)
						}
					}
					mu.Unlock()
				})
			}
		},
	}
}

func TestPruningAgreesWithStateless(t *testing.T) {
	f1, f2 := map[int]int{}, map[int]int{}
	known := map[string]bool{"T/lost": true}
	r1 := Explore(t, counterScenario(false, f1), Options{Bound: -1, Known: known}, func(*Result) {})
	r2 := Explore(t, counterScenario(true, f2), Options{Bound: -1, Known: known}, func(*Result) {})
	t.Logf("stateless: execs=%d finals=%v; pruned: execs=%d states=%d finals=%v", r1.Executions, f1, r2.Executions, r2.States, f2)
	if len(f1) != len(f2) || len(f1) != 3 {
		t.Fatalf("final value sets differ: %v vs %v", f1, f2)
	}
	if len(r1.Violations) != 1 || len(r2.Violations) != 1 {
		t.Fatalf("violations: %d %d", len(r1.Violations), len(r2.Violations))
	}
	if r2.Executions >= r1.Executions {
		t.Fatalf("pruning did not reduce executions")
	}
	// Bounded: 0 preemptions cannot lose an update... (each thread runs to completion)
	f3 := map[int]int{}
	r3 := Explore(t, counterScenario(true, f3), Options{Bound: 0, Known: known}, func(*Result) {})
	t.Logf("bound 0: execs=%d finals=%v", r3.Executions, f3)
	// Replay of the recorded counterexample reproduces it.
	v := r2.Violations[0]
	for i := 0; i < 5; i++ {
		rr, _ := Replay(t, counterScenario(true, map[int]int{}), v.Choices)
		if rr.violation == nil || rr.violation.Fingerprint != v.Fingerprint {
			t.Fatalf("replay %d did not reproduce", i)
		}
	}
}

// A recursive read lock on an RWMutex deadlocks in Go iff a writer arrives
// between the two RLock calls (writer preference). The engine must find it.
func TestRecursiveRLockDeadlockFound(t *testing.T) {
	if testing.Short() {
		t.Skip()
	}
	sc := &Scenario{
		Name: "rrlock", Props: []string{"T"}, Liveness: []string{"T"},
		Build: func(x *X) {
			var mu verifsync.RWMutex
			x.Go("R", func() {
				mu.RLock()
				mu.RLock()
				mu.RUnlock()
				mu.RUnlock()
			})
			x.Go("W", func() {
				mu.Lock()
				mu.Unlock()
			})
		},
	}
	if os.Getenv("MC_SELFTEST_CHILD") == "" {
		// the worker process exits on a deadlock; run it as a child
		cmd := exec.Command(os.Args[0], "-test.run", "^TestRecursiveRLockDeadlockFound$")
		out := filepath.Join(t.TempDir(), "res.json")
		cmd.Env = append(os.Environ(), "MC_SELFTEST_CHILD=1", "MC_OUT="+out)
		if b, err := cmd.CombinedOutput(); err != nil {
			t.Fatalf("child: %v\n%s", err, b)
		}
		b, _ := os.ReadFile(out)
		if !strings.Contains(string(b), "T/deadlock/") {
			t.Fatalf("deadlock not reported: %s", b)
		}
		return
	}
	activeProp = "T"
	res := Explore(t, sc, Options{Prop: "T", Bound: -1}, writeResult)
	writeResult(res)
}
