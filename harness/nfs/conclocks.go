package nfs

import (
	"fmt"
	"strings"

	"verif/mc"

	"github.com/buildbarn/go-xdr/pkg/protocols/nfsv4"
)

// Engine A scenarios for C20: LOCK / LOCKU / CLOSE requests of DIFFERENT
// clients for overlapping ranges of one file, in flight at the same time.
// The NFSv4.1 server serialises the requests of one client only, and the
// NFSv4.0 and NFSv4.1 servers share one OpenedFilesPool: the per-file lock
// table is the only place where requests of different clients meet
// (opened_files_pool.go is built with the sync shim, so its lock operations
// are scheduling points).
//
// Oracles:
//   - at every quiescent point the granted locks are mutually compatible (no
//     two protocol level owners hold a common byte unless both are shared);
//   - when all requests have returned there is a linearization of them
//     (respecting each client's program order and the real-time order of
//     requests that did not overlap) under which the sequential POSIX model
//     gives exactly the observed replies (granted / denied, and a denial names
//     a lock that is really held at that point), and the server's lock tables
//     equal the model at the end of that linearization.

type lockReqKind int

const (
	reqLock lockReqKind = iota
	reqLocku
	reqClose
)

// lockAlt is one concrete request; a step offers one or more of them
// (enumerated as free choices).
type lockAlt struct {
	kind   lockReqKind
	r      lockRange
	shared bool
}

func (a lockAlt) String() string {
	switch a.kind {
	case reqLock:
		return fmt.Sprintf("LOCK %s %s", a.r.name, map[bool]string{true: "shared", false: "excl"}[a.shared])
	case reqLocku:
		return "LOCKU " + a.r.name
	}
	return "CLOSE"
}

// lockThread is the script of one client: minor version, client, open-owner
// (which has the file open since the prefix) and lock-owner.
type lockThread struct {
	name                        string
	minor                       int
	client, owner, file, lowner string
	slot                        uint32
	steps                       [][]lockAlt
}

// lockRec is what is known about one request.
type lockRec struct {
	who, file  string
	alt        lockAlt
	releases   []string // CLOSE: the lock-owners whose locks it releases
	preds      uint64   // requests that had returned when this one was issued
	done       bool
	status     nfsv4.Nfsstat4
	denied     *nfsv4.Lock4denied
	start, end uint64
	rok        bool
}

func (l *lockRec) String() string {
	s := fmt.Sprintf("%s %s", l.who, l.alt)
	if !l.done {
		return s + " (in progress)"
	}
	s += fmt.Sprintf(" -> %d", l.status)
	if l.denied != nil {
		s += fmt.Sprintf(" denied by %x/%s off=%d len=%d type=%d", l.denied.Owner.Clientid, l.denied.Owner.Owner, l.denied.Offset, l.denied.Length, l.denied.Locktype)
	}
	return s + fmt.Sprintf(" after=%b", l.preds)
}

// lockRecs is the per-execution record of all requests (part of the key).
type lockRecs struct {
	recs     []*lockRec
	returned uint64
}

func (r *results) lockDump() string {
	if r.locks == nil {
		return ""
	}
	r.mu.Lock()
	defer r.mu.Unlock()
	var b strings.Builder
	for _, l := range r.locks.recs {
		if l == nil {
			b.WriteString("-|")
		} else {
			b.WriteString(l.String() + "|")
		}
	}
	return b.String()
}

func (r *results) begin(id int, l *lockRec) {
	r.mu.Lock()
	l.preds = r.locks.returned
	r.locks.recs[id] = l
	r.mu.Unlock()
}

func (r *results) end(id int, st nfsv4.Nfsstat4, denied *nfsv4.Lock4denied) {
	r.mu.Lock()
	l := r.locks.recs[id]
	l.done, l.status, l.denied = true, st, denied
	r.locks.returned |= 1 << uint(id)
	r.mu.Unlock()
}

func lockerFor(sid *nfsv4.Stateid4, lockSeq uint32, openSid nfsv4.Stateid4, openSeq uint32, clientID uint64, lowner string) nfsv4.Locker4 {
	if sid != nil {
		return &nfsv4.Locker4_FALSE{LockOwner: nfsv4.ExistLockOwner4{LockStateid: *sid, LockSeqid: lockSeq}}
	}
	return &nfsv4.Locker4_TRUE{OpenOwner: nfsv4.OpenToLockOwner4{
		OpenSeqid: openSeq, OpenStateid: openSid, LockSeqid: lockSeq,
		LockOwner: nfsv4.LockOwner4{Clientid: clientID, Owner: []byte(lowner)},
	}}
}

// run executes the script; ids[i] is the record slot of step i.
func (t lockThread) run(base int) func(w *world, x *mc.X, r *results) {
	return func(w *world, x *mc.X, r *results) {
		var (
			clientID          uint64
			leaf              *fakeLeaf
			openSid           nfsv4.Stateid4
			lockSid           *nfsv4.Stateid4
			openSeq, lockSeq  uint32 // NFSv4.0: last consumed
			sess              *session41
			slotSeq           uint32
			otherLockOwners   []string
			me                = ownerKey(t.minor, t.client, t.lowner)
			closed, lockState bool
		)
		if t.minor == 0 {
			c := w.client40(t.client)
			o := c.owner(t.owner)
			op := o.files[t.file]
			clientID, leaf, openSid, openSeq, lockSeq = c.id, op.leaf, op.sid, o.seq, c.lowner(t.lowner).seq
			for _, ln := range sortedKeys(op.locks) {
				if l := op.locks[ln]; ln == t.lowner && l.valid {
					sid := l.sid
					lockSid = &sid
				} else if l.valid {
					otherLockOwners = append(otherLockOwners, ownerKey(0, t.client, ln))
				}
			}
		} else {
			c := w.c41[t.client]
			op := open41of(w, t.client, t.owner, t.file)
			sess = c.session()
			clientID, leaf, openSid, slotSeq = c.id, op.leaf, op.sid, sess.seq[t.slot]
			for _, ln := range sortedKeys(op.locks) {
				if l := op.locks[ln]; ln == t.lowner && l.valid {
					sid := l.sid
					lockSid = &sid
				} else if l.valid {
					otherLockOwners = append(otherLockOwners, ownerKey(1, t.client, ln))
				}
			}
		}
		lockState = lockSid != nil
		send := func(what string, ops ...nfsv4.NfsArgop4) (*nfsv4.Compound4res, int) {
			if t.minor == 0 {
				return w.compound(0, what, ops...), 1
			}
			slotSeq++
			return w.compound(1, what, append([]nfsv4.NfsArgop4{sequenceOp(sess, t.slot, slotSeq)}, ops...)...), 2
		}
		for si, alts := range t.steps {
			x.ResetLocal(fmt.Sprintf("%d:%v:%v", si, closed, lockState))
			c := 0
			if len(alts) > 1 {
				c = x.ChooseFree(fmt.Sprintf("%s request %d", t.name, si), len(alts))
			}
			a := alts[c]
			if closed || (a.kind == reqLocku && lockSid == nil) {
				continue
			}
			id := base + si
			rec := &lockRec{who: me, file: leaf.id, alt: a}
			rec.start, rec.end, rec.rok = rangeOf(a.r.offset, a.r.length)
			switch a.kind {
			case reqLock:
				viaOpen := lockSid == nil
				r.begin(id, rec)
				res, idx := send(a.String(), putfh(leaf.handle), &nfsv4.NfsArgop4_OP_LOCK{Oplock: nfsv4.Lock4args{
					Locktype: lockType(a.shared), Offset: a.r.offset, Length: a.r.length,
					Locker: lockerFor(lockSid, nextSeq(lockSeq), openSid, nextSeq(openSeq), clientID, t.lowner),
				}})
				st := opStatus(res, idx)
				var denied *nfsv4.Lock4denied
				if len(res.Resarray) > idx {
					switch lr := res.Resarray[idx].(*nfsv4.NfsResop4_OP_LOCK).Oplock.(type) {
					case *nfsv4.Lock4res_NFS4_OK:
						sid := lr.Resok4.LockStateid
						lockSid = &sid
						lockState = true
					case *nfsv4.Lock4res_NFS4ERR_DENIED:
						denied = &lr.Denied
					}
				}
				// NFSv4.0 sequence numbers: a LOCK through the open state
				// ID consumes the open-owner's number and, once the nested
				// lock-owner transaction ran, the new lock-owner's first
				// number; one through the lock state ID the lock-owner's.
				if t.minor == 0 && consumed(st) && len(res.Resarray) > idx {
					if viaOpen {
						openSeq = nextSeq(openSeq)
						if st == nfsv4.NFS4_OK || st == nfsv4.NFS4ERR_DENIED || st == nfsv4.NFS4ERR_INVAL {
							lockSeq = nextSeq(lockSeq)
						}
					} else {
						lockSeq = nextSeq(lockSeq)
					}
				}
				r.end(id, st, denied)
			case reqLocku:
				r.begin(id, rec)
				res, idx := send(a.String(), putfh(leaf.handle), &nfsv4.NfsArgop4_OP_LOCKU{Oplocku: nfsv4.Locku4args{
					Locktype: nfsv4.WRITE_LT, Seqid: nextSeq(lockSeq), LockStateid: *lockSid, Offset: a.r.offset, Length: a.r.length,
				}})
				st := opStatus(res, idx)
				if len(res.Resarray) > idx {
					if ok, is := res.Resarray[idx].(*nfsv4.NfsResop4_OP_LOCKU).Oplocku.(*nfsv4.Locku4res_NFS4_OK); is {
						sid := ok.LockStateid
						lockSid = &sid
					}
				}
				if t.minor == 0 && consumed(st) {
					lockSeq = nextSeq(lockSeq)
				}
				r.end(id, st, nil)
			case reqClose:
				rec.releases = append(append([]string(nil), otherLockOwners...), me)
				r.begin(id, rec)
				res, idx := send(a.String(), putfh(leaf.handle), &nfsv4.NfsArgop4_OP_CLOSE{Opclose: nfsv4.Close4args{Seqid: nextSeq(openSeq), OpenStateid: openSid}})
				st := opStatus(res, idx)
				if t.minor == 0 && consumed(st) {
					openSeq = nextSeq(openSeq)
				}
				if st == nfsv4.NFS4_OK {
					closed = true
				}
				r.end(id, st, nil)
			}
		}
	}
}

// linearizeLocks searches for a sequential order of the recorded requests
// that explains all replies; it returns the model at the end of that order,
// or nil and a description of the closest attempt.
func linearizeLocks(w *world, initial *lockModel, recs []*lockRec) (*lockModel, string) {
	var ids []int
	for id, l := range recs {
		if l != nil {
			ids = append(ids, id)
		}
	}
	best, bestLen := "", -1
	var order []int
	var rec func(done uint64, m *lockModel) *lockModel
	rec = func(done uint64, m *lockModel) *lockModel {
		if len(order) == len(ids) {
			return m
		}
		for _, id := range ids {
			l := recs[id]
			if done&(1<<uint(id)) != 0 || l.preds&^done != 0 {
				continue
			}
			blocked := false
			for _, id2 := range ids {
				if id2 < id && recs[id2].who == l.who && done&(1<<uint(id2)) == 0 {
					blocked = true
				}
			}
			if blocked {
				continue
			}
			m2 := m.clone()
			why := ""
			switch l.alt.kind {
			case reqLock:
				want := nfsv4.NFS4_OK
				if !l.rok {
					want = nfsv4.NFS4ERR_INVAL
				} else if m.conflict(l.file, l.who, l.start, l.end, l.alt.shared) != nil {
					want = nfsv4.NFS4ERR_DENIED
				}
				switch {
				case l.status != want:
					why = fmt.Sprintf("answered %d, the model (%s) says %d", l.status, segments(m.files[l.file]), want)
				case want == nfsv4.NFS4ERR_DENIED && l.denied != nil:
					_, why = m.deniedProblem(w, l.String(), l.file, l.who, l.start, l.end, l.alt.shared, l.denied)
				case want == nfsv4.NFS4_OK:
					mode := 1
					if l.alt.shared {
						mode = 2
					}
					m2.set(l.file, l.who, l.start, l.end, mode)
				}
			case reqLocku:
				want := nfsv4.NFS4_OK
				if !l.rok {
					want = nfsv4.NFS4ERR_INVAL
				}
				if l.status != want {
					why = fmt.Sprintf("answered %d instead of %d", l.status, want)
				} else if l.rok {
					m2.set(l.file, l.who, l.start, l.end, 0)
				}
			case reqClose:
				if l.status != nfsv4.NFS4_OK {
					why = fmt.Sprintf("answered %d", l.status)
				}
				for _, o := range l.releases {
					m2.releaseOwner(l.file, o)
				}
			}
			if why != "" {
				if len(order) > bestLen {
					bestLen, best = len(order), fmt.Sprintf("after order %v, request %d (%s) cannot come next: %s", order, id, l, why)
				}
				continue
			}
			order = append(order, id)
			m3 := rec(done|1<<uint(id), m2)
			order = order[:len(order)-1]
			if m3 != nil {
				return m3
			}
		}
		return nil
	}
	if m := rec(0, initial.clone()); m != nil {
		return m, ""
	}
	return nil, best
}

// incompatibleGranted is the quiescent-point monitor: the lock tables of the
// pool never hold two locks of different owners that share a byte unless
// both are shared.
func incompatibleGranted(w *world, x *mc.X, r *results) {
	for _, f := range w.pool.VerifNFSPool() {
		for i := 0; i < len(f.Locks); i++ {
			for j := i + 1; j < len(f.Locks); j++ {
				a, b := f.Locks[i], f.Locks[j]
				if (a.Clientid != b.Clientid || a.Owner != b.Owner) && a.Start < b.End && b.Start < a.End && !(a.Shared && b.Shared) {
					x.FailP("C20", "concurrent/incompatible-locks-granted", "the lock table of %s holds [%d,%d) shared=%v of %s/%s and [%d,%d) shared=%v of %s/%s at the same time (requests so far: %s)", f.Handle,
						a.Start, a.End, a.Shared, w.clientName(a.Clientid), a.Owner, b.Start, b.End, b.Shared, w.clientName(b.Clientid), b.Owner, r.lockDump())
				}
			}
		}
	}
}

// lockScenario builds an Engine A scenario from client scripts.
func lockScenario(name string, bounds map[string]int, prefix func(w *world, f failer), threads ...lockThread) *mc.Scenario {
	total := 0
	var cts []concThread
	for _, t := range threads {
		cts = append(cts, concThread{t.name, t.run(total)})
		total += len(t.steps)
	}
	return concScenario(concSpec{name: name, props: []string{"C20"}, liveness: []string{"C20"}, bounds: bounds, prefix: prefix, threads: cts,
		lockRecords: total, monitorProp: "C20", monitor: incompatibleGranted,
		finish: func(w *world, x *mc.X, r *results) {
			incompatibleGranted(w, x, r)
			m, why := linearizeLocks(w, w.locks, r.locks.recs)
			if m == nil {
				x.FailP("C20", "concurrent/no-linearization", "no sequential order of the concurrent requests explains their replies under POSIX record-lock semantics. Requests: %s. Locks before: %s. Closest attempt: %s", r.lockDump(), w.locks.dump(), why)
				return
			}
			// The server's tables must hold exactly what the model
			// holds at the end of the linearization.
			w.refreshNames()
			w.locks = m
			w.locks.compare(w, x)
		}})
}

func scenariosLocks() []*mc.Scenario {
	lock := func(r lockRange, shared bool) lockAlt { return lockAlt{reqLock, r, shared} }
	either := func(r lockRange) []lockAlt { return []lockAlt{lock(r, false), lock(r, true)} }
	locku := func(r lockRange) []lockAlt { return []lockAlt{{reqLocku, r, false}} }
	closeIt := []lockAlt{{kind: reqClose}}
	unbounded := map[string]int{"quick": -1, "thorough": -1}

	open40 := prefix40Open("c1", "O1", "a", accBoth)
	open41d1 := prefix41Open("d1", "O1", "a", accBoth)
	open41d2 := prefix41Open("d2", "O1", "a", accBoth)
	t40 := func(steps ...[]lockAlt) lockThread {
		return lockThread{name: "c1", minor: 0, client: "c1", owner: "O1", file: "a", lowner: "L1", steps: steps}
	}
	t41 := func(cl string, steps ...[]lockAlt) lockThread {
		return lockThread{name: cl, minor: 1, client: cl, owner: "O1", file: "a", lowner: "L1", steps: steps}
	}
	return []*mc.Scenario{
		// An NFSv4.0 and an NFSv4.1 client (two servers, one pool), every
		// combination of exclusive / shared on overlapping ranges.
		lockScenario("c4x-lock-lock", unbounded, chain(open40, open41d1),
			t40(either(rangeB01)), t41("d1", either(rangeTail))),
		// Two NFSv4.1 clients (the server serialises per client only);
		// d1 gives up an exclusive lock and takes a shared one while d2
		// asks for the same bytes.
		lockScenario("c41-lock-unlock-lock", map[string]int{"quick": 3, "thorough": -1}, chain(open41d1, open41d2, func(w *world, f failer) {
			w.client41("d1").lock(f, open41of(w, "d1", "O1", "a"), "L1", rangeB0, false, false)
		}), t41("d1", locku(rangeB0), []lockAlt{lock(rangeB01, true)}), t41("d2", either(rangeB01))),
		// Three clients: the NFSv4.0 holder closes its file (which
		// releases its lock) while two NFSv4.1 clients lock.
		lockScenario("c4x-close-lock-lock", map[string]int{"quick": 2, "thorough": -1}, chain(open40, open41d1, open41d2, func(w *world, f failer) {
			w.client40("c1").lock(f, "O1", "a", "L1", rangeAll, false)
		}), t40(closeIt), t41("d1", []lockAlt{lock(rangeB0, false)}), t41("d2", []lockAlt{lock(rangeB01, true)})),
	}
}
