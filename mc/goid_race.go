//go:build race

package mc

// The race detector enables checkptr, which rejects reading the runtime's g
// struct; the (free-running) race pass does not need a fast goid.
var goidOffset uintptr

func goid() int64 { return slowGoid() }
