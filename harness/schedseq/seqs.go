package schedseq

import (
	"context"
	"fmt"
	"sort"
	"strings"

	"verif/mc"

	remoteexecution "github.com/bazelbuild/remote-apis/build/bazel/remote/execution/v2"
	schedulerpb "github.com/buildbarn/bb-remote-execution/pkg/proto/configuration/scheduler"
	"github.com/buildbarn/bb-remote-execution/pkg/scheduler/initialsizeclass"
	"github.com/buildbarn/bb-remote-execution/pkg/scheduler/invocation"
	"github.com/buildbarn/bb-remote-execution/pkg/scheduler/platform"
	"github.com/buildbarn/bb-remote-execution/pkg/scheduler/routing"
	"github.com/buildbarn/bb-storage/pkg/digest"
	"google.golang.org/grpc/codes"
	"google.golang.org/grpc/status"
	"google.golang.org/protobuf/types/known/emptypb"
)

// Engine B: direct enumeration of operation sequences on the two sequential
// components C05 anchors besides the build queue: platform.Trie and
// routing.DemultiplexingActionRouter. Reference: a map plus a naive
// longest-prefix scan. States are NOT merged (the key is the history), since
// the internal shape of the trie is not observable: every sequence up to the
// depth is executed.

var (
	seqPrefixes  = []string{"", "a", "a/b", "b"}
	seqPlatforms = []string{"P1", "P2"}
	seqProbes    = []string{"", "a", "a/b", "a/b/c", "ab", "b", "b/a", "c"}
)

type refEntry struct {
	prefix, platform string
	value            int
}

func refLongest(ref []refEntry, inst, plat string) int {
	best, bestLen := -1, -1
	for _, e := range ref {
		if e.platform == plat && instancePrefixOf(e.prefix, inst) && len(e.prefix) > bestLen {
			best, bestLen = e.value, len(e.prefix)
		}
	}
	return best
}

func refExact(ref []refEntry, inst, plat string) int {
	for _, e := range ref {
		if e.platform == plat && e.prefix == inst {
			return e.value
		}
	}
	return -1
}

type trieState struct {
	trie *platform.Trie
	ref  []refEntry
	hist []string
}

func trieSeq() *mc.Seq {
	var ops []mc.SeqOp
	find := func(st *trieState, p, q string) int {
		for i, e := range st.ref {
			if e.prefix == p && e.platform == q {
				return i
			}
		}
		return -1
	}
	n := 0
	for _, p := range seqPrefixes {
		for _, q := range seqPlatforms {
			p, q := p, q
			n++
			v := n
			ops = append(ops, mc.SeqOp{Name: fmt.Sprintf("set %q %s =%d", p, q, v), Do: func(c *mc.SeqCtx, s any) {
				st := s.(*trieState)
				st.trie.Set(platform.MustNewKey(p, platforms[q]), v)
				if i := find(st, p, q); i >= 0 {
					st.ref[i].value = v
				} else {
					st.ref = append(st.ref, refEntry{p, q, v})
				}
				st.hist = append(st.hist, fmt.Sprintf("s%d", v))
			}})
			// Overwrite with another value (the scheduler does this when
			// it moves the last platform queue into a freed slot).
			ops = append(ops, mc.SeqOp{Name: fmt.Sprintf("set %q %s =0", p, q), Enabled: func(s any) bool { return find(s.(*trieState), p, q) >= 0 }, Do: func(c *mc.SeqCtx, s any) {
				st := s.(*trieState)
				st.trie.Set(platform.MustNewKey(p, platforms[q]), 0)
				st.ref[find(st, p, q)].value = 0
				st.hist = append(st.hist, fmt.Sprintf("z%d", v))
			}})
			ops = append(ops, mc.SeqOp{Name: fmt.Sprintf("remove %q %s", p, q), Enabled: func(s any) bool { return find(s.(*trieState), p, q) >= 0 }, Do: func(c *mc.SeqCtx, s any) {
				st := s.(*trieState)
				st.trie.Remove(platform.MustNewKey(p, platforms[q]))
				i := find(st, p, q)
				st.ref = append(st.ref[:i:i], st.ref[i+1:]...)
				st.hist = append(st.hist, fmt.Sprintf("r%d", v))
			}})
		}
	}
	return &mc.Seq{
		Name: "c05-trie", Props: []string{"C05"}, Panics: []string{"C05"},
		New:   func(c *mc.SeqCtx) any { return &trieState{trie: platform.NewTrie()} },
		Ops:   ops,
		Key:   func(s any) string { return strings.Join(s.(*trieState).hist, ",") },
		Depth: map[string]int{"quick": 4, "thorough": 5},
		Check: func(c *mc.SeqCtx, s any) {
			st := s.(*trieState)
			for _, inst := range seqProbes {
				for _, q := range seqPlatforms {
					k := platform.MustNewKey(inst, platforms[q])
					if got, want := st.trie.GetLongestPrefix(k), refLongest(st.ref, inst, q); got != want {
						c.FailP("C05", "trie/longest-prefix", "after %v: GetLongestPrefix(%q, %s) = %d, the longest registered prefix has value %d (registered: %v)", st.hist, inst, q, got, want, st.ref)
						return
					}
					if got, want := st.trie.GetExact(k), refExact(st.ref, inst, q); got != want {
						c.FailP("C05", "trie/exact", "after %v: GetExact(%q, %s) = %d, want %d (registered: %v)", st.hist, inst, q, got, want, st.ref)
						return
					}
					if got, want := st.trie.ContainsExact(k), refExact(st.ref, inst, q) >= 0; got != want {
						c.FailP("C05", "trie/contains", "after %v: ContainsExact(%q, %s) = %v, want %v (registered: %v)", st.hist, inst, q, got, want, st.ref)
						return
					}
				}
			}
		},
	}
}

// ---------------------------------------------------------------------------

type tagRouter struct{ tag string }

func (r tagRouter) RouteAction(ctx context.Context, digestFunction digest.Function, action *remoteexecution.Action, requestMetadata *remoteexecution.RequestMetadata) (*remoteexecution.Action, platform.Key, []invocation.Key, initialsizeclass.Selector, error) {
	return action, platform.Key{}, []invocation.Key{invocation.Key(r.tag)}, nil, nil
}

type demuxState struct {
	ar   *routing.DemultiplexingActionRouter
	ref  []refEntry
	tags []string
	hist []string
}

func demuxSeq() *mc.Seq {
	var ops []mc.SeqOp
	for _, p := range seqPrefixes {
		for _, q := range seqPlatforms {
			p, q := p, q
			ops = append(ops, mc.SeqOp{Name: fmt.Sprintf("register %q %s", p, q), Do: func(c *mc.SeqCtx, s any) {
				st := s.(*demuxState)
				tag := fmt.Sprintf("router#%d(%q,%s)", len(st.tags), p, q)
				err := st.ar.RegisterActionRouter(mustInst(p), platforms[q], tagRouter{tag})
				dup := refExact(st.ref, p, q) >= 0
				st.hist = append(st.hist, fmt.Sprintf("%q/%s", p, q))
				switch {
				case dup && status.Code(err) != codes.AlreadyExists:
					c.FailP("C05", "demux/duplicate", "after %v: second registration of (%q, %s) returned %v, want AlreadyExists", st.hist, p, q, err)
				case !dup && err != nil:
					c.FailP("C05", "demux/register", "after %v: registration of (%q, %s) failed: %v", st.hist, p, q, err)
				case !dup:
					st.ref = append(st.ref, refEntry{p, q, len(st.tags)})
					st.tags = append(st.tags, tag)
				}
			}})
		}
	}
	return &mc.Seq{
		Name: "c05-demux", Props: []string{"C05"}, Panics: []string{"C05"},
		New: func(c *mc.SeqCtx) any {
			return &demuxState{ar: routing.NewDemultiplexingActionRouter(platform.ActionKeyExtractor, tagRouter{"default"})}
		},
		Ops: ops,
		Key: func(s any) string {
			st := s.(*demuxState)
			// Registration order determines the stored indices.
			var l []string
			for _, e := range st.ref {
				l = append(l, fmt.Sprintf("%q/%s", e.prefix, e.platform))
			}
			return strings.Join(l, ",")
		},
		Depth: map[string]int{"quick": 4, "thorough": 6},
		Check: func(c *mc.SeqCtx, s any) {
			st := s.(*demuxState)
			for _, inst := range seqProbes {
				for _, q := range seqPlatforms {
					_, _, keys, _, err := st.ar.RouteAction(context.Background(), digest.MustNewFunction(inst, remoteexecution.DigestFunction_SHA256), &remoteexecution.Action{Platform: platforms[q]}, nil)
					want := "default"
					if i := refLongest(st.ref, inst, q); i >= 0 {
						want = st.tags[i]
					}
					if err != nil || len(keys) != 1 || string(keys[0]) != want {
						c.FailP("C05", "demux/route", "after registering %v: request for instance %q platform %s was routed to %v (err %v), the router with the longest registered prefix is %s", st.hist, inst, q, keys, err, want)
						return
					}
				}
			}
		},
	}
}

// ---------------------------------------------------------------------------
// Platform key extraction: every implementation of platform.KeyExtractor of
// pkg/scheduler/platform (ActionKeyExtractor, StaticKeyExtractor; obtained
// directly and through NewKeyExtractorFromConfiguration) and the real routers
// built from them. A platform.Key carries the INSTANCE NAME of the request
// besides the platform; the longest-prefix lookups of C05 are made with it.
// Oracle: the Key (resp. error) a call returns is a function of that one
// request - NewKey(request's instance name, platform the extractor is
// documented to use) - whatever requests the same extractor object served
// before.

var badPlatform = &remoteexecution.Platform{Properties: []*remoteexecution.Platform_Property{{Name: "os", Value: "linux"}, {Name: "arch", Value: "arm64"}}}

var kxInstances = []string{"", "a", "a/b", "x"}

type kxExtractor struct {
	name string
	ke   platform.KeyExtractor
	// fixed: the platform a static extractor was created with ("" for an
	// extractor that reads the Action).
	fixed string
}

type kxState struct {
	exts []*kxExtractor
	// rewrite: demultiplexing on the Action's platform, with platform
	// rewriting routers registered for P2 (-> P1 below "", -> Pa below "a").
	rewrite *routing.DemultiplexingActionRouter
	// byInstance: a StaticKeyExtractor as the demultiplexing extractor
	// itself, so that only the instance name selects the backend.
	byInstance *routing.DemultiplexingActionRouter
	hist       []string
}

func kxPlatform(name string) *remoteexecution.Platform {
	if name == "bad" {
		return badPlatform
	}
	return platforms[name]
}

func newKxState() *kxState {
	st := &kxState{}
	fromCfg := func(c *schedulerpb.PlatformKeyExtractorConfiguration) platform.KeyExtractor {
		ke, err := platform.NewKeyExtractorFromConfiguration(c, nil)
		if err != nil {
			panic(err)
		}
		return ke
	}
	st.exts = []*kxExtractor{
		{name: "action", ke: platform.ActionKeyExtractor},
		{name: "cfg-action", ke: fromCfg(&schedulerpb.PlatformKeyExtractorConfiguration{Kind: &schedulerpb.PlatformKeyExtractorConfiguration_Action{Action: &emptypb.Empty{}}})},
		{name: "static(P1)", ke: platform.NewStaticKeyExtractor(platforms["P1"]), fixed: "P1"},
		{name: "static(P2)", ke: platform.NewStaticKeyExtractor(platforms["P2"]), fixed: "P2"},
		{name: "cfg-static(P1)", ke: fromCfg(&schedulerpb.PlatformKeyExtractorConfiguration{Kind: &schedulerpb.PlatformKeyExtractorConfiguration_Static{Static: platforms["P1"]}}), fixed: "P1"},
		{name: "static(bad)", ke: platform.NewStaticKeyExtractor(badPlatform), fixed: "bad"},
	}
	simple := func(ke platform.KeyExtractor) routing.ActionRouter {
		return routing.NewSimpleActionRouter(ke, nil, scriptedAnalyzer{})
	}
	st.rewrite = routing.NewDemultiplexingActionRouter(platform.ActionKeyExtractor, simple(platform.ActionKeyExtractor))
	if err := st.rewrite.RegisterActionRouter(mustInst(""), platforms["P2"], simple(platform.NewStaticKeyExtractor(platforms["P1"]))); err != nil {
		panic(err)
	}
	if err := st.rewrite.RegisterActionRouter(mustInst("a"), platforms["P2"], simple(platform.NewStaticKeyExtractor(platforms["Pa"]))); err != nil {
		panic(err)
	}
	st.byInstance = routing.NewDemultiplexingActionRouter(platform.NewStaticKeyExtractor(platforms["P2"]), tagRouter{"default"})
	for _, p := range []string{"a", "x"} {
		if err := st.byInstance.RegisterActionRouter(mustInst(p), platforms["P2"], tagRouter{"backend:" + p}); err != nil {
			panic(err)
		}
	}
	return st
}

// kxCompare checks one returned key against NewKey(inst, want platform).
func kxCompare(c *mc.SeqCtx, st *kxState, fp, what, inst, wantPlat string, got platform.Key, err error) {
	want, wantErr := platform.NewKey(mustInst(inst), kxPlatform(wantPlat))
	switch {
	case status.Code(err) != status.Code(wantErr):
		c.FailP("C05", fp+"/error", "after %v: %s for instance name %q returned error %v, a first call with this request returns %v", st.hist, what, inst, err, wantErr)
	case err != nil:
	case got.GetInstanceNamePrefix().String() != inst:
		c.FailP("C05", fp+"/instance-name", "after %v: %s for a request with instance name %q returned a platform key for instance name %q (platform %s): the request would be queued under the wrong instance name prefix", st.hist, what, inst, got.GetInstanceNamePrefix().String(), got.GetPlatformString())
	case got != want:
		c.FailP("C05", fp+"/platform", "after %v: %s for instance name %q returned platform %s, want %s", st.hist, what, inst, got.GetPlatformString(), want.GetPlatformString())
	}
}

func keyExtractorSeq() *mc.Seq {
	var ops []mc.SeqOp
	ctx := context.Background()
	df := func(inst string) digest.Function {
		return digest.MustNewFunction(inst, remoteexecution.DigestFunction_SHA256)
	}
	proto := newKxState()
	for ei, e := range proto.exts {
		ei, e := ei, e
		aps := []string{"P2"}
		if e.fixed == "" {
			aps = []string{"P1", "P2", "bad"}
		}
		for _, inst := range kxInstances {
			for _, ap := range aps {
				inst, ap := inst, ap
				name := fmt.Sprintf("%s.ExtractKey(%q,%s)", e.name, inst, ap)
				ops = append(ops, mc.SeqOp{Name: name, Do: func(c *mc.SeqCtx, s any) {
					st := s.(*kxState)
					st.hist = append(st.hist, name)
					want := st.exts[ei].fixed
					if want == "" {
						want = ap
					}
					got, err := st.exts[ei].ke.ExtractKey(ctx, df(inst), &remoteexecution.Action{Platform: kxPlatform(ap)})
					kxCompare(c, st, "key-extractor", name, inst, want, got, err)
				}})
			}
		}
	}
	for _, inst := range kxInstances {
		for _, ap := range []string{"P1", "P2"} {
			inst, ap := inst, ap
			name := fmt.Sprintf("rewrite.RouteAction(%q,%s)", inst, ap)
			ops = append(ops, mc.SeqOp{Name: name, Do: func(c *mc.SeqCtx, s any) {
				st := s.(*kxState)
				st.hist = append(st.hist, name)
				// Reference: the router registered for the longest prefix
				// of (instance name, Action's platform) decides the platform.
				want := ap
				if ap == "P2" {
					want = "P1"
					if instancePrefixOf("a", inst) {
						want = "Pa"
					}
				}
				_, got, _, _, err := st.rewrite.RouteAction(ctx, df(inst), &remoteexecution.Action{Platform: kxPlatform(ap)}, nil)
				kxCompare(c, st, "route-rewrite", name, inst, want, got, err)
			}})
		}
		name := fmt.Sprintf("byInstance.RouteAction(%q)", inst)
		ops = append(ops, mc.SeqOp{Name: name, Do: func(c *mc.SeqCtx, s any) {
			st := s.(*kxState)
			st.hist = append(st.hist, name)
			want := "default"
			for _, p := range []string{"a", "x"} {
				if instancePrefixOf(p, inst) {
					want = "backend:" + p
				}
			}
			_, _, keys, _, err := st.byInstance.RouteAction(ctx, df(inst), &remoteexecution.Action{Platform: platforms["P1"]}, nil)
			if err != nil || len(keys) != 1 || string(keys[0]) != want {
				c.FailP("C05", "route-by-instance", "after %v: request for instance name %q was routed to %v (err %v) by a demultiplexing router keyed with a static platform, the router with the longest registered prefix is %s", st.hist, inst, keys, err, want)
			}
		}})
	}
	return &mc.Seq{
		Name: "c05-keyextract", Props: []string{"C05"}, Panics: []string{"C05"},
		New: func(c *mc.SeqCtx) any { return newKxState() },
		Ops: ops,
		// No merging: the internal state of the extractors is not
		// observable, every sequence up to the depth is executed.
		Key:   func(s any) string { return strings.Join(s.(*kxState).hist, ",") },
		Depth: map[string]int{"quick": 3, "thorough": 4},
	}
}

func seqs() []*mc.Seq {
	l := []*mc.Seq{trieSeq(), demuxSeq(), keyExtractorSeq()}
	sort.Slice(l, func(i, j int) bool { return l[i].Name < l[j].Name })
	return l
}
