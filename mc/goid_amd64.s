//go:build !race

#include "textflag.h"

// func getg() unsafe.Pointer
TEXT ·getg(SB),NOSPLIT,$0-8
	MOVQ (TLS), R14
	MOVQ R14, ret+0(FP)
	RET
