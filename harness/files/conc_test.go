package files

import (
	"bytes"
	"context"
	"fmt"
	"sort"
	"strings"
	"sync"

	"verif/mc"

	"github.com/buildbarn/bb-remote-execution/pkg/builder"
	"github.com/buildbarn/bb-remote-execution/pkg/filesystem/virtual"
	"github.com/buildbarn/bb-storage/pkg/digest"
	"google.golang.org/grpc/codes"
	"google.golang.org/grpc/status"
)

// Part 2: Engine A. Uploads racing with writers, unlinks and the expiry of
// the bounded wait for writers, on the same real file as in part 1.

// world is one fresh system under test plus the harness's bookkeeping.
type world struct {
	x    *mc.X
	pool *fakePool
	cas  *fakeCAS
	log  *recordingErrorLogger
	leaf virtual.LinkableLeaf
	// bd: uploads of the reuploader threads go through this real virtual
	// build directory (nil unless worldCfg.viaDirectory).
	bd builder.BuildDirectory

	delay chan struct{}
	fired bool
	// uploadCtx is the context of the uploader threads; with
	// worldCfg.cancellable an environment event cancels it at any point
	// while an upload is in progress (or before it starts).
	uploadCtx       context.Context
	cancelUpload    context.CancelFunc
	uploadCancelled bool

	// mu protects everything below; it is a real mutex that is never
	// held across a scheduling point.
	mu sync.Mutex
	// held counts references that certainly exist (acquiring call
	// returned, releasing call not yet started); pending counts
	// references that may or may not exist (acquire, release or upload
	// in progress).
	held, pending int
	// entries counts the directory entries whose removal has not begun
	// (so that certainly exist); only maintained by the hard-link
	// scenarios.
	entries int
	// uploadsLeft is the number of uploads that have not returned yet.
	uploadsLeft int
	// writerDone is set when the writer thread (every writer thread, if
	// there are several) has given up or closed.
	writerDone             bool
	writers, writersDone int
	// want is the expected contents (single mutator per scenario).
	want []byte
	// Freeze tracking (maintained by the monitor): contents at the
	// moment the number of frozen descriptors last became non-zero.
	prevFrozen  uint
	snap        []byte
	snapVersion int
	// expect[thread] is what the CAS must receive from that thread.
	expect map[string][]byte
	// casFailed[thread] is set if the fake CAS refused its Put.
	casFailed map[string]bool
	// startVersion[thread] is the pool file version when its upload began.
	startVersion map[string]int
	results      []string
}

func (w *world) fail(fp, format string, args ...any) { w.x.FailP(prop, fp, format, args...) }
func (w *world) pf() *poolFile                       { return w.pool.files[0] }
func (w *world) oracles() bool                       { return !w.x.Free() && mc.Active(prop) }

func (w *world) me() string {
	if t := w.x.Current(); t != nil {
		return t.Name
	}
	return ""
}

// Reference bookkeeping.
func (w *world) add(held, pending int) {
	w.mu.Lock()
	w.held += held
	w.pending += pending
	w.mu.Unlock()
}
func (w *world) acquireBegin()      { w.add(0, 1) }
func (w *world) acquireEnd(ok bool) { w.add(map[bool]int{true: 1, false: 0}[ok], -1) }
func (w *world) releaseBegin()      { w.add(-1, 1) }
func (w *world) releaseEnd()        { w.add(0, -1) }

func (w *world) result(format string, args ...any) {
	w.mu.Lock()
	w.results = append(w.results, fmt.Sprintf(format, args...))
	if strings.HasPrefix(format, "W=") {
		w.writerDone = true
	}
	if strings.HasPrefix(format, "%s=W:") {
		w.writersDone++
		w.writerDone = w.writersDone >= w.writers
	}
	w.mu.Unlock()
}

type worldCfg struct {
	nfs bool
	// initial contents, written through the file during Build.
	initial string
	// cache a digest of the initial contents (upload during Build).
	cached bool
	// keep a write descriptor open from Build on.
	heldWriter bool
	// let the fake CAS fail a Put (one deviation).
	casMayFail bool
	// extraLinks: number of additional hard links created during Build.
	extraLinks int
	// heldReader: keep a read descriptor open from Build on.
	heldReader bool
	// viaDirectory: the file is the entry of a real in-memory directory
	// wrapped in a real virtual build directory (part 4, dir_test.go).
	viaDirectory bool
	// cancellable: the context of the uploads may be cancelled at any
	// point (free environment event).
	cancellable bool
}

func newWorld(x *mc.X, cfg worldCfg) *world {
	w := &world{x: x, log: &recordingErrorLogger{}, cas: &fakeCAS{}, delay: make(chan struct{}), expect: map[string][]byte{}, casFailed: map[string]bool{}, startVersion: map[string]int{}}
	w.pool = &fakePool{fail: w.fail}
	w.uploadCtx = ctx
	if cfg.cancellable {
		w.uploadCtx, w.cancelUpload = context.WithCancel(context.Background())
		x.AddEvent(&mc.Event{
			Name: "upload-context-cancelled",
			Free: true,
			Enabled: func() bool {
				w.mu.Lock()
				defer w.mu.Unlock()
				return !w.uploadCancelled && w.uploadsLeft > 0
			},
			Fire: func() {
				w.mu.Lock()
				w.uploadCancelled = true
				w.mu.Unlock()
				w.cancelUpload()
			},
		})
	}
	if cfg.viaDirectory {
		w.leaf, w.bd = newDirFile(w.pool, w.log, cfg.nfs, 0, w.cas)
	} else {
		w.leaf = newLeaf(w.pool, w.log, cfg.nfs, 0)
	}
	w.held = 1 // the directory entry

	// Initial contents, written through a descriptor that is closed again.
	var attr virtual.Attributes
	if s := w.leaf.VirtualOpenSelf(ctx, virtual.ShareMaskWrite, &virtual.OpenExistingOptions{}, 0, &attr); s != virtual.StatusOK {
		panic("cannot open")
	}
	if len(cfg.initial) > 0 {
		if _, s := w.leaf.VirtualWrite(ctx, []byte(cfg.initial), 0); s != virtual.StatusOK {
			panic("cannot write")
		}
	}
	w.want = []byte(cfg.initial)
	if cfg.heldWriter {
		w.held++
	} else {
		w.leaf.VirtualClose(virtual.ShareMaskWrite)
	}
	if cfg.cached {
		// With a descriptor still open for writing the upload gives up
		// waiting at once (the delay passed here has expired already).
		if _, err := uploadVia(w.bd, w.leaf, w.cas, sha256Fn, closedChannel); err != nil {
			panic(err)
		}
	}

	w.entries = 1
	for i := 0; i < cfg.extraLinks; i++ {
		if s := w.leaf.Link(); s != virtual.StatusOK {
			panic("cannot link")
		}
		w.held++
		w.entries++
	}
	if cfg.heldReader {
		if s := w.leaf.VirtualOpenSelf(ctx, virtual.ShareMaskRead, &virtual.OpenExistingOptions{}, 0, &attr); s != virtual.StatusOK {
			panic("cannot open for reading")
		}
		w.held++
	}

	w.cas.who = w.me
	w.cas.enter = func(d digest.Digest) bool {
		who := w.me()
		// Everything the uploading thread carries from here on is
		// determined by the digest it computed, the version at which
		// it started (used by its final check) and global state: its
		// observation history can be forgotten (state pruning).
		w.mu.Lock()
		start := w.startVersion[who]
		w.mu.Unlock()
		x.ResetLocal(fmt.Sprintf("%s:put:%s:%d", who, d, start))
		if w.oracles() {
			// The caller holds a frozen descriptor: what it is
			// going to send are the contents at the freeze instant.
			// (The dump is taken outside w.mu: reading the FUSE link count
			// is a scheduling point when its atomics are shimmed.)
			d, _ := virtual.VerifFilesDump(w.leaf)
			w.mu.Lock()
			if d.FrozenDescriptorsCount > 0 {
				w.expect[who] = append([]byte(nil), w.snap...)
			} else {
				w.expect[who] = append([]byte(nil), w.pf().data...)
			}
			w.mu.Unlock()
		}
		// The reference of the upload certainly exists from here ...
		w.add(1, -1)
		ok := true
		if cfg.casMayFail {
			ok = x.Choose("cas.Put", 2) == 0
		} else {
			x.Point("cas.Put")
		}
		// ... until the buffer is consumed or discarded.
		w.add(-1, 1)
		if !ok {
			w.mu.Lock()
			w.casFailed[who] = true
			w.mu.Unlock()
		}
		return ok
	}
	w.cas.received = func(who string, data []byte) {
		if !w.oracles() {
			return
		}
		w.mu.Lock()
		want := w.expect[who]
		w.mu.Unlock()
		if !bytes.Equal(data, want) {
			w.fail("cas-bytes-not-freeze-instant", "%s: the CAS received %q, but the file contained %q when it was frozen for this upload", who, data, want)
		}
	}

	x.AddEvent(&mc.Event{
		Name: "writable-file-delay-expires",
		Free: true,
		Enabled: func() bool {
			w.mu.Lock()
			defer w.mu.Unlock()
			// Once the only writer is gone for good nobody can
			// observe the expiry any more.
			return !w.fired && w.uploadsLeft > 0 && !w.writerDone
		},
		Fire: func() {
			w.fired = true
			close(w.delay)
		},
	})
	x.Monitor(prop, w.monitor)
	x.SetKey(w.key)
	return w
}

// lifetime evaluates the reference counting oracle on a consistent snapshot
// (quiescent point or end of the execution).
func (w *world) lifetime(when string) {
	pf := w.pf()
	w.mu.Lock()
	held, pending := w.held, w.pending
	w.mu.Unlock()
	if pf.closed > 0 && held > 0 {
		w.fail("released-early", "%s: the pool file was closed while %d reference(s) certainly exist (%d more in transit)", when, held, pending)
	}
	if pf.closed == 0 && held == 0 && pending == 0 {
		w.fail("not-released", "%s: every directory entry, descriptor and upload is gone but the pool file was not closed", when)
	}
}

// monitor runs at every quiescent point.
func (w *world) monitor() {
	d, ok := virtual.VerifFilesDump(w.leaf)
	if !ok {
		panic("not a pool-backed file")
	}
	pf := w.pf()
	if d.FrozenDescriptorsCount > 0 {
		if w.prevFrozen == 0 {
			w.snap = append([]byte(nil), pf.data...)
			w.snapVersion = pf.version()
		} else if pf.version() != w.snapVersion {
			w.fail("mutated-while-frozen", "the contents changed from %q to %q while %d frozen descriptor(s) were open", w.snap, pf.data, d.FrozenDescriptorsCount)
		}
	}
	w.prevFrozen = d.FrozenDescriptorsCount
	w.lifetime("at a quiescent point")
}

func (w *world) key() string {
	d, _ := virtual.VerifFilesDump(w.leaf)
	pf := w.pf()
	cached := "none"
	if d.CachedDigest != digest.BadDigest {
		cached = d.CachedDigest.String()
	}
	w.mu.Lock()
	defer w.mu.Unlock()
	var b strings.Builder
	fmt.Fprintf(&b, "impl{rc=%d w=%d fz=%d nil=%v size=%d nmw=%v ufw=%v cached=%s hl=%d} pool{closed=%d uac=%d v=%d data=%q} env{fired=%v} model{held=%d pend=%d ent=%d up=%d want=%q pf=%d snap=%q/%d}",
		d.ReferenceCount, d.WritableDescriptorsCount, d.FrozenDescriptorsCount, d.FileIsNil, d.Size,
		d.NoMoreWritersWakeupSet, d.UnfreezeWakeupSet, cached, d.HandleLinkCount,
		pf.closed, pf.usesAfterClose, pf.version(), pf.data, fmt.Sprint(w.fired, w.uploadCancelled),
		w.held, w.pending, w.entries, w.uploadsLeft, w.want, w.prevFrozen, w.snap, w.snapVersion)
	// The order of Puts and results does not influence anything later.
	var tail []string
	w.cas.mu.Lock()
	for _, p := range w.cas.puts {
		tail = append(tail, fmt.Sprintf("put{%s %q failed=%v err=%v}", p.who, p.data, p.failed, p.err != nil))
	}
	w.cas.mu.Unlock()
	tail = append(tail, w.results...)
	sort.Strings(tail)
	b.WriteString(strings.Join(tail, " "))
	for _, who := range []string{"U", "U1", "U2"} {
		if e, ok := w.expect[who]; ok {
			fmt.Fprintf(&b, " expect{%s %q}", who, e)
		}
	}
	return b.String()
}

// ---------------------------------------------------------------------------
// Thread bodies

// uploader runs one UploadFile and checks its result.
func (w *world) uploader(name string) {
	w.mu.Lock()
	w.uploadsLeft++
	w.mu.Unlock()
	w.x.Go(name, func() {
		x := w.x
		startVersion := 0
		if w.oracles() {
			startVersion = w.pf().version()
			w.mu.Lock()
			w.startVersion[name] = startVersion
			w.mu.Unlock()
		}
		w.add(0, 1)
		d, err := uploadFileCtx(w.uploadCtx, w.leaf, w.cas, sha256Fn, w.delay)
		x.CheckNoLocksHeld("UploadFile")
		w.add(0, -1)
		w.mu.Lock()
		w.uploadsLeft--
		cancelled := w.uploadCancelled
		w.mu.Unlock()
		if !w.oracles() {
			return
		}
		pf := w.pf()
		puts := w.cas.putsSince(0, name)
		if err != nil {
			w.mu.Lock()
			casFailed := w.casFailed[name]
			w.mu.Unlock()
			switch {
			case casFailed:
				w.result("%s=cas-error", name)
			case cancelled && status.Code(err) == codes.Canceled:
				// The caller went away: the upload may fail, but it
				// is over now - whatever reference it took has to be
				// given back (lifetime oracle, writer liveness).
				for _, p := range puts {
					if !p.failed {
						w.fail("cancelled-upload-stored", "%s: UploadFile failed with %v although the CAS accepted the contents", name, err)
					}
				}
				w.result("%s=cancelled", name)
			case status.Code(err) == codes.NotFound && pf.closed > 0 && len(puts) == 0:
				// The file lost its last reference before the
				// upload could take one.
				w.result("%s=not-found", name)
			default:
				w.fail("upload-failed", "%s: UploadFile failed although the file was referenced and the CAS healthy (pool file closed=%d, puts=%d): %v", name, pf.closed, len(puts), err)
			}
			return
		}
		data, ok := checkUpload(w.fail, sha256Fn, d, puts)
		if !ok {
			return
		}
		// Independent of the dump hook: the bytes are the contents
		// the file had at some instant during the call.
		found := false
		for v := startVersion; v < len(pf.history); v++ {
			if bytes.Equal(pf.history[v], data) {
				found = true
			}
		}
		if !found {
			w.fail("upload-content-never-existed", "%s: the CAS received %q, which the file never contained during the upload (versions %q)", name, data, pf.history[startVersion:])
		}
		w.result("%s=%q", name, data)
	})
}

// statter asks for the Bazel Output Service stat of the file, which reports
// (and caches) a digest unless writers exist.
func (w *world) statter() {
	w.x.Go("S", func() {
		startVersion := 0
		if w.oracles() {
			startVersion = w.pf().version()
		}
		w.add(0, 1)
		d, present, err := statDigest(w.leaf)
		w.x.CheckNoLocksHeld("GetBazelOutputServiceStat")
		w.add(0, -1)
		if !w.oracles() {
			return
		}
		pf := w.pf()
		switch {
		case err != nil:
			if pf.closed == 0 {
				w.fail("stat-failed", "GetBazelOutputServiceStat failed although the file was never released: %v", err)
			}
			w.result("S=error")
		case !present:
			w.result("S=no-digest")
		default:
			found := false
			for v := startVersion; v < len(pf.history); v++ {
				if d == digestOf(sha256Fn, pf.history[v]) {
					found = true
					w.result("S=%q", pf.history[v])
					break
				}
			}
			if !found {
				w.fail("stat-digest-mismatch", "GetBazelOutputServiceStat reported %s, which is not the digest of any contents the file had during the call (%q)", d, pf.history[startVersion:])
			}
		}
	})
}

type mutation int

const (
	mutWrite mutation = iota
	mutTruncate
	mutAllocate
)

// writer opens the file for writing (unless it already holds the descriptor
// that Build left open), changes the contents once and closes.
func (w *world) writer(open, truncOnOpen bool, m mutation) {
	w.writerNamed("W", open, truncOnOpen, m)
}

// writerNamed: several mutating threads on the same file (named W1, W2, ...;
// "W" is the single writer of the older scenarios). Their mutations commute
// (write of byte 1, extension to 3 bytes), so that the expected contents do
// not depend on their order.
func (w *world) writerNamed(name string, open, truncOnOpen bool, m mutation) {
	multi := name != "W"
	if multi {
		w.writers++
	}
	done := func(what string) {
		if multi {
			w.result("%s=W:%s", name, what)
		} else {
			w.result("W=%s", what)
		}
	}
	w.x.Go(name, func() {
		x := w.x
		if open {
			var attr virtual.Attributes
			w.acquireBegin()
			s := w.leaf.VirtualOpenSelf(ctx, virtual.ShareMaskWrite, &virtual.OpenExistingOptions{Truncate: truncOnOpen}, 0, &attr)
			x.CheckNoLocksHeld("VirtualOpenSelf")
			w.acquireEnd(s == virtual.StatusOK)
			if s != virtual.StatusOK {
				if w.oracles() && w.pf().closed == 0 {
					w.fail("open-failed", "VirtualOpenSelf returned status %d although the file was never released", s)
				}
				done("stale")
				return
			}
			if truncOnOpen {
				w.mu.Lock()
				w.want = nil
				w.mu.Unlock()
			}
			x.ResetLocal(name + ":opened")
		}
		switch m {
		case mutWrite:
			n, s := w.leaf.VirtualWrite(ctx, []byte("X"), 1)
			x.CheckNoLocksHeld("VirtualWrite")
			if s != virtual.StatusOK || n != 1 {
				w.fail("write-failed", "VirtualWrite returned n=%d status=%d", n, s)
			}
			w.mu.Lock()
			if len(w.want) < 2 {
				w.want = append(w.want, make([]byte, 2-len(w.want))...)
			}
			w.want[1] = 'X'
			w.mu.Unlock()
		case mutTruncate:
			var out virtual.Attributes
			s := w.leaf.VirtualSetAttributes(ctx, (&virtual.Attributes{}).SetSizeBytes(1), virtual.AttributesMaskSizeBytes, &out)
			x.CheckNoLocksHeld("VirtualSetAttributes")
			if s != virtual.StatusOK {
				w.fail("truncate-failed", "VirtualSetAttributes(size) returned status %d", s)
			}
			w.mu.Lock()
			if len(w.want) >= 1 {
				w.want = w.want[:1]
			} else {
				w.want = []byte{0}
			}
			w.mu.Unlock()
		case mutAllocate:
			s := w.leaf.VirtualAllocate(ctx, 1, 2)
			x.CheckNoLocksHeld("VirtualAllocate")
			if s != virtual.StatusOK {
				w.fail("allocate-failed", "VirtualAllocate returned status %d", s)
			}
			w.mu.Lock()
			if len(w.want) < 3 {
				w.want = append(w.want, make([]byte, 3-len(w.want))...)
			}
			w.mu.Unlock()
		}
		x.ResetLocal(name + ":mutated")
		w.releaseBegin()
		w.leaf.VirtualClose(virtual.ShareMaskWrite)
		x.CheckNoLocksHeld("VirtualClose")
		w.releaseEnd()
		done("done")
	})
}

// unlinker removes the directory entry.
func (w *world) unlinker() {
	w.x.Go("L", func() {
		w.releaseBegin()
		w.leaf.Unlink()
		w.x.CheckNoLocksHeld("Unlink")
		w.releaseEnd()
	})
}

// entryRemover removes one of the directory entries (hard links) of the file.
func (w *world) entryRemover(name string) {
	w.x.Go(name, func() {
		w.mu.Lock()
		w.entries--
		w.mu.Unlock()
		w.releaseBegin()
		w.leaf.Unlink()
		w.x.CheckNoLocksHeld("Unlink")
		w.releaseEnd()
		w.result("%s=unlinked", name)
	})
}

// relinker tries to create one more directory entry while the others are
// being removed, and removes it again if that worked. Link may only refuse
// if the link count was zero at some instant of the call, i.e. if the removal
// of every entry had at least begun when it returned.
func (w *world) relinker() {
	w.x.Go("K", func() {
		x := w.x
		w.acquireBegin()
		s := w.leaf.Link()
		x.CheckNoLocksHeld("Link")
		w.mu.Lock()
		certain := w.entries
		if s == virtual.StatusOK {
			w.entries++
		}
		w.mu.Unlock()
		w.acquireEnd(s == virtual.StatusOK)
		if s != virtual.StatusOK {
			if certain > 0 {
				w.fail("link-failed", "Link returned status %d although %d directory entr(y/ies) of the file existed during the whole call", s, certain)
			}
			w.result("K=refused")
			return
		}
		x.ResetLocal("K:linked")
		w.mu.Lock()
		w.entries--
		w.mu.Unlock()
		w.releaseBegin()
		w.leaf.Unlink()
		x.CheckNoLocksHeld("Unlink")
		w.releaseEnd()
		w.result("K=linked+unlinked")
	})
}

// readerCloser closes the read descriptor that Build left open, after
// reading through it (the storage must still be there).
func (w *world) readerCloser() {
	w.x.Go("C", func() {
		buf := make([]byte, 8)
		n, _, s := w.leaf.VirtualRead(ctx, buf, 0)
		w.x.CheckNoLocksHeld("VirtualRead")
		if s != virtual.StatusOK || !bytes.Equal(buf[:n], w.want) {
			w.fail("read-through-descriptor", "VirtualRead through an open descriptor returned %q status %d, the file contains %q", buf[:n], s, w.want)
		}
		w.x.ResetLocal("C:read")
		w.releaseBegin()
		w.leaf.VirtualClose(virtual.ShareMaskRead)
		w.x.CheckNoLocksHeld("VirtualClose")
		w.releaseEnd()
		w.result("C=closed")
	})
}

// linker creates a second directory entry and then removes both.
func (w *world) linker() {
	w.x.Go("K", func() {
		x := w.x
		w.acquireBegin()
		s := w.leaf.Link()
		x.CheckNoLocksHeld("Link")
		w.acquireEnd(s == virtual.StatusOK)
		if s != virtual.StatusOK {
			// The thread itself still holds the original entry.
			w.fail("link-failed", "Link returned status %d on a file that has a directory entry", s)
			return
		}
		for i := 0; i < 2; i++ {
			x.ResetLocal(fmt.Sprintf("K:%d", i))
			w.releaseBegin()
			w.leaf.Unlink()
			x.CheckNoLocksHeld("Unlink")
			w.releaseEnd()
		}
	})
}

func (w *world) finish() {
	x := w.x
	if !w.oracles() {
		return
	}
	w.lifetime("at the end")
	pf := w.pf()
	if pf.closed == 0 && !bytes.Equal(pf.data, w.want) {
		w.fail("content-lost", "the file is still referenced and should contain %q, its storage holds %q", w.want, pf.data)
	}
	if pf.closed > 1 || pf.usesAfterClose > 0 {
		w.fail("final-release", "pool file closed %d times, used %d times after that", pf.closed, pf.usesAfterClose)
	}
	x.Outcome("closed=%d data=%q fired=%v %s", pf.closed, pf.data, w.fired, strings.Join(w.results, " "))
}

func concScenario(name string, cfg worldCfg, shards int, spawn func(w *world)) *mc.Scenario {
	var cur *world
	props := []string{prop}
	if shards == 0 {
		// The cheaper scenarios also serve the lock-leak / deadlock
		// property of the virtual file system, and are small enough
		// for an unbounded (state-pruned) search in the thorough tier.
		// The others are searched up to 4 preemptions there, split
		// over several processes.
		props = append(props, "C14")
	}
	return &mc.Scenario{
		Name:     name,
		Props:    props,
		Shards:   shards,
		Liveness: []string{prop, "C14"},
		Livelock: []string{prop, "C14"},
		Panics:   []string{prop},
		Bounds:   map[string]int{"quick": 2, "thorough": map[bool]int{false: -1, true: 4}[shards > 0]},
		Build: func(x *mc.X) {
			cur = newWorld(x, cfg)
			spawn(cur)
		},
		Finish: func(x *mc.X) { cur.finish() },
	}
}

// linkScenario: all interleavings (unbounded, state pruned) in both tiers.
func linkScenario(name string, cfg worldCfg, spawn func(w *world)) *mc.Scenario {
	sc := concScenario(name, cfg, 0, spawn)
	sc.Bounds = map[string]int{"quick": -1, "thorough": -1}
	return sc
}

func scenarios() []*mc.Scenario {
	var r []*mc.Scenario
	for _, nfs := range []bool{false, true} {
		suffix := map[bool]string{false: "fuse", true: "nfs"}[nfs]
		// Upload of a file with a cached digest, racing with a writer
		// that invalidates it and with the removal of the last entry;
		// the CAS may fail.
		r = append(r, concScenario("upload-write-unlink/"+suffix, worldCfg{nfs: nfs, initial: "ab", cached: true, casMayFail: true}, 0, func(w *world) {
			w.uploader("U")
			w.writer(true, false, mutWrite)
			w.unlinker()
		}))
	}
	// Two uploads (two frozen readers) around one writer: the writer must
	// wait for both and must be woken by the last one.
	r = append(r, concScenario("upload-upload-write/fuse", worldCfg{initial: "ab"}, 4, func(w *world) {
		w.uploader("U1")
		w.uploader("U2")
		w.writer(true, false, mutWrite)
	}))
	// TWO mutating calls (write || allocate) parked behind ONE frozen
	// descriptor (the upload): when the upload closes it, BOTH must be woken
	// (a wake-up channel per waiter, of which only the last is closed, leaves
	// the earlier waiter asleep for ever).
	for _, nfs := range []bool{false, true} {
		suffix := map[bool]string{false: "fuse", true: "nfs"}[nfs]
		r = append(r, concScenario("upload-write-allocate/"+suffix, worldCfg{nfs: nfs, initial: "ab"}, 0, func(w *world) {
			w.uploader("U")
			w.writerNamed("W1", true, false, mutWrite)
			w.writerNamed("W2", true, false, mutAllocate)
		}))
	}
	// The file is still open for writing when the upload starts: the
	// upload waits for the close or for the delay to expire, whichever
	// comes first.
	r = append(r, concScenario("heldwriter-upload-unlink/fuse", worldCfg{initial: "ab", heldWriter: true}, 0, func(w *world) {
		w.uploader("U")
		w.writer(false, false, mutWrite)
		w.unlinker()
	}))
	// The caller of the upload goes away (context cancelled) at any point:
	// before the upload starts, during the bounded wait for the writer, or
	// around the transfer. The upload may fail then, but once it has
	// returned it is not "in progress" any more: the writer must not stay
	// blocked behind a frozen descriptor, and after the writer closed and the
	// entry was removed the storage is released.
	for _, nfs := range []bool{false, true} {
		suffix := map[bool]string{false: "fuse", true: "nfs"}[nfs]
		sc := concScenario("heldwriter-upload-cancel-unlink/"+suffix, worldCfg{nfs: nfs, initial: "ab", heldWriter: true, cancellable: true}, 0, func(w *world) {
			w.uploader("U")
			w.writer(false, false, mutWrite)
			w.unlinker()
		})
		// Two free environment events (delay expiry, cancellation) at every
		// point: bounded more tightly than the other scenarios, C16 only.
		sc.Props = []string{prop}
		sc.Bounds = map[string]int{"quick": 1, "thorough": 3}
		r = append(r, sc)
	}
	// O_TRUNC and allocation against an upload while hard links come and go.
	r = append(r, concScenario("upload-trunc-link/nfs", worldCfg{nfs: true, initial: "abc", cached: true}, 0, func(w *world) {
		w.uploader("U")
		w.writer(true, true, mutAllocate)
		w.linker()
	}))
	// Two uploads waiting for the same writer, which truncates.
	r = append(r, concScenario("heldwriter-upload-truncate/nfs", worldCfg{nfs: true, initial: "abc", heldWriter: true}, 4, func(w *world) {
		w.uploader("U1")
		w.uploader("U2")
		w.writer(false, false, mutTruncate)
	}))
	// The digest computed (and cached) for the Bazel Output Service
	// racing with a writer, followed by an upload that may reuse it.
	r = append(r, concScenario("stat-write-upload/fuse", worldCfg{initial: "ab"}, 4, func(w *world) {
		w.statter()
		w.writer(true, false, mutWrite)
		w.uploader("U")
	}))
	// Hard links removed concurrently while a descriptor is open: the
	// handle allocator in front of the file must forward exactly ONE Unlink
	// (for the removal that takes the link count to zero) to the file, or
	// the file loses a reference that a descriptor still relies on.
	for _, nfs := range []bool{true, false} {
		suffix := map[bool]string{false: "fuse", true: "nfs"}[nfs]
		// Both entries and the descriptor go away: released exactly once,
		// exactly with the last of the three.
		r = append(r, linkScenario("unlink-unlink-close/"+suffix, worldCfg{nfs: nfs, initial: "ab", extraLinks: 1, heldReader: true}, func(w *world) {
			w.entryRemover("L1")
			w.entryRemover("L2")
			w.readerCloser()
		}))
		// The descriptor stays: the storage must survive both removals
		// and a racing Link (which may be refused once no entry is left).
		r = append(r, linkScenario("unlink-unlink-link/"+suffix, worldCfg{nfs: nfs, initial: "ab", extraLinks: 1, heldReader: true}, func(w *world) {
			w.entryRemover("L1")
			w.entryRemover("L2")
			w.relinker()
		}))
		// Three entries, three concurrent removals, descriptor stays.
		r = append(r, linkScenario("unlink-x3/"+suffix, worldCfg{nfs: nfs, initial: "ab", extraLinks: 2, heldReader: true}, func(w *world) {
			w.entryRemover("L1")
			w.entryRemover("L2")
			w.entryRemover("L3")
		}))
	}
	r = append(r, dirScenarios()...)
	return append(r, reachScenarios()...)
}
