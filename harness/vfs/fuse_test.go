package vfs

import (
	"fmt"
	"sort"
	"strings"
	"syscall"

	"verif/mc"

	"github.com/buildbarn/bb-remote-execution/pkg/filesystem/virtual"
	re_fuse "github.com/buildbarn/bb-remote-execution/pkg/filesystem/virtual/fuse"
	"github.com/hanwen/go-fuse/v2/fuse"
)

// FUSE front end (Engine B): operation sequences through the REAL
// simpleRawFileSystem (go-fuse RawFileSystem) over the real
// InMemoryPrepopulatedDirectory and the real FUSE handle allocator, issued by
// a minimal KERNEL MODEL that keeps the inode table the FUSE protocol
// prescribes: every reply that carries a fuse_entry_out (LOOKUP, CREATE,
// MKDIR, LINK, every READDIRPLUS entry) adds one reference to the node it
// names, FORGET(n) gives n of them back, and the kernel only ever sends
// requests on node IDs it still holds a reference to (plus the root). The
// results are compared with the reference hierarchy of model_test.go: "the
// same sequences through the FUSE front end" yield what a POSIX-style
// hierarchy yields, and a node stays usable for as long as the kernel holds a
// reference to it.

// kNode is one entry of the kernel's inode table.
type kNode struct {
	id    uint64
	n     *mNode
	count uint64
}

type fuseSt struct {
	c    *mc.SeqCtx
	w    *world
	rfs  re_fuse.RawFileSystem
	m    *model
	root *mNode
	// known: the kernel's inode table in order of acquisition; known[0] is
	// the root, which is never forgotten.
	known []*kNode
	// idOf: the node ID under which each object was ever reported (inode
	// numbers are stable for the lifetime of the object).
	idOf map[*mNode]uint64
}

func newFuseSt(c *mc.SeqCtx) *fuseSt {
	w := newWorld()
	root := newRoot(w, false, false)
	s := &fuseSt{c: c, w: w, m: &model{}, idOf: map[*mNode]uint64{}}
	s.m.beginOp()
	s.root = s.m.newDir(0, nil)
	s.rfs = re_fuse.NewSimpleRawFileSystem(root, w.handles.RegisterRemovalNotifier, re_fuse.AllowAuthenticator)
	s.known = []*kNode{{id: fuse.FUSE_ROOT_ID, n: s.root, count: 1}}
	s.idOf[s.root] = fuse.FUSE_ROOT_ID
	return s
}

func (s *fuseSt) fail(what, format string, args ...any) {
	s.c.FailP("C13", "fuse/"+what, format, args...)
}

// fromFUSEStatus inverts toFUSEStatus of simple_raw_file_system.go.
func fromFUSEStatus(st fuse.Status) virtual.Status {
	switch syscall.Errno(st) {
	case 0:
		return sOK
	case syscall.EACCES:
		return virtual.StatusErrAccess
	case syscall.EEXIST:
		return sExist
	case syscall.EINVAL:
		return sInval
	case syscall.EIO:
		return sIO
	case syscall.EISDIR:
		return sIsDir
	case syscall.ENOENT:
		return sNoEnt
	case syscall.ENOTDIR:
		return sNotDir
	case syscall.ENOTEMPTY:
		return sNotEmpty
	case syscall.EPERM:
		return sPerm
	case syscall.ESTALE:
		return sStale
	case syscall.EOPNOTSUPP:
		return sSymlink
	case syscall.EXDEV:
		return sXDev
	}
	return sOther
}

func (s *fuseSt) dirs() []*kNode {
	var r []*kNode
	for _, k := range s.known {
		if k.n.dir {
			r = append(r, k)
		}
	}
	return r
}

func (s *fuseSt) leaves() []*kNode {
	var r []*kNode
	for _, k := range s.known {
		if !k.n.dir {
			r = append(r, k)
		}
	}
	return r
}

func (s *fuseSt) describe(n *mNode) string {
	if n.dir {
		return fmt.Sprintf("directory#%d", n.id)
	}
	return fmt.Sprintf("file#%d(nlink=%d)", n.id, n.nlink)
}

// checkAttr compares what a reply says about a node with the model.
func (s *fuseSt) checkAttr(via string, n *mNode, a *fuse.Attr) {
	isDir := a.Mode&syscall.S_IFMT == syscall.S_IFDIR
	if isDir != n.dir {
		s.fail("kind/"+via, "%s: reply describes a node of mode %o, the reference hierarchy says %s", via, a.Mode, s.describe(n))
		return
	}
	if !n.dir && int(a.Nlink) != n.nlink {
		s.fail("nlink/"+via, "%s: reply reports link count %d for %s", via, a.Nlink, s.describe(n))
	}
}

// entry processes a fuse_entry_out naming model node n: the kernel now holds
// one more reference to that node ID.
func (s *fuseSt) entry(via string, out *fuse.EntryOut, n *mNode) {
	if out.NodeId == 0 || out.NodeId != out.Attr.Ino {
		s.fail("node-id/"+via, "%s: reply carries node ID %d, inode number %d", via, out.NodeId, out.Attr.Ino)
		return
	}
	if id, ok := s.idOf[n]; ok && id != out.NodeId {
		s.fail("node-id-changed/"+via, "%s: %s was reported as node %d before and as node %d now", via, s.describe(n), id, out.NodeId)
		return
	}
	for o, id := range s.idOf {
		if o != n && id == out.NodeId {
			s.fail("node-id-shared/"+via, "%s: node ID %d names both %s and %s: names resolve to the wrong object", via, id, s.describe(o), s.describe(n))
			return
		}
	}
	s.idOf[n] = out.NodeId
	s.checkAttr(via, n, &out.Attr)
	for _, k := range s.known {
		if k.n == n {
			k.count++
			return
		}
	}
	s.known = append(s.known, &kNode{id: out.NodeId, n: n, count: 1})
}

// probe: every node the kernel holds a reference to is usable (GETATTR
// answers and describes the right object).
func (s *fuseSt) probe() {
	for _, k := range s.known {
		if s.c.Failed() {
			return
		}
		var out fuse.AttrOut
		if st := s.rfs.GetAttr(nil, &fuse.GetAttrIn{InHeader: fuse.InHeader{NodeId: k.id}}, &out); st != fuse.OK {
			s.fail("getattr", "GETATTR of node %d (%s, kernel holds %d references) fails with %v", k.id, s.describe(k.n), k.count, st)
			return
		}
		s.checkAttr("getattr", k.n, &out.Attr)
	}
}

func (s *fuseSt) judge(what string, o outcome) bool {
	if o.bad != "" {
		s.fail("status/"+what, "%s: %s", what, o.bad)
		return false
	}
	return o.applied
}

func (s *fuseSt) lookup(di int, name string) {
	d := s.dirs()[di]
	var out fuse.EntryOut
	st := s.rfs.Lookup(nil, &fuse.InHeader{NodeId: d.id}, name, &out)
	o := s.m.opLookup(d.n, name, fromFUSEStatus(st))
	if s.judge("lookup", o) {
		s.entry("lookup", &out, o.node)
	}
}

func (s *fuseSt) create(di int, name string) {
	d := s.dirs()[di]
	var out fuse.CreateOut
	flags := uint32(syscall.O_CREAT | syscall.O_RDWR)
	st := s.rfs.Create(nil, &fuse.CreateIn{InHeader: fuse.InHeader{NodeId: d.id}, Flags: flags, Mode: 0o644}, name, &out)
	o := s.m.opOpenChild(d.n, name, true, true, fromFUSEStatus(st))
	if s.judge("create", o) {
		s.entry("create", &out.EntryOut, o.node)
		if !s.c.Failed() {
			s.rfs.Release(nil, &fuse.ReleaseIn{InHeader: fuse.InHeader{NodeId: out.NodeId}, Fh: out.Fh, Flags: flags})
		}
	}
}

func (s *fuseSt) mkdir(di int, name string) {
	d := s.dirs()[di]
	var out fuse.EntryOut
	st := s.rfs.Mkdir(nil, &fuse.MkdirIn{InHeader: fuse.InHeader{NodeId: d.id}, Mode: 0o755}, name, &out)
	o := s.m.opMkdir(d.n, name, fromFUSEStatus(st))
	if s.judge("mkdir", o) {
		s.entry("mkdir", &out, o.node)
	}
}

func (s *fuseSt) link(lj, di int, name string) {
	d, l := s.dirs()[di], s.leaves()[lj]
	var out fuse.EntryOut
	st := s.rfs.Link(nil, &fuse.LinkIn{InHeader: fuse.InHeader{NodeId: d.id}, Oldnodeid: l.id}, name, &out)
	o := s.m.opLink(d.n, name, l.n, fromFUSEStatus(st))
	if s.judge("link", o) {
		s.entry("link", &out, l.n)
	}
}

func (s *fuseSt) remove(di int, name string, rmdir bool) {
	d := s.dirs()[di]
	var st fuse.Status
	if rmdir {
		st = s.rfs.Rmdir(nil, &fuse.InHeader{NodeId: d.id}, name)
	} else {
		st = s.rfs.Unlink(nil, &fuse.InHeader{NodeId: d.id}, name)
	}
	s.judge(map[bool]string{false: "unlink", true: "rmdir"}[rmdir], s.m.opRemove(d.n, name, rmdir, !rmdir, fromFUSEStatus(st)))
}

func (s *fuseSt) rename(di int, nOld string, dj int, nNew string) {
	dOld, dNew := s.dirs()[di], s.dirs()[dj]
	st := s.rfs.Rename(nil, &fuse.RenameIn{InHeader: fuse.InHeader{NodeId: dOld.id}, Newdir: dNew.id}, nOld, nNew)
	s.judge("rename", s.m.opRename(dOld.n, nOld, dNew.n, nNew, fromFUSEStatus(st)))
}

// forget gives back one reference (all=false) or every reference the kernel
// holds on known[k].
func (s *fuseSt) forget(k int, all bool) {
	e := s.known[k]
	n := uint64(1)
	if all {
		n = e.count
	}
	s.rfs.Forget(e.id, n)
	e.count -= n
	if e.count == 0 {
		s.known = append(s.known[:k:k], s.known[k+1:]...)
	}
}

type plusList struct {
	limit   int
	names   []string
	entries []*fuse.EntryOut
}

func (l *plusList) AddDirLookupEntry(e fuse.DirEntry) *fuse.EntryOut {
	if l.limit == 0 {
		return nil
	}
	l.limit--
	out := &fuse.EntryOut{}
	l.names = append(l.names, e.Name)
	l.entries = append(l.entries, out)
	return out
}

// readDirPlus lists a directory from the start; limit bounds the number of
// entries (including "." and "..") that fit into the reply, -1 = all.
func (s *fuseSt) readDirPlus(di, limit int) {
	d := s.dirs()[di]
	l := &plusList{limit: limit}
	st := s.rfs.ReadDirPlus(nil, &fuse.ReadIn{InHeader: fuse.InHeader{NodeId: d.id}}, l)
	if st != fuse.OK {
		s.fail("readdirplus-status", "READDIRPLUS of %s fails with %v", s.describe(d.n), st)
		return
	}
	s.m.ensure(d.n)
	var got []string
	for i, name := range l.names {
		if name == "." || name == ".." {
			continue
		}
		got = append(got, name)
		e := s.m.find(d.n, name)
		if e == nil {
			s.fail("readdirplus-ghost", "READDIRPLUS of %s reports %q, which the reference hierarchy does not contain", s.describe(d.n), name)
			return
		}
		s.entry("readdirplus", l.entries[i], e.node)
		if s.c.Failed() {
			return
		}
	}
	if limit < 0 {
		var want []string
		for _, e := range d.n.entries {
			want = append(want, e.name)
		}
		sort.Strings(got)
		sort.Strings(want)
		if strings.Join(got, ",") != strings.Join(want, ",") {
			s.fail("readdirplus-names", "READDIRPLUS of %s reports %v, the reference hierarchy contains %v", s.describe(d.n), got, want)
		}
	}
}

// key: reference hierarchy (canonical walk from the root plus the detached
// nodes the kernel still references) and the kernel's inode table.
func (s *fuseSt) key() string {
	var b strings.Builder
	num := map[*mNode]int{}
	var walk func(n *mNode)
	walk = func(n *mNode) {
		if i, ok := num[n]; ok {
			fmt.Fprintf(&b, "^%d", i)
			return
		}
		num[n] = len(num)
		if !n.dir {
			fmt.Fprintf(&b, "f%d", n.nlink)
			return
		}
		fmt.Fprintf(&b, "d%v%v{", n.deleted, n.lazy != nil)
		es := append([]*mEntry(nil), n.entries...)
		sort.Slice(es, func(i, j int) bool { return es[i].name < es[j].name })
		for _, e := range es {
			b.WriteString(e.name + "=")
			walk(e.node)
			b.WriteByte(',')
		}
		b.WriteByte('}')
	}
	walk(s.root)
	b.WriteByte('|')
	for _, k := range s.known {
		if _, ok := num[k.n]; !ok {
			b.WriteString("detached:")
		}
		walk(k.n)
		fmt.Fprintf(&b, "*%d;", k.count)
	}
	return b.String()
}

// final: the kernel gives back every reference it holds, with exactly the
// counts the protocol handed to it.
func (s *fuseSt) final() {
	for len(s.known) > 1 && !s.c.Failed() {
		s.forget(len(s.known)-1, true)
	}
}

func fuseSeq() *mc.Seq {
	names := []string{"a", "b"}
	var ops []mc.SeqOp
	add := func(name string, enabled func(s *fuseSt) bool, do func(s *fuseSt)) {
		ops = append(ops, mc.SeqOp{
			Name:    name,
			Enabled: func(x any) bool { return enabled(x.(*fuseSt)) },
			Do: func(c *mc.SeqCtx, x any) {
				s := x.(*fuseSt)
				s.m.beginOp()
				do(s)
				if !c.Failed() {
					s.probe()
				}
			},
		})
	}
	const maxDirs, maxLeaves, maxKnown = 2, 2, 4
	hasDir := func(i int) func(s *fuseSt) bool { return func(s *fuseSt) bool { return len(s.dirs()) > i } }
	for di := 0; di < maxDirs; di++ {
		di := di
		for _, n := range names {
			n := n
			add(fmt.Sprintf("LOOKUP dir%d/%s", di, n), hasDir(di), func(s *fuseSt) { s.lookup(di, n) })
			add(fmt.Sprintf("CREATE dir%d/%s", di, n), hasDir(di), func(s *fuseSt) { s.create(di, n) })
			add(fmt.Sprintf("MKDIR dir%d/%s", di, n), hasDir(di), func(s *fuseSt) { s.mkdir(di, n) })
			add(fmt.Sprintf("UNLINK dir%d/%s", di, n), hasDir(di), func(s *fuseSt) { s.remove(di, n, false) })
			add(fmt.Sprintf("RMDIR dir%d/%s", di, n), hasDir(di), func(s *fuseSt) { s.remove(di, n, true) })
			for lj := 0; lj < maxLeaves; lj++ {
				lj := lj
				add(fmt.Sprintf("LINK leaf%d -> dir%d/%s", lj, di, n),
					func(s *fuseSt) bool { return len(s.dirs()) > di && len(s.leaves()) > lj },
					func(s *fuseSt) { s.link(lj, di, n) })
			}
			for dj := 0; dj < maxDirs; dj++ {
				dj := dj
				for _, n2 := range names {
					n2 := n2
					if di == dj && n == n2 {
						continue
					}
					add(fmt.Sprintf("RENAME dir%d/%s -> dir%d/%s", di, n, dj, n2),
						func(s *fuseSt) bool {
							ds := s.dirs()
							// (Moving a directory below itself is left open
							// upstream; not part of the alphabets.)
							return len(ds) > di && len(ds) > dj && !s.m.renameWouldCycle(ds[di].n, n, ds[dj].n)
						},
						func(s *fuseSt) { s.rename(di, n, dj, n2) })
				}
			}
		}
		add(fmt.Sprintf("READDIRPLUS dir%d", di), hasDir(di), func(s *fuseSt) { s.readDirPlus(di, -1) })
		add(fmt.Sprintf("READDIRPLUS dir%d (reply holds 3 entries)", di), hasDir(di), func(s *fuseSt) { s.readDirPlus(di, 3) })
	}
	for k := 1; k <= maxKnown; k++ {
		k := k
		add(fmt.Sprintf("FORGET node%d (1 reference)", k), func(s *fuseSt) bool { return len(s.known) > k && s.known[k].count > 1 }, func(s *fuseSt) { s.forget(k, false) })
		add(fmt.Sprintf("FORGET node%d (all references)", k), func(s *fuseSt) bool { return len(s.known) > k }, func(s *fuseSt) { s.forget(k, true) })
	}
	return &mc.Seq{
		Name:   "fuse-kernel",
		Props:  []string{"C13"},
		New:    func(c *mc.SeqCtx) any { return newFuseSt(c) },
		Ops:    ops,
		Key:    func(x any) string { return x.(*fuseSt).key() },
		Final:  func(c *mc.SeqCtx, x any) { x.(*fuseSt).final() },
		Depth:  map[string]int{"quick": 5, "thorough": 7},
		Panics: []string{"C13"},
	}
}
