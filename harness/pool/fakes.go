package pool

import (
	"errors"
	"io"

	rpool "github.com/buildbarn/bb-remote-execution/pkg/filesystem/pool"
	"github.com/buildbarn/bb-storage/pkg/filesystem"
)

var (
	errDevice     = errors.New("injected block device failure")
	errHoleSource = errors.New("injected hole source failure")
	errBase       = errors.New("injected base pool failure")
)

// faults is the fault-injection state shared by all fakes of one instance.
// All faults are one-shot. At most one is armed at a time (enforced by the
// Enabled functions of the arming letters).
type faults struct {
	devWriteIn   int  // the devWriteIn-th next device write fails (0: disarmed)
	devWriteTorn bool // the failing device write stores its first byte and reports n=1
	devReadIn    int  // only used inside Check
	hs           bool // next hole source call fails
	baseIn       int  // next call into the fake base pool / base file fails
	baseShort    bool // a failing base WriteAt stores one byte and reports n=1
	fired        int  // number of injected failures so far
}

func (f *faults) armed() bool {
	return f.devWriteIn != 0 || f.devReadIn != 0 || f.hs || f.baseIn != 0
}

// suspend disarms everything and returns the previous state.
func (f *faults) suspend() faults {
	old := *f
	*f = faults{fired: old.fired}
	return old
}

func (f *faults) resume(old faults) {
	fired := f.fired
	*f = old
	f.fired = fired
}

func (f *faults) hitHS() bool {
	if f.hs {
		f.hs = false
		f.fired++
		return true
	}
	return false
}

func (f *faults) hitBase() bool {
	if f.baseIn > 0 {
		f.baseIn--
		if f.baseIn == 0 {
			f.fired++
			return true
		}
	}
	return false
}

// fakeDevice is a fixed-size in-memory block device.
type fakeDevice struct {
	fl   *faults
	data []byte
	// point, if set (Engine A), is called before every write acts: device
	// writes are scheduling points.
	point func(label string)
}

func (d *fakeDevice) ReadAt(p []byte, off int64) (int, error) {
	if d.fl.devReadIn > 0 {
		d.fl.devReadIn--
		if d.fl.devReadIn == 0 {
			d.fl.fired++
			return 0, errDevice
		}
	}
	if off < 0 || off > int64(len(d.data)) {
		return 0, errors.New("device read out of range")
	}
	n := copy(p, d.data[off:])
	if n < len(p) {
		return n, io.EOF
	}
	return n, nil
}

func (d *fakeDevice) WriteAt(p []byte, off int64) (int, error) {
	if d.point != nil {
		d.point("dev.WriteAt")
	}
	if d.fl.devWriteIn > 0 {
		d.fl.devWriteIn--
		if d.fl.devWriteIn == 0 {
			d.fl.fired++
			if d.fl.devWriteTorn {
				d.fl.devWriteTorn = false
				if len(p) > 0 && off >= 0 && off < int64(len(d.data)) {
					d.data[off] = p[0]
					return 1, errDevice
				}
			}
			return 0, errDevice
		}
	}
	if off < 0 || off > int64(len(d.data)) {
		return 0, errors.New("device write out of range")
	}
	n := copy(d.data[off:], p)
	if n < len(p) {
		return n, errors.New("device write past the end of the device")
	}
	return n, nil
}

func (d *fakeDevice) Sync() error  { return nil }
func (d *fakeDevice) Close() error { return nil }

// patternLayout is the data/hole layout of the pattern hole source: offset o
// is data iff patternLayout[o] == 'D'. With 2-byte sectors this gives the
// sectors DH|DD|HH|D, with 4-byte sectors DHDD|HHD.
const patternLayout = "DHDDHHD"

// patternHS is a hole source with data and hole regions that honours
// Truncate(). It holds no data beyond the size of the file it was created for.
type patternHS struct {
	fl     *faults
	vals   []byte // initial contents; zero inside holes
	data   []bool
	cur    int // current end of data (shrinks on Truncate)
	closes int
}

func (h *patternHS) at(o int) byte {
	if o >= 0 && o < h.cur {
		return h.vals[o]
	}
	return 0
}

func (h *patternHS) ReadAt(p []byte, off int64) (int, error) {
	if h.fl.hitHS() {
		return 0, errHoleSource
	}
	for i := range p {
		p[i] = h.at(int(off) + i)
	}
	return len(p), nil
}

func (h *patternHS) Truncate(size int64) error {
	if h.fl.hitHS() {
		return errHoleSource
	}
	if int(size) < h.cur {
		h.cur = int(size)
	}
	return nil
}

func (h *patternHS) GetNextRegionOffset(off int64, t filesystem.RegionType) (int64, error) {
	if h.fl.hitHS() {
		return 0, errHoleSource
	}
	o := int(off)
	switch t {
	case filesystem.Data:
		for ; o < h.cur; o++ {
			if h.data[o] {
				return int64(o), nil
			}
		}
		return 0, io.EOF
	case filesystem.Hole:
		if o >= h.cur {
			return 0, io.EOF
		}
		for ; o < h.cur; o++ {
			if !h.data[o] {
				return int64(o), nil
			}
		}
		return int64(h.cur), nil
	default:
		panic("unknown region type")
	}
}

func (h *patternHS) Close() error {
	h.closes++
	if h.fl.hitHS() {
		return errHoleSource
	}
	return nil
}

// fakeBasePool is a trivially correct in-memory FilePool whose calls can be
// made to fail; it sits below the real quota layer in the quota-focused
// sequences.
type fakeBasePool struct {
	fl *faults
}

type fakeBaseFile struct {
	fl      *faults
	hs      rpool.HoleSource
	content []byte
	closed  bool
}

func (p *fakeBasePool) NewFile(hs rpool.HoleSource, size uint64) (filesystem.FileReadWriter, error) {
	if p.fl.hitBase() {
		return nil, errBase
	}
	f := &fakeBaseFile{fl: p.fl, hs: hs, content: make([]byte, size)}
	if size > 0 {
		if _, err := hs.ReadAt(f.content, 0); err != nil {
			return nil, err
		}
	}
	return f, nil
}

func (f *fakeBaseFile) grow(size int) error {
	old := len(f.content)
	ext := make([]byte, size-old)
	if _, err := f.hs.ReadAt(ext, int64(old)); err != nil {
		return err
	}
	f.content = append(f.content, ext...)
	return nil
}

func (f *fakeBaseFile) ReadAt(p []byte, off int64) (int, error) {
	if len(p) == 0 {
		return 0, nil
	}
	if off >= int64(len(f.content)) {
		return 0, io.EOF
	}
	n := copy(p, f.content[off:])
	if int(off)+len(p) >= len(f.content) {
		return n, io.EOF
	}
	return n, nil
}

func (f *fakeBaseFile) WriteAt(p []byte, off int64) (int, error) {
	if f.fl.hitBase() {
		if f.fl.baseShort && len(p) > 0 {
			f.fl.baseShort = false
			if int(off)+1 > len(f.content) {
				if err := f.grow(int(off) + 1); err != nil {
					return 0, err
				}
			}
			f.content[off] = p[0]
			return 1, errBase
		}
		return 0, errBase
	}
	if end := int(off) + len(p); end > len(f.content) {
		if err := f.grow(end); err != nil {
			return 0, err
		}
	}
	copy(f.content[off:], p)
	return len(p), nil
}

func (f *fakeBaseFile) Truncate(size int64) error {
	if f.fl.hitBase() {
		return errBase
	}
	if int(size) < len(f.content) {
		if err := f.hs.Truncate(size); err != nil {
			return err
		}
		f.content = f.content[:size]
		return nil
	}
	if int(size) > len(f.content) {
		return f.grow(int(size))
	}
	return nil
}

func (f *fakeBaseFile) GetNextRegionOffset(off int64, t filesystem.RegionType) (int64, error) {
	if off >= int64(len(f.content)) {
		return 0, io.EOF
	}
	for o := int(off); o < len(f.content); o++ {
		if (f.content[o] != 0) == (t == filesystem.Data) {
			return int64(o), nil
		}
	}
	if t == filesystem.Data {
		return 0, io.EOF
	}
	return int64(len(f.content)), nil
}

func (f *fakeBaseFile) Len() (int64, error) { return int64(len(f.content)), nil }
func (f *fakeBaseFile) Sync() error         { return nil }

func (f *fakeBaseFile) Close() error {
	f.closed = true
	err := f.hs.Close()
	if f.fl.hitBase() {
		return errBase
	}
	return err
}
