// Package mc is a hand-written model checker for real Go code: a
// replay-based, deviation-bounded, state-pruning explorer of thread
// interleavings and environment choices (Engine A of DESIGN.md), plus a
// breadth-first explorer of operation sequences (Engine B, bfs.go).
//
// One execution runs inside a testing/synctest bubble. Every thread of the
// harness (and every goroutine spawned by the code under test that reaches a
// hook) parks at scheduling points: the lock operations of pkg/verifsync and
// explicit X.Point / X.Choose calls made by harness fakes. A controller (the
// bubble's root goroutine) waits for quiescence with synctest.Wait, evaluates
// monitors, computes the enabled alternatives in a canonical order, and
// releases exactly one of them. An execution is thus a deterministic function
// of its choice list.
package mc

import (
	"fmt"
	"hash/fnv"
	"math/rand"
	"regexp"
	"runtime"
	"sort"
	"strconv"
	"strings"
	"sync"
	"testing"
	"testing/synctest"

	"github.com/buildbarn/bb-remote-execution/pkg/verifsync"
)

const (
	kindPoint  = -1
	kindChoose = -2
)

type pending struct {
	m     any
	kind  int // verifsync.Kind, kindPoint or kindChoose
	label string
	n     int  // number of alternatives (Choose)
	free  bool // Choose alternatives cost nothing
}

// Thread is a goroutine under control of the scheduler.
type Thread struct {
	ID   int
	Name string
	// Anon is set for goroutines that were spawned by the code under
	// test and adopted at their first hook.
	Anon bool

	park        chan int
	lastGranted string
	pend        *pending
	done        bool
	hist        uint64
	held        []heldLock
	abort       bool
	panicV      any
}

type heldLock struct {
	m     any
	label string
	read  bool
}

type lockState struct {
	writer  *Thread // nil if not write locked; extOwner if locked by unmanaged goroutine
	wlabel  string
	readers int
}

var extOwner = &Thread{ID: -1, Name: "<unmanaged>"}

// Event is an environment transition offered by the harness: a timer
// expiring, a context being cancelled, the next scripted call starting.
type Event struct {
	Name string
	// Enabled is evaluated at every quiescent point.
	Enabled func() bool
	// Fire performs the transition on the controller goroutine. It
	// must not acquire shim locks and must not block.
	Fire func()
	// Cost in deviations when some thread is enabled (default 1 if
	// zero and !Free).
	Cost int
	// IdleCost in deviations when no thread is enabled and this is
	// not the first enabled event.
	IdleCost int
	// Free makes Cost zero.
	Free bool
	// Teardown events are only offered when no thread and no regular
	// event is enabled; only the first enabled one is offered.
	Teardown bool
	// OnlyIdle events are only offered when no thread is enabled.
	OnlyIdle bool
}

// Point is one decision of an execution.
type Point struct {
	N      int    `json:"n"`
	Choice int    `json:"c"`
	Label  string `json:"l"`
	costs  []int8
	key    string
}

// Violation describes a failed oracle.
type Violation struct {
	// Fingerprint identifies the kind of failure (monitor id plus
	// call site); used for known-findings matching.
	Fingerprint string `json:"fingerprint"`
	Message     string `json:"message"`
	Step        int    `json:"step"`
}

// X is one execution.
type X struct {
	T *testing.T

	mu        sync.Mutex
	threads   []*Thread
	byG       map[int64]*Thread
	locks     map[any]*lockState
	events    []*Event
	prefix    []int
	expect    []Point // labels expected along the prefix (determinism guard)
	trace     []Point
	last      *Thread
	violation *Violation
	deadlock  bool
	steps     int
	maxSteps  int
	horizon   bool
	diverged  string

	keyFn     func() string
	monitors  []func()
	outcome   []string
	adoptAnon bool
	verbose   bool
	log       []string

	// pruning interface to the explorer
	visit       func(key string, cost int) bool // returns false if already expanded
	pruned      bool
	curCost     int
	branchFrom  int
	keyHashes   map[uint64]struct{}
	lockEdges   map[string]struct{}
	running     bool
	preemptFree bool

	yieldAfterUnlock bool
	ctrlG            int64

	// free-running mode (race pass): threads never park, choices are
	// drawn from rng, only events are sequenced by the controller.
	free bool
	rng  *rand.Rand
}

// Free reports whether this execution is a free-running one (race
// pass): oracles that rely on quiescent snapshots should be skipped.
func (x *X) Free() bool { return x.free }

// ---------------------------------------------------------------------------
// Harness-facing API

// Go spawns a harness thread. It parks before running fn.
func (x *X) Go(name string, fn func()) *Thread {
	x.mu.Lock()
	t := &Thread{ID: len(x.threads), Name: name, park: make(chan int)}
	x.threads = append(x.threads, t)
	x.mu.Unlock()
	go func() {
		x.mu.Lock()
		x.byG[goid()] = t
		if !x.free {
			t.pend = &pending{kind: kindPoint, label: "start"}
		}
		x.mu.Unlock()
		if !x.free {
			<-t.park
		}
		defer func() {
			if r := recover(); r != nil {
				if _, ok := r.(abortSignal); !ok {
					buf := make([]byte, 8192)
					buf = buf[:runtime.Stack(buf, false)]
					x.mu.Lock()
					t.panicV = r
					x.mu.Unlock()
					x.Failf("panic/"+firstLine(fmt.Sprint(r)), "thread %s panicked: %v\n%s", t.Name, r, buf)
				}
			}
			x.mu.Lock()
			t.done = true
			t.pend = nil
			x.mu.Unlock()
		}()
		if t.abort {
			return
		}
		fn()
	}()
	return t
}

type abortSignal struct{}

func firstLine(s string) string {
	if i := strings.IndexByte(s, '\n'); i >= 0 {
		s = s[:i]
	}
	if len(s) > 80 {
		s = s[:80]
	}
	return s
}

// AdoptAnonymous makes goroutines spawned by the code under test (i.e.
// not via X.Go) managed threads as soon as they reach a hook. Without it
// their lock operations proceed unscheduled.
func (x *X) AdoptAnonymous() { x.adoptAnon = true }

// Current returns the managed thread of the calling goroutine, or nil.
func (x *X) Current() *Thread {
	g := goid()
	x.mu.Lock()
	defer x.mu.Unlock()
	return x.byG[g]
}

func (x *X) currentOrAdopt(label string) *Thread {
	g := goid()
	x.mu.Lock()
	defer x.mu.Unlock()
	t := x.byG[g]
	if t == nil && g == x.ctrlG {
		// The controller itself (key functions, monitors, event
		// callbacks) must never be parked.
		return nil
	}
	if t == nil && x.adoptAnon && x.running && !x.free {
		t = &Thread{ID: len(x.threads), Name: "anon:" + label, Anon: true, park: make(chan int)}
		x.threads = append(x.threads, t)
		x.byG[g] = t
	}
	return t
}

func (x *X) parkAt(t *Thread, p *pending) int {
	x.mu.Lock()
	if x.free {
		c := 0
		if p.n > 1 {
			c = x.rng.Intn(p.n)
		}
		x.mu.Unlock()
		runtime.Gosched()
		return c
	}
	t.pend = p
	x.mu.Unlock()
	return <-t.park
}

// Point is an explicit scheduling point (e.g. inside a fake storage
// call). Calls from unmanaged goroutines return immediately.
func (x *X) Point(label string) {
	t := x.currentOrAdopt(label)
	if t == nil {
		return
	}
	x.parkAt(t, &pending{kind: kindPoint, label: label})
}

// Choose is a scheduling point with n alternatives; it returns the
// alternative selected by the explorer (0 by default). A non-zero
// answer costs one deviation. Calls from unmanaged goroutines return 0.
func (x *X) Choose(label string, n int) int {
	if n <= 1 {
		x.Point(label)
		return 0
	}
	t := x.currentOrAdopt(label)
	if t == nil {
		return 0
	}
	return x.parkAt(t, &pending{kind: kindChoose, label: label, n: n})
}

// ChooseFree is like Choose, but no alternative costs a deviation: use
// it to enumerate inputs.
func (x *X) ChooseFree(label string, n int) int {
	if n <= 1 {
		x.Point(label)
		return 0
	}
	t := x.currentOrAdopt(label)
	if t == nil {
		return 0
	}
	return x.parkAt(t, &pending{kind: kindChoose, label: label, n: n, free: true})
}

// AddEvent registers an environment event.
func (x *X) AddEvent(e *Event) { x.events = append(x.events, e) }

// SetKey installs the harness's canonical global state key, enabling
// state pruning. The key must determine the future behaviour of the system
// under test, the environment and the monitors, except for thread-local
// state, which the engine tracks itself.
func (x *X) SetKey(fn func() string) { x.keyFn = fn }

// OnQuiescent registers a monitor evaluated at every quiescent point.
func (x *X) OnQuiescent(fn func()) { x.monitors = append(x.monitors, fn) }

// ResetLocal declares that the calling thread carries no local state
// other than tag into its next steps (call it between scripted calls).
func (x *X) ResetLocal(tag string) {
	if t := x.Current(); t != nil {
		h := fnv.New64a()
		h.Write([]byte(tag))
		t.hist = h.Sum64()
	}
}

// Failf records a violation (only the first one of an execution is kept).
func (x *X) Failf(fingerprint, format string, args ...any) {
	x.mu.Lock()
	defer x.mu.Unlock()
	if x.violation == nil {
		x.violation = &Violation{Fingerprint: fingerprint, Message: fmt.Sprintf(format, args...), Step: len(x.trace)}
	}
}

// Failed reports whether a violation was recorded.
func (x *X) Failed() bool {
	x.mu.Lock()
	defer x.mu.Unlock()
	return x.violation != nil
}

// Outcome appends to the monitor-visible outcome of this execution
// (used to count distinct outcomes; not an oracle).
func (x *X) Outcome(format string, args ...any) {
	x.mu.Lock()
	x.outcome = append(x.outcome, fmt.Sprintf(format, args...))
	x.mu.Unlock()
}

// Logf records a line in the narrative (kept only in verbose/replay mode).
func (x *X) Logf(format string, args ...any) {
	if x.verbose {
		x.mu.Lock()
		x.log = append(x.log, fmt.Sprintf("[%d] ", len(x.trace))+fmt.Sprintf(format, args...))
		x.mu.Unlock()
	}
}

// Verbose reports whether a narrative is being recorded.
func (x *X) Verbose() bool { return x.verbose }

// LocksHeld returns the number of shim locks currently held by anyone.
func (x *X) LocksHeld() int {
	x.mu.Lock()
	defer x.mu.Unlock()
	n := 0
	for _, ls := range x.locks {
		if ls.writer != nil {
			n++
		}
		n += ls.readers
	}
	return n
}

// HeldBy describes the locks held by a thread ("label" of acquisition).
func (x *X) HeldBy(t *Thread) []string {
	x.mu.Lock()
	defer x.mu.Unlock()
	var r []string
	for _, h := range t.held {
		r = append(r, h.label)
	}
	return r
}

var lineSuffix = regexp.MustCompile(`:\d+`)

// StripLines removes ":<line>" suffixes so that fingerprints survive edits.
func StripLines(s string) string { return lineSuffix.ReplaceAllString(s, "") }

// CheckNoLocksHeld fails with a C14 leak fingerprint if the calling
// thread still holds shim locks (call right after a call into the code
// under test returned).
func (x *X) CheckNoLocksHeld(call string) {
	t := x.Current()
	if t == nil {
		return
	}
	if h := x.HeldBy(t); len(h) > 0 {
		x.FailP("C14", "lockleak/"+call+"/"+StripLines(strings.Join(h, ",")), "%s returned while still holding %d lock(s) acquired at %v", call, len(h), h)
	}
}

// State describes a thread at a quiescent point: "done", "parked:<label>"
// (waiting at a scheduling point of the engine) or "native" (durably
// blocked in a channel operation/select/WaitGroup of the code under test,
// or - outside quiescent points - running). Meant for Event.Enabled
// callbacks and monitors, which run on the controller at quiescence.
func (t *Thread) State(x *X) string {
	x.mu.Lock()
	defer x.mu.Unlock()
	switch {
	case t.done:
		return "done"
	case t.pend != nil:
		return "parked:" + t.pend.label
	default:
		return "native"
	}
}

// Steps returns the number of decisions taken so far.
func (x *X) Steps() int { return len(x.trace) }

// ---------------------------------------------------------------------------
// verifsync.Hooks

func callerLabel() string {
	var pcs [8]uintptr
	n := runtime.Callers(4, pcs[:])
	frames := runtime.CallersFrames(pcs[:n])
	for {
		f, more := frames.Next()
		fn := f.Function
		if fn != "" && !strings.Contains(fn, "/verifsync.") && !strings.Contains(fn, "/pkg/sync.") {
			if i := strings.LastIndexByte(fn, '/'); i >= 0 {
				fn = fn[i+1:]
			}
			return fn + ":" + strconv.Itoa(f.Line)
		}
		if !more {
			return "?"
		}
	}
}

var kindNames = [...]string{"Lock", "TryLock", "RLock", "TryRLock", "Atomic"}

// Before implements verifsync.Hooks.
func (x *X) Before(m any, kind verifsync.Kind) {
	label := kindNames[kind] + "@" + callerLabel()
	t := x.currentOrAdopt(label)
	if t == nil {
		return
	}
	x.parkAt(t, &pending{m: m, kind: int(kind), label: label})
}

// After implements verifsync.Hooks.
func (x *X) After(m any, kind verifsync.Kind, ok bool) {
	if !ok {
		return
	}
	g := goid()
	x.mu.Lock()
	defer x.mu.Unlock()
	t := x.byG[g]
	ls := x.locks[m]
	if ls == nil {
		ls = &lockState{}
		x.locks[m] = ls
	}
	read := kind == verifsync.KindRLock || kind == verifsync.KindTryRLock
	label := ""
	if t != nil {
		label = t.lastGranted
	}
	if read {
		ls.readers++
	} else {
		if t != nil {
			ls.writer = t
		} else {
			ls.writer = extOwner
		}
		ls.wlabel = label
	}
	if t != nil {
		t.held = append(t.held, heldLock{m: m, label: label, read: read})
	}
}

// Release implements verifsync.Hooks.
func (x *X) Release(m any, kind verifsync.Kind) {
	g := goid()
	x.mu.Lock()
	defer x.mu.Unlock()
	ls := x.locks[m]
	if ls == nil {
		return
	}
	read := kind == verifsync.KindRLock
	if read {
		ls.readers--
	} else {
		ls.writer = nil
	}
	remove := func(t *Thread) bool {
		for i := len(t.held) - 1; i >= 0; i-- {
			if t.held[i].m == m && t.held[i].read == read {
				t.held = append(t.held[:i], t.held[i+1:]...)
				return true
			}
		}
		return false
	}
	if t := x.byG[g]; t != nil && remove(t) {
		return
	}
	for _, t := range x.threads {
		if remove(t) {
			return
		}
	}
}

// AfterUnlock implements verifsync.AfterUnlockHooks: in scenarios with
// YieldAfterUnlock every release of a shim lock is followed by a scheduling
// point, so that code which (racily) touches shared state after dropping a
// lock can be interleaved with other threads right there.
func (x *X) AfterUnlock(m any, kind verifsync.Kind) {
	if !x.yieldAfterUnlock {
		return
	}
	label := "Unlocked@" + callerLabel()
	t := x.currentOrAdopt(label)
	if t == nil {
		return
	}
	x.parkAt(t, &pending{kind: kindPoint, label: label})
}

// ---------------------------------------------------------------------------
// Controller

type alt struct {
	t    *Thread
	sub  int
	ev   *Event
	cost int
}

func (x *X) threadEnabled(t *Thread) bool {
	p := t.pend
	if p == nil || t.done {
		return false
	}
	switch p.kind {
	case kindPoint, kindChoose, int(verifsync.KindTryLock), int(verifsync.KindTryRLock), int(verifsync.KindAtomic):
		return true
	}
	ls := x.locks[p.m]
	if ls == nil {
		return true
	}
	if p.kind == int(verifsync.KindLock) {
		return ls.writer == nil && ls.readers == 0
	}
	if ls.writer != nil {
		return false
	}
	// Go's RWMutex prefers writers: once a writer waits in Lock(), new
	// readers block behind it. A thread that already holds a read lock
	// on m and asks for another one therefore deadlocks if a writer
	// arrived in between. A writer parked at its Lock(m) hook may be
	// regarded as having arrived (the execution in which it has not yet
	// is explored on another branch), so the recursive reader is not
	// enabled; the writer is not enabled either (readers > 0) and the
	// engine reports the deadlock.
	for _, h := range t.held {
		if h.m == p.m && h.read {
			for _, w := range x.threads {
				if w != t && !w.done && w.pend != nil && w.pend.kind == int(verifsync.KindLock) && w.pend.m == p.m {
					return false
				}
			}
			break
		}
	}
	return true
}

func (x *X) stateKey(gk string) string {
	var b strings.Builder
	b.WriteString(gk)
	b.WriteString("|T")
	// Harness threads in id order, anonymous ones sorted by rendering.
	var anon []string
	for _, t := range x.threads {
		var s string
		switch {
		case t.done:
			s = "done"
		case t.pend == nil:
			s = "native:" + strconv.FormatUint(t.hist, 36)
		default:
			s = t.pend.label + "/" + strconv.Itoa(t.pend.n) + ":" + strconv.FormatUint(t.hist, 36)
		}
		if t.Anon {
			anon = append(anon, s)
		} else {
			b.WriteString(t.Name)
			b.WriteByte('=')
			b.WriteString(s)
			b.WriteByte(';')
		}
	}
	sort.Strings(anon)
	for _, s := range anon {
		b.WriteString("A=")
		b.WriteString(s)
		b.WriteByte(';')
	}
	if x.last != nil && !x.preemptFree {
		b.WriteString("L")
		b.WriteString(strconv.Itoa(x.last.ID))
	}
	return b.String()
}

// run drives the execution to completion.
func (x *X) run() {
	x.mu.Lock()
	x.running = true
	x.ctrlG = goid()
	x.mu.Unlock()
	if x.free {
		x.runFree()
		return
	}
	for {
		synctest.Wait()
		x.mu.Lock()
		failed := x.violation != nil
		x.mu.Unlock()
		if !failed {
			for _, m := range x.monitors {
				m()
			}
		}
		x.mu.Lock()
		var en []*Thread
		unfinished := 0
		for _, t := range x.threads {
			if !t.done && !t.Anon {
				unfinished++
			}
			if x.threadEnabled(t) {
				en = append(en, t)
			}
		}
		sort.SliceStable(en, func(i, j int) bool {
			a, b := en[i], en[j]
			if a.Anon != b.Anon {
				return !a.Anon
			}
			if !a.Anon {
				return a.ID < b.ID
			}
			return a.pend.label < b.pend.label
		})
		lastEnabled := false
		for i, t := range en {
			if t == x.last {
				copy(en[1:i+1], en[:i])
				en[0] = t
				lastEnabled = true
				break
			}
		}
		var alts []alt
		for i, t := range en {
			pre := 0
			if lastEnabled && i > 0 && !x.preemptFree {
				pre = 1
			}
			if t.pend.kind == kindChoose {
				for s := 0; s < t.pend.n; s++ {
					c := pre
					if s > 0 && !t.pend.free {
						c++
					}
					alts = append(alts, alt{t: t, sub: s, cost: c})
				}
			} else {
				alts = append(alts, alt{t: t, cost: pre})
			}
		}
		x.mu.Unlock()
		nThreadAlts := len(alts)
		// Events (Enabled callbacks run without x.mu held).
		for _, e := range x.events {
			if e.Teardown || (e.OnlyIdle && nThreadAlts > 0) {
				continue
			}
			if e.Enabled != nil && !e.Enabled() {
				continue
			}
			c := e.Cost
			if c == 0 && !e.Free {
				c = 1
			}
			if nThreadAlts == 0 {
				c = e.IdleCost
				if len(alts) == 0 {
					c = 0
				}
			}
			alts = append(alts, alt{ev: e, cost: c})
		}
		if len(alts) == 0 {
			for _, e := range x.events {
				if e.Teardown && (e.Enabled == nil || e.Enabled()) {
					alts = append(alts, alt{ev: e})
					break
				}
			}
		}
		if len(alts) == 0 {
			if unfinished > 0 || x.anyParked() {
				x.deadlock = true
			}
			return
		}
		if x.steps >= x.maxSteps {
			x.horizon = true
			return
		}

		// State pruning (only beyond the replayed prefix).
		idx := len(x.trace)
		key := ""
		gk := ""
		if x.keyFn != nil && !x.pruned && !failed {
			gk = x.keyFn()
		}
		if x.keyFn != nil && !x.pruned && !failed && idx >= x.branchFrom {
			key = x.stateKey(gk)
			if x.visit != nil && !x.visit(key, x.curCost) {
				x.pruned = true
			}
		}

		c := 0
		if idx < len(x.prefix) {
			c = x.prefix[idx]
		}
		label := altLabel(alts, c)
		if idx < len(x.expect) {
			if e := x.expect[idx]; e.N != len(alts) || (c < len(alts) && e.Label != label) {
				x.diverged = fmt.Sprintf("step %d: expected n=%d label=%q, got n=%d label=%q", idx, e.N, e.Label, len(alts), label)
				c = 0
				if len(alts) == 0 {
					return
				}
				label = altLabel(alts, 0)
			}
		}
		if c >= len(alts) {
			x.diverged = fmt.Sprintf("step %d: choice %d out of range (n=%d)", idx, c, len(alts))
			c = 0
			label = altLabel(alts, 0)
		}
		p := Point{N: len(alts), Choice: c, Label: label, key: key}
		if !x.pruned && !failed {
			p.costs = make([]int8, len(alts))
			for i, a := range alts {
				p.costs[i] = int8(a.cost)
			}
		}
		x.curCost += alts[c].cost
		x.trace = append(x.trace, p)
		x.steps++
		a := alts[c]
		if x.verbose {
			x.log = append(x.log, fmt.Sprintf("[%d] CHOICE %d/%d %s", idx, c, len(alts), label))
		}
		if a.ev != nil {
			a.ev.Fire()
			continue
		}
		x.mu.Lock()
		t := a.t
		// Fold what this thread can observe into its local history.
		h := fnv.New64a()
		var hb [8]byte
		for i := 0; i < 8; i++ {
			hb[i] = byte(t.hist >> (8 * i))
		}
		h.Write(hb[:])
		h.Write([]byte(gk))
		h.Write([]byte(t.pend.label))
		h.Write([]byte{byte(a.sub)})
		t.hist = h.Sum64()
		t.lastGranted = t.pend.label
		t.pend = nil
		x.last = t
		x.mu.Unlock()
		t.park <- a.sub
	}
}

func altLabel(alts []alt, c int) string {
	if c >= len(alts) {
		return "?"
	}
	a := alts[c]
	if a.ev != nil {
		return "ev:" + a.ev.Name
	}
	s := a.t.Name + ":" + a.t.pend.label
	if a.t.pend.kind == kindChoose {
		s += "=" + strconv.Itoa(a.sub)
	}
	return s
}

func (x *X) anyParked() bool {
	x.mu.Lock()
	defer x.mu.Unlock()
	for _, t := range x.threads {
		if !t.done && t.pend != nil {
			return true
		}
	}
	return false
}

// describeStuck lists the threads that did not finish.
func (x *X) describeStuck() string {
	x.mu.Lock()
	defer x.mu.Unlock()
	var parts []string
	for _, t := range x.threads {
		if t.done {
			continue
		}
		if t.pend != nil {
			s := t.Name + " parked at " + t.pend.label
			if ls := x.locks[t.pend.m]; t.pend.m != nil && ls != nil && ls.writer != nil {
				s += " (lock held by " + ls.writer.Name + ", acquired at " + ls.wlabel + ")"
			}
			parts = append(parts, s)
		} else if !t.Anon {
			parts = append(parts, t.Name+" blocked natively after "+t.lastGranted)
		}
	}
	return strings.Join(parts, "; ")
}

// stuckFingerprint is a schedule-independent rendering of the stuck set.
func (x *X) stuckFingerprint() string {
	x.mu.Lock()
	defer x.mu.Unlock()
	var parts []string
	for _, t := range x.threads {
		if t.done || t.Anon {
			continue
		}
		if t.pend != nil {
			parts = append(parts, t.pend.label)
		} else {
			parts = append(parts, "native-after-"+t.lastGranted)
		}
	}
	sort.Strings(parts)
	return strings.Join(parts, "+")
}

// runFree sequences only the environment events; threads run freely (and
// truly concurrently) in between, so that the race detector observes the
// code's own synchronisation only.
func (x *X) runFree() {
	for i := 0; i < x.maxSteps; i++ {
		synctest.Wait()
		x.mu.Lock()
		unfinished := 0
		for _, t := range x.threads {
			if !t.done && !t.Anon {
				unfinished++
			}
		}
		x.mu.Unlock()
		var en []*Event
		for _, e := range x.events {
			if !e.Teardown && (e.Enabled == nil || e.Enabled()) {
				en = append(en, e)
			}
		}
		if len(en) == 0 {
			for _, e := range x.events {
				if e.Teardown && (e.Enabled == nil || e.Enabled()) {
					en = append(en, e)
					break
				}
			}
		}
		if len(en) == 0 {
			if unfinished > 0 {
				x.deadlock = true
			}
			return
		}
		x.mu.Lock()
		e := en[x.rng.Intn(len(en))]
		x.mu.Unlock()
		x.trace = append(x.trace, Point{N: len(en), Label: "ev:" + e.Name})
		e.Fire()
	}
	x.horizon = true
}
