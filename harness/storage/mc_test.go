package storage

import (
	"context"
	"crypto/sha256"
	"encoding/hex"
	"fmt"
	"net/url"
	"os"
	"runtime"
	"strings"
	"testing"
	"testing/synctest"

	"verif/mc"

	remoteexecution "github.com/bazelbuild/remote-apis/build/bazel/remote/execution/v2"
	re_blobstore "github.com/buildbarn/bb-remote-execution/pkg/blobstore"
	"github.com/buildbarn/bb-remote-execution/pkg/builder"
	"github.com/buildbarn/bb-remote-execution/pkg/proto/remoteworker"
	"github.com/buildbarn/bb-storage/pkg/blobstore"
	"github.com/buildbarn/bb-storage/pkg/digest"

	"golang.org/x/sync/semaphore"
)

// Output sets of one action: 0-4 uploads, with duplicates and with blobs
// that are already present in the CAS (P).
var outputSets = [][]string{
	{},
	{"A"},
	{"P"},
	{"A", "A"},
	{"A", "B"},
	{"A", "P"},
	{"A", "B", "A"},
	{"A", "B", "C"},
	{"P", "A", "B"},
	{"A", "B", "C", "D"},
	{"A", "B", "A", "C"},
	{"A", "P", "B", "P"},
}

// pipeline is the composition under test, wired like cmd/bb_worker/main.go
// (guarded by the "main-wiring" scenario): a per-worker-thread batching
// writer in front of the global CAS, used by the innermost executor; its
// flush function called by the storage flushing executor; the caching
// executor outside, talking to the global CAS and the AC directly.
type pipeline struct {
	w      *world
	exec   builder.BuildExecutor
	writer blobstore.BlobAccess
	flush  func(context.Context) error
}

var browserURL = func() *url.URL {
	u, err := url.Parse("http://bb-browser.example.com/")
	if err != nil {
		panic(err)
	}
	return u
}()

func newPipeline(w *world, cas blobstore.BlobAccess, ac blobstore.BlobAccess, batchSize int, sem *semaphore.Weighted, opts ...pipeOpts) *pipeline {
	var o pipeOpts
	if len(opts) > 0 {
		o = opts[0]
	}
	writer, flusher := re_blobstore.NewBatchedStoreBlobAccess(cas, digest.KeyWithoutInstance, batchSize, sem)
	flush := func(ctx context.Context) error {
		// Transparent wrapper: observes what the flusher reports.
		w.scope(ctx, 1)
		err := flusher(ctx)
		w.scope(ctx, -1)
		w.onFlushReturn(ctx, err)
		return err
	}
	var exec builder.BuildExecutor = &fakeLocal{w: w, writer: writer}
	if o.inner != nil {
		exec = o.inner(w, writer)
	}
	exec = builder.NewStorageFlushingBuildExecutor(exec, flush)
	if o.timestamped {
		exec = builder.NewTimestampedBuildExecutor(exec, constClock{}, "worker")
	}
	exec = builder.NewCachingBuildExecutor(exec, cas, ac, browserURL)
	return &pipeline{w: w, exec: exec, writer: writer, flush: flush}
}

func actionDigest(idx int) *remoteexecution.Digest {
	sum := sha256.Sum256([]byte(fmt.Sprintf("action %d", idx)))
	return &remoteexecution.Digest{Hash: hex.EncodeToString(sum[:]), SizeBytes: 123}
}

// runAction executes one action through the pipeline and evaluates the
// per-action oracles.
func (p *pipeline) runAction(cfg actionCfg) {
	w := p.w
	ctx, cancel := context.WithCancel(context.Background())
	defer cancel()
	w.mu.Lock()
	idx := w.nextIdx
	w.nextIdx++
	ad := actionDigest(idx)
	st := &actionState{idx: idx, cfg: cfg, cancel: cancel, key: w.protoKey(ad)}
	w.mu.Unlock()
	ctx = withAction(ctx, st)
	w.register(st, ctx)
	defer w.unregister(st)
	request := &remoteworker.DesiredState_Executing{
		ActionDigest: ad,
		Action:       &remoteexecution.Action{DoNotCache: cfg.dnc},
	}
	resp := p.exec.Execute(ctx, nil, nil, w.df, request, nil)
	w.checkResponse(st, resp)
}

// leakGuard detects goroutines of the bubble that outlive the execution
// (blocked for good on a channel/semaphore/WaitGroup after every harness
// thread returned). runtime.NumGoroutine() is only approximate while
// goroutines exit, so the bubble's goroutines are listed from a stack dump.
type leakGuard struct{ base int }

func (g *leakGuard) start() { g.base = runtime.NumGoroutine() }

func (g *leakGuard) finish(x *mc.X) {
	if x.Free() {
		return
	}
	synctest.Wait()
	if runtime.NumGoroutine() <= g.base {
		return // cheap (approximate) pre-check; the precise one below stops the world
	}
	buf := make([]byte, 1<<17)
	buf = buf[:runtime.Stack(buf, true)]
	var leaked []string
	for _, rec := range strings.Split(string(buf), "\n\n") {
		header, _, _ := strings.Cut(rec, "\n")
		if !strings.Contains(header, "synctest bubble") {
			continue
		}
		if strings.Contains(rec, "leakGuard).finish") || strings.Contains(rec, "internal/synctest.Run(") || strings.Contains(rec, "testingSynctestTest(") {
			continue
		}
		leaked = append(leaked, rec)
	}
	if len(leaked) > 0 {
		x.FailP(prop, "goroutine-leak", "%d goroutine(s) are left behind after the execution:\n%s", len(leaked), strings.Join(leaked, "\n\n"))
	}
}

func chooseCfg(x *mc.X, sets [][]string, outcomes, dncs, attaches int) actionCfg {
	var c actionCfg
	c.blobs = sets[x.ChooseFree("outputs", len(sets))]
	c.outcome = x.ChooseFree("outcome", outcomes)
	c.dnc = x.ChooseFree("do_not_cache", dncs) == 1
	c.attach = x.ChooseFree("inner-attaches-put-errors", attaches) == 1
	return c
}

func base(name string) *mc.Scenario {
	return &mc.Scenario{
		Name:        name,
		Props:       []string{prop},
		Liveness:    []string{prop},
		Livelock:    []string{prop},
		Panics:      []string{prop},
		PreemptFree: true, // thread switches are free: every order of the concurrent Puts; deviations = injected faults
		Bounds:      map[string]int{"quick": 2, "thorough": 4},
	}
}

// oneAction: one action, every output set x outcome x do_not_cache x inner
// error policy (free input choices), every fault position, every order of
// the Put goroutines.
func oneAction(batchSize, semWeight int) *mc.Scenario {
	sc := base(fmt.Sprintf("one-action/batch=%d/sem=%d", batchSize, semWeight))
	var g leakGuard
	sc.Build = func(x *mc.X) {
		g.start()
		x.AdoptAnonymous()
		w := newWorld(x)
		w.addCancelEvents(x)
		x.Go("worker", func() {
			cfg := chooseCfg(x, outputSets, 4, 2, 2)
			p := newPipeline(w, &fakeCAS{w}, &fakeAC{fakeCAS{w}}, batchSize, semaphore.NewWeighted(int64(semWeight)))
			p.runAction(cfg)
		})
	}
	sc.Finish = g.finish
	return sc
}

// twoActions: two consecutive actions on the same worker thread, i.e. on the
// same batching writer and semaphore: state must not leak from one flush to
// the next in a way that breaks the statement for the second action (a lost
// semaphore unit, a pending buffer, a swallowed or stale error).
func twoActions(batchSize, semWeight int) *mc.Scenario {
	sc := base(fmt.Sprintf("two-actions/batch=%d/sem=%d", batchSize, semWeight))
	first := [][]string{{"A", "B"}, {"A", "B", "C"}}
	second := [][]string{{"C"}, {"B", "D"}, {"A", "C", "D"}}
	var g leakGuard
	sc.Build = func(x *mc.X) {
		g.start()
		x.AdoptAnonymous()
		w := newWorld(x)
		w.addCancelEvents(x)
		x.Go("worker", func() {
			c1 := chooseCfg(x, first, 1, 1, 2)
			c2 := chooseCfg(x, second, 1, 1, 1)
			p := newPipeline(w, &fakeCAS{w}, &fakeAC{fakeCAS{w}}, batchSize, semaphore.NewWeighted(int64(semWeight)))
			p.runAction(c1)
			p.runAction(c2)
		})
	}
	sc.Finish = g.finish
	return sc
}

// storeDirect: the batching layer alone. Puts (with duplicates and present
// blobs), flush, more Puts, flush again; every FindMissing/Put fault
// position. Oracles: acknowledged => stored when flush returns nil, buffers
// released exactly once, no hang.
func storeDirect(semWeight int) *mc.Scenario {
	sc := base(fmt.Sprintf("store-direct/sem=%d", semWeight))
	round1 := [][]string{{"A", "B", "A"}, {"P", "A", "B", "C"}, {"A", "B", "C", "D"}}
	round2 := [][]string{{"A", "D"}, {"D", "D", "B"}, {"C", "A", "P", "D"}}
	var g leakGuard
	sc.Build = func(x *mc.X) {
		g.start()
		x.AdoptAnonymous()
		w := newWorld(x)
		w.addCancelEvents(x)
		x.Go("writer", func() {
			batchSize := 1 + x.ChooseFree("batch-size", 3)
			r1 := round1[x.ChooseFree("round1", len(round1))]
			r2 := round2[x.ChooseFree("round2", len(round2))]
			p := newPipeline(w, &fakeCAS{w}, &fakeAC{fakeCAS{w}}, batchSize, semaphore.NewWeighted(int64(semWeight)))
			for i, round := range [][]string{r1, r2} {
				ctx, cancel := context.WithCancel(context.Background())
				st := &actionState{idx: i, cfg: actionCfg{blobs: round}, cancel: cancel}
				ctx = withAction(ctx, st)
				w.register(st, ctx)
				acked := 0
				for _, name := range round {
					w.scope(ctx, 1)
					err := p.writer.Put(ctx, w.digests[name], w.newBuffer(ctx, name))
					w.scope(ctx, -1)
					if err == nil {
						w.ackedPut(ctx, name)
						acked++
					}
				}
				err := p.flush(ctx) // runs the acknowledged-write oracle and the buffer oracle
				w.unregister(st)
				cancel()
				x.Outcome("r%d:%v acked=%d faults=%d flusherr=%v", i, round, acked, len(st.faults), err != nil)
			}
		})
	}
	sc.Finish = g.finish
	return sc
}

// twoWorkers: two worker threads (runner concurrency 2 in main.go): each has
// its own batching writer/flusher and executor stack, both share the global
// CAS, the AC and the upload semaphore. Here thread switches count as
// deviations too (preemption bound), together with the injected faults.
func twoWorkers(batchSize, semWeight int) *mc.Scenario {
	sc := base(fmt.Sprintf("two-workers/batch=%d/sem=%d", batchSize, semWeight))
	sc.PreemptFree = false
	sc.Bounds = map[string]int{"quick": 2, "thorough": 3}
	var g leakGuard
	sc.Build = func(x *mc.X) {
		g.start()
		x.AdoptAnonymous()
		w := newWorld(x)
		w.addCancelEvents(x)
		w.multi = true
		cas, ac := &fakeCAS{w}, &fakeAC{fakeCAS{w}}
		sem := semaphore.NewWeighted(int64(semWeight))
		p1 := newPipeline(w, cas, ac, batchSize, sem)
		p2 := newPipeline(w, cas, ac, batchSize, sem)
		x.Go("worker1", func() { p1.runAction(actionCfg{blobs: []string{"A", "B"}}) })
		x.Go("worker2", func() { p2.runAction(actionCfg{blobs: []string{"B", "C"}}) })
	}
	sc.Finish = g.finish
	return sc
}

func TestMC(t *testing.T) {
	if os.Getenv("GOMAXPROCS") == "" {
		// One execution is a ping-pong between the controller and one
		// thread at a time; more Ps only add wake-up latency.
		runtime.GOMAXPROCS(4)
	}
	var scenarios []*mc.Scenario
	for _, batch := range []int{1, 2, 3} {
		for _, sem := range []int{1, 2} {
			scenarios = append(scenarios, oneAction(batch, sem))
		}
	}
	for _, batch := range []int{1, 2} {
		for _, sem := range []int{1, 2} {
			scenarios = append(scenarios, twoActions(batch, sem))
		}
	}
	for _, sem := range []int{1, 2} {
		scenarios = append(scenarios, storeDirect(sem))
	}
	scenarios = append(scenarios, twoWorkers(1, 1), twoWorkers(2, 1), twoWorkers(2, 2))
	// One store shared by two goroutines.
	scenarios = append(scenarios,
		storeShared(1, 2, [2][]string{{"A", "B"}, {"C"}}),
		storeShared(1, 1, [2][]string{{"A", "B"}, {"C", "A"}}),
		storeShared(2, 2, [2][]string{{"A", "B", "C"}, {"D", "A"}}),
	)
	scenarios = append(scenarios, realOutputs(2, 2), realOutputs(1, 1))
	scenarios = append(scenarios, twoActionsTimestamped(1, 1), twoActionsTimestamped(2, 2))
	scenarios = append(scenarios, mainWiring())
	mc.Main(t, scenarios, nil)
}
