package locks

import (
	"fmt"
	"io"
	"strconv"

	"verif/mc"

	"github.com/buildbarn/bb-remote-execution/pkg/filesystem/virtual"
	nfsv4srv "github.com/buildbarn/bb-remote-execution/pkg/filesystem/virtual/nfsv4"
	"github.com/buildbarn/go-xdr/pkg/protocols/nfsv4"
)

// Engine B on the real nfsv4.OpenedFilesPool / OpenedFile: 2 lock-owners x 2
// files. The harness plays the part of the NFS server state machine
// (nfs40_program.go / nfs41_program.go) exactly as far as lock bookkeeping
// goes:
//
//	LOCK   -> delta, res := of.Lock(owner, offset, length, type); if res == nil { lockCount += delta }
//	LOCKU  -> delta, st := of.Unlock(owner, offset, length);      if st == OK  { lockCount += delta }
//	LOCKT  -> pool.TestLock(handle, owner-or-nil, offset, length, type)
//	CLOSE  -> if lockCount > 0 { lockCount += of.UnlockAll(owner) }; lockCount must be 0; of.Close()
//
// with one lockCount per (lock-owner, file), as in nfs4?LockOwnerFileState.

type fakeLeaf struct {
	virtual.Leaf // nil: the pool only stores the leaf
	id           int
}

const (
	poolOwners = 2
	poolFiles  = 2
)

var poolPoints = []uint64{0, 1, 2, maxOff - 1, maxOff}

type poolState struct {
	pool    *nfsv4srv.OpenedFilesPool
	owners  []*nfsv4.LockOwner4
	handles []nfsv4.NfsFh4
	leaves  []*fakeLeaf
	// Per (owner, file): the OpenedFile obtained by the owner's OPEN (nil
	// when not open) and the caller-side lock count.
	of        [poolOwners][poolFiles]*nfsv4srv.OpenedFile
	lockCount [poolOwners][poolFiles]int
	m         [poolFiles]*model
	resolves  int
}

// rangeSpec is an NFSv4 (offset, length) pair and its meaning.
type rangeSpec struct {
	offset, length uint64
	valid          bool
	i, j           int // segment indices in poolPoints if valid
}

func (r rangeSpec) String() string {
	return fmt.Sprintf("off=%s len=%s", offName(r.offset), offName(r.length))
}

var poolRanges = []rangeSpec{
	{0, 1, true, 0, 1},                    // [0,1)
	{1, 1, true, 1, 2},                    // [1,2)
	{0, 2, true, 0, 2},                    // [0,2)
	{maxOff - 1, 1, true, 3, 4},           // [max-1,max): the last lockable byte
	{2, maxOff - 3, true, 2, 3},           // [2,max-1)
	{2, maxOff, true, 2, 4},               // [2,EOF)
	{1, maxOff, true, 1, 4},               // [1,EOF)
	{1, maxOff - 1, true, 1, 4},           // [1,max): offset+length == max exactly, not an overflow
	{0, maxOff - 1, true, 0, 3},           // [0,max-1)
	{0, maxOff, true, 0, 4},               // whole file
	{maxOff - 1, maxOff, true, 3, 4},      // [max-1,EOF)
	{1, 0, false, 0, 0},                   // zero length: invalid
	{2, maxOff - 1, false, 0, 0},          // offset+length overflows: invalid
	{maxOff - 1, maxOff - 1, false, 0, 0}, // overflows by a lot (wraps to max-3 < offset): invalid
}

// lastByteRange is "from byte 2^64-1 to EOF": a legal NFSv4 request for one
// byte that the [Start,End) representation (End <= 2^64-1) cannot express;
// offsetLengthToStartEnd() turns it into the empty range [max,max). Only used
// by the opt-in Seq "pool-last-byte" (see mc_test.go).
var lastByteRange = rangeSpec{maxOff, maxOff, true, 4, 4}

func nfsType(t lockType) nfsv4.NfsLockType4 {
	if t == tExcl {
		return nfsv4.WRITE_LT
	}
	return nfsv4.READ_LT
}

func (s *poolState) tableOf(f int) *nfsv4srv.OpenedFile {
	for o := 0; o < poolOwners; o++ {
		if s.of[o][f] != nil {
			return s.of[o][f]
		}
	}
	return nil
}

func (s *poolState) dump(f int) ([]entry, bool) {
	of := s.tableOf(f)
	if of == nil {
		return nil, true
	}
	d, ok := of.VerifLocksDump()
	return convertDump(d, s.owners), ok
}

func (s *poolState) key() string {
	b := make([]byte, 0, 512)
	for f := 0; f < poolFiles; f++ {
		es, _ := s.dump(f)
		b = appendEntries(b, es)
		b = append(b, '|')
		b = s.m[f].appendKey(b)
		for o := 0; o < poolOwners; o++ {
			if s.of[o][f] != nil {
				b = append(b, 'o')
			} else {
				b = append(b, 'c')
			}
			b = strconv.AppendInt(b, int64(s.lockCount[o][f]), 10)
			b = append(b, ',')
		}
		b = append(b, '\n')
	}
	hs, ucs, _ := s.pool.VerifLocksOpened()
	for i, h := range hs {
		b = strconv.AppendQuote(b, h)
		b = strconv.AppendInt(b, int64(ucs[i]), 10)
	}
	return string(b)
}

// decodeDenied turns a LOCK4denied into a table entry, resolving the owner
// by its protocol-level contents (the reply carries a copy).
func (s *poolState) decodeDenied(d *nfsv4.Lock4denied) entry {
	e := entry{start: d.Offset, owner: -1}
	if d.Length == maxOff {
		e.end = maxOff
	} else {
		e.end = d.Offset + d.Length
	}
	switch d.Locktype {
	case nfsv4.READ_LT, nfsv4.READW_LT:
		e.typ = tShared
	case nfsv4.WRITE_LT, nfsv4.WRITEW_LT:
		e.typ = tExcl
	}
	for i, o := range s.owners {
		if o.Clientid == d.Owner.Clientid && string(o.Owner) == string(d.Owner.Owner) {
			e.owner = i
		}
	}
	return e
}

// checkReply compares the verdict of LOCK / LOCKT with the model. granted /
// denied describe the reply; it returns whether the caller may proceed as
// granted.
func (s *poolState) checkReply(c *mc.SeqCtx, what string, o, f int, r rangeSpec, t lockType, status nfsv4.Nfsstat4, denied *nfsv4.Lock4denied) {
	if c.Replaying {
		return
	}
	kind := what + "-" + typeName(t)
	if !r.valid {
		if status == nfsv4.NFS4_OK {
			c.FailP("C20", "pool/invalid-range-accepted/"+what, "%s with %s (empty or overflowing range) was accepted", what, r)
		}
		return
	}
	want := s.m[f].conflict(o, r.i, r.j, t)
	switch {
	case status == nfsv4.NFS4_OK && want:
		c.FailP("C20", "pool/missed-conflict/"+kind, "%s granted although another owner holds a conflicting lock: model %s", what, s.m[f])
	case status == nfsv4.NFS4ERR_DENIED && !want:
		c.FailP("C20", "pool/false-conflict/"+kind, "%s denied (%+v) although nothing conflicts: model %s", what, *denied, s.m[f])
	case status == nfsv4.NFS4ERR_DENIED:
		re := s.decodeDenied(denied)
		if why := checkConflictingLock(s.m[f], o, poolPoints[r.i], poolPoints[r.j], t, re); why != "" {
			c.FailP("C20", "pool/bogus-conflicting-lock/"+kind, "%s: reply names %s (%+v); model %s", why, re, *denied, s.m[f])
		}
	case status != nfsv4.NFS4_OK:
		c.FailP("C20", "pool/valid-range-rejected/"+what, "%s with valid range %s failed with status %v", what, r, status)
	}
}

func (s *poolState) check(c *mc.SeqCtx) {
	hs, ucs, files := s.pool.VerifLocksOpened()
	tracked := map[string]int{}
	for i, h := range hs {
		tracked[h] = ucs[i]
		_ = files
	}
	for f := 0; f < poolFiles; f++ {
		openers := 0
		for o := 0; o < poolOwners; o++ {
			if s.of[o][f] != nil {
				openers++
				if s.of[o][f] != s.tableOf(f) {
					c.FailP("C20", "pool/split-table", "two OPENs of file %d got different OpenedFile objects (separate lock tables)", f)
				}
			}
		}
		if uc, ok := tracked[string(s.handles[f])]; ok != (openers > 0) || (ok && uc != openers) {
			c.FailP("C20", "pool/tracking", "file %d: %d owners have it open, pool tracks it: %t (use count %d)", f, openers, ok, uc)
		}
		es, ok := s.dump(f)
		if fl := compareTable(es, ok, s.m[f]); fl != nil {
			c.FailP("C20", "pool/"+fl.fingerprint, "file %d: %s", f, fl.message)
		}
		for o := 0; o < poolOwners; o++ {
			n := countOwner(es, o)
			if s.lockCount[o][f] != n {
				c.FailP("C20", "pool/lockcount-vs-table", "file %d owner %c: caller-side lockCount (sum of returned deltas) is %d, table has %d entries of that owner: %s", f, 'A'+o, s.lockCount[o][f], n, entriesString(es))
			}
			if (s.lockCount[o][f] > 0) != s.m[f].holdsAny(o) {
				c.FailP("C20", "pool/lockcount-vs-model", "file %d owner %c: lockCount %d but model says holdsAny=%t (RELEASE_LOCKOWNER / FREE_STATEID / CLOSE would decide wrongly)", f, 'A'+o, s.lockCount[o][f], s.m[f].holdsAny(o))
			}
		}
	}
}

// closeFile is the CLOSE / lease-expiry path of the server for one
// (lock-owner, file): release what the owner holds, then drop the reference.
func (s *poolState) closeFile(c *mc.SeqCtx, o, f int) {
	of := s.of[o][f]
	if s.lockCount[o][f] > 0 {
		s.lockCount[o][f] += of.UnlockAll(s.owners[o])
	}
	s.m[f].set(o, 0, len(poolPoints)-1, tNone)
	if s.lockCount[o][f] != 0 {
		// nfs4?LockOwnerFileState.remove() panics in this situation.
		c.FailP("C20", "pool/lockcount-after-unlockall", "file %d owner %c: lockCount is %d after UnlockAll (server would panic: lock-owner file still holds locks)", f, 'A'+o, s.lockCount[o][f])
		s.lockCount[o][f] = 0
	}
	// Look at the table before the reference goes away.
	if s.tableOf(f) != nil && !c.Replaying {
		es, ok := s.dump(f)
		if fl := compareTable(es, ok, s.m[f]); fl != nil {
			c.FailP("C20", "pool/close/"+fl.fingerprint, "file %d after UnlockAll of owner %c: %s", f, 'A'+o, fl.message)
		}
	}
	of.Close()
	s.of[o][f] = nil
}

func poolSeq(name string, ranges []rangeSpec, testers []int, depth map[string]int) *mc.Seq {
	seq := &mc.Seq{
		Name:   name,
		Props:  []string{"C20"},
		Panics: []string{"C20"},
		Depth:  depth,
		New: func(c *mc.SeqCtx) any {
			s := &poolState{}
			s.pool = nfsv4srv.NewOpenedFilesPool(func(r io.ByteReader) (virtual.DirectoryChild, virtual.Status) {
				s.resolves++
				return virtual.DirectoryChild{}, virtual.StatusErrStale
			})
			// Two lock-owners of different clients using the same owner
			// string: the table must tell them apart by identity.
			s.owners = []*nfsv4.LockOwner4{{Clientid: 1, Owner: []byte("o")}, {Clientid: 2, Owner: []byte("o")}}
			for f := 0; f < poolFiles; f++ {
				s.handles = append(s.handles, nfsv4.NfsFh4{byte(1 + f)})
				s.leaves = append(s.leaves, &fakeLeaf{id: f})
				s.m[f] = newModel(poolPoints, poolOwners)
			}
			// Start with every owner having every file open.
			for o := 0; o < poolOwners; o++ {
				for f := 0; f < poolFiles; f++ {
					s.of[o][f] = s.pool.Open(s.handles[f], s.leaves[f])
				}
			}
			return s
		},
		Key:   func(s any) string { return s.(*poolState).key() },
		Check: func(c *mc.SeqCtx, s any) { s.(*poolState).check(c) },
		Final: func(c *mc.SeqCtx, x any) {
			// Close everything (CLOSE of every state, or lease expiry): the
			// pool must forget all files, and a fresh OPEN must find no
			// stale lock.
			s := x.(*poolState)
			for f := 0; f < poolFiles; f++ {
				for o := 0; o < poolOwners; o++ {
					if s.of[o][f] != nil {
						s.closeFile(c, o, f)
					}
				}
			}
			if hs, _, _ := s.pool.VerifLocksOpened(); len(hs) != 0 {
				c.FailP("C20", "pool/final/still-tracked", "all files closed, pool still tracks %q", hs)
			}
			for f := 0; f < poolFiles; f++ {
				of := s.pool.Open(s.handles[f], s.leaves[f])
				if res := s.pool.TestLock(s.handles[f], nil, 0, maxOff, nfsv4.WRITE_LT); res.GetStatus() != nfsv4.NFS4_OK {
					c.FailP("C20", "pool/final/stale-lock", "file %d re-opened after all owners closed it: LOCKT of the whole file says %v", f, res.GetStatus())
				}
				of.Close()
			}
		},
	}
	add := func(name string, enabled func(s *poolState) bool, do func(c *mc.SeqCtx, s *poolState)) {
		seq.Ops = append(seq.Ops, mc.SeqOp{
			Name:    name,
			Enabled: func(x any) bool { return enabled(x.(*poolState)) },
			Do:      func(c *mc.SeqCtx, x any) { do(c, x.(*poolState)) },
		})
	}
	for f := 0; f < poolFiles; f++ {
		for o := 0; o < poolOwners; o++ {
			o, f := o, f
			for _, r := range ranges {
				r := r
				for _, t := range []lockType{tShared, tExcl} {
					t := t
					add(fmt.Sprintf("%c LOCK f%d %s %s", 'A'+o, f, typeName(t), r),
						func(s *poolState) bool { return s.of[o][f] != nil },
						func(c *mc.SeqCtx, s *poolState) {
							delta, res := s.of[o][f].Lock(s.owners[o], r.offset, r.length, nfsType(t))
							if res == nil {
								s.checkReply(c, "LOCK", o, f, r, t, nfsv4.NFS4_OK, nil)
								s.lockCount[o][f] += delta
								if r.valid {
									s.m[f].set(o, r.i, r.j, t)
								}
								if s.lockCount[o][f] < 0 {
									c.FailP("C20", "pool/negative-lockcount/LOCK", "file %d owner %c: lockCount %d (server would panic)", f, 'A'+o, s.lockCount[o][f])
								}
								return
							}
							var denied *nfsv4.Lock4denied
							if d, ok := res.(*nfsv4.Lock4res_NFS4ERR_DENIED); ok {
								denied = &d.Denied
							}
							s.checkReply(c, "LOCK", o, f, r, t, res.GetStatus(), denied)
							if delta != 0 {
								c.FailP("C20", "pool/delta-on-failure/LOCK", "failed LOCK returned delta %d", delta)
							}
						})
				}
				add(fmt.Sprintf("%c LOCKU f%d %s", 'A'+o, f, r),
					func(s *poolState) bool { return s.of[o][f] != nil },
					func(c *mc.SeqCtx, s *poolState) {
						delta, st := s.of[o][f].Unlock(s.owners[o], r.offset, r.length)
						if st != nfsv4.NFS4_OK {
							if r.valid {
								c.FailP("C20", "pool/valid-range-rejected/LOCKU", "LOCKU with valid range %s failed with status %v", r, st)
							}
							if delta != 0 {
								c.FailP("C20", "pool/delta-on-failure/LOCKU", "failed LOCKU returned delta %d", delta)
							}
							return
						}
						if !r.valid {
							c.FailP("C20", "pool/invalid-range-accepted/LOCKU", "LOCKU with %s (empty or overflowing range) was accepted", r)
						} else {
							s.m[f].set(o, r.i, r.j, tNone)
						}
						s.lockCount[o][f] += delta
						if s.lockCount[o][f] < 0 {
							c.FailP("C20", "pool/negative-lockcount/LOCKU", "file %d owner %c: lockCount %d (server would panic)", f, 'A'+o, s.lockCount[o][f])
						}
					})
			}
			add(fmt.Sprintf("%c CLOSE f%d", 'A'+o, f),
				func(s *poolState) bool { return s.of[o][f] != nil },
				func(c *mc.SeqCtx, s *poolState) { s.closeFile(c, o, f) })
			add(fmt.Sprintf("%c OPEN f%d", 'A'+o, f),
				func(s *poolState) bool { return s.of[o][f] == nil },
				func(c *mc.SeqCtx, s *poolState) {
					of := s.pool.Open(s.handles[f], s.leaves[f])
					s.of[o][f] = of
					if string(of.GetHandle()) != string(s.handles[f]) {
						c.FailP("C20", "pool/open-handle", "Open returned an OpenedFile of another handle")
					}
				})
		}
		// LOCKT by both owners and by an owner the server has never seen
		// (nil pointer, as opLockT does), whether or not the file is open.
		for _, o := range testers {
			o, f := o, f
			for _, r := range ranges {
				r := r
				for _, t := range []lockType{tShared, tExcl} {
					t := t
					who := "stranger"
					mo := -1
					if o < poolOwners {
						who = string(rune('A' + o))
						mo = o
					}
					add(fmt.Sprintf("%s LOCKT f%d %s %s", who, f, typeName(t), r),
						func(s *poolState) bool { return true },
						func(c *mc.SeqCtx, s *poolState) {
							var owner *nfsv4.LockOwner4
							if mo >= 0 {
								owner = s.owners[mo]
							}
							res := s.pool.TestLock(s.handles[f], owner, r.offset, r.length, nfsType(t))
							var denied *nfsv4.Lock4denied
							if d, ok := res.(*nfsv4.Lockt4res_NFS4ERR_DENIED); ok {
								denied = &d.Denied
							}
							s.checkReply(c, "LOCKT", mo, f, r, t, res.GetStatus(), denied)
						})
				}
			}
		}
	}
	return seq
}
