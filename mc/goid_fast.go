//go:build !race

package mc

import (
	"unsafe"
)

// getg returns the address of the current goroutine's descriptor.
func getg() unsafe.Pointer

// goidOffset is the offset of the goid field inside the runtime's g
// struct, discovered at start-up by comparing against slowGoid on several
// goroutines (0 = not found, fall back to slowGoid).
var goidOffset uintptr

func init() {
	type sample struct {
		g  unsafe.Pointer
		id int64
	}
	var samples []sample
	ch := make(chan sample)
	for i := 0; i < 4; i++ {
		go func() { ch <- sample{getg(), slowGoid()} }()
	}
	for i := 0; i < 4; i++ {
		samples = append(samples, <-ch)
	}
	samples = append(samples, sample{getg(), slowGoid()})
	var found []uintptr
	for off := uintptr(0); off < 512; off += 8 {
		ok := true
		for _, s := range samples {
			if s.g == nil || *(*int64)(unsafe.Add(s.g, off)) != s.id {
				ok = false
				break
			}
		}
		if ok {
			found = append(found, off)
		}
	}
	if len(found) == 1 {
		goidOffset = found[0]
	}
}

func goid() int64 {
	if goidOffset != 0 {
		return *(*int64)(unsafe.Add(getg(), goidOffset))
	}
	return slowGoid()
}
