"""Static configuration of /verif/check: which harness packages serve which
property, and which repository files get their `sync` import redirected to the
pkg/verifsync shim by the build overlay."""

TIER = {
    "quick": {"time_limit_s": 60, "hard_timeout_s": 600},
    "thorough": {"time_limit_s": 900, "hard_timeout_s": 3600},
}

OVERLAY_FILES = [
    "pkg/scheduler/in_memory_build_queue.go",
    "pkg/blobstore/batched_store_blob_access.go",
    "pkg/blobstore/blob_access_mutable_proto_store.go",
    "pkg/cleaner/idle_invoker.go",
    "pkg/clock/suspendable_clock.go",
    "pkg/sync/lock_pile.go",
    "pkg/filesystem/pool/bitmap_sector_allocator.go",
    "pkg/filesystem/virtual/in_memory_prepopulated_directory.go",
    "pkg/filesystem/virtual/pool_backed_file_allocator.go",
    "pkg/filesystem/virtual/nfs_handle_allocator.go",
    "pkg/filesystem/virtual/fuse_handle_allocator.go",
    "pkg/filesystem/virtual/stateless_handle_allocating_cas_file_factory.go",
    "pkg/filesystem/virtual/user_settable_symlink.go",
    "pkg/filesystem/virtual/nfsv4/nfs40_program.go",
    "pkg/filesystem/virtual/nfsv4/nfs41_program.go",
    "pkg/filesystem/virtual/nfsv4/opened_files_pool.go",
    "pkg/cas/caching_directory_fetcher.go",
    "pkg/builder/local_build_executor.go",
]

PROPS = {
    "C14": {
        "harnesses": ["vfs"],
        "technique": "stateless model checking of the implementation: exhaustive enumeration of thread interleavings at lock/try-lock granularity under a controlled scheduler (deviation-bounded DFS + state-key pruning), lock-leak monitor on every return",
        "level_text": "Every interleaving of the listed 2-3 thread call sets on the real directory tree / LockPile is executed (quick: <=3 preemptions; thorough: unbounded with state pruning); deadlock = no enabled thread; after every call return the shim's registry of held locks must be empty. Bounded-exhaustive over the drivers, not over all programs.",
        "level_note": "Trusts: the sync shim substitution (overlay), synctest quiescence detection, that code between scheduling points touches no unsynchronised shared state (checked by a separate -race pass). Covers only paths the drivers reach.",
        "rule": "every interleaving (lock/try-lock granularity) of the listed concurrent VFS call sets within the deviation bound, state-pruned; a case is an execution, distinct = distinct state keys",
        "assumptions": [],
    },
}

# Properties not (yet) claimed, with the reason. Kept current by hand.
NOT_APPLICABLE = {
}
for _p in ["C%02d" % i for i in range(1, 21)]:
    if _p not in PROPS:
        NOT_APPLICABLE[_p] = "check not built yet in this session (work in progress; the technique applies, see DESIGN.md section 7)"
