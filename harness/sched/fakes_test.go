package sched

// Hand-written fakes of everything the InMemoryBuildQueue talks to: clock,
// CAS, UUID source, contexts, Execute/WaitExecution streams and the
// initial-size-class analyzer. All of them are deterministic; every source
// of nondeterminism is an mc.Choose point or an mc.Event.

import (
	"context"
	"crypto/sha256"
	"encoding/hex"
	"fmt"
	"sync"
	"time"

	remoteexecution "github.com/bazelbuild/remote-apis/build/bazel/remote/execution/v2"
	"github.com/buildbarn/bb-remote-execution/pkg/scheduler/initialsizeclass"
	"github.com/buildbarn/bb-storage/pkg/blobstore"
	"github.com/buildbarn/bb-storage/pkg/blobstore/buffer"
	"github.com/buildbarn/bb-storage/pkg/blobstore/slicing"
	"github.com/buildbarn/bb-storage/pkg/clock"
	"github.com/buildbarn/bb-storage/pkg/digest"
	"github.com/google/uuid"
	"google.golang.org/grpc/codes"
	"google.golang.org/grpc/metadata"
	"google.golang.org/grpc/status"
	"google.golang.org/protobuf/proto"

	"cloud.google.com/go/longrunning/autogen/longrunningpb"
)

// ---------------------------------------------------------------------------
// Clock

var timeBase = time.Unix(1000, 0)

func tickTime(t int) time.Time { return timeBase.Add(time.Duration(t) * time.Second) }
func nsTick(ns int64) int      { return int((ns - timeBase.UnixNano()) / int64(time.Second)) }

type fakeTimer struct {
	clk      *fakeClock
	owner    *actor
	deadline int
	ch       chan time.Time
	stopped  bool
	fired    bool
	firedAt  int // clock value delivered through ch
}

func (t *fakeTimer) Stop() bool {
	t.clk.mu.Lock()
	defer t.clk.mu.Unlock()
	was := !t.stopped && !t.fired
	t.stopped = true
	return was
}

func (t *fakeTimer) live() bool {
	if t == nil {
		return false
	}
	t.clk.mu.Lock()
	defer t.clk.mu.Unlock()
	return !t.stopped && !t.fired
}

func (t *fakeTimer) isFired() bool {
	t.clk.mu.Lock()
	defer t.clk.mu.Unlock()
	return t.fired
}

func (t *fakeTimer) isStopped() bool {
	t.clk.mu.Lock()
	defer t.clk.mu.Unlock()
	return t.stopped
}

// fakeClock is a manual clock in whole ticks (1 tick = 1 s). Timers only
// fire through controller events.
type fakeClock struct {
	mu  sync.Mutex
	now int
	w   *world
}

func (c *fakeClock) Now() time.Time {
	c.mu.Lock()
	now := c.now
	c.mu.Unlock()
	// Remember what worker threads read: the scheduler measures a worker's
	// silence from the value its Synchronize call last passed to enter().
	// For every actor: a call that has read the clock has entered the
	// scheduler at least once (every enter() is bq.enter(bq.clock.Now())).
	if a := c.w.currentActor(); a != nil {
		c.w.mu.Lock()
		if a.inCall {
			a.nowCalls++
		}
		if a.wk != nil {
			a.noteClockValue(now)
		}
		c.w.mu.Unlock()
	}
	return tickTime(now)
}

func (c *fakeClock) tick() int {
	c.mu.Lock()
	defer c.mu.Unlock()
	return c.now
}

func (c *fakeClock) NewContextWithTimeout(parent context.Context, timeout time.Duration) (context.Context, context.CancelFunc) {
	panic("fakeClock.NewContextWithTimeout is not used by InMemoryBuildQueue")
}

func (c *fakeClock) NewTicker(d time.Duration) (clock.Ticker, <-chan time.Time) {
	panic("fakeClock.NewTicker is not used by InMemoryBuildQueue")
}

func (c *fakeClock) NewTimer(d time.Duration) (clock.Timer, <-chan time.Time) {
	a := c.w.currentActor()
	c.mu.Lock()
	t := &fakeTimer{clk: c, owner: a, deadline: c.now + int(d/time.Second), ch: make(chan time.Time, 1)}
	c.mu.Unlock()
	if a != nil {
		c.w.mu.Lock()
		a.timer = t
		c.w.mu.Unlock()
	}
	return t, t.ch
}

// ---------------------------------------------------------------------------
// Contexts. Done() is evaluated by Go exactly once on entry into every
// select statement of the scheduler; the fake counts those calls so that
// the harness knows when a thread has reached a select.

type fakeCtx struct {
	context.Context // parent: carries request metadata values only
	a               *actor
	mu              sync.Mutex
	done            chan struct{}
	err             error
}

func newFakeCtx(a *actor, parent context.Context) *fakeCtx {
	return &fakeCtx{Context: parent, a: a, done: make(chan struct{})}
}

func (c *fakeCtx) Deadline() (time.Time, bool) { return time.Time{}, false }

func (c *fakeCtx) Done() <-chan struct{} {
	c.a.w.mu.Lock()
	c.a.doneCalls++
	c.a.w.mu.Unlock()
	if c.a.resetOnDone != "" {
		c.a.w.x.ResetLocal(c.a.resetOnDone)
	}
	return c.done
}

func (c *fakeCtx) Err() error {
	c.mu.Lock()
	defer c.mu.Unlock()
	return c.err
}

func (c *fakeCtx) cancel() {
	c.mu.Lock()
	defer c.mu.Unlock()
	if c.err == nil {
		c.err = context.Canceled
		close(c.done)
	}
}

func (c *fakeCtx) cancelled() bool { return c.Err() != nil }

func requestMetadataContext(toolInvocationID, correlatedInvocationsID string) context.Context {
	b, err := proto.Marshal(&remoteexecution.RequestMetadata{
		ToolInvocationId:        toolInvocationID,
		CorrelatedInvocationsId: correlatedInvocationsID,
		TargetId:                "//t:" + toolInvocationID,
	})
	if err != nil {
		panic(err)
	}
	return metadata.NewIncomingContext(context.Background(), metadata.Pairs("build.bazel.remote.execution.v2.requestmetadata-bin", string(b)))
}

// ---------------------------------------------------------------------------
// Authorizers: allow everything, but "may block" (auth.Authorizer). The
// scheduler calls most of them before it takes its lock for the first time;
// WaitExecution and KillOperations(by name) call theirs BETWEEN two critical
// sections (look the operation up, drop the lock, authorize, take the lock
// again and re-validate). There the authorizer is a scheduling point at
// which other threads and clock events may run: the call has not yet read
// the clock for its second enter().

type pointAuthorizer struct {
	w    *world
	kind string
}

func (pa *pointAuthorizer) Authorize(ctx context.Context, instanceNames []digest.InstanceName) []error {
	w := pa.w
	if !w.x.Free() {
		if a := w.currentActor(); a != nil {
			w.mu.Lock()
			inWindow := a.inCall && a.nowCalls > 0
			w.mu.Unlock()
			if inWindow {
				w.x.Point("authorize/" + pa.kind)
			}
		}
	}
	return make([]error, len(instanceNames))
}

// ---------------------------------------------------------------------------
// UUIDs: a counter.

func (w *world) uuidGenerator() (uuid.UUID, error) {
	w.mu.Lock()
	w.uuids++
	n := w.uuids
	w.mu.Unlock()
	var u uuid.UUID
	u[15] = byte(n)
	u[14] = byte(n >> 8)
	return u, nil
}

func opShort(name string) string {
	// 00000000-0000-0000-0000-00000000000N -> oN
	if len(name) == 36 {
		i := 24
		for i < 35 && name[i] == '0' {
			i++
		}
		return "o" + name[i:]
	}
	return name
}

// ---------------------------------------------------------------------------
// CAS: a map holding a handful of Action messages.

type fakeCAS struct {
	blobs map[string][]byte // hash -> data
}

func (c *fakeCAS) GetCapabilities(ctx context.Context, instanceName digest.InstanceName) (*remoteexecution.ServerCapabilities, error) {
	return nil, status.Error(codes.Unimplemented, "fake")
}

func (c *fakeCAS) Get(ctx context.Context, d digest.Digest) buffer.Buffer {
	data, ok := c.blobs[d.GetHashString()]
	if !ok {
		return buffer.NewBufferFromError(status.Error(codes.NotFound, "fake CAS: blob not found"))
	}
	return buffer.NewValidatedBufferFromByteSlice(data)
}

func (c *fakeCAS) GetFromComposite(ctx context.Context, parentDigest, childDigest digest.Digest, slicer slicing.BlobSlicer) buffer.Buffer {
	return buffer.NewBufferFromError(status.Error(codes.Unimplemented, "fake"))
}

func (c *fakeCAS) Put(ctx context.Context, d digest.Digest, b buffer.Buffer) error {
	b.Discard()
	return status.Error(codes.Unimplemented, "fake")
}

func (c *fakeCAS) FindMissing(ctx context.Context, digests digest.Set) (digest.Set, error) {
	return digest.EmptySet, status.Error(codes.Unimplemented, "fake")
}

var _ blobstore.BlobAccess = (*fakeCAS)(nil)

// actionSpec describes one action of the fixed little universe.
type actionSpec struct {
	name       string
	doNotCache bool
	platform   string // value of the "os" platform property
	timeout    time.Duration
}

type actionInfo struct {
	spec   actionSpec
	digest *remoteexecution.Digest
	msg    *remoteexecution.Action
}

func platformOf(os string) *remoteexecution.Platform {
	return &remoteexecution.Platform{Properties: []*remoteexecution.Platform_Property{{Name: "os", Value: os}}}
}

func (c *fakeCAS) addAction(s actionSpec) *actionInfo {
	cmd := sha256.Sum256([]byte("command of " + s.name))
	a := &remoteexecution.Action{
		CommandDigest:   &remoteexecution.Digest{Hash: hex.EncodeToString(cmd[:]), SizeBytes: 11},
		InputRootDigest: &remoteexecution.Digest{Hash: hex.EncodeToString(cmd[:]), SizeBytes: 0},
		DoNotCache:      s.doNotCache,
		Platform:        platformOf(s.platform),
	}
	data, err := proto.MarshalOptions{Deterministic: true}.Marshal(a)
	if err != nil {
		panic(err)
	}
	h := sha256.Sum256(data)
	hash := hex.EncodeToString(h[:])
	c.blobs[hash] = data
	return &actionInfo{spec: s, digest: &remoteexecution.Digest{Hash: hash, SizeBytes: int64(len(data))}, msg: a}
}

// ---------------------------------------------------------------------------
// Streams

type streamMsg struct {
	stage remoteexecution.ExecutionStage_Value
	done  bool
	resp  *remoteexecution.ExecuteResponse
}

// stream is the server side of one Execute or WaitExecution call.
type stream struct {
	w    *world
	a    *actor // client thread
	id   string // "<client>.<call index>"
	kind string // "exec" or "wait"
	ctx  *fakeCtx
	// what the call asked for
	action  *actionInfo
	waitFor string

	// recorded I/O
	name        string // operation name seen in the messages
	msgs        []streamMsg
	sendFailed  bool
	sendAfter   bool // Send called after a done message
	nameChanged bool
	returned    bool
	err         error
	// harness actions
	cancelled       bool // cancelled by a regular (non-teardown) event
	forcedCancel    bool // cancelled by teardown
	forcedWhileLive string
	// monitor bookkeeping
	task              int // harness task id once known, else 0
	completedAtStart  []int
	startTick         int
	stageViolation    string
	retriesSeenBefore int
}

func (s *stream) Context() context.Context     { return s.ctx }
func (s *stream) SetHeader(metadata.MD) error  { return nil }
func (s *stream) SendHeader(metadata.MD) error { return nil }
func (s *stream) SetTrailer(metadata.MD)       {}
func (s *stream) SendMsg(m any) error          { panic("SendMsg not expected") }
func (s *stream) RecvMsg(m any) error          { panic("RecvMsg not expected") }

var errInjectedSend = status.Error(codes.DataLoss, "harness: injected Send failure")

func (s *stream) Send(op *longrunningpb.Operation) error {
	w := s.w
	if w.cfg.SendFaults && !w.x.Free() {
		if w.x.Choose("send:"+s.id, 2) == 1 {
			w.mu.Lock()
			s.sendFailed = true
			w.mu.Unlock()
			return errInjectedSend
		}
	} else if w.cfg.SendPoint && !w.x.Free() {
		// A slow client / gRPC flow control: the message is "in flight"
		// while other threads run (the scheduler lock is not held here).
		w.x.Point("send:" + s.id)
	}
	var md remoteexecution.ExecuteOperationMetadata
	if err := op.Metadata.UnmarshalTo(&md); err != nil {
		panic(err)
	}
	m := streamMsg{stage: md.Stage, done: op.Done}
	if op.Done {
		var r remoteexecution.ExecuteResponse
		if err := op.GetResponse().UnmarshalTo(&r); err != nil {
			panic(err)
		}
		m.resp = &r
	}
	w.mu.Lock()
	if len(s.msgs) > 0 && s.msgs[len(s.msgs)-1].done {
		s.sendAfter = true
	}
	if s.name == "" {
		s.name = op.Name
	} else if s.name != op.Name {
		s.nameChanged = true
	}
	s.msgs = append(s.msgs, m)
	w.mu.Unlock()
	w.mon.onMessage(s, m)
	// The only state a waitExecution loop carries across iterations is
	// the operation it serves.
	w.x.ResetLocal(s.id + "/" + s.name)
	return nil
}

func (s *stream) doneMsg() *streamMsg {
	for i := range s.msgs {
		if s.msgs[i].done {
			return &s.msgs[i]
		}
	}
	return nil
}

// ---------------------------------------------------------------------------
// Analyzer: scripted, nondeterministic (answers are Choose points), and
// recording every call for the linearity oracle of C07.

type fakeAnalyzer struct {
	w         *world
	selectors []*fakeSelector
	learners  []*fakeLearner
}

type fakeSelector struct {
	an        *fakeAnalyzer
	id        int
	digest    string
	selects   int
	abandoned int
}

type fakeLearner struct {
	an   *fakeAnalyzer
	id   int
	kind string // "initial", "largest" (after a retry), "background"
	// digest of the action it learns about
	digest string
	// terminal calls received
	succeeded, failed, abandonedN int
	failedTimedOut                bool
	// what Failed/Succeeded answered
	grantedRetry      *fakeLearner
	grantedBackground *fakeLearner
	retryExpected     time.Duration
	retryTimeout      time.Duration
	bgIndex           int
	bgTimeout         time.Duration
	// monitor bookkeeping: the harness task it was seen attached to
	task int
}

func (l *fakeLearner) terminals() int { return l.succeeded + l.failed + l.abandonedN }

func (an *fakeAnalyzer) Analyze(ctx context.Context, digestFunction digest.Function, action *remoteexecution.Action) (initialsizeclass.Selector, error) {
	w := an.w
	w.mu.Lock()
	defer w.mu.Unlock()
	data, _ := proto.MarshalOptions{Deterministic: true}.Marshal(action)
	h := sha256.Sum256(data)
	s := &fakeSelector{an: an, id: len(an.selectors) + 1, digest: hex.EncodeToString(h[:])}
	an.selectors = append(an.selectors, s)
	return s, nil
}

func (an *fakeAnalyzer) newLearner(kind, digest string) *fakeLearner {
	l := &fakeLearner{an: an, id: len(an.learners) + 1, kind: kind, digest: digest}
	an.learners = append(an.learners, l)
	return l
}

const (
	selectExpectedDuration = 7 * time.Second
	selectTimeout          = 30 * time.Second
	retryExpectedDuration  = 9 * time.Second
	retryTimeout           = 60 * time.Second
	backgroundExpected     = 5 * time.Second
	backgroundTimeout      = 20 * time.Second
)

func (s *fakeSelector) Select(sizeClasses []uint32) (int, time.Duration, time.Duration, initialsizeclass.Learner) {
	w := s.an.w
	idx := 0
	if n := w.cfg.SelectChoices; n > 1 && len(sizeClasses) > 1 {
		// 0: smallest size class, 1: largest size class.
		if w.x.Choose("an.select", 2) == 1 {
			idx = len(sizeClasses) - 1
		}
	} else if w.cfg.SelectLargest {
		idx = len(sizeClasses) - 1
	}
	w.mu.Lock()
	defer w.mu.Unlock()
	s.selects++
	if s.selects+s.abandoned > 1 {
		w.x.FailP("C07", "selector/called-twice", "selector %d received %d Select and %d Abandoned calls", s.id, s.selects, s.abandoned)
	}
	kind := "initial"
	if idx == len(sizeClasses)-1 {
		kind = "largest"
	}
	l := s.an.newLearner(kind, s.digest)
	return idx, selectExpectedDuration, selectTimeout, l
}

func (s *fakeSelector) Abandoned() {
	w := s.an.w
	w.mu.Lock()
	defer w.mu.Unlock()
	s.abandoned++
	if s.selects+s.abandoned > 1 {
		w.x.FailP("C07", "selector/called-twice", "selector %d received %d Select and %d Abandoned calls", s.id, s.selects, s.abandoned)
	}
}

func (l *fakeLearner) checkSingle(call string) {
	if l.terminals() > 1 {
		l.an.w.x.FailP("C07", "learner/terminal-twice/"+call, "learner %d (%s) received a second terminal call %s (succeeded=%d failed=%d abandoned=%d)", l.id, l.kind, call, l.succeeded, l.failed, l.abandonedN)
	}
}

func (l *fakeLearner) Succeeded(duration time.Duration, sizeClasses []uint32) (int, time.Duration, time.Duration, initialsizeclass.Learner) {
	w := l.an.w
	background := false
	if w.cfg.BackgroundChoices > 1 && l.kind != "background" {
		background = w.x.Choose("an.succeeded", 2) == 1
	} else if w.cfg.BackgroundAlways && l.kind != "background" {
		background = true
	}
	w.mu.Lock()
	defer w.mu.Unlock()
	l.succeeded++
	l.checkSingle("Succeeded")
	w.mon.onLearnerCall(l, "Succeeded", false)
	if !background {
		return 0, 0, 0, nil
	}
	bg := l.an.newLearner("background", l.digest)
	l.grantedBackground = bg
	l.bgIndex = 0
	l.bgTimeout = backgroundTimeout
	return 0, backgroundExpected, backgroundTimeout, bg
}

func (l *fakeLearner) Failed(timedOut bool) (time.Duration, time.Duration, initialsizeclass.Learner) {
	w := l.an.w
	retry := false
	// Like the real learners, only a learner for a smaller size class
	// ever asks for a retry on the largest one.
	if l.kind == "initial" {
		if w.cfg.RetryChoices > 1 {
			retry = w.x.Choose("an.failed", 2) == 1
		} else if w.cfg.RetryAlways {
			retry = true
		}
	}
	w.mu.Lock()
	defer w.mu.Unlock()
	l.failed++
	l.failedTimedOut = timedOut
	l.checkSingle("Failed")
	w.mon.onLearnerCall(l, "Failed", timedOut)
	if !retry {
		return 0, 0, nil
	}
	r := l.an.newLearner("largest", l.digest)
	l.grantedRetry = r
	w.mon.retries++
	l.retryExpected = retryExpectedDuration
	l.retryTimeout = retryTimeout
	return retryExpectedDuration, retryTimeout, r
}

func (l *fakeLearner) Abandoned() {
	w := l.an.w
	w.mu.Lock()
	defer w.mu.Unlock()
	l.abandonedN++
	l.checkSingle("Abandoned")
	w.mon.onLearnerCall(l, "Abandoned", false)
}

func (l *fakeLearner) String() string { return fmt.Sprintf("L%d/%s", l.id, l.kind) }
