package files

import (
	"bytes"
	"context"
	"fmt"
	"sort"

	"verif/mc"

	"github.com/buildbarn/bb-remote-execution/pkg/builder"
	"github.com/buildbarn/bb-remote-execution/pkg/filesystem/pool"
	"github.com/buildbarn/bb-remote-execution/pkg/filesystem/virtual"
	"github.com/buildbarn/bb-storage/pkg/clock"
	"github.com/buildbarn/bb-storage/pkg/digest"
	"github.com/buildbarn/bb-storage/pkg/filesystem/path"
	"google.golang.org/grpc/codes"
	"google.golang.org/grpc/status"
)

// Part 4: uploads through the REAL builder.NewVirtualBuildDirectory(...).
// UploadFile(ctx, name, digestFunction, writableFileUploadDelay) on a real
// in-memory directory whose entry is the pool-backed file of parts 1-3.
// Whatever UploadFile does around the file's own ApplyUploadFile (directory
// lookup, any bookkeeping of what was uploaded before) is under test here:
// "the digest reported for an uploaded output always equals the digest of the
// bytes stored in the CAS for it, even when writers are active around the
// upload, and a cached digest is never reused after the contents changed".

var dirFileName = path.MustNewComponent("out")

func noAttributes(virtual.AttributesMask, *virtual.Attributes) {}

// newDirFile creates the file of newLeaf as the entry "out" of a real
// in-memory directory, wrapped in a real virtual build directory that
// uploads into cas.
func newDirFile(p *fakePool, logger *recordingErrorLogger, nfs bool, share virtual.ShareMask, cas *fakeCAS) (virtual.LinkableLeaf, builder.BuildDirectory) {
	var handles virtual.StatefulHandleAllocator
	if nfs {
		handles = virtual.NewNFSHandleAllocator(&seqRNG{})
	} else {
		handles = virtual.NewFUSEHandleAllocator(&seqRNG{})
	}
	fa := virtual.NewHandleAllocatingFileAllocator(
		virtual.NewPoolBackedFileAllocator(p, logger, noAttributes, virtual.NoNamedAttributesFactory),
		handles)
	symlinkFactory := virtual.NewHandleAllocatingSymlinkFactory(virtual.NewBaseSymlinkFactory(noAttributes), handles.New(), path.UNIXFormat)
	top := virtual.NewInMemoryPrepopulatedDirectory(
		fa, symlinkFactory, logger, handles, sort.Sort, func(string) bool { return false }, clock.SystemClock,
		virtual.CaseSensitiveComponentNormalizer, noAttributes, virtual.NoNamedAttributesFactory)
	leaf, err := fa.NewFile(pool.ZeroHoleSource, false, 0, share)
	if err != nil {
		panic(err)
	}
	// The directory entry takes over the link the file was created with.
	if err := top.CreateChildren(map[path.Component]virtual.InitialChild{
		dirFileName: virtual.InitialChild{}.FromLeaf(leaf),
	}, false); err != nil {
		panic(err)
	}
	bd := builder.NewVirtualBuildDirectory(top, nil, cas, symlinkFactory, nil, handles, noAttributes, clock.SystemClock)
	return leaf, bd
}

// uploadVia uploads the file: through the build directory if there is one,
// else through ApplyUploadFile on the leaf.
func uploadVia(bd builder.BuildDirectory, leaf virtual.LinkableLeaf, cas *fakeCAS, fn digest.Function, delay <-chan struct{}) (digest.Digest, error) {
	return uploadViaCtx(ctx, bd, leaf, cas, fn, delay)
}

func uploadViaCtx(ctx context.Context, bd builder.BuildDirectory, leaf virtual.LinkableLeaf, cas *fakeCAS, fn digest.Function, delay <-chan struct{}) (digest.Digest, error) {
	if bd != nil {
		return bd.UploadFile(ctx, dirFileName, fn, delay)
	}
	return uploadFileCtx(ctx, leaf, cas, fn, delay)
}

// checkUploadStored is the upload oracle for callers that may legitimately
// skip the transfer of contents that are in the CAS already: the digest that
// was reported is the digest of bytes that a successful Put - of this call if
// it made one, else an earlier one - stored under exactly that digest. It
// returns those bytes.
func checkUploadStored(fail failFn, fn digest.Function, reported digest.Digest, own, all []casPut) (data []byte, ok bool) {
	if len(own) > 0 {
		return checkUpload(fail, fn, reported, own)
	}
	for _, p := range all {
		if !p.failed && p.err == nil && p.key == reported && digestOf(fn, p.data) == reported {
			return p.data, true
		}
	}
	fail("upload-digest-not-in-cas", "UploadFile reported %s without storing anything, and no earlier Put stored bytes with that digest", reported)
	return nil, false
}

// all returns every Put so far.
func (c *fakeCAS) all() []casPut {
	c.mu.Lock()
	defer c.mu.Unlock()
	return append([]casPut(nil), c.puts...)
}

// ---------------------------------------------------------------------------
// Engine A

// reuploader runs n uploads one after the other through the build directory.
// Each of them must report the digest of bytes that are in the CAS and that
// the file contained at some instant of THAT call.
func (w *world) reuploader(name string, n int) {
	w.mu.Lock()
	w.uploadsLeft += n
	w.mu.Unlock()
	w.x.Go(name, func() {
		x := w.x
		for i := 0; i < n; i++ {
			x.ResetLocal(fmt.Sprintf("%s:#%d", name, i))
			startVersion := 0
			if w.oracles() {
				startVersion = w.pf().version()
				w.mu.Lock()
				w.startVersion[name] = startVersion
				delete(w.expect, name)
				w.mu.Unlock()
			}
			before := w.cas.count()
			w.add(0, 1)
			d, err := uploadVia(w.bd, w.leaf, w.cas, sha256Fn, w.delay)
			x.CheckNoLocksHeld("UploadFile")
			w.add(0, -1)
			w.mu.Lock()
			w.uploadsLeft--
			w.mu.Unlock()
			if !w.oracles() {
				continue
			}
			pf := w.pf()
			own := w.cas.putsSince(before, name)
			if err != nil {
				w.mu.Lock()
				casFailed := w.casFailed[name]
				w.casFailed[name] = false
				w.mu.Unlock()
				switch {
				case casFailed:
					w.result("%s#%d=cas-error", name, i)
				case status.Code(err) == codes.NotFound && pf.closed > 0 && len(own) == 0:
					w.result("%s#%d=not-found", name, i)
				default:
					w.fail("upload-failed", "%s: UploadFile #%d failed although the file was referenced and the CAS healthy (pool file closed=%d): %v", name, i, pf.closed, err)
					return
				}
				continue
			}
			data, ok := checkUploadStored(w.fail, sha256Fn, d, own, w.cas.all())
			if !ok {
				return
			}
			found := false
			for v := startVersion; v < len(pf.history); v++ {
				if bytes.Equal(pf.history[v], data) {
					found = true
				}
			}
			if !found {
				w.fail("upload-stale-digest", "%s: UploadFile #%d reported the digest of %q, which the file did not contain at any instant of that call (contents during the call: %q): a digest was reused after the contents changed", name, i, data, pf.history[startVersion:])
				return
			}
			w.result("%s#%d=%q", name, i, data)
		}
	})
}

func dirScenarios() []*mc.Scenario {
	var r []*mc.Scenario
	for _, nfs := range []bool{false, true} {
		suffix := map[bool]string{false: "fuse", true: "nfs"}[nfs]
		// A writer that holds the file open (its write blocks on the
		// freeze of the first upload and lands right after it), then a
		// second upload of the same file.
		r = append(r, concScenario("dir/heldwriter-upload-upload/"+suffix, worldCfg{nfs: nfs, viaDirectory: true, initial: "ab", heldWriter: true}, 0, func(w *world) {
			w.reuploader("U", 2)
			w.writer(false, false, mutWrite)
		}))
	}
	// The writer opens the file itself; the digest of the initial contents
	// is cached in the file.
	r = append(r, concScenario("dir/upload-upload-write/fuse", worldCfg{viaDirectory: true, initial: "ab", cached: true}, 0, func(w *world) {
		w.reuploader("U", 2)
		w.writer(true, false, mutWrite)
	}))
	// Two uploading threads (the second one twice) around a truncating
	// writer that holds the file open.
	r = append(r, concScenario("dir/upload-reupload-truncate/nfs", worldCfg{nfs: true, viaDirectory: true, initial: "abc", heldWriter: true}, 4, func(w *world) {
		w.reuploader("U1", 1)
		w.reuploader("U2", 2)
		w.writer(false, false, mutTruncate)
	}))
	return r
}

// ---------------------------------------------------------------------------
// Engine B: a short alphabet on the same directory-backed file, every upload
// going through virtualBuildDirectory.UploadFile.

func dirSeqOps() []mc.SeqOp {
	canMutate := func(s *seqState) bool { return !s.released && len(s.frozen) == 0 }
	canWrite := func(s *seqState) bool { return canMutate(s) && s.writers() > 0 }
	return []mc.SeqOp{
		seqOp("open w", nil, func(s *seqState) { s.opOpen(virtual.ShareMaskWrite, false, false) }),
		seqOp("open w+trunc", canMutate, func(s *seqState) { s.opOpen(virtual.ShareMaskWrite, true, false) }),
		seqOp("close w", func(s *seqState) bool { return s.desc[virtual.ShareMaskWrite] > 0 }, func(s *seqState) { s.opClose(virtual.ShareMaskWrite) }),
		seqOp("write@0", canWrite, func(s *seqState) { s.opWrite(0, writeOK) }),
		seqOp("write@2", canWrite, func(s *seqState) { s.opWrite(2, writeOK) }),
		seqOp("write@0 (pool stores 1 byte, then error)", canWrite, func(s *seqState) { s.opWrite(0, writePartial) }),
		seqOp("truncate 1", canMutate, func(s *seqState) { s.opTruncate(1, false) }),
		seqOp("truncate 3", canMutate, func(s *seqState) { s.opTruncate(3, false) }),
		seqOp("allocate [2,5)", canWrite, func(s *seqState) { s.opAllocate(false) }),
		seqOp("chmod", nil, (*seqState).opChmod),
		seqOp("link", nil, (*seqState).opLink),
		seqOp("upload sha256", nil, func(s *seqState) { s.opUpload(sha256Fn, false, false) }),
		seqOp("upload md5", nil, func(s *seqState) { s.opUpload(md5Fn, false, false) }),
		seqOp("upload sha256 (pool read error)", nil, func(s *seqState) { s.opUpload(sha256Fn, true, false) }),
		seqOp("upload sha256 (cancelled context)", nil, func(s *seqState) { s.opUpload(sha256Fn, false, true) }),
		seqOp("stat", nil, func(s *seqState) { s.opStat(false) }),
	}
}

func dirSeqs() []*mc.Seq {
	var r []*mc.Seq
	for _, cfg := range []seqCfg{
		{name: "seq-dir-fuse", viaDirectory: true},
		{name: "seq-dir-nfs-created-w", nfs: true, initShare: virtual.ShareMaskWrite, viaDirectory: true},
	} {
		cfg := cfg
		r = append(r, &mc.Seq{
			Name:   cfg.name,
			Props:  []string{prop},
			New:    func(c *mc.SeqCtx) any { return newSeqState(c, cfg) },
			Ops:    dirSeqOps(),
			Key:    func(s any) string { return s.(*seqState).key() },
			Check:  func(c *mc.SeqCtx, s any) { s.(*seqState).check() },
			Final:  func(c *mc.SeqCtx, s any) { s.(*seqState).final() },
			Depth:  map[string]int{"quick": 5, "thorough": 7},
			Panics: []string{prop},
		})
	}
	return r
}
