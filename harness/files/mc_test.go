package files

import (
	"testing"

	"verif/mc"
)

func TestMC(t *testing.T) { mc.Main(t, scenarios(), seqs()) }
