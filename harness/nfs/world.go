package nfs

import (
	"bytes"
	"context"
	"encoding/hex"
	"fmt"
	"sort"
	"strings"
	"sync"
	"time"

	"verif/mc"

	srv "github.com/buildbarn/bb-remote-execution/pkg/filesystem/virtual/nfsv4"
	"github.com/buildbarn/bb-storage/pkg/filesystem/path"
	"github.com/buildbarn/go-xdr/pkg/protocols/nfsv4"
)

const (
	lease     = 10 * time.Second
	halfLease = lease / 2
	pastLease = lease + time.Second
)

var ctx = context.Background()

var stateIDPrefix = [4]byte{0x5e, 0x5e, 0x5e, 0x5e}

// failer abstracts over mc.SeqCtx (Engine B) and mc.X (Engine A).
type failer interface {
	FailP(prop, fingerprint, format string, args ...any)
	Logf(format string, args ...any)
}

// world is one instance of the system under test with its environment
// and the client-side bookkeeping.
type world struct {
	x    *mc.X
	fs   *fakeFS
	clk  *fakeClock
	rng  *fakeRNG
	pool *srv.OpenedFilesPool
	p40  nfsv4.Nfs4Program
	p41  nfsv4.Nfs4Program

	c40   map[string]*client40
	c41   map[string]*client41
	locks *lockModel

	// hist is the list of alphabet letters applied so far (Engine B),
	// used by Final to build a second instance of the same state.
	hist []int
	// dead: the server panicked (only in scenarios that convert panics
	// into violations themselves).
	dead bool
	// strictOpenReplay: compare the WHOLE reply of a retransmitted
	// NFSv4.0 COMPOUND that contains OPEN, i.e. also the GETFH that
	// follows it. The NFSv4.0 server answers a replayed OPEN from its
	// cache without restoring the current filehandle, so this fires
	// after every OPEN; it is therefore only switched on in the one
	// scenario that exists to exhibit that defect (all other scenarios
	// compare the OPEN result itself, and whole replies for all other
	// operations).
	strictOpenReplay bool
	// uncached41: sessions created from now on send every SEQUENCE with
	// sa_cachethis=false.
	uncached41 bool
	// lastNames is the identifier renaming of the last inspection.
	names40, names41 map[string]string
	// lastEntry: when the last request (of anybody) entered the NFSv4.0 /
	// NFSv4.1 server, on the fake clock (see lapsed.go).
	lastEntry [2]time.Time
	entryMu   sync.Mutex // concurrent scenarios call compound() from several threads
}

func newWorld(x *mc.X) *world {
	w := &world{x: x, clk: newFakeClock(), rng: &fakeRNG{}, c40: map[string]*client40{}, c41: map[string]*client41{}}
	w.fs = newFakeFS(x, "a", "b")
	w.locks = newLockModel()
	w.pool = srv.NewOpenedFilesPool(w.fs.resolve)
	w.p40 = srv.NewNFS40Program(w.fs.root, w.pool, w.rng, nfsv4.Verifier4{0xee, 1}, stateIDPrefix, w.clk, lease, lease, path.UNIXFormat, nil)
	w.p41 = srv.NewNFS41Program(w.fs.root, w.pool, nfsv4.ServerOwner4{SoMinorId: 1, SoMajorId: []byte("srv")}, []byte("scope"),
		&nfsv4.ChannelAttrs4{CaHeaderpadsize: 0, CaMaxrequestsize: 1 << 20, CaMaxresponsesize: 1 << 20, CaMaxresponsesizeCached: 1 << 20, CaMaxoperations: 8, CaMaxrequests: 2},
		w.rng, nfsv4.Verifier4{0xee, 2}, w.clk, lease, lease, path.UNIXFormat, nil)
	return w
}

// compound sends one COMPOUND request to the server.
func (w *world) compound(minor uint32, what string, ops ...nfsv4.NfsArgop4) *nfsv4.Compound4res {
	p := w.p40
	if minor == 1 {
		p = w.p41
	}
	res, err := p.NfsV4Nfsproc4Compound(ctx, &nfsv4.Compound4args{Tag: "t", Minorversion: minor, Argarray: ops})
	if err != nil {
		panic(fmt.Sprintf("COMPOUND returned an error: %v", err))
	}
	if w.x != nil {
		w.x.CheckNoLocksHeld(what)
	}
	if enteredServer(minor, ops, res) {
		w.entryMu.Lock()
		w.lastEntry[minor&1] = w.clk.Now()
		w.entryMu.Unlock()
	}
	return res
}

// enteredServer: the request certainly went through the server's enter(),
// where expired clients are collected (operations that call it before any
// other check; I/O, PUTFH, REMOVE ... never or not always get there).
func enteredServer(minor uint32, ops []nfsv4.NfsArgop4, res *nfsv4.Compound4res) bool {
	if minor == 1 {
		if len(ops) == 0 || len(res.Resarray) == 0 {
			return false
		}
		switch ops[0].(type) {
		case *nfsv4.NfsArgop4_OP_SEQUENCE:
			_, is := res.Resarray[0].(*nfsv4.NfsResop4_OP_SEQUENCE)
			return is && resopStatus(res.Resarray[0]) == nfsv4.NFS4_OK
		case *nfsv4.NfsArgop4_OP_EXCHANGE_ID, *nfsv4.NfsArgop4_OP_CREATE_SESSION, *nfsv4.NfsArgop4_OP_DESTROY_SESSION, *nfsv4.NfsArgop4_OP_DESTROY_CLIENTID:
			return len(ops) == 1 && len(res.Resarray) == 1 && res.Resarray[0].GetResop() == ops[0].GetArgop()
		}
		return false
	}
	for i, op := range ops {
		if i >= len(res.Resarray) {
			break
		}
		switch op.(type) {
		case *nfsv4.NfsArgop4_OP_RENEW, *nfsv4.NfsArgop4_OP_SETCLIENTID, *nfsv4.NfsArgop4_OP_SETCLIENTID_CONFIRM, *nfsv4.NfsArgop4_OP_RELEASE_LOCKOWNER:
			return true
		}
	}
	return false
}

func encodeRes(res *nfsv4.Compound4res) []byte {
	var b bytes.Buffer
	if _, err := res.WriteTo(&b); err != nil {
		panic(err)
	}
	return b.Bytes()
}

func encodeOp(res nfsv4.NfsResop4) []byte {
	var b bytes.Buffer
	if _, err := res.WriteTo(&b); err != nil {
		panic(err)
	}
	return b.Bytes()
}

// inspect40/41 refresh the identifier renamings and return the server
// state renderings.
func (w *world) inspect40() *srv.VerifNFSState { return w.inspect(0, true) }
func (w *world) inspect41() *srv.VerifNFSState { return w.inspect(1, true) }

// refreshNames only refreshes the identifier renamings (cheaper than a
// full dump).
func (w *world) refreshNames() {
	w.inspect(0, false)
	w.inspect(1, false)
}

var unusedServer = &srv.VerifNFSState{Counts: map[string]int{}, Names: map[string]string{}, Dump: "unused\n"}

func (w *world) inspect(minor int, withDump bool) *srv.VerifNFSState {
	// A server no client has ever talked to (except for requests that
	// name unknown clients) has no state.
	if minor == 0 {
		if len(w.c40) == 0 {
			w.names40 = unusedServer.Names
			return unusedServer
		}
		st := srv.VerifNFSInspect(w.p40, w.clk.Now(), withDump)
		w.names40 = st.Names
		return st
	}
	if len(w.c41) == 0 {
		w.names41 = unusedServer.Names
		return unusedServer
	}
	st := srv.VerifNFSInspect(w.p41, w.clk.Now(), withDump)
	w.names41 = st.Names
	return st
}

func sidKey40(sid nfsv4.Stateid4) string { return "sid:" + hex.EncodeToString(sid.Other[:]) }
func cidKey(id uint64) string            { return fmt.Sprintf("cid:%016x", id) }
func sidKey41(clientID uint64, sid nfsv4.Stateid4) string {
	return fmt.Sprintf("sid:%016x:%s", clientID, hex.EncodeToString(sid.Other[:]))
}

// poolDump renders the opened files pool canonically: client IDs are
// replaced by structural names.
func (w *world) poolDump() string {
	var b strings.Builder
	b.WriteString("POOL\n")
	for _, f := range w.pool.VerifNFSPool() {
		fmt.Fprintf(&b, " %s use=%d:", f.Handle, f.UseCount)
		for _, l := range f.Locks {
			fmt.Fprintf(&b, " [%d,%d)%s %s/%s#%d", l.Start, l.End, map[bool]string{true: "S", false: "X"}[l.Shared], w.clientName(l.Clientid), l.Owner, l.Identity)
		}
		b.WriteString("\n")
	}
	return b.String()
}

func (w *world) clientName(id uint64) string {
	if n, ok := w.names40[cidKey(id)]; ok {
		return "40:" + n
	}
	if n, ok := w.names41[cidKey(id)]; ok {
		return "41:" + n
	}
	return "gone"
}

// serverDump is the canonical dump of everything on the server side.
func (w *world) serverDump() string {
	s40 := w.inspect40()
	s41 := w.inspect41()
	return s40.Dump + s41.Dump + w.poolDump()
}

// key is the canonical state key: server, environment and bookkeeping.
func (w *world) key() string {
	var b strings.Builder
	b.WriteString(w.serverDump())
	b.WriteString(w.fs.dump())
	var ids []string
	for id := range w.c40 {
		ids = append(ids, id)
	}
	sort.Strings(ids)
	for _, id := range ids {
		b.WriteString(w.c40[id].key())
	}
	ids = ids[:0]
	for id := range w.c41 {
		ids = append(ids, id)
	}
	sort.Strings(ids)
	for _, id := range ids {
		b.WriteString(w.c41[id].key())
	}
	b.WriteString(w.locks.dump())
	return b.String()
}

// advance moves the fake clock and lets the lease model notice clients
// whose lease has run out.
func (w *world) advance(d time.Duration) {
	w.clk.advance(d)
	now := w.clk.Now()
	for _, c := range w.c40 {
		if c.alive && now.Sub(c.lastRenew) > lease {
			c.alive = false
		}
	}
	for _, c := range w.c41 {
		if c.alive && now.Sub(c.lastRenew) > lease {
			c.alive = false
		}
	}
}

// checkPassive evaluates the invariants that need no request to the
// server: C18 (balance of opens and closes, entitlement), C20 (lock table
// equals the model).
func (w *world) checkPassive(f failer) {
	w.fs.mu.Lock()
	faults := append([]string(nil), w.fs.faults...)
	w.fs.mu.Unlock()
	for _, m := range faults {
		fp := "leaf-accounting"
		switch {
		case strings.Contains(m, "more often"):
			fp = "closed-more-than-opened"
		case strings.Contains(m, "while it is not open"), strings.Contains(m, "was in progress"):
			fp = "io-on-closed-leaf"
		}
		f.FailP("C18", fp, "%s", m)
	}
	s40 := w.inspect40()
	s41 := w.inspect41()
	if strings.Contains(s40.Dump, "!") || strings.Contains(s41.Dump, "!") {
		f.FailP("C18", "inconsistent-records", "server records are inconsistent:\n%s%s", s40.Dump, s41.Dump)
	}
	for _, c := range sortedClients40(w) {
		c.sync(f)
	}
	for _, c := range sortedClients41(w) {
		c.sync(f)
	}
	w.locks.compare(w, f)
}

func sortedClients40(w *world) []*client40 {
	var ids []string
	for id := range w.c40 {
		ids = append(ids, id)
	}
	sort.Strings(ids)
	var r []*client40
	for _, id := range ids {
		r = append(r, w.c40[id])
	}
	return r
}

func sortedClients41(w *world) []*client41 {
	var ids []string
	for id := range w.c41 {
		ids = append(ids, id)
	}
	sort.Strings(ids)
	var r []*client41
	for _, id := range ids {
		r = append(r, w.c41[id])
	}
	return r
}

// requireEntitledOpen is the core C18 clause: a state ID that entitles
// the client to access bit b implies that the leaf is open for b.
func requireEntitledOpen(f failer, who string, leaf *fakeLeaf, bits uint32) {
	for b := 0; b < 2; b++ {
		if bits&(1<<b) != 0 && leaf.openCount(b) < 1 {
			f.FailP("C18", "entitled-but-closed", "%s still entitles the client to %s access of leaf %s, but the leaf is not open for it", who, bitNames[b], leaf.id)
		}
	}
}

// reclaimByExpiry is reclaim oracle (ii): once all leases have expired
// and the server has been poked, every leaf is closed as often as it was
// opened and the server retains no records at all.
func (w *world) reclaimByExpiry(f failer, label string) {
	w.advance(pastLease)
	// Poke both servers with requests that refer to no client.
	w.compound(0, "RENEW", &nfsv4.NfsArgop4_OP_RENEW{Oprenew: nfsv4.Renew4args{Clientid: 0xdead}})
	w.compound(1, "DESTROY_CLIENTID", &nfsv4.NfsArgop4_OP_DESTROY_CLIENTID{OpdestroyClientid: nfsv4.DestroyClientid4args{DcaClientid: 0xdead}})
	// Unused NFSv4.0 open-owners are collected relative to their own
	// last use; a second round takes care of those that were touched
	// by the first one.
	w.advance(pastLease)
	w.compound(0, "RENEW", &nfsv4.NfsArgop4_OP_RENEW{Oprenew: nfsv4.Renew4args{Clientid: 0xdead}})
	if ok, msg := w.fs.balanced(); !ok {
		f.FailP("C18", "reclaim-expiry/unbalanced", "%s: after all leases expired: %s", label, msg)
	}
	for i, st := range []*srv.VerifNFSState{w.inspect40(), w.inspect41()} {
		var bad []string
		for k, v := range st.Counts {
			if v != 0 {
				bad = append(bad, fmt.Sprintf("%s=%d", k, v))
			}
		}
		sort.Strings(bad)
		if len(bad) > 0 {
			f.FailP("C18", "reclaim-expiry/records-retained", "%s: after all leases expired the NFSv4.%d server still holds %v\n%s", label, i, bad, st.Dump)
		}
	}
	if p := w.pool.VerifNFSPool(); len(p) != 0 {
		f.FailP("C18", "reclaim-expiry/pool-retained", "%s: after all leases expired the opened files pool still tracks %d file(s): %s", label, len(p), w.poolDump())
	}
	w.checkFaults(f)
}

func (w *world) checkFaults(f failer) {
	w.fs.mu.Lock()
	faults := append([]string(nil), w.fs.faults...)
	w.fs.mu.Unlock()
	for _, m := range faults {
		f.FailP("C18", "leaf-accounting", "%s", m)
	}
}
