package mc

import (
	"bytes"
	"runtime"
	"strconv"
)

// slowGoid parses the goroutine id out of runtime.Stack (4-16 us).
func slowGoid() int64 {
	var buf [64]byte
	n := runtime.Stack(buf[:], false)
	b := buf[len("goroutine "):n]
	i := bytes.IndexByte(b, ' ')
	id, _ := strconv.ParseInt(string(b[:i]), 10, 64)
	return id
}
