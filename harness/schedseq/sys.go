package schedseq

import (
	"context"
	"crypto/sha256"
	"encoding/hex"
	"encoding/json"
	"fmt"
	"sort"
	"strings"
	"sync"
	"time"

	"verif/mc"

	remoteexecution "github.com/bazelbuild/remote-apis/build/bazel/remote/execution/v2"
	"github.com/buildbarn/bb-remote-execution/pkg/proto/buildqueuestate"
	"github.com/buildbarn/bb-remote-execution/pkg/proto/remoteworker"
	"github.com/buildbarn/bb-remote-execution/pkg/scheduler"
	"github.com/buildbarn/bb-remote-execution/pkg/scheduler/initialsizeclass"
	"github.com/buildbarn/bb-remote-execution/pkg/scheduler/invocation"
	"github.com/buildbarn/bb-remote-execution/pkg/scheduler/platform"
	"github.com/buildbarn/bb-remote-execution/pkg/scheduler/routing"
	"github.com/buildbarn/bb-storage/pkg/auth"
	"github.com/buildbarn/bb-storage/pkg/digest"
	"google.golang.org/grpc/codes"
	"google.golang.org/grpc/metadata"
	"google.golang.org/grpc/status"
	"google.golang.org/protobuf/proto"
	"google.golang.org/protobuf/types/known/durationpb"
	"google.golang.org/protobuf/types/known/emptypb"

	"cloud.google.com/go/longrunning/autogen/longrunningpb"
)

// ---------------------------------------------------------------------------
// Configuration of one sequence-exploration scenario.

type pqDecl struct {
	prefix, platform string
	sizeClasses      []uint32
	limits           []int // worker invocation stickiness limits, in ticks
}

type workerDecl struct {
	name             string // "W:1"
	host             string // worker ID {"host": host}
	prefix, platform string
	sc               uint32
	// extra: further fields of the worker ID besides "host".
	extra map[string]string
}

// id is the worker ID the worker synchronizes with.
func (d workerDecl) id() map[string]string {
	m := map[string]string{"host": d.host}
	for k, v := range d.extra {
		m[k] = v
	}
	return m
}

// idKey is the canonical JSON form of the worker ID (encoding/json sorts
// map keys), the key under which the scheduler files the worker.
func (d workerDecl) idKey() string {
	b, err := json.Marshal(d.id())
	if err != nil {
		panic(err)
	}
	return string(b)
}

type execDecl struct {
	name           string
	inst, platform string
	corr, tool     string // RequestMetadata: correlated invocations ID, tool invocation ID
	prio           int32
	dur            int // expected duration (= Action timeout), in ticks
	scIdx          int // size class index the scripted selector picks
	// share: all letters with the same non-empty share name request the
	// SAME cacheable action (one action digest): while a task for it is
	// queued or executing further requests are deduplicated against it.
	// Platform, expected duration and size class index are those of the
	// first letter declared with that name.
	share string
	// prefixOnly: the letter only occurs in the canned prefix.
	prefixOnly bool
}

type drainDecl struct {
	name             string
	prefix, platform string
	sc               uint32
	pattern          map[string]string
}

type termDecl struct {
	name    string
	pattern map[string]string
}

type config struct {
	name        string
	props       []string
	predeclared []pqDecl
	workers     []workerDecl
	execs       []execDecl
	drains      []drainDecl // each yields an "add" and a "remove" letter
	terms       []termDecl
	maxTicks    int  // number of "tick" letters allowed (0: no tick letter)
	list        bool // "list" letter: ListInvocationChildren(QUEUED)/ListQueuedOperations order oracle
	// inspect: read-only BuildQueueState letters (see inspect.go): "inspect"
	// (every API in one letter) and/or the single-API letters "i:pq", "i:w", ...
	inspect []string
	// plats: platforms probed against the trie at every boundary (default
	// P1, P2).
	plats []string
	fail  bool // "W.fail" letters: worker reports a failed action (size class retry)
	// exec: "W.exec" letters: the worker's periodic NON-BLOCKING Synchronize
	// "still executing <the action I was last told to execute>". kill:
	// "kill:W" letters: operator KillOperations of the task executing on W
	// (the scheduler completes it without the worker knowing).
	exec, kill bool
	// rewrite: platform rewriting as documented for DemultiplexingActionRouter +
	// StaticKeyExtractor: requests whose Action carries platform <from> (any
	// instance name) are routed by a SimpleActionRouter with a
	// StaticKeyExtractor for platform <to>, i.e. they must be queued in the
	// platform queue (longest prefix of THEIR instance name, platform <to>).
	rewrite     map[string]string
	mixedRouter bool // invocation paths of varying depth (custom key extraction)
	wt, qt      int  // worker / platform queue timeouts in ticks (0: beyond every horizon)
	prefix      []string
	depth       map[string]int
	shards      int      // thorough tier: processes the level-1 subtrees are split over
	probes      []string // instance names probed against the trie at every boundary
}

// The platform string of P2 sorts BEFORE that of P1 ("arch" < "os"), that of
// Pa before that of Pz: a queue for P1 (Pz) registered before one for P2 (Pa)
// under the same instance name prefix is out of ListPlatformQueues' order.
var platforms = map[string]*remoteexecution.Platform{
	"P1": {Properties: []*remoteexecution.Platform_Property{{Name: "os", Value: "linux"}}},
	"P2": {Properties: []*remoteexecution.Platform_Property{{Name: "arch", Value: "arm64"}, {Name: "os", Value: "linux"}}},
	"Pa": {Properties: []*remoteexecution.Platform_Property{{Name: "os", Value: "aaa"}}},
	"Pz": {Properties: []*remoteexecution.Platform_Property{{Name: "os", Value: "zzz"}}},
}

const farAway = 1000000 * tickUnit

func ticks(n int) time.Duration {
	if n == 0 {
		return farAway
	}
	return time.Duration(n) * tickUnit
}

// ---------------------------------------------------------------------------
// Invocation keys

func corrKey(id string) invocation.Key {
	k, err := invocation.CorrelatedInvocationsIDKeyExtractor.ExtractKey(context.Background(), &remoteexecution.RequestMetadata{CorrelatedInvocationsId: id})
	if err != nil {
		panic(err)
	}
	return k
}

func toolKey(id string) invocation.Key {
	k, err := invocation.ToolInvocationIDKeyExtractor.ExtractKey(context.Background(), &remoteexecution.RequestMetadata{ToolInvocationId: id})
	if err != nil {
		panic(err)
	}
	return k
}

// mixedDepthRouter wraps the real simple action router and drops trailing
// invocation keys whose ID is empty, so that operations are queued at
// different depths of the invocation tree: [] , [corr], [corr, tool].
type mixedDepthRouter struct{ base routing.ActionRouter }

func (r mixedDepthRouter) RouteAction(ctx context.Context, digestFunction digest.Function, action *remoteexecution.Action, requestMetadata *remoteexecution.RequestMetadata) (*remoteexecution.Action, platform.Key, []invocation.Key, initialsizeclass.Selector, error) {
	a, k, keys, sel, err := r.base.RouteAction(ctx, digestFunction, action, requestMetadata)
	if err != nil {
		return a, k, keys, sel, err
	}
	if requestMetadata.GetToolInvocationId() == "" {
		keys = keys[:1]
		if requestMetadata.GetCorrelatedInvocationsId() == "" {
			keys = keys[:0]
		}
	}
	return a, k, keys, sel, nil
}

func (c *config) modelPath(e *execDecl) []string {
	if c.mixedRouter {
		if e.tool == "" {
			if e.corr == "" {
				return nil
			}
			return []string{e.corr}
		}
		return []string{e.corr, e.tool}
	}
	return []string{"c:" + e.corr, "t:" + e.tool}
}

// ---------------------------------------------------------------------------
// The system of one execution.

type actor struct {
	decl workerDecl
	w    *mWorker
	ch   chan int
	busy bool
	// phys: the task the worker process itself believes to be executing
	// (the last one a Synchronize response told it to execute); differs
	// from w.task, the scheduler's view, after the scheduler completed the
	// task on its own.
	phys *mTask
}

type sys struct {
	// mu guards model and bookkeeping against the truly concurrent threads
	// of the free-running -race pass. It is never held across a call into
	// the scheduler (i.e. never across a scheduling point).
	mu    sync.Mutex
	x     *mc.X
	cfg   *config
	depth int // maximal number of free letters
	bq    *scheduler.InMemoryBuildQueue
	clock *fakeClock
	cas   *fakeCAS
	m     *model

	ctx    context.Context
	cancel context.CancelFunc

	pos      int // position within the canned prefix
	used     int // free letters used
	nTicks   int
	hist     []string
	torn     bool
	broken   bool
	idleStep int
	seq      int
	actors   []*actor
	outcome  []string

	// spawn starts the short-lived thread of a client/operator letter:
	// x.Go in explored scenarios, a plain goroutine in scripted ones.
	spawn func(name string, fn func())
	// scripted: letters are not offered to the engine but collected in
	// letterDefs and fired by runScript (see script.go).
	scripted   bool
	letterDefs map[string]*letterDef

	keyNames  map[string]string // invocation key -> model name
	nameKeys  map[string]invocation.Key
	platNames map[string]string // platform string -> model name
	hostNames map[string]string // worker key -> actor name
}

func (s *sys) fail(prop, fp, format string, args ...any) {
	if s.torn || s.broken {
		return
	}
	// After the first oracle failure (of any property) the model may no
	// longer follow the implementation: stop checking this execution.
	s.broken = true
	s.x.FailP(prop, fp, "after %v: %s", s.hist, fmt.Sprintf(format, args...))
}

// failBoth reports a disagreement between model and implementation that
// concerns both properties (e.g. a task sitting in another queue than the
// model's).
func (s *sys) failBoth(fp, format string, args ...any) {
	if s.torn || s.broken {
		return
	}
	s.broken = true
	msg := fmt.Sprintf(format, args...)
	s.x.FailP("C04", fp, "after %v: %s", s.hist, msg)
	s.x.FailP("C05", fp, "after %v: %s", s.hist, msg)
}

type letterDef struct {
	enabled func() bool
	fire    func()
}

func platformName(p string) *remoteexecution.Platform { return platforms[p] }

// routedPlatform is the platform of the queue a request whose Action carries
// platform p must end up in.
func (c *config) routedPlatform(p string) string {
	if to, ok := c.rewrite[p]; ok {
		return to
	}
	return p
}

func build(x *mc.X, cfg *config, depth int) *sys {
	s := newSys(x, cfg, depth)

	// Worker actors: one persistent thread per worker; every "W" letter
	// makes it perform one Synchronize call, which may block across letters.
	for _, d := range cfg.workers {
		a := &actor{decl: d, ch: make(chan int, 1)}
		a.w = &mWorker{name: d.name, id: d.id(), scq: scqKey{pqKey{d.prefix, d.platform}, d.sc}}
		s.actors = append(s.actors, a)
		x.Go(d.name, func() { s.actorLoop(a) })
	}

	s.addLetters()
	x.SetKey(s.key)
	return s
}

// newSys creates the scheduler under test with its fakes and the reference
// model, without any threads or letters.
func newSys(x *mc.X, cfg *config, depth int) *sys {
	s := &sys{x: x, cfg: cfg, depth: depth, idleStep: -1, letterDefs: map[string]*letterDef{},
		spawn:    func(name string, fn func()) { x.Go(name, fn) },
		keyNames: map[string]string{}, nameKeys: map[string]invocation.Key{}, platNames: map[string]string{}, hostNames: map[string]string{}}
	s.ctx, s.cancel = context.WithCancel(context.Background())
	s.clock = newFakeClock(x)
	s.cas = newFakeCAS()
	s.m = newModel(epoch, ticks(cfg.wt), ticks(cfg.qt), s.fail)

	var router routing.ActionRouter = routing.NewSimpleActionRouter(
		platform.ActionKeyExtractor,
		[]invocation.KeyExtractor{invocation.CorrelatedInvocationsIDKeyExtractor, invocation.ToolInvocationIDKeyExtractor},
		scriptedAnalyzer{})
	if cfg.mixedRouter {
		router = mixedDepthRouter{base: router}
	}
	if len(cfg.rewrite) > 0 {
		demux := routing.NewDemultiplexingActionRouter(platform.ActionKeyExtractor, router)
		var froms []string
		for from := range cfg.rewrite {
			froms = append(froms, from)
		}
		sort.Strings(froms)
		for _, from := range froms {
			if err := demux.RegisterActionRouter(mustInst(""), platformName(from), routing.NewSimpleActionRouter(
				platform.NewStaticKeyExtractor(platformName(cfg.rewrite[from])),
				[]invocation.KeyExtractor{invocation.CorrelatedInvocationsIDKeyExtractor, invocation.ToolInvocationIDKeyExtractor},
				scriptedAnalyzer{})); err != nil {
				panic(err)
			}
		}
		router = demux
	}
	allow := auth.NewStaticAuthorizer(func(digest.InstanceName) bool { return true })
	s.bq = scheduler.NewInMemoryBuildQueue(s.cas, s.clock, newUUIDGenerator(), &scheduler.InMemoryBuildQueueConfiguration{
		ExecutionUpdateInterval:              farAway,
		OperationWithNoWaitersTimeout:        farAway,
		PlatformQueueWithNoWorkersTimeout:    ticks(cfg.qt),
		BusyWorkerSynchronizationInterval:    farAway,
		GetIdleWorkerSynchronizationInterval: func() time.Duration { return farAway },
		WorkerTaskRetryCount:                 9,
		WorkerWithNoSynchronizationsTimeout:  ticks(cfg.wt),
	}, 1<<20, router, allow, allow, allow, allow)

	for name, p := range platforms {
		s.platNames[platform.MustNewKey("", p).GetPlatformString()] = name
	}
	for i := range cfg.execs {
		e := &cfg.execs[i]
		if cfg.mixedRouter {
			s.keyNames[string(corrKey(e.corr))] = e.corr
			s.keyNames[string(toolKey(e.tool))] = e.tool
		} else {
			s.keyNames[string(corrKey(e.corr))] = "c:" + e.corr
			s.keyNames[string(toolKey(e.tool))] = "t:" + e.tool
		}
	}

	for k, n := range s.keyNames {
		s.nameKeys[n] = invocation.Key(k)
	}

	for _, d := range cfg.predeclared {
		var limits []time.Duration
		for _, l := range d.limits {
			limits = append(limits, time.Duration(l)*tickUnit)
		}
		if err := s.bq.RegisterPredeclaredPlatformQueue(mustInst(d.prefix), platformName(d.platform), limits, 0, 0, d.sizeClasses); err != nil {
			panic(err)
		}
		s.m.predeclare(pqKey{d.prefix, d.platform}, limits, d.sizeClasses)
	}

	for _, d := range cfg.workers {
		s.hostNames[d.idKey()] = d.name
	}
	return s
}

// ---------------------------------------------------------------------------
// Letters

func (s *sys) allowed(name string) bool {
	if s.torn {
		return false
	}
	if s.pos < len(s.cfg.prefix) {
		return s.cfg.prefix[s.pos] == name
	}
	return s.used < s.depth
}

func (s *sys) consume(name string) {
	if s.pos < len(s.cfg.prefix) {
		s.pos++
	} else {
		s.used++
	}
	s.hist = append(s.hist, name)
}

func (s *sys) letter(name string, enabled func() bool, fire func()) {
	if s.scripted {
		s.letterDefs[name] = &letterDef{
			enabled: func() bool { return s.allowed(name) && (enabled == nil || enabled()) },
			fire: func() {
				s.consume(name)
				fire()
			},
		}
		return
	}
	s.x.AddEvent(&mc.Event{
		Name: name, OnlyIdle: true, Free: true,
		Enabled: func() bool { return s.allowed(name) && (enabled == nil || enabled()) },
		Fire: func() {
			s.consume(name)
			fire()
		},
	})
}

func (s *sys) addLetters() {
	if !s.scripted {
		s.addSentinels()
	}
	s.addAlphabet()
}

// addSentinels registers the boundary sentinel - evaluated exactly when no
// thread is enabled, i.e. at the boundary between two letters; runs the
// boundary oracles - and the orderly shutdown.
func (s *sys) addSentinels() {
	s.x.AddEvent(&mc.Event{Name: "boundary", OnlyIdle: true, Free: true, Enabled: func() bool {
		if !s.torn && s.idleStep != s.x.Steps() {
			s.idleStep = s.x.Steps()
			s.checkBoundary()
		}
		return false
	}, Fire: func() {}})
	s.x.AddEvent(&mc.Event{Name: "teardown", Teardown: true, Enabled: func() bool { return !s.torn }, Fire: func() {
		s.torn = true
		s.cancel()
		for _, a := range s.actors {
			close(a.ch)
		}
	}})
}

func (s *sys) addAlphabet() {
	for _, a := range s.actors {
		a := a
		s.letter(a.decl.name, func() bool { return !a.busy }, func() {
			a.busy = true
			if a.w.task != nil && s.registeredTask(a) {
				a.ch <- syncCompleteOK
			} else {
				a.phys = nil
				a.ch <- syncIdle
			}
		})
		if s.cfg.exec {
			s.letter(a.decl.name+".exec", func() bool { return !a.busy && a.phys != nil && s.registeredTask(a) }, func() {
				a.busy = true
				a.ch <- syncExec
			})
		}
		if s.cfg.kill {
			s.letter("kill:"+a.decl.name, func() bool {
				return !a.busy && a.w.task != nil && s.registeredTask(a) && len(a.w.task.opNames) > 0
			}, func() { s.spawn("op", func() { s.doKill(a) }) })
		}
		if s.cfg.fail {
			s.letter(a.decl.name+".fail", func() bool { return !a.busy && a.w.task != nil && s.registeredTask(a) }, func() {
				a.busy = true
				a.ch <- syncCompleteFail
			})
		}
	}
	for i := range s.cfg.execs {
		e := &s.cfg.execs[i]
		var en func() bool
		if e.prefixOnly {
			en = func() bool { return s.pos < len(s.cfg.prefix) }
		}
		s.letter(e.name, en, func() { s.spawn("op", func() { s.doExecute(e) }) })
	}
	for i := range s.cfg.drains {
		d := &s.cfg.drains[i]
		s.letter(d.name+"+", nil, func() { s.spawn("op", func() { s.doDrain(d, true) }) })
		s.letter(d.name+"-", nil, func() { s.spawn("op", func() { s.doDrain(d, false) }) })
	}
	for i := range s.cfg.terms {
		t := &s.cfg.terms[i]
		s.letter(t.name, nil, func() { s.spawn("op", func() { s.doTerminate(t) }) })
	}
	if s.cfg.list {
		s.letter("list", nil, func() { s.spawn("op", func() { s.doList() }) })
	}
	for _, k := range s.cfg.inspect {
		k := k
		s.letter(k, nil, func() { s.spawn("op", func() { s.doInspect(k) }) })
	}
	if s.cfg.maxTicks > 0 {
		s.letter("tick", func() bool { return s.nTicks < s.cfg.maxTicks }, func() {
			s.nTicks++
			s.clock.advance(tickUnit)
		})
	}
}

// registeredTask reports whether the worker still holds its task in the
// model (it loses it when it is removed for not synchronizing).
func (s *sys) registeredTask(a *actor) bool {
	_, q := s.m.registered(a.w)
	return q != nil
}

// ---------------------------------------------------------------------------
// Worker actor

func (s *sys) actorLoop(a *actor) {
	s.x.ResetLocal(a.decl.name + ":idle")
	for kind := range a.ch {
		s.mu.Lock()
		s.m.expire(s.clock.Now())
		held := a.w.task
		if _, q := s.m.registered(a.w); q == nil {
			held = nil
		}
		s.m.preSync(a.w, kind)
		phys := a.phys
		s.mu.Unlock()
		req := &remoteworker.SynchronizeRequest{
			WorkerId:           a.decl.id(),
			InstanceNamePrefix: a.decl.prefix,
			Platform:           platformName(a.decl.platform),
			SizeClass:          a.decl.sc,
		}
		if kind == syncExec {
			req.CurrentState = &remoteworker.CurrentState{WorkerState: &remoteworker.CurrentState_Executing_{Executing: &remoteworker.CurrentState_Executing{
				ActionDigest:   &remoteexecution.Digest{Hash: phys.hash, SizeBytes: 100},
				ExecutionState: &remoteworker.CurrentState_Executing_Started{Started: &emptypb.Empty{}},
			}}}
		} else if held == nil || kind == syncIdle {
			req.CurrentState = &remoteworker.CurrentState{WorkerState: &remoteworker.CurrentState_Idle{Idle: &emptypb.Empty{}}}
		} else {
			exit := int32(0)
			if kind == syncCompleteFail {
				exit = 1
			}
			req.CurrentState = &remoteworker.CurrentState{WorkerState: &remoteworker.CurrentState_Executing_{Executing: &remoteworker.CurrentState_Executing{
				ActionDigest: &remoteexecution.Digest{Hash: held.hash, SizeBytes: 100},
				ExecutionState: &remoteworker.CurrentState_Executing_Completed{Completed: &remoteexecution.ExecuteResponse{
					Result: &remoteexecution.ActionResult{ExitCode: exit},
				}},
			}}}
		}
		resp, err := s.bq.Synchronize(s.ctx, req)
		s.mu.Lock()
		s.onSyncReturn(a, resp, err, kind)
		a.busy = false
		s.mu.Unlock()
		s.x.ResetLocal(a.decl.name + ":idle")
	}
}

func (s *sys) onSyncReturn(a *actor, resp *remoteworker.SynchronizeResponse, err error, kind int) {
	if s.torn {
		return
	}
	s.m.expire(s.clock.Now())
	w := a.w
	if err == nil && resp.GetDesiredState() != nil {
		// The worker process does what it is told: execute that
		// action, or go idle. (No desired state: carry on.)
		a.phys = nil
		if ex := resp.GetDesiredState().GetExecuting(); ex != nil {
			a.phys = s.m.tasks[ex.ActionDigest.GetHash()]
		}
	}
	if err == nil && kind == syncExec && w.expectErr == codes.OK && !s.broken {
		// The scheduler's view at the time of the call: w.task (nothing
		// changes it between preSync and here in a sequential history).
		switch ex := resp.GetDesiredState().GetExecuting(); {
		case w.task != nil && resp.GetDesiredState() != nil:
			s.fail("C05", "still-executing-redirected", "worker %s reported that it still executes its task %s and was told to do something else (%v)", w.name, w.task.letter, resp.GetDesiredState())
		case w.task != nil:
			s.outcome = append(s.outcome, w.name+"<continue")
			s.m.postSyncReturn(w)
			return
		case ex == nil && resp.GetDesiredState().GetIdle() == nil:
			s.fail("C05", "stale-execution-continues", "worker %s reported that it still executes a task the scheduler has completed on its own and was not told to stop", w.name)
		}
	}
	switch {
	case err != nil:
		s.outcome = append(s.outcome, fmt.Sprintf("%s!%s", w.name, status.Code(err)))
		if status.Code(err) != w.expectErr {
			s.failBoth("sync-error", "Synchronize of %s failed with %v, the model expected code %s", w.name, err, w.expectErr)
		}
	case w.expectErr != codes.OK:
		s.failBoth("sync-accepted", "Synchronize of %s succeeded, the model expected code %s", w.name, w.expectErr)
	default:
		if ex := resp.GetDesiredState().GetExecuting(); ex != nil {
			hash := ex.ActionDigest.GetHash()
			if !s.broken {
				s.m.received(w, hash, ex.InstanceNameSuffix)
			}
			if t := s.m.tasks[hash]; t != nil {
				s.outcome = append(s.outcome, fmt.Sprintf("%s<%s", w.name, t.letter))
			}
		} else {
			s.outcome = append(s.outcome, w.name+"<idle")
		}
	}
	s.m.postSyncReturn(w)
}

// ---------------------------------------------------------------------------
// Client and operator calls (short-lived "op" threads)

func (s *sys) doExecute(e *execDecl) {
	s.mu.Lock()
	now := s.clock.Now()
	s.m.expire(now)
	s.seq++
	// a: the declaration that determines the action's content.
	a, salt, id := e, byte(s.seq), fmt.Sprintf("action-%d", s.seq)
	if e.share != "" {
		for i := range s.cfg.execs {
			if c := &s.cfg.execs[i]; c.share == e.share {
				a = c
				break
			}
		}
		salt, id = 0, fmt.Sprintf("shared-%s@%s", e.share, e.inst)
	}
	sum := sha256.Sum256([]byte(id))
	hash := hex.EncodeToString(sum[:])
	action := &remoteexecution.Action{
		CommandDigest:   &remoteexecution.Digest{Hash: hash, SizeBytes: 1},
		InputRootDigest: &remoteexecution.Digest{Hash: hash, SizeBytes: 2},
		Platform:        platformName(a.platform),
		Timeout:         durationpb.New(time.Duration(a.dur) * tickUnit),
		Salt:            []byte{salt, byte(a.scIdx)},
	}
	s.cas.put(hash, action)
	t := &mTask{hash: hash, inst: e.inst, platform: s.cfg.routedPlatform(a.platform),
		dur: time.Duration(a.dur) * tickUnit, scIdx: a.scIdx, letter: e.name, share: e.share}
	t.ops = []*mOp{{t: t, path: s.cfg.modelPath(e), prio: e.prio, at: now}}
	want := codes.OK
	if !s.broken {
		// t becomes the task the request waits for: the new one, or the
		// in-flight task of the same action it is deduplicated against.
		want, t = s.m.execute(t)
	}
	s.mu.Unlock()

	md, err := proto.Marshal(&remoteexecution.RequestMetadata{CorrelatedInvocationsId: e.corr, ToolInvocationId: e.tool})
	if err != nil {
		panic(err)
	}
	ctx, cancel := context.WithCancel(metadata.NewIncomingContext(s.ctx, metadata.Pairs("build.bazel.remote.execution.v2.requestmetadata-bin", string(md))))
	defer cancel()
	stream := &fakeStream{ctx: ctx, cancel: cancel}
	stream.onFirst = func(op *longrunningpb.Operation) {
		s.mu.Lock()
		defer s.mu.Unlock()
		var meta remoteexecution.ExecuteOperationMetadata
		if err := op.Metadata.UnmarshalTo(&meta); err != nil {
			panic(err)
		}
		s.outcome = append(s.outcome, fmt.Sprintf("%s=%s", e.name, meta.Stage))
		if t != nil {
			t.opNames = append(t.opNames, op.Name)
		}
		if want != codes.OK || s.broken {
			return
		}
		switch {
		case t.state == tHanded && meta.Stage != remoteexecution.ExecutionStage_EXECUTING:
			s.fail("C04", "not-handed-over", "task %s (invocation %v) arrived while workers %v were waiting for work in its queue %v, but it was %s instead of being handed to one of them", e.name, t.paths(), t.handSet, t.scq, meta.Stage)
		case t.state == tQueued && meta.Stage != remoteexecution.ExecutionStage_QUEUED:
			s.failBoth("handed-without-waiting-worker", "task %s is %s right after Execute although no eligible worker of its queue %v was waiting", e.name, meta.Stage, t.scq)
		case t.state == tExecuting && meta.Stage != remoteexecution.ExecutionStage_EXECUTING:
			s.failBoth("desync/deduplicated-stage", "request %s for the action of the task executing on %s reports stage %s", e.name, t.worker, meta.Stage)
		}
	}
	err = s.bq.Execute(&remoteexecution.ExecuteRequest{
		InstanceName:    e.inst,
		ActionDigest:    &remoteexecution.Digest{Hash: hash, SizeBytes: 100},
		ExecutionPolicy: &remoteexecution.ExecutionPolicy{Priority: e.prio},
	}, stream)
	s.mu.Lock()
	defer s.mu.Unlock()
	if s.torn || s.broken {
		return
	}
	got := status.Code(err)
	if len(stream.msgs) > 0 {
		got = codes.OK // accepted; the error is our own cancellation
	} else {
		s.outcome = append(s.outcome, fmt.Sprintf("%s!%s", e.name, got))
	}
	if got != want {
		if want == codes.OK {
			s.fail("C05", "rejected", "Execute %s (instance %q platform %s) was rejected with %v although queue %v is the longest registered prefix", e.name, e.inst, e.platform, err, t.scq)
		} else if got == codes.OK {
			s.fail("C05", "accepted-without-queue", "Execute %s (instance %q platform %s) was accepted although no platform queue has a prefix of its instance name and its platform; expected %s", e.name, e.inst, e.platform, want)
		} else {
			s.fail("C05", "rejection-code", "Execute %s (instance %q platform %s) without a matching queue %v after start-up (grace period %v) was rejected with %s, expected %s", e.name, e.inst, e.platform, now.Sub(epoch), s.m.qt, got, want)
		}
	}
}

func scqName(prefix, plat string, sc uint32) *buildqueuestate.SizeClassQueueName {
	return &buildqueuestate.SizeClassQueueName{
		PlatformQueueName: &buildqueuestate.PlatformQueueName{InstanceNamePrefix: prefix, Platform: platformName(plat)},
		SizeClass:         sc,
	}
}

func (s *sys) doDrain(d *drainDecl, add bool) {
	s.mu.Lock()
	s.m.expire(s.clock.Now())
	q := s.m.scq(scqKey{pqKey{d.prefix, d.platform}, d.sc})
	if q != nil {
		if add {
			q.drains[d.name] = d.pattern
		} else {
			delete(q.drains, d.name)
		}
	}
	s.mu.Unlock()
	req := &buildqueuestate.AddOrRemoveDrainRequest{SizeClassQueueName: scqName(d.prefix, d.platform, d.sc), WorkerIdPattern: d.pattern}
	var err error
	if add {
		_, err = s.bq.AddDrain(s.ctx, req)
	} else {
		_, err = s.bq.RemoveDrain(s.ctx, req)
	}
	s.mu.Lock()
	defer s.mu.Unlock()
	if (err != nil) != (q == nil) && !s.torn {
		s.failBoth("drain-call", "drain call %s add=%v returned %v, model has queue: %v", d.name, add, err, q != nil)
	}
}

// doKill: KillOperations of (the first operation of) the task the scheduler
// has executing on the worker. The scheduler completes the task without the
// worker: the worker is idle in the scheduler's view, "there is no point in
// offering any locality/stickiness" (it is associated with the root
// invocation again), and it only finds out at its next Synchronize.
func (s *sys) doKill(a *actor) {
	s.mu.Lock()
	s.m.expire(s.clock.Now())
	w := a.w
	t := w.task
	_, q := s.m.registered(w)
	if t == nil || q == nil {
		s.mu.Unlock()
		return
	}
	name := t.opNames[0]
	t.state = tDone
	w.task = nil
	w.hasLast = true
	w.lastPath = nil
	s.m.gc(q)
	s.mu.Unlock()
	_, err := s.bq.KillOperations(s.ctx, &buildqueuestate.KillOperationsRequest{
		Filter: &buildqueuestate.KillOperationsRequest_Filter{Type: &buildqueuestate.KillOperationsRequest_Filter_OperationName{OperationName: name}},
		Status: status.New(codes.Canceled, "killed by the operator").Proto(),
	})
	s.mu.Lock()
	defer s.mu.Unlock()
	s.outcome = append(s.outcome, "kill:"+w.name)
	if err != nil && !s.torn {
		s.failBoth("kill-call", "KillOperations(%s), the task executing on %s, failed: %v", name, w.name, err)
	}
}

func (s *sys) doTerminate(t *termDecl) {
	s.mu.Lock()
	s.m.expire(s.clock.Now())
	for _, pk := range s.m.sortedPqKeys() {
		for _, q := range s.m.pqs[pk].scqs {
			for _, w := range q.workers {
				if workerMatches(w.id, t.pattern) {
					w.terminating = true
				}
			}
		}
	}
	s.mu.Unlock()
	s.bq.TerminateWorkers(s.ctx, &buildqueuestate.TerminateWorkersRequest{WorkerIdPattern: t.pattern})
}

// ---------------------------------------------------------------------------
// State key

func (s *sys) relTime(t time.Time) string {
	if t.IsZero() {
		return "z"
	}
	d := t.Sub(s.clock.Now()) / tickUnit
	if d > 1000 {
		return "far"
	}
	return fmt.Sprint(int64(d))
}

func (s *sys) invPath(keys []string) []string {
	var p []string
	for _, k := range keys {
		n, ok := s.keyNames[k]
		if !ok {
			n = "?" + k
		}
		p = append(p, n)
	}
	return p
}

func (s *sys) renderInvocation(b *strings.Builder, i *scheduler.VerifSeqInvocation) {
	fmt.Fprintf(b, "I(%s fp%d e%d ls%s lc%s iw%d qi%d ii%d Q[", pathStr(s.invPath(i.Keys)), i.FirstQueuedOperationPriority, i.ExecutingWorkersCount,
		s.relTime(i.LastOperationStarted), s.relTime(i.LastOperationCompletion), i.IdleWorkersCount, i.QueuedChildrenIndex, i.IdleSynchronizingWorkersChildrenIndex)
	for _, o := range i.QueuedOperations {
		fmt.Fprintf(b, "(p%d d%d @%s %s)", o.Priority, o.ExpectedDuration/tickUnit, s.relTime(o.QueuedTimestamp), o.InstanceNameSuffix)
	}
	fmt.Fprintf(b, "] QC%v IC%v EW%v IW%v ", s.invPath(i.QueuedChildren), s.invPath(i.IdleSynchronizingWorkersChildren), i.ExecutingWorkers, i.IdleSynchronizingWorkers)
	for _, c := range i.Children {
		s.renderInvocation(b, c)
	}
	b.WriteString(")")
}

func (s *sys) implKey(st *scheduler.VerifSeqState) string {
	var b strings.Builder
	hard := st.HardFailureTime.Sub(st.Now)
	if hard < 0 {
		hard = 0
	}
	fmt.Fprintf(&b, "now%s hard%d ", s.relTime(st.Now), hard/tickUnit)
	var cl []string
	for _, t := range st.CleanupTimes {
		if r := s.relTime(t); r != "far" {
			cl = append(cl, r)
		}
	}
	fmt.Fprintf(&b, "cl%v ", cl)
	for _, pq := range st.PlatformQueues {
		fmt.Fprintf(&b, "PQ(%q %s %v ti%d ", pq.InstanceNamePrefix, s.platNames[pq.Platform], pq.StickinessLimits, pq.TrieIndex)
		for _, q := range pq.SizeClassQueues {
			fmt.Fprintf(&b, "SC(%d r%v ", q.SizeClass, q.MayBeRemoved)
			if q.HasCleanup {
				fmt.Fprintf(&b, "cl%s ", s.relTime(q.CleanupTime))
			}
			fmt.Fprintf(&b, "D%v ", q.Drains)
			for _, w := range q.Workers {
				fmt.Fprintf(&b, "W(%s t%v p%v li%d task%v ", w.Key, w.Terminating, w.Parked, w.ListIndex, w.CurrentTaskHash != "")
				if w.HasCleanup {
					fmt.Fprintf(&b, "cl%s ", s.relTime(w.CleanupTime))
				}
				if w.HasLastInvocation {
					fmt.Fprintf(&b, "last=%s ", pathStr(s.invPath(w.LastInvocation)))
				}
				for _, t := range w.StickinessStartingTimes {
					fmt.Fprintf(&b, "s%s ", s.relTime(t))
				}
				b.WriteString(")")
			}
			s.renderInvocation(&b, q.Root)
			b.WriteString(")")
		}
		b.WriteString(")")
	}
	return b.String()
}

func (s *sys) key() string {
	if s.torn || s.idleStep != s.x.Steps() {
		// Inside a letter (or during teardown) the schedule is fixed:
		// a key that is unique per history prevents any merging.
		return fmt.Sprintf("mid|%v|%d", s.hist, s.x.Steps())
	}
	var busy []string
	for _, a := range s.actors {
		if a.busy {
			busy = append(busy, a.decl.name)
		}
		if s.cfg.exec && a.phys != nil && a.phys != a.w.task {
			// The worker process believes to execute a task the
			// scheduler no longer has on it.
			busy = append(busy, a.decl.name+"~stale")
		}
	}
	return fmt.Sprintf("B|pos%d used%d ticks%d busy%v broken%v|%s|%s|T%s", s.pos, s.used, s.nTicks, busy, s.broken,
		s.implKey(scheduler.VerifSeqSnapshot(s.bq)), s.m.key(), s.clock.dump())
}

// ---------------------------------------------------------------------------
// Boundary oracles: evaluated whenever every thread is blocked or done.

func (s *sys) checkBoundary() {
	if s.broken || s.x.Free() {
		return
	}
	m := s.m
	st := scheduler.VerifSeqSnapshot(s.bq)

	// A task that had to be handed to a waiting worker must have arrived.
	var hashes []string
	for h := range m.tasks {
		hashes = append(hashes, h)
	}
	sort.Strings(hashes)
	for _, h := range hashes {
		if t := m.tasks[h]; t.state == tHanded {
			s.fail("C04", "handover-lost", "task %s (invocation %v) had to be handed straight to one of the waiting workers %v of queue %v, but none of them received it", t.letter, t.paths(), t.handSet, t.scq)
			return
		}
	}
	// Work conservation: no task stays queued while an undrained,
	// non-terminating worker of its queue is waiting for work.
	for _, pk := range m.sortedPqKeys() {
		pq := m.pqs[pk]
		for _, sc := range pq.sizeClasses() {
			q := pq.scqs[sc]
			if len(q.queued) == 0 {
				continue
			}
			for _, w := range q.sortedWorkers() {
				if w.waiting(q) {
					msg := fmt.Sprintf("task %s stays queued in %v while undrained worker %s of that queue is blocked waiting for work", q.queued[0].t.letter, q.key, w.name)
					s.broken = true
					s.x.FailP("C04", "work-conservation", "after %v: %s", s.hist, msg)
					s.x.FailP("C05", "work-conservation", "after %v: %s", s.hist, msg)
					return
				}
			}
		}
	}

	// Registered queues, workers, drains and the location of every task
	// agree with the reference model.
	type wantQ struct {
		q    *mScq
		seen bool
	}
	want := map[scqKey]*wantQ{}
	for _, pk := range m.sortedPqKeys() {
		for _, q := range m.pqs[pk].scqs {
			want[q.key] = &wantQ{q: q}
		}
	}
	for idx, pq := range st.PlatformQueues {
		pname, ok := s.platNames[pq.Platform]
		if !ok {
			s.failBoth("desync/platform", "implementation has a platform queue for unknown platform %s", pq.Platform)
			return
		}
		if pq.TrieIndex != idx {
			s.fail("C05", "trie-index", "platform queue %q/%s is stored at index %d, but the trie maps its key to %d", pq.InstanceNamePrefix, pname, idx, pq.TrieIndex)
			return
		}
		if len(pq.SizeClassQueues) == 0 {
			s.fail("C05", "empty-platform-queue", "platform queue %q/%s has no size class queues", pq.InstanceNamePrefix, pname)
			return
		}
		for _, q := range pq.SizeClassQueues {
			k := scqKey{pqKey{pq.InstanceNamePrefix, pname}, q.SizeClass}
			wq := want[k]
			if wq == nil {
				s.failBoth("desync/extra-queue", "implementation has size class queue %v which should not exist (model: %s)", k, m.key())
				return
			}
			wq.seen = true
			if msg := s.compareQueue(wq.q, &q); msg != "" {
				fp := strings.SplitN(msg, ":", 2)[0]
				if !strings.Contains(fp, "eligible") {
					fp = "desync/" + fp
				}
				s.failBoth(fp, "queue %v: %s", k, msg)
				return
			}
		}
	}
	var ks []string
	for k, wq := range want {
		if !wq.seen {
			ks = append(ks, k.String())
		}
	}
	if len(ks) > 0 {
		sort.Strings(ks)
		s.failBoth("desync/missing-queue", "size class queues %v should exist but do not", ks)
		return
	}

	// Longest-prefix lookups for every probe instance name and platform.
	pnames := s.cfg.plats
	if pnames == nil {
		pnames = []string{"P1", "P2"}
	}
	for _, inst := range s.cfg.probes {
		for _, p := range pnames {
			got, found := scheduler.VerifSeqLookupLongestPrefix(s.bq, mustInst(inst), platformName(p))
			wpq := m.route(inst, p)
			switch {
			case wpq == nil && found:
				s.fail("C05", "lookup", "instance %q platform %s resolves to platform queue %q although no registered queue matches", inst, p, got)
				return
			case wpq != nil && (!found || got != wpq.key.prefix):
				s.fail("C05", "lookup", "instance %q platform %s resolves to (%q, found=%v), the longest registered prefix is %q", inst, p, got, found, wpq.key.prefix)
				return
			}
		}
	}
}

func (s *sys) collectQueued(i *scheduler.VerifSeqInvocation, out map[string][]string) {
	p := pathStr(s.invPath(i.Keys))
	for _, o := range i.QueuedOperations {
		out[p] = append(out[p], o.ActionHash)
	}
	for _, c := range i.Children {
		s.collectQueued(c, out)
	}
}

func (s *sys) compareQueue(q *mScq, iq *scheduler.VerifSeqSizeClassQueue) string {
	if q.mayBeRemoved != iq.MayBeRemoved {
		return fmt.Sprintf("removable: model %v impl %v", q.mayBeRemoved, iq.MayBeRemoved)
	}
	if len(q.drains) != len(iq.Drains) {
		return fmt.Sprintf("drains: model %d impl %d", len(q.drains), len(iq.Drains))
	}
	if len(q.workers) != len(iq.Workers) {
		return fmt.Sprintf("workers: model has %d workers, impl %d", len(q.workers), len(iq.Workers))
	}
	for _, iw := range iq.Workers {
		w := q.workers[s.hostNames[iw.Key]]
		if w == nil {
			return fmt.Sprintf("workers: impl has worker %s unknown to the model", iw.Key)
		}
		if w.terminating != iw.Terminating {
			return fmt.Sprintf("terminating: worker %s model %v impl %v", w.name, w.terminating, iw.Terminating)
		}
		mh := ""
		if w.task != nil {
			mh = w.task.hash
		}
		if mh != iw.CurrentTaskHash {
			return fmt.Sprintf("worker-task: worker %s holds %q in the model, %q in the implementation", w.name, mh, iw.CurrentTaskHash)
		}
		if w.waiting(q) && !iw.Parked {
			return fmt.Sprintf("eligible-worker-not-offered: worker %s is blocked in Synchronize, undrained and not terminating, but it is not among the idle synchronizing workers a new task would be handed to", w.name)
		}
		if !w.waiting(q) && iw.Parked {
			return fmt.Sprintf("ineligible-worker-offered: worker %s (in call %v, drained %v, terminating %v) is among the idle synchronizing workers new tasks are handed to", w.name, w.inCall, w.drained(q), w.terminating)
		}
		if w.hasLast != iw.HasLastInvocation || pathStr(w.lastPath) != pathStr(s.invPath(iw.LastInvocation)) {
			return fmt.Sprintf("last-invocation: worker %s model %v/%v impl %v/%v", w.name, w.hasLast, w.lastPath, iw.HasLastInvocation, s.invPath(iw.LastInvocation))
		}
	}
	got := map[string][]string{}
	s.collectQueued(iq.Root, got)
	wantQ := map[string][]string{}
	for _, o := range q.queued {
		wantQ[pathStr(o.path)] = append(wantQ[pathStr(o.path)], o.t.hash)
	}
	render := func(m map[string][]string) string {
		var ks []string
		for k, v := range m {
			sort.Strings(v)
			var short []string
			for _, h := range v {
				short = append(short, h[:6])
			}
			ks = append(ks, k+"="+strings.Join(short, ","))
		}
		sort.Strings(ks)
		return strings.Join(ks, ";")
	}
	if g, w := render(got), render(wantQ); g != w {
		return fmt.Sprintf("queued-tasks: model {%s} impl {%s}", w, g)
	}
	// Executing workers per invocation (the quantity the score is made
	// of): workers whose task carries an operation of the invocation or of
	// one nested in it, including operations that joined the task through
	// in-flight deduplication.
	return s.compareExecuting(q, iq.Root)
}

func (s *sys) compareExecuting(q *mScq, i *scheduler.VerifSeqInvocation) string {
	p := s.invPath(i.Keys)
	if want := s.m.execCount(q, p); want != i.ExecutingWorkersCount {
		return fmt.Sprintf("executing-workers: invocation %v has %d executing workers in the model, %d in the implementation (%v)", p, want, i.ExecutingWorkersCount, i.ExecutingWorkers)
	}
	for _, c := range i.Children {
		if msg := s.compareExecuting(q, c); msg != "" {
			return msg
		}
	}
	return ""
}

func mustInst(s string) digest.InstanceName {
	i, err := digest.NewInstanceName(s)
	if err != nil {
		panic(err)
	}
	return i
}
