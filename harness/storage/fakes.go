package storage

import (
	"context"
	"crypto/sha256"
	"encoding/hex"
	"sort"
	"strings"

	remoteexecution "github.com/bazelbuild/remote-apis/build/bazel/remote/execution/v2"
	"github.com/buildbarn/bb-remote-execution/pkg/builder"
	"github.com/buildbarn/bb-remote-execution/pkg/filesystem/access"
	"github.com/buildbarn/bb-remote-execution/pkg/filesystem/pool"
	"github.com/buildbarn/bb-remote-execution/pkg/proto/remoteworker"
	"github.com/buildbarn/bb-storage/pkg/blobstore"
	"github.com/buildbarn/bb-storage/pkg/blobstore/buffer"
	"github.com/buildbarn/bb-storage/pkg/blobstore/slicing"
	"github.com/buildbarn/bb-storage/pkg/digest"

	"google.golang.org/grpc/codes"
	"google.golang.org/grpc/status"
)

// ---------------------------------------------------------------------------
// Fake Content Addressable Storage

// fakeCAS is the "global" CAS of the worker: a map. FindMissing and Put are
// choice points: 0 = succeed, 1 = fail with UNAVAILABLE, 2 = the caller's
// context is cancelled while the call is in flight (the action's context is
// really cancelled, so that everything after it observes the cancellation).
type fakeCAS struct{ w *world }

var _ blobstore.BlobAccess = (*fakeCAS)(nil)

func (c *fakeCAS) GetCapabilities(ctx context.Context, instanceName digest.InstanceName) (*remoteexecution.ServerCapabilities, error) {
	return nil, status.Error(codes.Unimplemented, "not used")
}

func (c *fakeCAS) Get(ctx context.Context, d digest.Digest) buffer.Buffer {
	return buffer.NewBufferFromError(status.Error(codes.Unimplemented, "fake CAS: Get is not used by the code under test"))
}

func (c *fakeCAS) GetFromComposite(ctx context.Context, parentDigest, childDigest digest.Digest, slicer slicing.BlobSlicer) buffer.Buffer {
	return buffer.NewBufferFromError(status.Error(codes.Unimplemented, "fake CAS: GetFromComposite is not used by the code under test"))
}

func (c *fakeCAS) FindMissing(ctx context.Context, digests digest.Set) (digest.Set, error) {
	w := c.w
	var names []string
	for _, d := range digests.Items() {
		names = append(names, w.nameOf(d))
	}
	sort.Strings(names)
	label := "cas.FindMissing(" + strings.Join(names, ",") + ")" + w.labelSuffix(ctx)
	if ctx.Err() != nil {
		// Deterministic: only ever called on the harness thread. The
		// call fails because of an earlier cancellation: a failed
		// storage operation of this action.
		w.point(ctx, label+"/cancelled")
		w.noteFault(ctx, label+"=cancelled-before", true)
		return digest.EmptySet, errCancelled
	}
	switch w.choose(ctx, label, 3) {
	case 1:
		w.noteFault(ctx, label+"=unavailable", true)
		return digest.EmptySet, errInjected
	case 2:
		w.noteFault(ctx, label+"=cancelled", true)
		cancelAction(ctx)
		return digest.EmptySet, errCancelled
	}
	missing := digest.NewSetBuilder(digests.Length())
	w.mu.Lock()
	for _, d := range digests.Items() {
		if _, ok := w.cas[w.key(d)]; !ok {
			missing.Add(d)
		}
	}
	w.mu.Unlock()
	return missing.Build(), nil
}

// labelSuffix tells the calls of concurrently running actions apart (labels
// order the anonymous Put threads and must be unique among them).
func (w *world) labelSuffix(ctx context.Context) string {
	if w.multi {
		if cur := actionOf(ctx); cur != nil {
			return "@a" + string(rune('0'+cur.idx))
		}
	}
	return ""
}

// cancelAction cancels the context of the action that ctx belongs to.
func cancelAction(ctx context.Context) {
	if cur := actionOf(ctx); cur != nil && cur.cancel != nil {
		cur.cancel()
	}
}

func (c *fakeCAS) Put(ctx context.Context, d digest.Digest, b buffer.Buffer) error {
	w := c.w
	name := w.nameOf(d)
	label := "cas.Put(" + name + ")" + w.labelSuffix(ctx)
	batchLayer := name != "her"

	// A Put that starts after its context was cancelled, or after a
	// sibling Put of the same errgroup has already returned an error (the
	// group's context is cancelled by that very return, concurrently with
	// the start of this call), fails with CANCELLED without being a
	// scheduling point. Whether batchedStoreBlobAccess' dispatch loop
	// still starts such a Put or stops first is a benign native race
	// between errgroup's cancel() and semaphore.Acquire(); both paths are
	// made indistinguishable for the scheduler here (buffer released
	// once, blob not stored).
	w.mu.Lock()
	sibling := w.failedCtx[ctx]
	dead := ctx.Err() != nil || sibling
	w.mu.Unlock()
	if dead {
		if !sibling {
			// Cancelled by the environment before the call started
			// (the failure of a sibling is already on record).
			w.noteFault(ctx, label+"=cancelled-before", batchLayer)
		}
		b.Discard()
		return errCancelled
	}

	switch w.choose(ctx, label, 3) {
	case 1:
		w.noteFault(ctx, label+"=unavailable", batchLayer)
		w.mu.Lock()
		w.failedCtx[ctx] = true
		w.mu.Unlock()
		b.Discard()
		w.arm(label+"=unavailable", true, batchLayer)
		return errInjected
	case 2:
		w.noteFault(ctx, label+"=cancelled", batchLayer)
		w.mu.Lock()
		w.failedCtx[ctx] = true
		w.mu.Unlock()
		// Cancel the action's context *before* returning, so that
		// everything that is woken up by this return sees it.
		cancelAction(ctx)
		b.Discard()
		w.arm(label+"=cancelled", true, batchLayer)
		return errCancelled
	}

	data, err := b.ToByteSlice(1 << 20)
	if err != nil {
		w.fail("cas/unreadable-buffer", "buffer handed to CAS Put(%s) cannot be read: %v", name, err)
		return err
	}
	sum := sha256.Sum256(data)
	if hex.EncodeToString(sum[:]) != d.GetHashString() || int64(len(data)) != d.GetSizeBytes() {
		w.fail("cas/digest-mismatch", "CAS Put(%s): contents do not match the digest %s", name, d)
		return status.Error(codes.InvalidArgument, "digest mismatch")
	}
	w.mu.Lock()
	w.cas[w.key(d)] = data
	w.mu.Unlock()
	w.arm(label+"=ok", false, batchLayer)
	return nil
}

// ---------------------------------------------------------------------------
// Fake Action Cache

type fakeAC struct {
	fakeCAS
}

func (a *fakeAC) FindMissing(ctx context.Context, digests digest.Set) (digest.Set, error) {
	return digest.EmptySet, status.Error(codes.Unimplemented, "fake AC: FindMissing is not used by the code under test")
}

func (a *fakeAC) Put(ctx context.Context, d digest.Digest, b buffer.Buffer) error {
	w := a.w
	m, err := b.ToProto(&remoteexecution.ActionResult{}, 1<<20)
	if err != nil {
		w.fail("ac/unreadable-buffer", "buffer handed to AC Put cannot be read: %v", err)
		return err
	}
	result := m.(*remoteexecution.ActionResult)
	// Oracle: evaluated on the attempt, whatever happens to the write.
	if !w.x.Free() {
		w.checkACWrite(ctx, result)
	}
	if ctx.Err() != nil {
		w.point(ctx, "ac.Put/cancelled"+w.labelSuffix(ctx))
		w.noteFault(ctx, "ac.Put=cancelled-before", false)
		return errCancelled
	}
	switch w.choose(ctx, "ac.Put"+w.labelSuffix(ctx), 3) {
	case 1:
		w.noteFault(ctx, "ac.Put=unavailable", false)
		return errInjected
	case 2:
		w.noteFault(ctx, "ac.Put=cancelled", false)
		cancelAction(ctx)
		return errCancelled
	}
	w.mu.Lock()
	w.ac = append(w.ac, acEntry{actionKey: w.key(d), result: result, casNames: w.casNamesLocked()})
	w.mu.Unlock()
	return nil
}

// ---------------------------------------------------------------------------
// Fake innermost executor (stands in for LocalBuildExecutor)

type fakeLocal struct {
	w      *world
	writer blobstore.BlobAccess // the batching writer, as in main.go
}

func (e *fakeLocal) CheckReadiness(ctx context.Context) error { return nil }

func attach(resp *remoteexecution.ExecuteResponse, err error) {
	if status.ErrorProto(resp.Status) == nil {
		resp.Status = status.Convert(err).Proto()
	}
}

func (e *fakeLocal) Execute(ctx context.Context, filePool pool.FilePool, monitor access.UnreadDirectoryMonitor, digestFunction digest.Function, request *remoteworker.DesiredState_Executing, executionStateUpdates chan<- *remoteworker.CurrentState_Executing) *remoteexecution.ExecuteResponse {
	w := e.w
	cfg := actionOf(ctx).cfg
	resp := builder.NewDefaultExecuteResponse(request)
	var ds []*remoteexecution.Digest
	for _, name := range cfg.blobs {
		d := w.digests[name]
		w.scope(ctx, 1)
		err := e.writer.Put(ctx, d, w.newBuffer(ctx, name))
		w.scope(ctx, -1)
		if err == nil {
			w.ackedPut(ctx, name)
		} else if cfg.attach {
			attach(resp, err)
		}
		// The response references every output, uploaded or not: it is
		// the outer layers' job to make sure that nothing incomplete
		// is advertised or cached.
		ds = append(ds, d.GetProto())
	}
	if n := len(ds); n > 0 {
		for i, d := range ds {
			resp.Result.OutputFiles = append(resp.Result.OutputFiles, &remoteexecution.OutputFile{Path: "f" + string(rune('0'+i)), Digest: d})
		}
		resp.Result.OutputDirectories = []*remoteexecution.OutputDirectory{{Path: "dir", TreeDigest: ds[0], RootDirectoryDigest: ds[n-1]}}
		resp.Result.OutputSymlinks = []*remoteexecution.OutputSymlink{{Path: "link", Target: "f0"}}
		resp.Result.StdoutDigest = ds[1%n]
		resp.Result.StderrDigest = ds[2%n]
		resp.ServerLogs["log"] = &remoteexecution.LogFile{Digest: ds[3%n]}
	}
	switch cfg.outcome {
	case outcomeExit1:
		resp.Result.ExitCode = 1
	case outcomeExitNeg:
		resp.Result.ExitCode = -1
	case outcomeStatusError:
		attach(resp, status.Error(codes.Internal, "injected failure of the action itself"))
	}
	return resp
}
