package nfs

import (
	"testing"

	"verif/mc"
)

func TestMC(t *testing.T) {
	var seqs []*mc.Seq
	seqs = append(seqs, seqs40()...)
	seqs = append(seqs, seqs41()...)
	mc.Main(t, append(scenarios(), scenariosLocks()...), seqs)
}
