package pool

import (
	"fmt"
	"testing"

	"verif/mc"
)

func hsName(pattern bool) string {
	if pattern {
		return "pattern"
	}
	return "zero"
}

func configs() []*config {
	var l []*config
	// 1. The full stack quota(blockdev(device, bitmap)) with the quota of the
	// statement (2 files, 12 bytes), all geometries, both hole sources, the
	// wide alphabet.
	for _, ss := range []int{2, 4} {
		for _, capS := range []int{3, 5} {
			for _, pattern := range []bool{false, true} {
				c := &config{
					name:  fmt.Sprintf("full-ss%d-cap%d-%s", ss, capS, hsName(pattern)),
					stack: "full", ss: ss, capS: capS, maxFiles: 2, maxBytes: 12, pattern: pattern, slots: 2,
					newSizes: []int{0, 3},
					woffs:    []int{0, 1, 3, 4, 5, 8}, wlens: []int{1, 3, 5},
					truncs:   []int{0, 1, 3, 4, 6, 9},
					faultOps: []string{"devW1", "devW2"},
					depth:    map[string]int{"quick": 4, "thorough": 6},
				}
				if pattern {
					c.newSizes = []int{3, 7}
					c.faultOps = append(c.faultOps, "hs")
				}
				l = append(l, c)
			}
		}
	}
	// 2. The real quota layer over a fake base pool whose calls can fail or
	// write short: NewFile/Truncate/WriteAt/Close failure accounting.
	for _, pattern := range []bool{false, true} {
		c := &config{
			name:  "quota-fakebase-" + hsName(pattern),
			stack: "quotafake", maxFiles: 2, maxBytes: 12, pattern: pattern, slots: 2,
			newSizes: []int{0, 3},
			woffs:    []int{0, 3, 8}, wlens: []int{1, 5},
			truncs:   []int{0, 1, 6, 9},
			faultOps: []string{"base", "baseShort"},
			depth:    map[string]int{"quick": 5, "thorough": 8},
		}
		if pattern {
			c.newSizes = []int{3, 7}
			c.faultOps = append(c.faultOps, "hs")
		}
		l = append(l, c)
	}
	// 3. The block device layer alone (no quota): files can fill the device,
	// exhaustion and maximal fragmentation are reachable.
	for _, g := range []struct {
		ss, capS int
		pattern  bool
	}{{2, 5, false}, {4, 3, true}, {2, 3, true}, {4, 5, false}} {
		c := &config{
			name:  fmt.Sprintf("block-ss%d-cap%d-%s", g.ss, g.capS, hsName(g.pattern)),
			stack: "block", ss: g.ss, capS: g.capS, pattern: g.pattern, slots: 2,
			newSizes: []int{0, 3},
			woffs:    []int{0, 1, 3, 4, 5, 8}, wlens: []int{1, 3, 5},
			truncs:   []int{0, 1, 3, 4, 6, 9},
			faultOps: []string{"devW1", "devW2", "devWtorn"},
			depth:    map[string]int{"quick": 4, "thorough": 6},
		}
		if g.pattern {
			c.newSizes = []int{3, 7}
			c.faultOps = append(c.faultOps, "hs")
		}
		l = append(l, c)
	}
	// 4. 70 sectors, most of them occupied by ballast, so that allocations
	// and frees of the files cross the 64-bit word boundary of the bitmap
	// and wrap around into a fragmented first word.
	l = append(l, &config{
		name:  "block-ss2-cap70-word-boundary",
		stack: "block", ss: 2, capS: 70, ballast: true, slots: 2, preopen: []int{0, 0},
		newSizes: []int{0},
		woffs:    []int{0, 1, 4}, wlens: []int{3, 5},
		truncs:   []int{0, 1, 4},
		faultOps: []string{"devW1", "devW2"},
		depth:    map[string]int{"quick": 4, "thorough": 6},
	})
	// 5. Focused on fragmentation, exhaustion and reuse of freed space: both
	// files exist in the initial state (saves two letters of depth), narrow
	// sector-aligned alphabet, explored deeper.
	l = append(l,
		&config{
			name:  "frag-block-ss2-cap5-zero",
			stack: "block", ss: 2, capS: 5, slots: 2, preopen: []int{0, 0},
			newSizes: []int{0},
			woffs:    []int{0, 1, 2, 4}, wlens: []int{1, 3},
			truncs:   []int{0, 1, 2, 3},
			faultOps: []string{"devW1", "devW2"},
			depth:    map[string]int{"quick": 4, "thorough": 6},
		},
		&config{
			name:  "frag-block-ss4-cap3-pattern",
			stack: "block", ss: 4, capS: 3, pattern: true, slots: 2, preopen: []int{7, 3},
			newSizes: []int{3},
			woffs:    []int{0, 2, 4, 8}, wlens: []int{1, 5},
			truncs:   []int{0, 2, 4, 6},
			faultOps: []string{"devW1", "hs"},
			depth:    map[string]int{"quick": 4, "thorough": 6},
		},
		&config{
			name:  "frag-full-ss2-cap3-pattern",
			stack: "full", ss: 2, capS: 3, maxFiles: 2, maxBytes: 12, pattern: true, slots: 2, preopen: []int{3, 3},
			newSizes: []int{3},
			woffs:    []int{0, 1, 2, 4}, wlens: []int{1, 3},
			truncs:   []int{0, 1, 2, 3},
			faultOps: []string{"devW1", "hs"},
			depth:    map[string]int{"quick": 4, "thorough": 6},
		},
	)
	return l
}

// concScenarios: the Engine A part. Thread i runs its script on file slot i;
// all threads share one pool.
func concScenarios() []*mc.Scenario {
	N := func(size int) cop { return cop{opNew, size, 0} }
	W := func(off, n int) cop { return cop{opWrite, off, n} }
	T := func(size int) cop { return cop{opTrunc, size, 0} }
	C := cop{kind: opClose}
	quota := func(name string, maxFiles, maxBytes int, preopen []int, faults bool) *config {
		return &config{name: name, stack: "quotaconc", maxFiles: maxFiles, maxBytes: maxBytes, preopen: preopen, baseFaults: faults}
	}
	block := func(name, stack string, ss, capS, maxFiles, maxBytes int, preopen []int) *config {
		return &config{name: name, stack: stack, ss: ss, capS: capS, maxFiles: maxFiles, maxBytes: maxBytes, preopen: preopen}
	}
	return []*mc.Scenario{
		// (a) the real quota layer over the counting base pool.
		// One file slot: two creations collide, a close races with a
		// creation, the slot is reused.
		concScenario(quota("conc-quota-1file-4bytes", 1, 4, nil, false),
			[][]cop{{N(2), C, N(0)}, {N(3), C}}, -1, -1),
		// Two bytes left, two growing calls that want both of them; then
		// shrinking / closing races with growing.
		concScenario(quota("conc-quota-2files-4bytes-grow", 2, 4, []int{1, 1}, false),
			[][]cop{{T(3), T(0)}, {W(1, 2), C}}, -1, -1),
		// Creation with bytes against creation + growth.
		concScenario(quota("conc-quota-2files-4bytes-mixed", 2, 4, nil, false),
			[][]cop{{N(2), C}, {N(1), T(3)}}, -1, -1),
		// Growing write against creation + growing write.
		concScenario(quota("conc-quota-2files-4bytes-write", 2, 4, []int{1, -1}, false),
			[][]cop{{W(1, 2), T(1)}, {N(2), W(2, 1)}}, -1, -1),
		// Three calls each.
		concScenario(quota("conc-quota-2files-4bytes-long", 2, 4, nil, false),
			[][]cop{{N(2), W(1, 3), C}, {N(2), T(4), T(1)}}, -1, -1),
		// Three threads, two file slots: a creation that fails on bytes
		// transiently occupies a file slot.
		concScenario(quota("conc-quota-2files-4bytes-3threads", 2, 4, nil, false),
			[][]cop{{N(1), C}, {N(4)}, {N(0)}}, 3, 5),
		// Base pool failures: roll-back races with allocation.
		concScenario(quota("conc-quota-2files-4bytes-basefaults", 2, 4, []int{-1, 1}, true),
			[][]cop{{N(2), C}, {T(3), C}}, -1, -1),
		// (b) block device + real bitmap allocator.
		concScenario(block("conc-block-ss2-cap4", "block", 2, 4, 0, 0, []int{0, 0}),
			[][]cop{{W(0, 3), T(1), C}, {W(1, 2), W(4, 1), C}}, -1, -1),
		concScenario(block("conc-block-ss2-cap3-exhaustion", "block", 2, 3, 0, 0, []int{0, 0}),
			[][]cop{{W(0, 4), C}, {W(0, 4), T(2), W(2, 2)}}, -1, -1),
		// Fragmented start (file 0 holds sectors 1 and 3, file 1 sector 2):
		// a sector freed by one thread is reused by the other one, whose
		// file may not show the old bytes.
		concScenario(&config{name: "conc-block-ss2-cap4-reuse", stack: "block", ss: 2, capS: 4, preopen: []int{0, 0},
			concSetup: []sop{{0, W(0, 2)}, {1, W(0, 2)}, {0, W(2, 2)}}},
			[][]cop{{T(1), W(2, 2)}, {W(3, 1), T(3), C}}, -1, -1),
		// Full stack; the device (3 sectors) is exhausted before the quota
		// (8 bytes) is: partial writes release part of their reservation
		// while the other thread allocates.
		concScenario(block("conc-full-ss2-cap3-quota2x8", "full", 2, 3, 2, 8, []int{0, 2}),
			[][]cop{{W(0, 3), T(4)}, {W(1, 4)}}, -1, -1),
	}
}

func TestMC(t *testing.T) {
	var seqs []*mc.Seq
	for _, c := range configs() {
		seqs = append(seqs, makeSeq(c))
	}
	for _, c := range bigConfigs() {
		seqs = append(seqs, makeBigSeq(c))
	}
	seqs = append(seqs,
		allocSeq(3, []int{1, 2, 5}, map[string]int{"quick": 6, "thorough": 9}),
		allocSeq(64, []int{1, 3, 63, 64, 200}, map[string]int{"quick": 5, "thorough": 7}),
		allocSeq(70, []int{1, 3, 63, 64, 200}, map[string]int{"quick": 5, "thorough": 7}),
		allocSeq(130, []int{1, 3, 63, 64, 200}, map[string]int{"quick": 5, "thorough": 7}),
	)
	mc.Main(t, concScenarios(), seqs)
	printStats()
}
