package sched

// The closed world around one real InMemoryBuildQueue: configuration,
// harness threads (clients, workers, operators), environment events and
// the canonical state key.

import (
	"context"
	"fmt"
	"sort"
	"strconv"
	"strings"
	"sync"
	"time"

	"verif/mc"

	remoteexecution "github.com/bazelbuild/remote-apis/build/bazel/remote/execution/v2"
	"github.com/buildbarn/bb-remote-execution/pkg/proto/buildqueuestate"
	"github.com/buildbarn/bb-remote-execution/pkg/proto/remoteworker"
	"github.com/buildbarn/bb-remote-execution/pkg/scheduler"
	"github.com/buildbarn/bb-remote-execution/pkg/scheduler/invocation"
	"github.com/buildbarn/bb-remote-execution/pkg/scheduler/platform"
	"github.com/buildbarn/bb-remote-execution/pkg/scheduler/routing"
	"github.com/buildbarn/bb-storage/pkg/digest"
	"github.com/buildbarn/bb-storage/pkg/util"
	status_pb "google.golang.org/genproto/googleapis/rpc/status"
	"google.golang.org/grpc/codes"
	"google.golang.org/grpc/status"
	"google.golang.org/protobuf/proto"
	"google.golang.org/protobuf/types/known/anypb"
	"google.golang.org/protobuf/types/known/durationpb"
	"google.golang.org/protobuf/types/known/emptypb"
)

// ---------------------------------------------------------------------------
// Scenario configuration

type clientSpec struct {
	Name  string
	Stage int
	// Calls: "exec <action> <toolInvocation> [<correlated> [<priority>]] [skip?|skip]"
	// (skip?: skip_cache_lookup is a free choice false/true; skip: true),
	// "wait <stream id>", "waitbg" (WaitExecution on the background learning
	// operation that ListOperations shows), "sleep <ticks>".
	Calls []string
	// Number of cancellation events the environment may deliver to
	// this client (each cancels the call that is in progress).
	Cancels int
}

type workerSpec struct {
	Name      string
	Stage     int
	SizeClass uint32
	MaxCalls  int
	// What the worker may report while it believes to hold a task
	// (first entry = default): ok, fail, err, exec, idle, wrong,
	// okpidle, vanish, sleep<N>, and the stale reports resend (the
	// previous request verbatim, as after a lost response), okprev
	// (a fresh completion report for the previous assignment), execprev
	// (still executing the previous assignment). Letters that make no
	// sense in the current state are left out of the menu.
	Busy []string
	// What it may report otherwise: idle, pidle, wrong, vanish, sleep<N>,
	// resend, okprev, execprev, malformed (request without current_state).
	Idle    []string
	Cancels int
}

type operatorSpec struct {
	Name  string
	Stage int
	// Calls: "kill <stream id>", "killq <size class>", "drain+ <worker>",
	// "drain- <worker>", "term <worker>", "list", "browse" (every read-only
	// BuildQueueState RPC on every queue / invocation / operation, see
	// browse()), "sleep <ticks>".
	Calls   []string
	Cancels int
}

type config struct {
	Name  string
	Props []string
	Doc   string

	// Predeclared platform queue for platform "linux" with these size
	// classes; nil means queues only come into existence through
	// workers (and disappear again).
	Predeclared   []uint32
	MaxBackground int

	// Timeouts in ticks.
	Update, NoWaiter, WorkerTimeout, QueueTimeout, Busy, IdleSync int
	RetryCount                                                    int
	// WorkerTaskRetryCount = 0 (RetryCount 0 means "default", i.e. 1).
	RetryZero bool
	// Instance name the clients use in their ExecuteRequests (default
	// "main"). The platform queue and the workers are always registered under
	// the instance name prefix "main"; with e.g. "main/x" the queue is found by
	// longest-prefix match and its prefix is a STRICT prefix of the clients'
	// instance name.
	ClientInstance string
	// The environment offers "tick" up to this clock value during
	// the run proper; teardown continues until everything timed out.
	MaxTicks int

	SendFaults bool
	// Send is a plain scheduling point (message in flight while others run).
	SendPoint bool
	// Analyzer fake: number of alternatives at each Choose point (0/1:
	// deterministic, governed by the *Always / SelectLargest flags).
	SelectChoices, RetryChoices, BackgroundChoices int
	SelectLargest, RetryAlways, BackgroundAlways   bool

	Clients   []clientSpec
	Workers   []workerSpec
	Operators []operatorSpec

	Bounds      map[string]int
	Shards      int
	PreemptFree bool
}

func (c *config) defaults() {
	if c.Update == 0 {
		c.Update = 1
	}
	if c.NoWaiter == 0 {
		c.NoWaiter = 2
	}
	if c.WorkerTimeout == 0 {
		c.WorkerTimeout = 3
	}
	if c.QueueTimeout == 0 {
		c.QueueTimeout = 5
	}
	if c.Busy == 0 {
		c.Busy = 1
	}
	if c.IdleSync == 0 {
		c.IdleSync = 4
	}
	if c.RetryZero {
		c.RetryCount = 0
	} else if c.RetryCount == 0 {
		c.RetryCount = 1
	}
	if c.ClientInstance == "" {
		c.ClientInstance = instanceName
	}
	if c.MaxTicks == 0 {
		c.MaxTicks = 4
	}
}

// ---------------------------------------------------------------------------
// Actors (harness threads)

type actor struct {
	w    *world
	name string
	kind string // client, worker, operator
	idx  int

	started, done bool
	thread        *mc.Thread
	// current call
	inCall      bool
	ctx         *fakeCtx
	doneCalls   int
	nowCalls    int // clock reads of the current call (>0: it has entered the scheduler)
	timer       *fakeTimer
	resetOnDone string
	cancelsLeft int
	// sleeping
	sleepUntil int // -1: not sleeping
	sleepCh    chan struct{}

	// client
	cspec   *clientSpec
	streams []*stream
	// worker
	wspec *workerSpec
	wk    *workerState
	// operator
	ospec *operatorSpec
	ops   []*operatorCall
}

// deliverable reports whether a harness-owned wake-up (timer expiry,
// context cancellation) may be delivered to this actor now: the thread has
// reached a select of its current call and no other harness-owned case of
// that select is ready yet. This is the single-ready rule of DESIGN §3.2.
func (a *actor) deliverable() bool {
	if !a.inCall || a.ctx == nil || a.ctx.cancelled() || a.doneCalls == 0 {
		return false
	}
	if a.timer != nil && a.timer.isFired() {
		return false
	}
	if a.kind == "client" && !a.timer.live() {
		return false
	}
	return true
}

type world struct {
	x   *mc.X
	cfg *config
	mu  sync.Mutex

	clock    *fakeClock
	cas      *fakeCAS
	actions  map[string]*actionInfo
	analyzer *fakeAnalyzer
	bq       *scheduler.InMemoryBuildQueue
	uuids    int

	actors       []*actor
	byName       map[string]*actor
	stageSpawned int
	maxStage     int
	lastActivity int
	mon          *monitors
}

func (w *world) currentActor() *actor {
	t := w.x.Current()
	if t == nil {
		return nil
	}
	w.mu.Lock()
	defer w.mu.Unlock()
	return w.byName[t.Name]
}

func (w *world) liveActors() int {
	n := 0
	for _, a := range w.actors {
		if !a.done {
			n++
		}
	}
	return n
}

func (w *world) findStream(id string) *stream {
	for _, a := range w.actors {
		for _, s := range a.streams {
			if s.id == id {
				return s
			}
		}
	}
	return nil
}

const instanceName = "main"

func sec(n int) time.Duration { return time.Duration(n) * time.Second }

func newWorld(x *mc.X, cfg *config) *world {
	cfg.defaults()
	w := &world{x: x, cfg: cfg, byName: map[string]*actor{}, actions: map[string]*actionInfo{}}
	w.clock = &fakeClock{w: w}
	w.cas = &fakeCAS{blobs: map[string][]byte{}}
	for _, s := range []actionSpec{
		{name: "A", platform: "linux"},
		{name: "B", platform: "linux"},
		{name: "C", platform: "linux"},
		{name: "N", platform: "linux", doNotCache: true},
		{name: "X", platform: "plan9"},
	} {
		w.actions[s.name] = w.cas.addAction(s)
	}
	w.analyzer = &fakeAnalyzer{w: w}
	w.mon = newMonitors(w)
	router := routing.NewSimpleActionRouter(
		platform.ActionKeyExtractor,
		[]invocation.KeyExtractor{invocation.CorrelatedInvocationsIDKeyExtractor, invocation.ToolInvocationIDKeyExtractor},
		w.analyzer)
	idle := sec(cfg.IdleSync)
	w.bq = scheduler.NewInMemoryBuildQueue(w.cas, w.clock, w.uuidGenerator, &scheduler.InMemoryBuildQueueConfiguration{
		ExecutionUpdateInterval:              sec(cfg.Update),
		OperationWithNoWaitersTimeout:        sec(cfg.NoWaiter),
		PlatformQueueWithNoWorkersTimeout:    sec(cfg.QueueTimeout),
		BusyWorkerSynchronizationInterval:    sec(cfg.Busy),
		GetIdleWorkerSynchronizationInterval: func() time.Duration { return idle },
		WorkerTaskRetryCount:                 cfg.RetryCount,
		WorkerWithNoSynchronizationsTimeout:  sec(cfg.WorkerTimeout),
	}, 1<<20, router, &pointAuthorizer{w, "execute"}, &pointAuthorizer{w, "drains"}, &pointAuthorizer{w, "kill"}, &pointAuthorizer{w, "synchronize"})
	if cfg.Predeclared != nil {
		if err := w.bq.RegisterPredeclaredPlatformQueue(util.Must(digest.NewInstanceName(instanceName)), platformOf("linux"), nil, cfg.MaxBackground, 0, cfg.Predeclared); err != nil {
			panic(err)
		}
	}
	add := func(a *actor) {
		a.w = w
		a.sleepUntil = -1
		w.actors = append(w.actors, a)
		w.byName[a.name] = a
	}
	for i := range cfg.Clients {
		s := &cfg.Clients[i]
		add(&actor{name: s.Name, kind: "client", idx: i, cspec: s, cancelsLeft: s.Cancels})
		w.maxStage = max(w.maxStage, s.Stage)
	}
	for i := range cfg.Workers {
		s := &cfg.Workers[i]
		add(&actor{name: s.Name, kind: "worker", idx: i, wspec: s, cancelsLeft: s.Cancels, wk: &workerState{curFirst: -1, curLast: -1}})
		w.maxStage = max(w.maxStage, s.Stage)
	}
	for i := range cfg.Operators {
		s := &cfg.Operators[i]
		add(&actor{name: s.Name, kind: "operator", idx: i, ospec: s, cancelsLeft: s.Cancels})
		w.maxStage = max(w.maxStage, s.Stage)
	}
	return w
}

func (w *world) spawnStage(stage int) {
	for _, a := range w.actors {
		var st int
		switch a.kind {
		case "client":
			st = a.cspec.Stage
		case "worker":
			st = a.wspec.Stage
		default:
			st = a.ospec.Stage
		}
		if st != stage {
			continue
		}
		a := a
		a.thread = w.x.Go(a.name, func() {
			w.mu.Lock()
			a.started = true
			w.mu.Unlock()
			defer func() {
				w.mu.Lock()
				a.done = true
				a.inCall = false
				w.mu.Unlock()
			}()
			switch a.kind {
			case "client":
				a.runClient()
			case "worker":
				a.runWorker()
			default:
				a.runOperator()
			}
		})
	}
	w.stageSpawned = stage
}

// sleep blocks the calling harness thread until the clock has advanced by
// n ticks (woken by a "wake" event, one thread at a time).
func (a *actor) sleep(n int) {
	w := a.w
	if w.x.Free() {
		return
	}
	w.mu.Lock()
	a.sleepCh = make(chan struct{})
	a.sleepUntil = w.clock.tick() + n
	ch := a.sleepCh
	w.mu.Unlock()
	<-ch
}

// noteClockValue records a clock value handed to this worker's thread
// (w.mu held): it is what the thread passes to bq.enter() next.
func (a *actor) noteClockValue(now int) {
	if wk := a.wk; wk != nil && a.inCall {
		if wk.curFirst < 0 {
			wk.curFirst = now
		}
		wk.curLast = now
	}
}

func (a *actor) beginCall(parent context.Context) *fakeCtx {
	w := a.w
	w.mu.Lock()
	defer w.mu.Unlock()
	a.ctx = newFakeCtx(a, parent)
	a.inCall = true
	a.doneCalls = 0
	a.nowCalls = 0
	a.timer = nil
	w.lastActivity = w.clock.tick()
	return a.ctx
}

func (a *actor) endCall() {
	w := a.w
	w.mu.Lock()
	defer w.mu.Unlock()
	// A fired timer whose value has been taken out of its (buffered) channel
	// was received by the call that just returned: the call passed that
	// value to bq.enter() and returned. (A fired timer whose value is still
	// in the channel lost against another wake-up and was never looked at.)
	if t := a.timer; t != nil && t.isFired() && len(t.ch) == 0 {
		a.noteClockValue(t.firedAt)
	}
	a.inCall = false
	a.timer = nil
	a.resetOnDone = ""
	w.lastActivity = w.clock.tick()
}

// ---------------------------------------------------------------------------
// Clients

func (a *actor) runClient() {
	w := a.w
	for ci, call := range a.cspec.Calls {
		f := strings.Fields(call)
		w.x.ResetLocal(fmt.Sprintf("%s/%d", a.name, ci))
		switch f[0] {
		case "sleep":
			n, _ := strconv.Atoi(f[1])
			a.sleep(n)
		case "exec":
			ai := w.actions[f[1]]
			// "skip?": ExecuteRequest.skip_cache_lookup is a free choice of
			// the client (false/true); "skip": always true. The flag concerns
			// the action cache only; the action stays cacheable, so every C03
			// clause applies unchanged.
			skip := false
			if last := f[len(f)-1]; last == "skip?" || last == "skip" {
				f = f[:len(f)-1]
				skip = last == "skip" || w.x.ChooseFree(a.name+".skip_cache_lookup", 2) == 1
			}
			tool, corr, prio := f[2], "corr", 0
			if len(f) > 3 {
				corr = f[3]
			}
			if len(f) > 4 {
				prio, _ = strconv.Atoi(f[4])
			}
			s := &stream{w: w, a: a, id: fmt.Sprintf("%s.%d", a.name, ci), kind: "exec", action: ai}
			s.ctx = a.beginCall(requestMetadataContext(tool, corr))
			w.mon.onStreamStart(s)
			err := w.bq.Execute(&remoteexecution.ExecuteRequest{
				InstanceName:    w.cfg.ClientInstance,
				ActionDigest:    ai.digest,
				SkipCacheLookup: skip,
				ExecutionPolicy: &remoteexecution.ExecutionPolicy{Priority: int32(prio)},
			}, s)
			w.x.CheckNoLocksHeld("Execute")
			a.endCall()
			w.mon.onStreamEnd(s, err)
		case "wait", "waitbg":
			name := "00000000-0000-0000-0000-0000000000ff"
			if f[0] == "waitbg" {
				// Attach to the background learning operation, whose name the
				// client learns the way an operator would: from ListOperations.
				if bg := w.findBackgroundOperation(); bg != "" {
					name = bg
				}
			} else if target := w.findStreamLocked(f[1]); target != "" {
				name = target
			}
			s := &stream{w: w, a: a, id: fmt.Sprintf("%s.%d", a.name, ci), kind: "wait", waitFor: name}
			s.ctx = a.beginCall(context.Background())
			w.mon.onStreamStart(s)
			err := w.bq.WaitExecution(&remoteexecution.WaitExecutionRequest{Name: name}, s)
			w.x.CheckNoLocksHeld("WaitExecution")
			a.endCall()
			w.mon.onStreamEnd(s, err)
		default:
			panic("bad client call " + call)
		}
	}
}

// findBackgroundOperation returns the name of the first operation that
// ListOperations reports as belonging to the BackgroundLearning invocation
// ("" if there is none).
func (w *world) findBackgroundOperation() string {
	resp, err := w.bq.ListOperations(context.Background(), &buildqueuestate.ListOperationsRequest{PageSize: 100})
	w.x.CheckNoLocksHeld("ListOperations")
	if err != nil {
		return ""
	}
	for _, o := range resp.Operations {
		for _, id := range o.GetInvocationName().GetIds() {
			if strings.HasSuffix(id.GetTypeUrl(), ".BackgroundLearning") {
				return o.Name
			}
		}
	}
	return ""
}

func (w *world) findStreamLocked(id string) string {
	w.mu.Lock()
	defer w.mu.Unlock()
	if s := w.findStream(id); s != nil {
		return s.name
	}
	return ""
}

// ---------------------------------------------------------------------------
// Workers

type workerState struct {
	calls int
	// What the scheduler last told this worker to run.
	assigned     *remoteexecution.Digest
	assignedTask int // harness task id of that assignment (0 unknown)
	// Number of consecutive Executing responses for assignedTask.
	toldCount int
	// Number of consecutive requests since the assignment in which the
	// worker did not claim to run the assigned action.
	rerequests int
	// The assignment the worker held before the current one (or before it
	// was told to go idle): what a stale report refers to.
	prevDigest *remoteexecution.Digest
	prevTask   int
	// Contact times (C02/C06 "worker disappeared"), in scheduler time: the
	// clock values this worker thread obtained (clock.Now() or the value
	// delivered by its timer) and therefore passed to bq.enter().
	// curFirst/curLast: first and last value obtained in the call that is
	// in progress (-1: none yet); lastContact/prevContact: curLast of the
	// last two calls that have returned; lastCallFirst: curFirst of the
	// last call that has returned.
	curFirst, curLast        int
	lastContact, prevContact int
	lastCallFirst            int
	returnedCalls            int
	callStart                int
	// in-flight request
	req        *remoteworker.SynchronizeRequest
	reqKind    string
	reqReport  *remoteexecution.ExecuteResponse
	reqRec     *reportRec
	reqPreTask int
	reports    int
	// previous request (what "resend" sends again verbatim)
	lastReq  *remoteworker.SynchronizeRequest
	lastKind string
	lastRec  *reportRec
}

// reportRec is one ExecuteResponse produced by a harness worker. It is
// bound to the task (execution attempt) the worker had been told to run
// when it produced the report; a verbatim re-send keeps that binding.
type reportRec struct {
	worker  string
	forTask int // harness task id (0: unknown)
	digest  *remoteexecution.Digest
	resp    *remoteexecution.ExecuteResponse
}

func workerID(name string) map[string]string { return map[string]string{"host": name} }

const reportPrefix = "report:"

// makeReport produces a fresh ExecuteResponse with a unique marker, bound
// to the task forTask (digest d) that the worker claims to have run.
func (a *actor) makeReport(kind string, forTask int, d *remoteexecution.Digest) *reportRec {
	a.wk.reports++
	marker := fmt.Sprintf("%s%s#%d", reportPrefix, a.name, a.wk.reports)
	var r *remoteexecution.ExecuteResponse
	switch kind {
	case "ok", "okpidle", "okprev":
		r = &remoteexecution.ExecuteResponse{
			Result:  &remoteexecution.ActionResult{ExitCode: 0, ExecutionMetadata: &remoteexecution.ExecutedActionMetadata{Worker: a.name, VirtualExecutionDuration: durationpb.New(3 * time.Second)}},
			Message: marker,
		}
	case "fail":
		r = &remoteexecution.ExecuteResponse{
			Result:  &remoteexecution.ActionResult{ExitCode: 1, ExecutionMetadata: &remoteexecution.ExecutedActionMetadata{Worker: a.name}},
			Message: marker,
		}
	case "err":
		r = &remoteexecution.ExecuteResponse{
			Status:  status.New(codes.DeadlineExceeded, "worker: action timed out").Proto(),
			Message: marker,
		}
	default:
		panic(kind)
	}
	rec := &reportRec{worker: a.name, forTask: forTask, digest: d, resp: r}
	a.w.mu.Lock()
	a.w.mon.reportRecs[marker] = rec
	a.w.mu.Unlock()
	return rec
}

// letterAvailable reports whether a menu letter makes sense in the worker's
// current state: "resend" needs a previous request that carried an
// Executing state, "okprev"/"execprev" need a previous assignment.
func (a *actor) letterAvailable(kind string) bool {
	wk := a.wk
	switch kind {
	case "resend":
		return wk.lastReq != nil && wk.lastReq.GetCurrentState().GetExecuting() != nil
	case "okprev", "execprev":
		return wk.prevDigest != nil
	}
	return true
}

var wrongDigest = &remoteexecution.Digest{Hash: strings.Repeat("ab", 32), SizeBytes: 42}

func (a *actor) runWorker() {
	w := a.w
	wk := a.wk
	spec := a.wspec
	for wk.calls < spec.MaxCalls {
		w.x.ResetLocal(a.workerTag())
		menu := spec.Idle
		if wk.assigned != nil {
			menu = spec.Busy
		}
		if len(menu) > 0 {
			avail := make([]string, 0, len(menu))
			for _, k := range menu {
				if a.letterAvailable(k) {
					avail = append(avail, k)
				}
			}
			menu = avail
		}
		if len(menu) == 0 {
			if wk.assigned != nil {
				menu = []string{"ok"}
			} else {
				menu = []string{"idle"}
			}
		}
		kind := menu[0]
		if len(menu) > 1 {
			kind = menu[w.x.Choose(a.name+".req", len(menu))]
		}
		if strings.HasPrefix(kind, "sleep") {
			n, _ := strconv.Atoi(kind[5:])
			a.sleep(n)
			kind = menu[0]
			if strings.HasPrefix(kind, "sleep") {
				kind = menu[1]
			}
		}
		if kind == "vanish" {
			return
		}
		req := &remoteworker.SynchronizeRequest{
			WorkerId:           workerID(a.name),
			InstanceNamePrefix: instanceName,
			Platform:           platformOf("linux"),
			SizeClass:          spec.SizeClass,
		}
		var rec *reportRec
		switch kind {
		case "idle":
			req.CurrentState = &remoteworker.CurrentState{WorkerState: &remoteworker.CurrentState_Idle{Idle: &emptypb.Empty{}}}
		case "pidle":
			req.CurrentState = &remoteworker.CurrentState{WorkerState: &remoteworker.CurrentState_Idle{Idle: &emptypb.Empty{}}}
			req.PreferBeingIdle = true
		case "malformed":
			// A request without current_state (half-restarted / buggy worker):
			// rejected with INVALID_ARGUMENT; the worker then stops calling.
		case "wrong":
			req.CurrentState = &remoteworker.CurrentState{WorkerState: &remoteworker.CurrentState_Executing_{Executing: &remoteworker.CurrentState_Executing{
				ActionDigest:   wrongDigest,
				ExecutionState: &remoteworker.CurrentState_Executing_Running{Running: &emptypb.Empty{}},
			}}}
		case "exec":
			req.CurrentState = &remoteworker.CurrentState{WorkerState: &remoteworker.CurrentState_Executing_{Executing: &remoteworker.CurrentState_Executing{
				ActionDigest:   wk.assigned,
				ExecutionState: &remoteworker.CurrentState_Executing_Running{Running: &emptypb.Empty{}},
			}}}
		case "ok", "fail", "err", "okpidle":
			rec = a.makeReport(kind, wk.assignedTask, wk.assigned)
			req.CurrentState = &remoteworker.CurrentState{WorkerState: &remoteworker.CurrentState_Executing_{Executing: &remoteworker.CurrentState_Executing{
				ActionDigest:   wk.assigned,
				ExecutionState: &remoteworker.CurrentState_Executing_Completed{Completed: rec.resp},
			}}}
			req.PreferBeingIdle = kind == "okpidle"
		case "okprev":
			// A (late) completion report for the task the worker ran
			// before its current assignment.
			rec = a.makeReport(kind, wk.prevTask, wk.prevDigest)
			req.CurrentState = &remoteworker.CurrentState{WorkerState: &remoteworker.CurrentState_Executing_{Executing: &remoteworker.CurrentState_Executing{
				ActionDigest:   wk.prevDigest,
				ExecutionState: &remoteworker.CurrentState_Executing_Completed{Completed: rec.resp},
			}}}
		case "execprev":
			req.CurrentState = &remoteworker.CurrentState{WorkerState: &remoteworker.CurrentState_Executing_{Executing: &remoteworker.CurrentState_Executing{
				ActionDigest:   wk.prevDigest,
				ExecutionState: &remoteworker.CurrentState_Executing_Running{Running: &emptypb.Empty{}},
			}}}
		case "resend":
			// The response to the previous request was "lost": the worker
			// sends the identical request again (as build_client does after
			// an RPC error), including the identical ExecuteResponse.
			req = proto.Clone(wk.lastReq).(*remoteworker.SynchronizeRequest)
			rec = wk.lastRec
		default:
			panic("bad worker request kind " + kind)
		}
		var report *remoteexecution.ExecuteResponse
		if rec != nil {
			report = rec.resp
		}
		// Does the request claim to be running the action that is assigned
		// according to the last response the worker processed?
		reqDigest := req.GetCurrentState().GetExecuting().GetActionDigest()
		claims := reqDigest != nil && wk.assigned != nil && proto.Equal(reqDigest, wk.assigned)
		ctx := a.beginCall(context.Background())
		w.mu.Lock()
		wk.calls++
		wk.req, wk.reqKind, wk.reqReport, wk.reqRec = req, kind, report, rec
		wk.lastReq, wk.lastRec = req, rec
		if kind != "resend" {
			wk.lastKind = kind
		}
		wk.callStart = w.clock.tick()
		wk.curFirst, wk.curLast = -1, -1
		if wk.assigned != nil && !claims {
			wk.rerequests++
			if ti := w.mon.tasks[wk.assignedTask]; ti != nil && wk.rerequests > ti.maxRerequests {
				ti.maxRerequests = wk.rerequests
			}
		}
		a.resetOnDone = a.workerTag() + "/sel"
		w.mu.Unlock()
		w.mon.onWorkerCallStart(a)
		resp, err := w.bq.Synchronize(ctx, req)
		w.x.CheckNoLocksHeld("Synchronize")
		a.endCall()
		w.mon.onWorkerCallEnd(a, resp, err)
		if err != nil {
			return
		}
	}
}

func digestShort(d *remoteexecution.Digest) string {
	if d == nil {
		return "-"
	}
	return d.Hash[:6]
}

func (a *actor) workerTag() string {
	wk := a.wk
	return fmt.Sprintf("%s/%d/%s/%d/%d/%d/%s/%d/%s/%s", a.name, wk.calls, digestShort(wk.assigned), wk.assignedTask, wk.toldCount, wk.rerequests, digestShort(wk.prevDigest), wk.prevTask, wk.lastKind, wk.lastRec.marker())
}

func (r *reportRec) marker() string {
	if r == nil {
		return "-"
	}
	return r.resp.Message
}

// ---------------------------------------------------------------------------
// Operators

type operatorCall struct {
	call    string
	started bool
	ended   bool
	err     error
	target  string // operation name for kills
}

func killStatus(op string, k int) *status_pb.Status {
	return status.New(codes.Aborted, fmt.Sprintf("killed by operator %s#%d", op, k)).Proto()
}

func (w *world) sizeClassQueueName(sizeClass uint32) *buildqueuestate.SizeClassQueueName {
	return &buildqueuestate.SizeClassQueueName{
		PlatformQueueName: &buildqueuestate.PlatformQueueName{InstanceNamePrefix: instanceName, Platform: platformOf("linux")},
		SizeClass:         sizeClass,
	}
}

func (a *actor) runOperator() {
	w := a.w
	for ci, call := range a.ospec.Calls {
		f := strings.Fields(call)
		w.x.ResetLocal(fmt.Sprintf("%s/%d", a.name, ci))
		oc := &operatorCall{call: call}
		w.mu.Lock()
		a.ops = append(a.ops, oc)
		w.mu.Unlock()
		if f[0] == "sleep" {
			n, _ := strconv.Atoi(f[1])
			a.sleep(n)
			continue
		}
		sc := uint32(0)
		if len(w.cfg.Predeclared) > 0 {
			sc = w.cfg.Predeclared[0]
		}
		ctx := a.beginCall(context.Background())
		var err error
		switch f[0] {
		case "kill":
			name := w.findStreamLocked(f[1])
			if name == "" {
				name = "00000000-0000-0000-0000-0000000000fe"
			}
			w.mu.Lock()
			oc.target = name
			oc.started = true
			w.mu.Unlock()
			_, err = w.bq.KillOperations(ctx, &buildqueuestate.KillOperationsRequest{
				Filter: &buildqueuestate.KillOperationsRequest_Filter{Type: &buildqueuestate.KillOperationsRequest_Filter_OperationName{OperationName: name}},
				Status: killStatus(a.name, ci),
			})
		case "killq":
			if len(f) > 1 {
				n, _ := strconv.Atoi(f[1])
				sc = uint32(n)
			}
			w.mu.Lock()
			oc.started = true
			w.mu.Unlock()
			_, err = w.bq.KillOperations(ctx, &buildqueuestate.KillOperationsRequest{
				Filter: &buildqueuestate.KillOperationsRequest_Filter{Type: &buildqueuestate.KillOperationsRequest_Filter_SizeClassQueueWithoutWorkers{SizeClassQueueWithoutWorkers: w.sizeClassQueueName(sc)}},
				Status: killStatus(a.name, ci),
			})
		case "drain+":
			_, err = w.bq.AddDrain(ctx, &buildqueuestate.AddOrRemoveDrainRequest{SizeClassQueueName: w.sizeClassQueueName(sc), WorkerIdPattern: workerID(f[1])})
		case "drain-":
			_, err = w.bq.RemoveDrain(ctx, &buildqueuestate.AddOrRemoveDrainRequest{SizeClassQueueName: w.sizeClassQueueName(sc), WorkerIdPattern: workerID(f[1])})
		case "term":
			w.mu.Lock()
			oc.started = true
			w.mu.Unlock()
			_, err = w.bq.TerminateWorkers(ctx, &buildqueuestate.TerminateWorkersRequest{WorkerIdPattern: workerID(f[1])})
		case "list":
			_, err = w.bq.ListPlatformQueues(ctx, &emptypb.Empty{})
			if err == nil {
				_, err = w.bq.ListOperations(ctx, &buildqueuestate.ListOperationsRequest{PageSize: 100})
			}
			if err == nil {
				if _, e := w.bq.ListWorkers(ctx, &buildqueuestate.ListWorkersRequest{PageSize: 100, Filter: &buildqueuestate.ListWorkersRequest_Filter{Type: &buildqueuestate.ListWorkersRequest_Filter_All{All: w.sizeClassQueueName(sc)}}}); e == nil {
					_, _ = w.bq.ListInvocationChildren(ctx, &buildqueuestate.ListInvocationChildrenRequest{InvocationName: &buildqueuestate.InvocationName{SizeClassQueueName: w.sizeClassQueueName(sc)}, Filter: buildqueuestate.ListInvocationChildrenRequest_QUEUED})
					_, _ = w.bq.ListQueuedOperations(ctx, &buildqueuestate.ListQueuedOperationsRequest{InvocationName: &buildqueuestate.InvocationName{SizeClassQueueName: w.sizeClassQueueName(sc)}, PageSize: 100})
				}
			}
		case "browse":
			err = a.browse(ctx)
		default:
			panic("bad operator call " + call)
		}
		w.x.CheckNoLocksHeld("operator/" + f[0])
		a.endCall()
		w.mu.Lock()
		oc.ended = true
		oc.err = err
		w.mu.Unlock()
		w.mon.onOperatorCallEnd(a, oc)
	}
}

// browse issues every read-only BuildQueueState RPC the way the scheduler's
// web UI does when somebody clicks through all of its pages: the platform
// queues, per size class queue its workers (all / executing / idle
// synchronizing per invocation), drains, and the whole invocation tree
// (children with every filter, queued operations of every invocation), then
// all operations, each of them once more by name. Everything the walk
// visits comes out of the previous responses, which the scheduler sorts, so
// the walk is deterministic. None of these calls may change what the
// scheduler does next: the structural monitors (C01) run at the scheduling
// point of every following call.
func (a *actor) browse(ctx context.Context) error {
	bq := a.w.bq
	x := a.w.x
	pqs, err := bq.ListPlatformQueues(ctx, &emptypb.Empty{})
	x.CheckNoLocksHeld("ListPlatformQueues")
	if err != nil {
		return err
	}
	filters := []buildqueuestate.ListInvocationChildrenRequest_Filter{
		buildqueuestate.ListInvocationChildrenRequest_QUEUED,
		buildqueuestate.ListInvocationChildrenRequest_ACTIVE,
		buildqueuestate.ListInvocationChildrenRequest_ALL,
	}
	var walk func(name *buildqueuestate.InvocationName, depth int) error
	walk = func(name *buildqueuestate.InvocationName, depth int) error {
		if _, err := bq.ListQueuedOperations(ctx, &buildqueuestate.ListQueuedOperationsRequest{InvocationName: name, PageSize: 100}); err != nil {
			return err
		}
		x.CheckNoLocksHeld("ListQueuedOperations")
		for _, wf := range []*buildqueuestate.ListWorkersRequest_Filter{
			{Type: &buildqueuestate.ListWorkersRequest_Filter_Executing{Executing: name}},
			{Type: &buildqueuestate.ListWorkersRequest_Filter_IdleSynchronizing{IdleSynchronizing: name}},
		} {
			if _, err := bq.ListWorkers(ctx, &buildqueuestate.ListWorkersRequest{Filter: wf, PageSize: 100}); err != nil {
				return err
			}
			x.CheckNoLocksHeld("ListWorkers")
		}
		var all *buildqueuestate.ListInvocationChildrenResponse
		for _, f := range filters {
			resp, err := bq.ListInvocationChildren(ctx, &buildqueuestate.ListInvocationChildrenRequest{InvocationName: name, Filter: f})
			x.CheckNoLocksHeld("ListInvocationChildren")
			if err != nil {
				return err
			}
			all = resp
		}
		if depth >= 3 {
			return nil
		}
		for _, c := range all.Children {
			child := &buildqueuestate.InvocationName{SizeClassQueueName: name.SizeClassQueueName, Ids: append(append([]*anypb.Any(nil), name.Ids...), c.Id)}
			// An invocation may have been removed since it was listed.
			if err := walk(child, depth+1); err != nil && status.Code(err) != codes.NotFound {
				return err
			}
		}
		return nil
	}
	for _, pq := range pqs.PlatformQueues {
		for _, scq := range pq.SizeClassQueues {
			scqName := &buildqueuestate.SizeClassQueueName{PlatformQueueName: pq.Name, SizeClass: scq.SizeClass}
			if _, err := bq.ListWorkers(ctx, &buildqueuestate.ListWorkersRequest{PageSize: 100, Filter: &buildqueuestate.ListWorkersRequest_Filter{Type: &buildqueuestate.ListWorkersRequest_Filter_All{All: scqName}}}); err != nil && status.Code(err) != codes.NotFound {
				return err
			}
			x.CheckNoLocksHeld("ListWorkers")
			if _, err := bq.ListDrains(ctx, &buildqueuestate.ListDrainsRequest{SizeClassQueueName: scqName}); err != nil && status.Code(err) != codes.NotFound {
				return err
			}
			x.CheckNoLocksHeld("ListDrains")
			if err := walk(&buildqueuestate.InvocationName{SizeClassQueueName: scqName}, 0); err != nil && status.Code(err) != codes.NotFound {
				return err
			}
		}
	}
	ops, err := bq.ListOperations(ctx, &buildqueuestate.ListOperationsRequest{PageSize: 100})
	x.CheckNoLocksHeld("ListOperations")
	if err != nil {
		return err
	}
	for _, o := range ops.Operations {
		if _, err := bq.GetOperation(ctx, &buildqueuestate.GetOperationRequest{OperationName: o.Name}); err != nil && status.Code(err) != codes.NotFound {
			return err
		}
		x.CheckNoLocksHeld("GetOperation")
	}
	return nil
}

// ---------------------------------------------------------------------------
// Environment events

func (w *world) anyUrgent() bool {
	now := w.clock.tick()
	for _, a := range w.actors {
		if a.timer.live() && a.timer.deadline <= now && a.deliverable() {
			return true
		}
		if a.sleepUntil >= 0 && now >= a.sleepUntil {
			return true
		}
	}
	return false
}

func (w *world) anySleeper() bool {
	for _, a := range w.actors {
		if a.sleepUntil >= 0 {
			return true
		}
	}
	return false
}

// hardLimit is the clock value up to which teardown lets time pass: every
// timeout of the scheduler has then elapsed since the last activity of any
// participant.
func (w *world) hardLimit() int {
	c := w.cfg
	return max(c.MaxTicks, w.lastActivity) + c.WorkerTimeout + c.QueueTimeout + c.NoWaiter + max(c.Update, c.IdleSync) + 2
}

func (w *world) doTick() {
	w.clock.mu.Lock()
	w.clock.now++
	w.clock.mu.Unlock()
}

func (w *world) addEvents() {
	x := w.x
	locked := func(f func() bool) func() bool {
		return func() bool {
			w.mu.Lock()
			defer w.mu.Unlock()
			return f()
		}
	}
	// 1. Timer expiries and wake-ups of sleepers, one at a time.
	for _, a := range w.actors {
		a := a
		x.AddEvent(&mc.Event{
			Name: "fire:" + a.name,
			Enabled: locked(func() bool {
				return a.timer.live() && a.timer.deadline <= w.clock.tick() && a.deliverable()
			}),
			Fire: func() {
				w.mu.Lock()
				t := a.timer
				w.mu.Unlock()
				w.clock.mu.Lock()
				t.fired = true
				now := w.clock.now
				t.firedAt = now
				w.clock.mu.Unlock()
				t.ch <- tickTime(now)
			},
		})
		x.AddEvent(&mc.Event{
			Name:    "wake:" + a.name,
			Enabled: locked(func() bool { return a.sleepUntil >= 0 && w.clock.tick() >= a.sleepUntil }),
			Fire: func() {
				w.mu.Lock()
				ch := a.sleepCh
				a.sleepUntil = -1
				w.mu.Unlock()
				close(ch)
			},
		})
	}
	// 2. Time passes (only when no expiry is pending: expiries are urgent).
	x.AddEvent(&mc.Event{
		Name: "tick",
		Enabled: locked(func() bool {
			return w.clock.tick() < w.cfg.MaxTicks && w.liveActors() > 0 && !w.anyUrgent()
		}),
		Fire: w.doTick,
	})
	// 3. Cancellations / crashes of participants.
	for _, a := range w.actors {
		a := a
		x.AddEvent(&mc.Event{
			Name: "cancel:" + a.name,
			// Voluntary cancellations belong to the run proper (like the
			// ticks): once the clock has reached MaxTicks only teardown
			// cancels, so that a call that is stuck for good is judged by
			// onForcedCancel instead of being "rescued" by its own budget.
			Enabled: locked(func() bool { return a.cancelsLeft > 0 && w.clock.tick() < w.cfg.MaxTicks && a.deliverable() }),
			Fire: func() {
				w.mu.Lock()
				a.cancelsLeft--
				if a.kind == "client" && len(a.streams) > 0 {
					a.streams[len(a.streams)-1].cancelled = true
				}
				ctx := a.ctx
				w.mu.Unlock()
				ctx.cancel()
			},
		})
	}
	// 4. Next stage of the script, once everything is blocked.
	for st := 1; st <= w.maxStage; st++ {
		st := st
		x.AddEvent(&mc.Event{
			Name: fmt.Sprintf("stage%d", st), OnlyIdle: true, Free: true,
			Enabled: locked(func() bool { return w.stageSpawned == st-1 && !w.anyUrgent() }),
			Fire:    func() { w.spawnStage(st) },
		})
	}
	// 5. Teardown: let every timeout elapse, then cancel whatever is
	// still blocked so that all threads can finish.
	x.AddEvent(&mc.Event{
		Name: "td-tick", Teardown: true,
		Enabled: locked(func() bool {
			return w.liveActors() > 0 && (w.clock.tick() < w.hardLimit() || w.anySleeper())
		}),
		Fire: w.doTick,
	})
	for _, a := range w.actors {
		a := a
		x.AddEvent(&mc.Event{
			Name: "td-cancel:" + a.name, Teardown: true,
			// Teardown only cancels calls that wait for something WITHOUT
			// holding a scheduler lock. A call that sleeps in a select while
			// it still holds bq.lock blocks every other call for as long as its
			// caller stays connected; whatever it waits for can only be produced
			// by a call that needs that lock. Rescuing it by cancelling its
			// context would hide that: the run then ends as a deadlock (C14 "any
			// set of calls issued concurrently ... all terminate", C06 "every
			// blocked call returns once its wake-up condition ... occurs").
			Enabled: locked(func() bool {
				return a.inCall && !a.done && a.ctx != nil && !a.ctx.cancelled() && a.doneCalls > 0 && (a.thread == nil || len(w.x.HeldBy(a.thread)) == 0)
			}),
			Fire: func() {
				w.mon.onForcedCancel(a)
				w.mu.Lock()
				ctx := a.ctx
				w.mu.Unlock()
				ctx.cancel()
			},
		})
	}
}

// ---------------------------------------------------------------------------
// Scenario plumbing

func (cfg *config) scenario() *mc.Scenario {
	all := []string{"C01", "C02", "C03", "C06", "C07", "C14"}
	bounds := cfg.Bounds
	if bounds == nil {
		bounds = map[string]int{"quick": 2, "thorough": 4}
	}
	shards := cfg.Shards
	if shards == 0 {
		shards = 8
	}
	var cur *world
	return &mc.Scenario{
		Name:        cfg.Name,
		Props:       cfg.Props,
		// C14: "concurrent calls never deadlock ... all terminate" (a call
		// that re-acquires the scheduler lock it already holds, or returns
		// with it held, blocks every later call).
		Liveness:    []string{"C06", "C02", "C14"},
		Livelock:    []string{"C06", "C14"},
		Panics:      all,
		Bounds:      bounds,
		Shards:      shards,
		PreemptFree: cfg.PreemptFree,
		Build: func(x *mc.X) {
			c := *cfg
			w := newWorld(x, &c)
			cur = w
			w.spawnStage(0)
			w.addEvents()
			if !x.Free() {
				w.mon.install()
			}
		},
		Finish: func(x *mc.X) {
			if !x.Free() {
				cur.mon.finish()
			}
		},
	}
}

// ---------------------------------------------------------------------------
// Canonical rendering helpers for the state key

type keyBuilder struct {
	buf   []byte
	alias map[string]string
}

func (b *keyBuilder) s(v string) *keyBuilder { b.buf = append(b.buf, v...); return b }
func (b *keyBuilder) i(v int) *keyBuilder    { b.buf = strconv.AppendInt(b.buf, int64(v), 10); return b }
func (b *keyBuilder) bl(v bool) *keyBuilder {
	if v {
		b.buf = append(b.buf, 'T')
	} else {
		b.buf = append(b.buf, 'F')
	}
	return b
}

// short replaces long strings (JSON invocation keys, queue names) by the
// order of first appearance in the canonical walk; the walk order is
// itself canonical (sorted), so the aliases are.
func (b *keyBuilder) short(s string) string {
	if len(s) < 8 {
		return s
	}
	if a, ok := b.alias[s]; ok {
		return a
	}
	a := "$" + strconv.Itoa(len(b.alias))
	b.alias[s] = a
	return a
}

func sortedCopy(e []scheduler.VerifHeapEntry) []string {
	r := make([]string, len(e))
	for i, x := range e {
		r[i] = x.Name
	}
	sort.Strings(r)
	return r
}
