package locks

import (
	"fmt"
	"io"
	"strings"
	"sync"

	"verif/mc"

	"github.com/buildbarn/bb-remote-execution/pkg/filesystem/virtual"
	nfsv4srv "github.com/buildbarn/bb-remote-execution/pkg/filesystem/virtual/nfsv4"
	"github.com/buildbarn/go-xdr/pkg/protocols/nfsv4"
)

// Engine A on the real nfsv4.OpenedFilesPool / OpenedFile: lock-owners of
// DIFFERENT clients issue LOCK / LOCKU / LOCKT / CLOSE for one file at the
// same time. The NFSv4.1 server serialises requests per client only, and the
// NFSv4.0 and NFSv4.1 servers share one pool, so nothing but the pool's own
// locks (OpenedFilesPool.lock, OpenedFile.locksLock; both are scheduling
// points through the sync shim) makes "test for a conflict, then insert"
// atomic across clients. Every thread is one lock-owner (requests of one
// owner are serialised by its server).
//
// Oracles (C20):
//
//   - at every quiescent point and at the end the granted locks are mutually
//     compatible: no two different owners hold a common byte unless both
//     locks are shared;
//   - at the end there is a linearization of all requests (respecting each
//     owner's program order and the real-time order of requests that did not
//     overlap in time) that explains EVERY reply under the sequential POSIX
//     record-lock model (granted / denied, the conflicting lock named by a
//     denial, LOCKT verdicts) and the final contents of the table;
//   - the sum of the deltas returned to an owner equals its number of table
//     entries (the servers' lockCount), and is zero after UnlockAll.

var concPoints = []uint64{0, 1, 2, 3, maxOff}

type concKind int

const (
	cLock concKind = iota
	cUnlock
	cTest
	cClose
)

// concOp is one request; i, j index concPoints.
type concOp struct {
	kind concKind
	i, j int
	typ  lockType
}

func (o concOp) String() string {
	r := fmt.Sprintf("[%s,%s)", offName(concPoints[o.i]), offName(concPoints[o.j]))
	switch o.kind {
	case cLock:
		return "LOCK " + typeName(o.typ) + " " + r
	case cUnlock:
		return "LOCKU " + r
	case cTest:
		return "LOCKT " + typeName(o.typ) + " " + r
	}
	return "CLOSE"
}

func (o concOp) offLen() (uint64, uint64) {
	s, e := concPoints[o.i], concPoints[o.j]
	if e == maxOff {
		return s, maxOff
	}
	return s, e - s
}

// concStep is one scripted request of a thread: one of several alternatives
// (enumerated as free choices: inputs, not deviations).
type concStep []concOp

type concSpecL struct {
	name string
	// initial[o]: locks owner o holds before the threads start.
	initial [][]concOp
	threads [][]concStep // thread t is owner t
}

// concRecord is what the harness knows about one request after it returned.
type concRecord struct {
	owner  int
	op     concOp
	preds  uint64 // requests that had returned before this one was issued
	done   bool
	status nfsv4.Nfsstat4
	denied *entry
	delta  int
}

type concWorld struct {
	mu        sync.Mutex // real mutex: never held across a scheduling point
	pool      *nfsv4srv.OpenedFilesPool
	handle    nfsv4.NfsFh4
	owners    []*nfsv4.LockOwner4
	of        []*nfsv4srv.OpenedFile
	keep      *nfsv4srv.OpenedFile // the harness's own reference: keeps the table inspectable
	initial   *model
	recs      []*concRecord
	returned  uint64
	lockCount []int
	closed    []bool
}

// table reads the lock table without taking any lock (controller side).
func (w *concWorld) table() []entry {
	var es []entry
	for _, f := range w.pool.VerifNFSPool() {
		if f.Handle != string(w.handle) {
			continue
		}
		for _, l := range f.Locks {
			e := entry{start: l.Start, end: l.End, owner: -1, typ: tExcl}
			if l.Shared {
				e.typ = tShared
			}
			for i, o := range w.owners {
				if o.Clientid == l.Clientid && string(o.Owner) == l.Owner {
					e.owner = i
				}
			}
			es = append(es, e)
		}
	}
	return es
}

// incompatible returns two entries of different owners that share a byte
// without both being shared.
func incompatible(es []entry) (entry, entry, bool) {
	for a := 0; a < len(es); a++ {
		for b := a + 1; b < len(es); b++ {
			x, y := es[a], es[b]
			if x.owner != y.owner && x.start < y.end && y.start < x.end && (x.typ == tExcl || y.typ == tExcl) {
				return x, y, true
			}
		}
	}
	return entry{}, entry{}, false
}

func (w *concWorld) key() string {
	b := appendEntries(make([]byte, 0, 256), w.table())
	w.mu.Lock()
	defer w.mu.Unlock()
	for _, r := range w.recs {
		if r == nil {
			b = append(b, "|-"...)
			continue
		}
		b = append(b, fmt.Sprintf("|%d:%s:%x:%v:%d:%d", r.owner, r.op, r.preds, r.done, r.status, r.delta)...)
		if r.denied != nil {
			b = append(b, r.denied.String()...)
		}
	}
	b = append(b, fmt.Sprintf("|%v%v", w.lockCount, w.closed)...)
	hs, ucs := []string{}, []int{}
	for _, f := range w.pool.VerifNFSPool() {
		hs = append(hs, f.Handle)
		ucs = append(ucs, f.UseCount)
	}
	b = append(b, fmt.Sprintf("|%q%v", hs, ucs)...)
	return string(b)
}

func (w *concWorld) decodeDenied(d *nfsv4.Lock4denied) *entry {
	e := &entry{start: d.Offset, owner: -1}
	if d.Length == maxOff {
		e.end = maxOff
	} else {
		e.end = d.Offset + d.Length
	}
	switch d.Locktype {
	case nfsv4.READ_LT, nfsv4.READW_LT:
		e.typ = tShared
	case nfsv4.WRITE_LT, nfsv4.WRITEW_LT:
		e.typ = tExcl
	}
	for i, o := range w.owners {
		if o.Clientid == d.Owner.Clientid && string(o.Owner) == string(d.Owner.Owner) {
			e.owner = i
		}
	}
	return e
}

// perform runs one request of owner o on the real pool, the way the NFS
// servers do (see pool_test.go), and records the reply.
func (w *concWorld) perform(x *mc.X, o, id int, op concOp) {
	w.mu.Lock()
	r := &concRecord{owner: o, op: op, preds: w.returned}
	w.recs[id] = r
	w.mu.Unlock()

	off, length := op.offLen()
	var status nfsv4.Nfsstat4
	var denied *entry
	delta := 0
	switch op.kind {
	case cLock:
		d, res := w.of[o].Lock(w.owners[o], off, length, nfsType(op.typ))
		x.CheckNoLocksHeld("OpenedFile.Lock")
		delta = d
		if res != nil {
			status = res.GetStatus()
			if dn, ok := res.(*nfsv4.Lock4res_NFS4ERR_DENIED); ok {
				denied = w.decodeDenied(&dn.Denied)
			}
		}
	case cUnlock:
		delta, status = w.of[o].Unlock(w.owners[o], off, length)
		x.CheckNoLocksHeld("OpenedFile.Unlock")
	case cTest:
		res := w.pool.TestLock(w.handle, w.owners[o], off, length, nfsType(op.typ))
		x.CheckNoLocksHeld("OpenedFilesPool.TestLock")
		status = res.GetStatus()
		if dn, ok := res.(*nfsv4.Lockt4res_NFS4ERR_DENIED); ok {
			denied = w.decodeDenied(&dn.Denied)
		}
	case cClose:
		// CLOSE / lease expiry: UnlockAll iff the owner's lock count
		// says it holds something, then drop the reference.
		w.mu.Lock()
		held := w.lockCount[o] > 0
		w.mu.Unlock()
		if held {
			delta = w.of[o].UnlockAll(w.owners[o])
			x.CheckNoLocksHeld("OpenedFile.UnlockAll")
		}
		w.of[o].Close()
		x.CheckNoLocksHeld("OpenedFile.Close")
	}

	w.mu.Lock()
	r.done, r.status, r.denied, r.delta = true, status, denied, delta
	w.returned |= 1 << uint(id)
	w.lockCount[o] += delta
	if op.kind == cClose {
		w.closed[o] = true
	}
	w.mu.Unlock()
}

// linearize searches for an order of all recorded requests that respects
// program order and real-time order and explains every reply and the final
// table. It returns "" if one exists, else a description of the closest
// attempt.
func (w *concWorld) linearize(final []entry) string {
	n := len(w.recs)
	best := ""
	bestLen := -1
	var order []int
	var rec func(done uint64, m *model) bool
	rec = func(done uint64, m *model) bool {
		if len(order) == n {
			if fl := compareTable(final, true, m); fl != nil {
				if len(order) > bestLen {
					bestLen, best = len(order), fmt.Sprintf("order %v explains all replies but not the final table: %s", order, fl.message)
				}
				return false
			}
			return true
		}
		for id, r := range w.recs {
			if done&(1<<uint(id)) != 0 || r.preds&^done != 0 {
				continue
			}
			// Program order: earlier requests of the same owner first.
			blocked := false
			for id2 := 0; id2 < id; id2++ {
				if w.recs[id2].owner == r.owner && done&(1<<uint(id2)) == 0 {
					blocked = true
				}
			}
			if blocked {
				continue
			}
			why := ""
			m2 := &model{points: m.points}
			for _, s := range m.seg {
				m2.seg = append(m2.seg, append([]lockType(nil), s...))
			}
			lo, hi := concPoints[r.op.i], concPoints[r.op.j]
			switch r.op.kind {
			case cLock, cTest:
				conflict := m.conflict(r.owner, r.op.i, r.op.j, r.op.typ)
				switch {
				case conflict && r.status != nfsv4.NFS4ERR_DENIED:
					why = fmt.Sprintf("status %d although a conflicting lock is held (model %s)", r.status, m)
				case !conflict && r.status != nfsv4.NFS4_OK:
					why = fmt.Sprintf("status %d although nothing conflicts (model %s)", r.status, m)
				case conflict && r.denied != nil:
					why = checkConflictingLock(m, r.owner, lo, hi, r.op.typ, *r.denied)
				}
				if why == "" && !conflict && r.op.kind == cLock {
					m2.set(r.owner, r.op.i, r.op.j, r.op.typ)
				}
			case cUnlock:
				if r.status != nfsv4.NFS4_OK {
					why = fmt.Sprintf("status %d", r.status)
				}
				m2.set(r.owner, r.op.i, r.op.j, tNone)
			case cClose:
				m2.set(r.owner, 0, len(concPoints)-1, tNone)
			}
			if why != "" {
				if len(order) > bestLen {
					bestLen, best = len(order), fmt.Sprintf("after order %v, request %d (%c %s) cannot come next: %s", order, id, 'A'+r.owner, r.op, why)
				}
				continue
			}
			order = append(order, id)
			ok := rec(done|1<<uint(id), m2)
			order = order[:len(order)-1]
			if ok {
				return true
			}
		}
		return false
	}
	m0 := &model{points: w.initial.points}
	for _, s := range w.initial.seg {
		m0.seg = append(m0.seg, append([]lockType(nil), s...))
	}
	if rec(0, m0) {
		return ""
	}
	return best
}

func (w *concWorld) history() string {
	var l []string
	for id, r := range w.recs {
		if r == nil {
			continue
		}
		if !r.done {
			l = append(l, fmt.Sprintf("#%d %c %s (in progress) after=%b", id, 'A'+r.owner, r.op, r.preds))
			continue
		}
		s := fmt.Sprintf("#%d %c %s -> %d", id, 'A'+r.owner, r.op, r.status)
		if r.denied != nil {
			s += " " + r.denied.String()
		}
		s += fmt.Sprintf(" delta=%d after=%b", r.delta, r.preds)
		l = append(l, s)
	}
	return strings.Join(l, "; ")
}

func concLockScenario(spec concSpecL) *mc.Scenario {
	var cur *concWorld
	return &mc.Scenario{
		Name: spec.name, Props: []string{"C20", "C14"}, Liveness: []string{"C20", "C14"}, Livelock: []string{"C20", "C14"}, Panics: []string{"C20", "C14"},
		// Few scheduling points per request: all interleavings, pruned by
		// the state key.
		Bounds: map[string]int{"quick": -1, "thorough": -1},
		Build: func(x *mc.X) {
			n := len(spec.threads)
			w := &concWorld{handle: nfsv4.NfsFh4{0x42}, lockCount: make([]int, n), closed: make([]bool, n)}
			base := make([]int, n)
			total := 0
			for o, steps := range spec.threads {
				base[o] = total
				total += len(steps)
			}
			w.recs = make([]*concRecord, total)
			cur = w
			w.pool = nfsv4srv.NewOpenedFilesPool(func(r io.ByteReader) (virtual.DirectoryChild, virtual.Status) {
				return virtual.DirectoryChild{}, virtual.StatusErrStale
			})
			leaf := &fakeLeaf{id: 0}
			w.keep = w.pool.Open(w.handle, leaf)
			w.initial = newModel(concPoints, n)
			for o := 0; o < n; o++ {
				// Lock-owners of different clients using the same owner
				// string.
				w.owners = append(w.owners, &nfsv4.LockOwner4{Clientid: uint64(1 + o), Owner: []byte("o")})
				w.of = append(w.of, w.pool.Open(w.handle, leaf))
			}
			for o, ops := range spec.initial {
				for _, op := range ops {
					off, length := op.offLen()
					d, res := w.of[o].Lock(w.owners[o], off, length, nfsType(op.typ))
					if res != nil {
						panic("initial lock denied")
					}
					w.lockCount[o] += d
					w.initial.set(o, op.i, op.j, op.typ)
				}
			}
			for o, steps := range spec.threads {
				o, steps := o, steps
				x.Go(string(rune('A'+o)), func() {
					for si, alts := range steps {
						x.ResetLocal(fmt.Sprint(si))
						c := 0
						if len(alts) > 1 {
							c = x.ChooseFree(fmt.Sprintf("%c request %d", 'A'+o, si), len(alts))
						}
						w.perform(x, o, base[o]+si, alts[c])
					}
				})
			}
			x.SetKey(w.key)
			x.Monitor("C20", func() {
				if a, b, bad := incompatible(w.table()); bad {
					x.FailP("C20", "pool/conc/incompatible-locks-granted", "the lock table holds %s and %s at the same time: two owners share a byte and not both locks are shared (history so far: %s)", a, b, w.history())
				}
			})
		},
		Finish: func(x *mc.X) {
			w := cur
			final := w.table()
			x.Outcome("%s => %s", w.history(), entriesString(final))
			if a, b, bad := incompatible(final); bad {
				x.FailP("C20", "pool/conc/incompatible-locks-granted", "after all requests returned the lock table holds %s and %s: two owners share a byte and not both locks are shared (history: %s)", a, b, w.history())
			}
			if why := w.linearize(final); why != "" {
				x.FailP("C20", "pool/conc/no-linearization", "no sequential order of the concurrent requests explains the replies and the final table %s under POSIX record-lock semantics. History: %s. Closest attempt: %s", entriesString(final), w.history(), why)
			}
			for o := range w.owners {
				n := countOwner(final, o)
				if w.lockCount[o] != n {
					x.FailP("C20", "pool/conc/lockcount-vs-table", "owner %c: sum of returned deltas is %d, the table has %d entries of that owner (%s); history: %s", 'A'+o, w.lockCount[o], n, entriesString(final), w.history())
				}
			}
			// Everybody closes: the pool must forget the file.
			for o := range w.owners {
				if !w.closed[o] {
					if w.lockCount[o] > 0 {
						w.lockCount[o] += w.of[o].UnlockAll(w.owners[o])
					}
					if w.lockCount[o] != 0 {
						x.FailP("C20", "pool/conc/lockcount-after-unlockall", "owner %c: lockCount is %d after UnlockAll (the server would panic)", 'A'+o, w.lockCount[o])
					}
					w.of[o].Close()
				}
			}
			if es := w.table(); len(es) != 0 {
				x.FailP("C20", "pool/conc/locks-survive-close", "all owners closed the file, the table still holds %s", entriesString(es))
			}
			w.keep.Close()
			if p := w.pool.VerifNFSPool(); len(p) != 0 {
				x.FailP("C20", "pool/conc/still-tracked", "all references closed, the pool still tracks %d file(s)", len(p))
			}
		},
	}
}

func lk(t lockType, i, j int) concOp { return concOp{cLock, i, j, t} }
func ul(i, j int) concOp             { return concOp{cUnlock, i, j, tNone} }
func lt(t lockType, i, j int) concOp { return concOp{cTest, i, j, t} }

var closeOp = concOp{kind: cClose}

func one(op concOp) concStep { return concStep{op} }

func concLockScenarios() []*mc.Scenario {
	// Input alternatives: exclusive or shared, two overlapping ranges.
	anyLock := func(ranges ...[2]int) concStep {
		var s concStep
		for _, r := range ranges {
			s = append(s, lk(tExcl, r[0], r[1]), lk(tShared, r[0], r[1]))
		}
		return s
	}
	specs := []concSpecL{
		// Two and three owners of different clients lock overlapping
		// ranges at the same time: every combination of exclusive /
		// shared.
		{name: "pool-conc-lock-lock",
			threads: [][]concStep{{anyLock([2]int{0, 2})}, {anyLock([2]int{1, 3}, [2]int{2, 4})}}},
		{name: "pool-conc-lock-lock-lock",
			threads: [][]concStep{{anyLock([2]int{0, 2})}, {anyLock([2]int{1, 3})}, {anyLock([2]int{1, 2}, [2]int{0, 4})}}},
		// A holds an exclusive lock and gives part of it up (or
		// downgrades it to shared) while B and C ask for the bytes.
		{name: "pool-conc-lock-unlock", initial: [][]concOp{{lk(tExcl, 0, 3)}},
			threads: [][]concStep{
				{concStep{ul(0, 2), lk(tShared, 0, 2)}, one(lk(tExcl, 0, 1))},
				{anyLock([2]int{1, 2})},
				{anyLock([2]int{0, 1})},
			}},
		// CLOSE (UnlockAll + Close) of the holder races with LOCK of two
		// others, one of which then tests the whole file.
		{name: "pool-conc-lock-close", initial: [][]concOp{{lk(tExcl, 0, 3)}, nil, {lk(tShared, 3, 4)}},
			threads: [][]concStep{
				{one(closeOp)},
				{anyLock([2]int{0, 1}), one(lt(tShared, 0, 4))},
				{concStep{lk(tShared, 0, 2), lk(tExcl, 0, 2)}},
			}},
		// LOCKT agrees with what LOCK would have answered at some moment
		// between the concurrent LOCKU and LOCK of two others.
		{name: "pool-conc-test", initial: [][]concOp{{lk(tShared, 0, 2)}},
			threads: [][]concStep{
				{one(ul(0, 2))},
				{concStep{lt(tExcl, 0, 1), lt(tShared, 0, 3)}, one(lk(tExcl, 0, 1))},
				{concStep{lk(tShared, 1, 3), lk(tExcl, 1, 3)}},
			}},
		// Two readers of the same bytes: both give their shared lock up
		// (B possibly only after a refused upgrade) and ask for an
		// exclusive one.
		{name: "pool-conc-upgrade", initial: [][]concOp{{lk(tShared, 0, 2)}, {lk(tShared, 0, 2)}},
			threads: [][]concStep{
				{one(ul(0, 2)), one(lk(tExcl, 0, 1))},
				{concStep{ul(0, 2), lk(tExcl, 1, 2)}, one(lk(tExcl, 0, 2))},
			}},
	}
	var out []*mc.Scenario
	for _, s := range specs {
		out = append(out, concLockScenario(s))
	}
	return out
}
