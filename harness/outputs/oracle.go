package outputs

import (
	"crypto/sha256"
	"encoding/hex"
	"fmt"
	"sort"
	"strings"

	remoteexecution "github.com/bazelbuild/remote-apis/build/bazel/remote/execution/v2"
	"google.golang.org/protobuf/proto"
)

// ---------------------------------------------------------------------------
// Independent string-level path resolver (the specification of
// normalisation). Deliberately boring: split on '/', interpret ".", "..".

// resolveFrom applies the components of p to the stack cur (a location
// below the input root). ok=false: p is absolute or leaves the input root
// at some point.
func resolveFrom(cur []string, p string) ([]string, bool) {
	if strings.HasPrefix(p, "/") {
		return nil, false
	}
	out := append([]string(nil), cur...)
	for _, seg := range strings.Split(p, "/") {
		switch seg {
		case "", ".":
		case "..":
			if len(out) == 0 {
				return nil, false
			}
			out = out[:len(out)-1]
		default:
			out = append(out, seg)
		}
	}
	return out, true
}

// resolveDeclared gives the normalised location of one declared output
// path relative to the working directory, or ok=false if the working
// directory or the path escapes the input root (or is absolute).
func resolveDeclared(wd, p string) ([]string, bool) {
	w, ok := resolveFrom(nil, wd)
	if !ok {
		return nil, false
	}
	return resolveFrom(w, p)
}

func locString(loc []string) string { return strings.Join(loc, "/") }

// ---------------------------------------------------------------------------
// Digests, computed independently of pkg/digest.

func shaKey(b []byte) (string, int64) {
	h := sha256.Sum256(b)
	return hex.EncodeToString(h[:]), int64(len(b))
}

func protoKey(d *remoteexecution.Digest) string {
	if d == nil {
		return "<nil>"
	}
	return casKey(d.Hash, d.SizeBytes)
}

// checkListedFile: "with the correct content digest". The digest d listed for
// the produced file c has to be the sha256 of the file's bytes (for a file
// that a fault rewrote in place during the upload: of its bytes before or
// after), and the object stored in the CAS under d has to hash to d. Returns
// an empty fingerprint when all of that holds.
func checkListedFile(w *world, c *node, d *remoteexecution.Digest) (fp, msg string) {
	h, sz := shaKey([]byte(c.data))
	want := casKey(h, sz)
	ok := d != nil && protoKey(d) == want
	if !ok && d != nil && c.hasAlt {
		ah, asz := shaKey([]byte(c.alt))
		want += " or, before the in-place rewrite, " + casKey(ah, asz)
		ok = protoKey(d) == casKey(ah, asz)
	}
	if !ok {
		return "file-digest", fmt.Sprintf("listed digest %s, its bytes hash to %s", protoKey(d), want)
	}
	blob, present := w.cas.blobs[protoKey(d)]
	if !present {
		return "file-not-in-cas", fmt.Sprintf("digest %s is not in the CAS", protoKey(d))
	}
	if bh, bsz := shaKey(blob); casKey(bh, bsz) != protoKey(d) {
		return "file-digest-not-of-stored-object", fmt.Sprintf("listed digest %s, but the object stored under that digest in the CAS is %q which hashes to %s", protoKey(d), blob, casKey(bh, bsz))
	}
	return "", ""
}

// casConsistent: every object in the CAS is stored under its own digest.
func casConsistent(fail failFn, w *world) bool {
	keys := make([]string, 0, len(w.cas.blobs))
	for k := range w.cas.blobs {
		keys = append(keys, k)
	}
	sort.Strings(keys)
	for _, k := range keys {
		if h, n := shaKey(w.cas.blobs[k]); casKey(h, n) != k {
			fail("cas/blob-under-wrong-digest", "blob stored under %s hashes to %s", k, casKey(h, n))
			return false
		}
	}
	return true
}

// ---------------------------------------------------------------------------
// Tree verification

type failFn func(fingerprint, format string, args ...any)

// parseTreeRecords splits a Tree blob into its wire records without using
// the generated Tree message, so that the position of the root is observed.
func parseTreeRecords(b []byte) (tags []byte, recs [][]byte, err error) {
	for len(b) > 0 {
		tag := b[0]
		b = b[1:]
		var n uint64
		var shift uint
		i := 0
		for {
			if i >= len(b) {
				return nil, nil, fmt.Errorf("truncated varint")
			}
			c := b[i]
			i++
			n |= uint64(c&0x7f) << shift
			shift += 7
			if c < 0x80 {
				break
			}
			if shift > 35 {
				return nil, nil, fmt.Errorf("varint too long")
			}
		}
		b = b[i:]
		if uint64(len(b)) < n {
			return nil, nil, fmt.Errorf("truncated record")
		}
		tags = append(tags, tag)
		recs = append(recs, b[:n])
		b = b[n:]
	}
	return tags, recs, nil
}

// verifyTree checks the Tree blob describing the directory dir at
// declared path p. complete=false (UploadOutputs reported an error): the
// decoded hierarchy only has to be a sub-hierarchy of dir.
func verifyTree(fail failFn, w *world, p string, dir *node, od *remoteexecution.OutputDirectory, wantRootDigest, complete bool) {
	if od.TreeDigest == nil {
		fail("tree/no-tree-digest", "output directory %q has no tree_digest", p)
		return
	}
	blob, ok := w.cas.blobs[protoKey(od.TreeDigest)]
	if !ok {
		fail("tree/not-in-cas", "Tree %s of output directory %q is not in the CAS", protoKey(od.TreeDigest), p)
		return
	}
	if h, n := shaKey(blob); h != od.TreeDigest.Hash || n != od.TreeDigest.SizeBytes {
		fail("tree/digest-mismatch", "Tree blob of %q stored under %s but hashes to %s", p, protoKey(od.TreeDigest), casKey(h, n))
		return
	}
	tags, recs, err := parseTreeRecords(blob)
	if err != nil || len(recs) == 0 {
		fail("tree/undecodable", "Tree of %q does not decode: %v (records=%d)", p, err, len(recs))
		return
	}
	// Root first, children afterwards (wire order).
	if tags[0] != 0x0a {
		fail("tree/root-not-first", "Tree of %q: first record has tag %#x, want root (0x0a)", p, tags[0])
		return
	}
	for i := 1; i < len(tags); i++ {
		if tags[i] != 0x12 {
			fail("tree/root-not-first", "Tree of %q: record %d has tag %#x, want child (0x12)", p, i, tags[i])
			return
		}
	}
	// The generated decoder must agree.
	var tree remoteexecution.Tree
	if err := proto.Unmarshal(blob, &tree); err != nil || tree.Root == nil || len(tree.Children) != len(recs)-1 {
		fail("tree/undecodable", "Tree of %q: proto.Unmarshal: %v", p, err)
		return
	}
	dirs := make([]*remoteexecution.Directory, len(recs))
	keys := make([]string, len(recs))
	index := map[string][]int{}
	for i, r := range recs {
		var d remoteexecution.Directory
		if err := proto.Unmarshal(r, &d); err != nil {
			fail("tree/undecodable", "Tree of %q: record %d is not a Directory: %v", p, i, err)
			return
		}
		dirs[i] = &d
		h, n := shaKey(r)
		keys[i] = casKey(h, n)
		index[keys[i]] = append(index[keys[i]], i)
	}
	// Every referenced child present exactly once, parents before children.
	referenced := map[string]bool{}
	for i, d := range dirs {
		for _, dn := range d.Directories {
			k := protoKey(dn.Digest)
			referenced[k] = true
			pos := index[k]
			if len(pos) == 0 {
				fail("tree/child-missing", "Tree of %q: record %d references directory %q (%s) which is not in the Tree", p, i, dn.Name, k)
				return
			}
			if len(pos) > 1 {
				fail("tree/child-duplicated", "Tree of %q: directory %s referenced as %q occurs %d times (records %v)", p, k, dn.Name, len(pos), pos)
				return
			}
			if pos[0] <= i {
				fail("tree/child-before-parent", "Tree of %q: record %d references %q stored at record %d: parents must come before children", p, i, dn.Name, pos[0])
				return
			}
		}
	}
	for i := 1; i < len(recs); i++ {
		if !referenced[keys[i]] {
			fail("tree/unreferenced-child", "Tree of %q: record %d (%s) is not referenced by any directory", p, i, keys[i])
			return
		}
		if len(index[keys[i]]) > 1 {
			fail("tree/child-duplicated", "Tree of %q: record %d (%s) occurs %d times", p, i, keys[i], len(index[keys[i]]))
			return
		}
	}
	// Contents.
	var cmp func(n *node, d *remoteexecution.Directory, at string) bool
	cmp = func(n *node, d *remoteexecution.Directory, at string) bool {
		seen := map[string]bool{}
		for _, f := range d.Files {
			c := n.children[f.Name]
			if seen[f.Name] || c == nil || c.kind != kFile {
				fail("tree/content/file-kind", "Tree of %q: %s lists file %q but the produced tree has %s there", p, at, f.Name, c.dump())
				return false
			}
			seen[f.Name] = true
			if fp, msg := checkListedFile(w, c, f.Digest); fp != "" {
				fail("tree/content/"+fp, "Tree of %q: file %s/%s: %s", p, at, f.Name, msg)
				return false
			}
			if f.IsExecutable != c.exec {
				fail("tree/content/exec-bit", "Tree of %q: file %s/%s is_executable=%v, produced file exec=%v", p, at, f.Name, f.IsExecutable, c.exec)
				return false
			}
		}
		for _, s := range d.Symlinks {
			c := n.children[s.Name]
			if seen[s.Name] || c == nil || c.kind != kSymlink {
				fail("tree/content/symlink-kind", "Tree of %q: %s lists symlink %q but the produced tree has %s there", p, at, s.Name, c.dump())
				return false
			}
			seen[s.Name] = true
			if s.Target != c.data {
				fail("tree/content/symlink-target", "Tree of %q: symlink %s/%s target %q, produced %q", p, at, s.Name, s.Target, c.data)
				return false
			}
		}
		for _, dn := range d.Directories {
			c := n.children[dn.Name]
			if seen[dn.Name] || c == nil || c.kind != kDir {
				fail("tree/content/dir-kind", "Tree of %q: %s lists directory %q but the produced tree has %s there", p, at, dn.Name, c.dump())
				return false
			}
			seen[dn.Name] = true
			if !cmp(c, dirs[index[protoKey(dn.Digest)][0]], at+"/"+dn.Name) {
				return false
			}
		}
		if complete {
			for _, k := range n.names() {
				// Special files have no representation in a Directory
				// message: their omission is accepted.
				if !seen[k] && n.children[k].kind != kFifo {
					fail("tree/content/entry-missing", "Tree of %q: %s lacks entry %q (%s) although UploadOutputs reported success", p, at, k, n.children[k].dump())
					return false
				}
			}
		}
		return true
	}
	if !cmp(dir, dirs[0], ".") {
		return
	}
	// Directory-format fields.
	if od.RootDirectoryDigest != nil {
		if protoKey(od.RootDirectoryDigest) != keys[0] {
			fail("tree/root-digest-wrong", "output directory %q: root_directory_digest %s but the root Directory hashes to %s", p, protoKey(od.RootDirectoryDigest), keys[0])
			return
		}
		for i, k := range keys {
			if _, ok := w.cas.blobs[k]; !ok {
				fail("tree/directory-not-in-cas", "output directory %q has root_directory_digest set but Directory record %d (%s) is not stored separately in the CAS", p, i, k)
				return
			}
		}
	} else if wantRootDigest {
		fail("tree/root-digest-missing", "output directory %q: Directory format requested but root_directory_digest is not set", p)
	}
}

// ---------------------------------------------------------------------------
// ActionResult verification

// verifyResult compares the ActionResult with the produced tree.
// declared: the OutputPaths in declaration order; complete: UploadOutputs
// returned nil (then the listing has to be exact; otherwise only sound).
func verifyResult(fail failFn, w *world, wd string, declared []string, ar *remoteexecution.ActionResult, wantRootDigest, complete bool) {
	declCount := map[string]int{}
	for _, p := range declared {
		declCount[p]++
	}
	at := func(p string) *node {
		loc, ok := resolveDeclared(wd, p)
		if !ok {
			return nil
		}
		return w.root.lookup(loc)
	}
	listed := map[string]int{}
	first := map[string]string{}
	note := func(p, desc, what string) bool {
		if declCount[p] == 0 {
			fail("result/undeclared-path", "ActionResult lists %s %q, which is not one of the declared path strings %q", what, p, declared)
			return false
		}
		listed[p]++
		if listed[p] > declCount[p] {
			fail("result/too-many-entries", "ActionResult lists %q %d times, declared %d times", p, listed[p], declCount[p])
			return false
		}
		if prev, ok := first[p]; ok && prev != desc {
			fail("result/contradictory-entries", "ActionResult has contradictory entries for %q: %s vs %s", p, prev, desc)
			return false
		}
		first[p] = desc
		return true
	}
	for _, f := range ar.OutputFiles {
		if !note(f.Path, fmt.Sprintf("file %s exec=%v", protoKey(f.Digest), f.IsExecutable), "output file") {
			return
		}
		n := at(f.Path)
		if n == nil || n.kind != kFile {
			fail("result/file-kind", "ActionResult lists %q as a file, the produced tree has %s at its location", f.Path, n.dump())
			return
		}
		if fp, msg := checkListedFile(w, n, f.Digest); fp != "" {
			fail("result/"+fp, "output file %q: %s", f.Path, msg)
			return
		}
		if f.IsExecutable != n.exec {
			fail("result/exec-bit", "output file %q is_executable=%v, produced file exec=%v", f.Path, f.IsExecutable, n.exec)
			return
		}
	}
	checkSymlinks := func(l []*remoteexecution.OutputSymlink, field string, count bool) bool {
		for _, s := range l {
			if count {
				if !note(s.Path, "symlink "+s.Target, "output symlink") {
					return false
				}
			} else if declCount[s.Path] == 0 {
				fail("result/undeclared-path", "ActionResult.%s lists %q, which is not a declared path string", field, s.Path)
				return false
			}
			n := at(s.Path)
			if n == nil || n.kind != kSymlink {
				fail("result/symlink-kind", "ActionResult.%s lists %q as a symlink, the produced tree has %s at its location", field, s.Path, n.dump())
				return false
			}
			if s.Target != n.data {
				fail("result/symlink-target", "output symlink %q has target %q, produced %q", s.Path, s.Target, n.data)
				return false
			}
		}
		return true
	}
	if !checkSymlinks(ar.OutputSymlinks, "output_symlinks", true) {
		return
	}
	// Deprecated REv2.0 fields: servers may populate them in addition; if
	// they do, the entries must be right.
	if !checkSymlinks(ar.OutputFileSymlinks, "output_file_symlinks", false) || !checkSymlinks(ar.OutputDirectorySymlinks, "output_directory_symlinks", false) {
		return
	}
	failed := false
	for _, d := range ar.OutputDirectories {
		if !note(d.Path, fmt.Sprintf("directory tree=%s root=%s", protoKey(d.TreeDigest), protoKey(d.RootDirectoryDigest)), "output directory") {
			return
		}
		n := at(d.Path)
		if n == nil || n.kind != kDir {
			fail("result/directory-kind", "ActionResult lists %q as a directory, the produced tree has %s at its location", d.Path, n.dump())
			return
		}
		verifyTree(func(fp, format string, args ...any) { failed = true; fail(fp, format, args...) }, w, d.Path, n, d, wantRootDigest, complete)
		if failed {
			return
		}
	}
	if !complete {
		return
	}
	// Exactness: every declared path that exists as file, directory or
	// symlink is listed at least once (repetition of duplicates optional).
	ps := make([]string, 0, len(declCount))
	for p := range declCount {
		ps = append(ps, p)
	}
	sort.Strings(ps)
	for _, p := range ps {
		n := at(p)
		if n != nil && n.kind != kFifo && listed[p] == 0 {
			fail("result/existing-output-not-listed", "declared path %q exists (%s) but the ActionResult does not list it although UploadOutputs reported success", p, n.dump())
			return
		}
	}
}
