package worker

import (
	"io"
	"log"
	"os"
	"testing"

	"verif/mc"
)

func scenario(name string, quick, thorough config, qb, tb int) *mc.Scenario {
	c := quick
	if os.Getenv("MC_TIER") == "thorough" {
		c = thorough
	}
	var e *env
	return &mc.Scenario{
		Name:        name,
		Props:       []string{prop},
		Liveness:    []string{prop},
		Livelock:    []string{prop},
		Panics:      []string{prop},
		PreemptFree: true,
		MaxSteps:    400,
		Bounds:      map[string]int{"quick": qb, "thorough": tb},
		Build:       func(x *mc.X) { e = build(x, c) },
		Finish:      func(x *mc.X) { e.finish() },
	}
}

func TestMC(t *testing.T) {
	log.SetOutput(io.Discard)
	scenarios := []*mc.Scenario{
		// Normal protocol: execute / preempt / restart / idle / no change,
		// progress updates, OK and non-OK completions, shutdown at every point.
		scenario("lifecycle",
			config{budget: 5, maxProgress: 2, execSame: true, late: true},
			config{budget: 8, maxProgress: 2, execSame: true, late: true}, 2, -1),
		// RPC errors and the error back-off, with clock jumps.
		scenario("fault-rpc",
			config{budget: 4, maxProgress: 1, maxJumps: 1, faults: []reply{rErr}},
			config{budget: 6, maxProgress: 1, maxJumps: 2, faults: []reply{rErr}}, 2, 3),
		// Responses with an invalid timestamp (carrying an execute order).
		scenario("fault-timestamp",
			config{budget: 4, maxProgress: 1, maxJumps: 1, faults: []reply{rBadTS}},
			config{budget: 6, maxProgress: 1, maxJumps: 2, faults: []reply{rBadTS}}, 2, 3),
		// Execute orders that cannot be started, unknown desired states.
		scenario("fault-order",
			config{budget: 4, maxProgress: 1, faults: []reply{rBadExec, rUnknown}, late: true},
			config{budget: 6, maxProgress: 1, maxJumps: 1, faults: []reply{rBadExec, rUnknown}, late: true}, 2, 3),
		// Readiness failures (also after non-OK completions), combined with
		// RPC errors: readiness must only be (re)checked - and its failure may
		// only permit termination - while the scheduler cannot believe the
		// worker is executing.
		scenario("readiness",
			config{budget: 4, maxProgress: 0, maxReadyFail: 2, noNone: true, faults: []reply{rErr}, late: true},
			config{budget: 6, maxProgress: 2, maxReadyFail: 3, maxJumps: 1, faults: []reply{rErr}, late: true}, 2, -1),
		// The one-minute rule: scheduler unreachable during shutdown.
		scenario("outage",
			config{budget: 3, maxProgress: 0, maxJumps: 2, faults: []reply{rErr}},
			config{budget: 5, maxProgress: 1, maxJumps: 3, faults: []reply{rErr, rBadTS}}, 3, -1),
	}
	mc.Main(t, scenarios, nil)
}
