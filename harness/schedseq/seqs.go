package schedseq

import "verif/mc"

func seqs() []*mc.Seq { return nil }
