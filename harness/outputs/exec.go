package outputs

import (
	"context"
	"fmt"
	"sync"
	"time"

	remoteexecution "github.com/bazelbuild/remote-apis/build/bazel/remote/execution/v2"
	"github.com/buildbarn/bb-remote-execution/pkg/builder"
	"github.com/buildbarn/bb-remote-execution/pkg/filesystem/pool"
	"github.com/buildbarn/bb-remote-execution/pkg/proto/remoteworker"
	runner_pb "github.com/buildbarn/bb-remote-execution/pkg/proto/runner"
	"github.com/buildbarn/bb-storage/pkg/clock"
	"github.com/buildbarn/bb-storage/pkg/digest"
	"github.com/buildbarn/bb-storage/pkg/filesystem/path"

	"google.golang.org/grpc"
	"google.golang.org/grpc/codes"
	"google.golang.org/grpc/status"
	"google.golang.org/protobuf/proto"
	"google.golang.org/protobuf/types/known/durationpb"
	"google.golang.org/protobuf/types/known/emptypb"
)

// The executor's own control flow under test: the real
// builder.NewLocalBuildExecutor(...).Execute() over a real build directory
// (naive on a scratch directory, or virtual), the in-memory CAS, a fake
// clock and a fake runner that plays the action: it creates the outputs of
// the input in the build directory and then reports one of several outcomes,
// including failures of the Run call that happen AFTER the outputs were made
// (execution timeout, lost connection). The ActionResult in the
// ExecuteResponse is judged by the same verifier as everywhere else, for
// every runner outcome.

type runnerOutcome int

const (
	roExit0       runnerOutcome = iota // RunResponse{exit_code: 0}
	roExit1                            // RunResponse{exit_code: 1}
	roTimeout                          // the execution timeout fires while the command still runs: DEADLINE_EXCEEDED
	roUnavailable                      // the connection to the runner is lost: UNAVAILABLE
	numRunnerOutcomes
)

func (o runnerOutcome) String() string {
	return [...]string{"exit0", "exit1", "timeout/DEADLINE_EXCEEDED", "UNAVAILABLE"}[o]
}

// timeoutCtx is what the fake clock hands out for NewContextWithTimeout: a
// context that expires when the harness says so.
type timeoutCtx struct {
	context.Context
	timeout time.Duration
	done    chan struct{}
	stop    func() bool

	mu  sync.Mutex
	err error
}

func (t *timeoutCtx) Done() <-chan struct{} { return t.done }

func (t *timeoutCtx) Err() error {
	t.mu.Lock()
	defer t.mu.Unlock()
	return t.err
}

func (t *timeoutCtx) Deadline() (time.Time, bool) { return time.Unix(1000, 0).Add(t.timeout), true }

func (t *timeoutCtx) finish(err error) {
	t.mu.Lock()
	defer t.mu.Unlock()
	if t.err == nil {
		t.err = err
		close(t.done)
	}
}

type fakeClock struct {
	mu   sync.Mutex
	ctxs []*timeoutCtx
}

var _ clock.Clock = (*fakeClock)(nil)

func (c *fakeClock) Now() time.Time { return time.Unix(1000, 0) }

func (c *fakeClock) NewContextWithTimeout(parent context.Context, timeout time.Duration) (context.Context, context.CancelFunc) {
	t := &timeoutCtx{Context: parent, timeout: timeout, done: make(chan struct{})}
	if err := parent.Err(); err != nil {
		// Like context.WithTimeout: a context derived from a parent that is
		// already done is done from the start (synchronously).
		t.finish(err)
	}
	t.stop = context.AfterFunc(parent, func() { t.finish(parent.Err()) })
	c.mu.Lock()
	c.ctxs = append(c.ctxs, t)
	c.mu.Unlock()
	return t, func() { t.stop(); t.finish(context.Canceled) }
}

func (c *fakeClock) NewTimer(d time.Duration) (clock.Timer, <-chan time.Time) {
	panic("harness: NewTimer is not expected")
}

func (c *fakeClock) NewTicker(d time.Duration) (clock.Ticker, <-chan time.Time) {
	panic("harness: NewTicker is not expected")
}

// emptyDirectoryFetcher: the input root of every action is the empty
// Directory.
type emptyDirectoryFetcher struct{}

func (emptyDirectoryFetcher) GetDirectory(ctx context.Context, d digest.Digest) (*remoteexecution.Directory, error) {
	return &remoteexecution.Directory{}, nil
}

func (emptyDirectoryFetcher) GetTreeRootDirectory(ctx context.Context, d digest.Digest) (*remoteexecution.Directory, error) {
	return &remoteexecution.Directory{}, nil
}

func (emptyDirectoryFetcher) GetTreeChildDirectory(ctx context.Context, t, c digest.Digest) (*remoteexecution.Directory, error) {
	return &remoteexecution.Directory{}, nil
}

type oneBuildDirectory struct {
	bd    builder.BuildDirectory
	calls int
}

func (c *oneBuildDirectory) GetBuildDirectory(ctx context.Context, actionDigestIfNotRunInParallel *digest.Digest) (builder.BuildDirectory, *path.Trace, error) {
	c.calls++
	if c.calls > 1 {
		panic("harness: a second build directory was requested")
	}
	return c.bd, nil, nil
}

const actionTimeout = time.Hour

// fakeRunner plays bb_runner and the command.
type fakeRunner struct {
	fail    failFn
	in      *input
	b       backend
	model   *node // the input root
	locs    [][]string
	clk     *fakeClock
	outcome runnerOutcome
	calls   int
	linger  *lingeringWriter // non-nil: one output file is still open for writing when Run returns
}

var _ runner_pb.RunnerClient = (*fakeRunner)(nil)

func (r *fakeRunner) CheckReadiness(ctx context.Context, in *runner_pb.CheckReadinessRequest, opts ...grpc.CallOption) (*emptypb.Empty, error) {
	return &emptypb.Empty{}, nil
}

var rootLoc = []string{"root"}

func underRoot(loc []string) []string { return append(append([]string(nil), rootLoc...), loc...) }

func (r *fakeRunner) Run(ctx context.Context, req *runner_pb.RunRequest, opts ...grpc.CallOption) (*runner_pb.RunResponse, error) {
	r.calls++
	must := func(err error) {
		if err != nil {
			panic(fmt.Sprintf("harness: %s file system refused a step of the fake runner: %v; input %s", r.b.label(), err, r.in))
		}
	}
	// "Parent directories of declared outputs exist before the command runs."
	if !r.b.isDir(rootLoc) {
		r.fail("parent-missing-at-run", "the input root directory does not exist when the runner is invoked")
	}
	for _, l := range r.locs {
		for i := 1; i < len(l); i++ {
			if !r.b.isDir(underRoot(l[:i])) {
				r.fail("parent-missing-at-run", "parent directory %q of a declared output is not a directory when the runner is invoked", locString(l[:i]))
			}
			if r.model.lookup(l[:i]) == nil {
				applyPut(r.model, put{loc: l[:i], thing: newDir()}) // model: mkdir -p
			}
		}
	}
	// The command: stdout and stderr (the real runner always creates them),
	// then the outputs.
	must(r.b.put(put{loc: []string{req.StdoutPath}, thing: newFile("stdout of the command\n", false)}))
	must(r.b.put(put{loc: []string{req.StderrPath}, thing: newFile("", false)}))
	puts := append([]put(nil), r.in.action...)
	if r.in.decoys {
		puts = append(puts, decoyPuts(r.model, r.locs)...)
	}
	for _, p := range puts {
		must(r.b.put(put{loc: underRoot(p.loc), thing: p.thing}))
		applyPut(r.model, p)
	}
	if r.linger != nil {
		r.linger.open(r)
	}
	switch r.outcome {
	case roExit0:
		return &runner_pb.RunResponse{ExitCode: 0}, nil
	case roExit1:
		return &runner_pb.RunResponse{ExitCode: 1}, nil
	case roTimeout:
		// The command keeps running until the execution timeout that the
		// executor installed through its clock expires; bb_runner then kills
		// it and the call fails with DEADLINE_EXCEEDED.
		r.clk.mu.Lock()
		var tc *timeoutCtx
		for _, c := range r.clk.ctxs {
			if c.timeout == actionTimeout {
				tc = c
			}
		}
		r.clk.mu.Unlock()
		// (How the timeout is installed is not C10's business: if the context
		// does not expire, the call fails with DEADLINE_EXCEEDED all the same.)
		if tc != nil {
			tc.finish(context.DeadlineExceeded)
		}
		select {
		case <-ctx.Done():
			return nil, status.FromContextError(ctx.Err()).Err()
		default:
			return nil, status.Error(codes.DeadlineExceeded, "context deadline exceeded")
		}
	default:
		return nil, status.Error(codes.Unavailable, "connection to the runner was lost")
	}
}

// runExecutor: one input, one runner outcome, through Execute().
func runExecutor(fail failFn, in *input, virtualBD bool, outcome runnerOutcome, linger bool) {
	escapes := false
	var locs [][]string
	for _, p := range in.paths {
		l, ok := resolveDeclared(in.wd, p)
		if !ok {
			escapes = true
		}
		locs = append(locs, l)
	}
	model := newDir()
	w := newWorld(model, fault{})
	var b backend
	if virtualBD {
		b = newVirtualBackendWith(w, emptyDirectoryFetcher{})
	} else {
		b = newNaiveBackendWith(w, emptyDirectoryFetcher{})
	}
	defer b.finish()
	failed := false
	ffail := func(fp, format string, args ...any) {
		failed = true
		how := ""
		if linger {
			how = ", LINGERING WRITER: the first declared output file holds \"" + lingerHead + "\" and is still open for writing when Run returns; \"" + lingerTail + "\" is appended and the file closed after UploadingOutputs, the upload delay never expires"
		}
		fail(b.label()+"/"+fp, "%s\n  input (real localBuildExecutor.Execute, %s build directory, runner outcome %s%s): %s", fmt.Sprintf(format, args...), b.label(), outcome, how, in)
	}

	store := func(m proto.Message) *remoteexecution.Digest {
		data, err := proto.MarshalOptions{Deterministic: true}.Marshal(m)
		if err != nil {
			panic(err)
		}
		h, n := shaKey(data)
		w.cas.blobs[casKey(h, n)] = data
		return &remoteexecution.Digest{Hash: h, SizeBytes: n}
	}
	command := &remoteexecution.Command{
		Arguments:             []string{"produce"},
		WorkingDirectory:      in.wd,
		OutputPaths:           in.paths,
		OutputDirectoryFormat: remoteexecution.Command_OutputDirectoryFormat(in.format),
	}
	action := &remoteexecution.Action{
		CommandDigest:   store(command),
		InputRootDigest: store(&remoteexecution.Directory{}),
		Timeout:         durationpb.New(actionTimeout),
	}
	actionDigest := store(action)

	clk := &fakeClock{}
	runner := &fakeRunner{fail: ffail, in: in, b: b, model: model, locs: locs, clk: clk, outcome: outcome}
	executor := builder.NewLocalBuildExecutor(w.cas, &oneBuildDirectory{bd: b.dir()}, runner, clk, time.Minute, nil, 1<<20, map[string]string{"PATH": "/bin"}, in.force)
	updates := make(chan *remoteworker.CurrentState_Executing, 16)
	var filePool pool.FilePool = memPool{}
	var lw *lingeringWriter
	if linger {
		lw = newLingeringWriter(updates)
		runner.linger = lw
		filePool = lw
	}
	response := executor.Execute(bg, filePool, nil, sha256Function,
		&remoteworker.DesiredState_Executing{ActionDigest: actionDigest, Action: action}, updates)
	if lw != nil {
		lw.executeReturned()
		if failed {
			return
		}
	}
	if failed {
		return
	}
	if response == nil || response.Result == nil {
		ffail("no-result", "Execute returned no ActionResult")
		return
	}
	code := codes.Code(response.Status.GetCode())
	ar := response.Result

	// "working directories or output paths that escape the input root are
	// rejected instead of being touched"
	if escapes {
		if code == codes.OK || runner.calls != 0 {
			ffail("escape-accepted", "working directory or an output path escapes the input root, but Execute gave status %v and invoked the runner %d times", response.Status, runner.calls)
			return
		}
		if n := len(ar.OutputFiles) + len(ar.OutputDirectories) + len(ar.OutputSymlinks); n != 0 {
			ffail("escape-accepted", "rejected command, but the ActionResult lists %d outputs", n)
		}
		return
	}
	if runner.calls != 1 {
		ffail("runner-not-invoked", "the runner was invoked %d times; status %v", runner.calls, response.Status)
		return
	}
	if !casConsistent(ffail, w) {
		return
	}

	// The status reflects the runner outcome.
	legit := uploadErrLegit(model, locs)
	complete := !legit
	switch outcome {
	case roExit0, roExit1:
		if code != codes.OK && !legit {
			ffail("spurious-error", "the runner succeeded and every declared path is missing or a regular file, directory or symlink, but Execute reports %v; input root=%s", response.Status, model.dump())
			return
		}
		complete = code == codes.OK
	case roTimeout:
		if code != codes.DeadlineExceeded {
			ffail("status-hides-runner-error", "the runner failed with DEADLINE_EXCEEDED but Execute reports %v", response.Status)
			return
		}
	case roUnavailable:
		if code != codes.Unavailable {
			ffail("status-hides-runner-error", "the runner failed with UNAVAILABLE but Execute reports %v", response.Status)
			return
		}
	}
	// "the ActionResult lists precisely the declared output paths that exist
	// afterwards" - whatever the runner call returned. (When a special file
	// makes UploadOutputs fail and the runner error masks that in the
	// status, only soundness of the listing is demanded.)
	wantRoot := in.force || in.format == 1 || in.format == 2
	verifyResult(ffail, w, in.wd, in.paths, ar, wantRoot, complete)
}

// finalExecutor: every runner outcome x both build directory
// implementations x output directory formats.
func finalExecutor(fail failFn, in *input) int {
	failed := false
	f := func(fp, format string, args ...any) { failed = true; fail("exec/"+fp, format, args...) }
	n := 0
	type variant struct {
		format int32
		force  bool
		decoys bool
	}
	for _, virtualBD := range []bool{true, false} {
		variants := []variant{{0, false, false}, {2, false, true}}
		if virtualBD {
			variants = append(variants, variant{1, false, false}, variant{0, true, true})
		}
		for _, vr := range variants {
			for o := roExit0; o < numRunnerOutcomes; o++ {
				v := *in
				v.format, v.force, v.decoys = vr.format, vr.force, vr.decoys
				runExecutor(f, &v, virtualBD, o, false)
				n++
				if failed {
					return n
				}
			}
		}
	}
	// Lingering writer (virtual build directory only: the naive one cannot
	// know about open descriptors): one declared output file is still open
	// for writing when Run returns and gets its last bytes only after the
	// upload phase started; the worker's writable-file upload delay (one
	// minute on the fake clock) never expires.
	for _, o := range []runnerOutcome{roExit0, roExit1} {
		v := *in
		v.format = 0
		runExecutor(f, &v, true, o, true)
		n++
		if failed {
			return n
		}
	}
	return n
}
