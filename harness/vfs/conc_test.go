package vfs

import (
	"fmt"
	"strings"

	"verif/mc"

	"github.com/buildbarn/bb-remote-execution/pkg/filesystem/virtual"
	"github.com/buildbarn/bb-storage/pkg/filesystem/path"
)

// Engine A scenarios for C14: a handful of calls, one per thread, are
// started concurrently on a canned tree. Every Lock / TryLock of a directory
// mutex (through LockPile or directly), of the FUSE handle allocator and of
// the fake fetcher is a scheduling point.
//
// Canned tree:
//
//	/f            file
//	/d1/a         file
//	/d1/e/        directory holding the file x
//	/d1/g/        empty directory
//	/d2/b         file
//	/d2/c/        empty directory
//	/z/           lazily initialised directory {a (file), e/ (lazy)}
type tree struct {
	x    *mc.X
	w    *world
	root virtual.PrepopulatedDirectory
	d1   virtual.PrepopulatedDirectory
	d2   virtual.PrepopulatedDirectory
	e    virtual.PrepopulatedDirectory
	g    virtual.PrepopulatedDirectory
	c    virtual.PrepopulatedDirectory
	z    virtual.PrepopulatedDirectory
	zf   *fakeFetcher
	f    virtual.LinkableLeaf

	// Directories handed to threads by calls (CreateAndEnter, VirtualMkdir).
	extra []virtual.PrepopulatedDirectory
}

func must(err error) {
	if err != nil {
		panic(err)
	}
}

func mustDir(p virtual.PrepopulatedDirectory, name string) virtual.PrepopulatedDirectory {
	d, err := p.CreateAndEnterPrepopulatedDirectory(mk(name))
	must(err)
	return d
}

func mustFile(w *world, p virtual.PrepopulatedDirectory, name string) virtual.LinkableLeaf {
	rec := w.newLeaf(kindFile)
	must(p.CreateChildren(map[path.Component]virtual.InitialChild{mk(name): virtual.InitialChild{}.FromLeaf(rec.outer)}, false))
	return rec.outer
}

func buildTree(x *mc.X, zFailsOnce bool) *tree {
	w := newWorld()
	t := &tree{x: x, w: w, root: newRoot(w, false, true)}
	t.d1 = mustDir(t.root, "d1")
	t.d2 = mustDir(t.root, "d2")
	t.e = mustDir(t.d1, "e")
	t.g = mustDir(t.d1, "g")
	t.c = mustDir(t.d2, "c")
	t.f = mustFile(w, t.root, "f")
	mustFile(w, t.d1, "a")
	mustFile(w, t.d2, "b")
	mustFile(w, t.e, "x")
	t.zf = &fakeFetcher{w: w, spec: lazySpec{files: []string{"a"}, dirs: []string{"e"}}, failOnce: zFailsOnce,
		onFetch: func() { x.Point("FetchContents") }}
	must(t.root.CreateChildren(map[path.Component]virtual.InitialChild{mk("z"): virtual.InitialChild{}.FromDirectory(t.zf)}, false))
	child, err := t.root.LookupChild(mk("z"))
	must(err)
	t.z, _ = child.GetPair()
	// From now on the allocators are scheduling points.
	w.point = x.Point
	return t
}

// known lists every directory object the scenario can know about.
func (t *tree) known() []virtual.PrepopulatedDirectory {
	return append([]virtual.PrepopulatedDirectory{t.root, t.d1, t.d2, t.e, t.g, t.c, t.z}, t.extra...)
}

// dump renders the whole tree canonically: directories are numbered in the
// order of a breadth first walk that starts with the known handles, leaves in
// the order they are met.
func (t *tree) dump() string {
	var b strings.Builder
	dirRank := map[virtual.Directory]int{}
	leafRank := map[virtual.Leaf]int{}
	var dq []virtual.Directory
	var lq []virtual.LinkableLeaf
	visitDir := func(d virtual.Directory) int {
		if r, ok := dirRank[d]; ok {
			return r
		}
		dirRank[d] = len(dq)
		dq = append(dq, d)
		return len(dq) - 1
	}
	visitLeaf := func(l virtual.LinkableLeaf) int {
		if r, ok := leafRank[l]; ok {
			return r
		}
		leafRank[l] = len(lq)
		lq = append(lq, l)
		return len(lq) - 1
	}
	for _, d := range t.known() {
		visitDir(d)
	}
	visitLeaf(t.f)
	for qi := 0; qi < len(dq); qi++ {
		sn, _ := virtual.VerifSnapshotDirectory(dq[qi])
		fmt.Fprintf(&b, "d%d[i%t,x%t|", qi, sn.Initialized, sn.Deleted)
		for _, e := range sn.Entries {
			b.WriteString(e.Name)
			if e.Directory != nil {
				fmt.Fprintf(&b, ":d%d,", visitDir(e.Directory))
			} else {
				fmt.Fprintf(&b, ":l%d,", visitLeaf(e.Leaf))
			}
		}
		b.WriteString("];")
	}
	for i, l := range lq {
		var a virtual.Attributes
		l.VirtualGetAttributes(ctx, virtual.AttributesMaskLinkCount, &a)
		fmt.Fprintf(&b, "l%d{n%d};", i, a.GetLinkCount())
	}
	t.w.mu.Lock()
	fmt.Fprintf(&b, "zf%d/%t/%t", t.zf.calls, t.zf.failOnce, t.w.failNewFile)
	t.w.mu.Unlock()
	return b.String()
}

// checkStructure evaluates the dump-level invariants once all calls are done.
func (t *tree) checkStructure() {
	x := t.x
	parents := map[virtual.Directory]int{}
	reach := map[virtual.Directory]bool{}
	var all []virtual.Directory
	seen := map[virtual.Directory]bool{}
	var queue []virtual.Directory
	push := func(d virtual.Directory) {
		if !seen[d] {
			seen[d] = true
			queue = append(queue, d)
			all = append(all, d)
		}
	}
	for _, d := range t.known() {
		push(d)
	}
	names := map[virtual.Directory]string{}
	for qi := 0; qi < len(queue); qi++ {
		d := queue[qi]
		sn, _ := virtual.VerifSnapshotDirectory(d)
		if bad := structuralDefects(sn); bad != "" {
			x.FailP("C14", "structure/"+strings.SplitN(bad, " ", 2)[0], "directory %s: %s", names[d], bad)
			return
		}
		for _, e := range sn.Entries {
			if e.Directory != nil {
				parents[e.Directory]++
				names[e.Directory] = names[d] + "/" + e.Name
				push(e.Directory)
			}
		}
	}
	// Reachability from the root.
	var walk func(d virtual.Directory)
	walk = func(d virtual.Directory) {
		if reach[d] {
			return
		}
		reach[d] = true
		sn, _ := virtual.VerifSnapshotDirectory(d)
		for _, e := range sn.Entries {
			if e.Directory != nil {
				walk(e.Directory)
			}
		}
	}
	walk(t.root)
	for _, d := range all {
		sn, _ := virtual.VerifSnapshotDirectory(d)
		if parents[d] > 1 {
			x.FailP("C14", "structure/two-parents", "directory %s is an entry of %d directories", names[d], parents[d])
		}
		if !reach[d] && !sn.Deleted && sn.Initialized {
			// A directory that is no longer part of the tree must
			// be a tombstone, or it would keep accepting entries.
			x.FailP("C14", "structure/detached-alive", "directory %q is not reachable from the root but is not marked as removed (entries %s)", names[d], snapNames(sn))
		}
	}
	// Link counts equal the number of names.
	counts := map[virtual.Leaf]int{}
	for _, d := range all {
		sn, _ := virtual.VerifSnapshotDirectory(d)
		for _, e := range sn.Entries {
			if e.Leaf != nil {
				counts[e.Leaf]++
			}
		}
	}
	t.w.mu.Lock()
	recs := append([]*leafRec(nil), t.w.leaves...)
	t.w.mu.Unlock()
	for _, rec := range recs {
		var a virtual.Attributes
		rec.outer.VirtualGetAttributes(ctx, virtual.AttributesMaskLinkCount, &a)
		n := counts[rec.outer]
		if n > 0 && int(a.GetLinkCount()) != n {
			x.FailP("C14", "structure/linkcount", "file %d has %d names but link count %d", rec.id, n, a.GetLinkCount())
		}
		if n > 0 && rec.inner.unlinkCalls > 0 {
			x.FailP("C14", "structure/released", "file %d still has %d names but was released", rec.id, n)
		}
	}
}

// ---------------------------------------------------------------------------
// Calls.

type call struct {
	name string
	// legal lists the results the call may return whatever the others do.
	legal []string
	fn    func(t *tree) string
}

type dirSel func(*tree) virtual.PrepopulatedDirectory

func selRoot(t *tree) virtual.PrepopulatedDirectory { return t.root }
func selD1(t *tree) virtual.PrepopulatedDirectory   { return t.d1 }
func selD2(t *tree) virtual.PrepopulatedDirectory   { return t.d2 }
func selE(t *tree) virtual.PrepopulatedDirectory    { return t.e }
func selG(t *tree) virtual.PrepopulatedDirectory    { return t.g }
func selC(t *tree) virtual.PrepopulatedDirectory    { return t.c }
func selZ(t *tree) virtual.PrepopulatedDirectory    { return t.z }

const lockedMask = virtual.AttributesMaskChangeID | virtual.AttributesMaskFileType | virtual.AttributesMaskLinkCount

var (
	legalRename = []string{"OK", "ENOENT", "ENOTEMPTY", "EEXIST", "EISDIR", "ENOTDIR", "EINVAL"}
	legalRemove = []string{"OK", "ENOENT", "ENOTEMPTY", "EEXIST", "EPERM", "EISDIR", "ENOTDIR"}
	legalCreate = []string{"OK", "EEXIST", "ENOENT", "EISDIR"}
	legalLookup = []string{"OK", "ENOENT"}
	legalBulk   = []string{"OK", "ENOENT", "EEXIST", "ENOTEMPTY"}
)

func withIO(l []string) []string { return append(append([]string(nil), l...), "EIO") }

func cRename(name string, from dirSel, a string, to dirSel, b string) call {
	return call{name, legalRename, func(t *tree) string {
		_, _, s := from(t).VirtualRename(ctx, mk(a), to(t), mk(b))
		return sname(s)
	}}
}

// cRenameStrict is a rename with a scenario specific set of legal results
// (every linearisation of the scenario's calls yields one of them).
func cRenameStrict(name string, from dirSel, a string, to dirSel, b string, legal ...string) call {
	c := cRename(name, from, a, to, b)
	c.legal = legal
	return c
}

func cRemove(name string, d dirSel, n string, rmDir, rmLeaf bool) call {
	return call{name, legalRemove, func(t *tree) string {
		_, s := d(t).VirtualRemove(ctx, mk(n), rmDir, rmLeaf)
		return sname(s)
	}}
}

func cLookup(name string, d dirSel, n string) call {
	return call{name, legalLookup, func(t *tree) string {
		var a virtual.Attributes
		_, s := d(t).VirtualLookup(ctx, mk(n), lockedMask, &a)
		return sname(s)
	}}
}

// cReadDir lists a directory with attributes that require the lock of each
// child directory. It also checks the listing guarantee of C13 under
// concurrency: entries that nobody touches are reported exactly once.
func cReadDir(name string, d dirSel, stable ...string) call {
	return call{name, []string{"OK"}, func(t *tree) string {
		r := &pageReporter{limit: -1}
		s := d(t).VirtualReadDir(ctx, 0, lockedMask, r)
		counts := map[string]int{}
		for _, n := range r.names {
			counts[n]++
		}
		for _, n := range stable {
			if s == sOK && counts[n] != 1 {
				t.x.FailP("C13", "listing-concurrent/"+name, "entry %q existed throughout the listing but was reported %d times (%v)", n, counts[n], r.names)
			}
		}
		return sname(s)
	}}
}

func cMkdir(name string, d dirSel, n string) call {
	return call{name, legalCreate, func(t *tree) string {
		var a virtual.Attributes
		_, _, s := d(t).VirtualMkdir(ctx, mk(n), &virtual.Attributes{}, lockedMask, &a)
		return sname(s)
	}}
}

func cOpenCreate(name string, d dirSel, n string) call {
	return call{name, legalCreate, func(t *tree) string {
		var a virtual.Attributes
		_, _, _, s := d(t).VirtualOpenChild(ctx, mk(n), virtual.ShareMaskRead, &virtual.Attributes{}, &virtual.OpenExistingOptions{}, lockedMask, &a)
		return sname(s)
	}}
}

func cLink(name string, d dirSel, n string) call {
	return call{name, append([]string{"ESTALE"}, legalCreate...), func(t *tree) string {
		var a virtual.Attributes
		_, s := d(t).VirtualLink(ctx, mk(n), t.f, lockedMask, &a)
		return sname(s)
	}}
}

func cBulkRemove(name string, d dirSel, n string) call {
	return call{name, legalBulk, func(t *tree) string { return sname(errStatus(d(t).Remove(mk(n)))) }}
}

func cRemoveAll(name string, d dirSel, n string) call {
	return call{name, legalBulk, func(t *tree) string { return sname(errStatus(d(t).RemoveAll(mk(n)))) }}
}

func cRemoveAllChildren(name string, d dirSel, deleteSelf bool) call {
	return call{name, []string{"OK"}, func(t *tree) string { return sname(errStatus(d(t).RemoveAllChildren(deleteSelf))) }}
}

func cCreateChildren(name string, d dirSel, overwrite bool, files []string, dirs []string) call {
	return call{name, legalBulk, func(t *tree) string {
		arg := map[path.Component]virtual.InitialChild{}
		for _, n := range files {
			arg[mk(n)] = virtual.InitialChild{}.FromLeaf(t.w.newLeaf(kindFile).outer)
		}
		for _, n := range dirs {
			arg[mk(n)] = virtual.InitialChild{}.FromDirectory(virtual.EmptyInitialContentsFetcher)
		}
		return sname(errStatus(d(t).CreateChildren(arg, overwrite)))
	}}
}

func cCreateAndEnter(name string, d dirSel, n string, thenFile string) call {
	return call{name, legalBulk, func(t *tree) string {
		child, err := d(t).CreateAndEnterPrepopulatedDirectory(mk(n))
		if err != nil {
			return sname(errStatus(err))
		}
		t.x.CheckNoLocksHeld(name + "/CreateAndEnterPrepopulatedDirectory")
		t.w.mu.Lock()
		t.extra = append(t.extra, child)
		t.w.mu.Unlock()
		if thenFile != "" {
			var a virtual.Attributes
			_, _, _, s := child.VirtualOpenChild(ctx, mk(thenFile), virtual.ShareMaskRead, &virtual.Attributes{}, nil, 0, &a)
			if s != sOK && s != sNoEnt {
				return "second:" + sname(s)
			}
		}
		return "OK"
	}}
}

func cFilterRemoveAll(name string, d dirSel) call {
	return call{name, []string{"OK"}, func(t *tree) string {
		bad := ""
		err := d(t).FilterChildren(func(node virtual.InitialChild, remove virtual.ChildRemover) bool {
			t.x.CheckNoLocksHeld(name + "/FilterChildren-callback")
			if err := remove(); err != nil {
				// Somebody else may have removed it first.
				if s := errStatus(err); s != sNoEnt && s != sNotEmpty {
					bad = sname(s)
				}
			}
			return true
		})
		if bad != "" {
			return "remover:" + bad
		}
		return sname(errStatus(err))
	}}
}

func cBulkReads(name string, d dirSel) call {
	return call{name, []string{"OK"}, func(t *tree) string {
		if _, err := d(t).ReadDir(); err != nil {
			return sname(errStatus(err))
		}
		t.x.CheckNoLocksHeld(name + "/ReadDir")
		if _, _, err := d(t).LookupAllChildren(); err != nil {
			return sname(errStatus(err))
		}
		return "OK"
	}}
}

func (c call) io() call { c.legal = withIO(c.legal); return c }

type scOpt struct {
	zFailsOnce bool
	quick      int  // deviation bound of the quick tier (-1: unbounded, state pruning only)
	c13        bool // also serves C13 (listing guarantee / rename semantics under concurrency)
	// failNewFile makes the first FileAllocator.NewFile call fail: a
	// thread can then sit inside a directory (holding its lock at the
	// allocator's scheduling point) and leave it empty.
	failNewFile bool
	// thorough is the deviation bound of the thorough tier; 0 means
	// unbounded. Three or more LockPile users contending for the same two
	// locks can be kept rotating for ever by an adversarial scheduler
	// (every round costs preemptions): such scenarios need a bound, or the
	// unbounded search walks that cycle until the step horizon.
	thorough int
}

func concurrentScenario(name string, o scOpt, calls ...call) *mc.Scenario {
	props := []string{"C14"}
	if o.c13 {
		props = append(props, "C13")
	}
	zFailsOnce, quick := o.zFailsOnce, o.quick
	thorough := -1
	if o.thorough != 0 {
		thorough = o.thorough
	}
	// cur carries the tree from Build to Finish (a worker process runs the
	// executions of one scenario strictly one after another).
	var cur *tree
	return &mc.Scenario{
		Name:     name,
		Props:    props,
		Liveness: []string{"C14"},
		Livelock: []string{"C14"},
		Panics:   props,
		Bounds:   map[string]int{"quick": quick, "thorough": thorough},
		Build: func(x *mc.X) {
			t := buildTree(x, zFailsOnce)
			t.w.failNewFile = o.failNewFile
			x.SetKey(t.dump)
			for _, c := range calls {
				c := c
				x.Go(c.name, func() {
					r := c.fn(t)
					x.CheckNoLocksHeld(c.name)
					if !x.Free() {
						legal := false
						for _, l := range c.legal {
							legal = legal || l == r
						}
						if !legal && o.c13 {
							x.FailP("C13", "status-concurrent/"+c.name+"/"+r, "%s returned %s, which no order of the concurrent calls justifies (legal: %v)", c.name, r, c.legal)
						}
						if !legal {
							x.FailP("C14", "status/"+c.name+"/"+r, "%s returned %s, which no interleaving with the other calls justifies (legal: %v)", c.name, r, c.legal)
						}
					}
					x.Outcome("%s=%s", c.name, r)
				})
			}
			cur = t
		},
		Finish: func(x *mc.X) {
			if !x.Free() {
				cur.checkStructure()
				x.Outcome("%s", cur.dump())
			}
		},
	}
}

func buildScenarios() []*mc.Scenario {
	all := scOpt{quick: -1}
	p3 := scOpt{quick: 3}
	return []*mc.Scenario{
		// Renames in opposite directions between two directories, over
		// existing leaves, with a lookup that locks two directories.
		concurrentScenario("conc-rename-opposite", all,
			cRename("rename(d1/a->d2/b)", selD1, "a", selD2, "b"),
			cRename("rename(d2/b->d1/a)", selD2, "b", selD1, "a"),
			cLookup("lookup(d1/e)", selD1, "e")),
		// Directories over empty directories in opposite directions:
		// each rename locks three directories.
		concurrentScenario("conc-rename-dirs-opposite", all,
			cRename("rename(d1/g->d2/c)", selD1, "g", selD2, "c"),
			cRename("rename(d2/c->d1/g)", selD2, "c", selD1, "g"),
			cLookup("lookup(d2/c)", selD2, "c")),
		// The same with a thread that sits inside the target directory
		// (it holds its lock while the file allocator is called), so
		// that the renames have to back off.
		concurrentScenario("conc-rename-dirs-holder", all,
			cRename("rename(d1/g->d2/c)", selD1, "g", selD2, "c"),
			cRename("rename(d2/c->d1/g)", selD2, "c", selD1, "g"),
			cOpenCreate("open(d2/c/n)", selC, "n")),
		// Rename into a directory that is being removed.
		concurrentScenario("conc-rename-into-removed", all,
			cRename("rename(f->d1/g/f)", selRoot, "f", selG, "f"),
			cRemove("rmdir(d1/g)", selD1, "g", true, false),
			cMkdir("mkdir(d1/g)", selD1, "g")),
		// Lookup with attributes of child g that need g's lock, while g
		// is removed and its parent is emptied.
		concurrentScenario("conc-lookup-remove-removeall", all,
			cLookup("lookup(d1/g)", selD1, "g"),
			cRemove("rmdir(d1/g)", selD1, "g", true, false),
			cRemoveAllChildren("RemoveAllChildren(d1)", selD1, false)),
		// getAndLockIfDirectory has to give up the parent, and finds the
		// entry replaced when it comes back: lookup, remove and rename.
		concurrentScenario("conc-lookup-revalidate", all,
			cLookup("lookup(d1/g)", selD1, "g"),
			cOpenCreate("open(d1/g/n)", selG, "n"),
			cCreateChildren("CreateChildren(d1,{g/},overwrite)", selD1, true, nil, []string{"g"})),
		concurrentScenario("conc-remove-revalidate", all,
			cRemove("rmdir(d1/g)", selD1, "g", true, false),
			cOpenCreate("open(d1/g/n)", selG, "n"),
			cCreateChildren("CreateChildren(d1,{g/},overwrite)", selD1, true, nil, []string{"g"})),
		concurrentScenario("conc-rename-revalidate", all,
			cRename("rename(d2/c->d1/g)", selD2, "c", selD1, "g"),
			cOpenCreate("open(d1/g/n)", selG, "n"),
			cRemoveAllChildren("RemoveAllChildren(d1)", selD1, false)),
		// The source of a rename vanishes while the rename waits for the
		// lock of the (empty) directory at its target name: the rename
		// must notice (ENOENT) or have happened before the removal.
		concurrentScenario("conc-rename-source-vanishes", scOpt{quick: -1, c13: true, failNewFile: true},
			cRenameStrict("rename(d2/c->d1/g)", selD2, "c", selD1, "g", "OK", "ENOENT"),
			cOpenCreate("open(d1/g/n)", selG, "n").io(),
			cRemove("rmdir(d2/c)", selD2, "c", true, false)),
		concurrentScenario("conc-rename-source-renamed", scOpt{quick: -1, c13: true, failNewFile: true},
			cRenameStrict("rename(d2/b->d1/g)", selD2, "b", selD1, "g", "EISDIR", "ENOENT"),
			cOpenCreate("open(d1/g/n)", selG, "n").io(),
			cRename("rename(d2/b->d2/b2)", selD2, "b", selD2, "b2")),
		// Listings with attributes that need the lock of each child
		// directory: the listing drops the parent lock while it waits
		// for g and finds its position gone. a and e exist throughout.
		concurrentScenario("conc-readdir-reseek", scOpt{quick: -1, c13: true},
			cReadDir("readdir(d1)", selD1, "a", "e"),
			cOpenCreate("open(d1/g/n)", selG, "n"),
			cCreateChildren("CreateChildren(d1,{g/},overwrite)", selD1, true, nil, []string{"g"})),
		concurrentScenario("conc-readdir-remove", scOpt{quick: -1, c13: true},
			cReadDir("readdir(d1)", selD1, "a", "g"),
			cOpenCreate("open(d1/e/n)", selE, "n"),
			cRemoveAll("RemoveAll(d1/e)", selD1, "e")),
		concurrentScenario("conc-readdir-remove-removeall", all,
			cReadDir("readdir(d1)", selD1),
			cRemove("rmdir(d1/g)", selD1, "g", true, false),
			cRemoveAllChildren("RemoveAllChildren(d1/e,self)", selE, true)),
		// Rename of a directory over an empty one while somebody
		// creates a directory inside the target.
		concurrentScenario("conc-rename-over-mkdir-inside", all,
			cRename("rename(d2/c->d1/g)", selD2, "c", selD1, "g"),
			cMkdir("mkdir(d1/g/n)", selG, "n"),
			cLookup("lookup(d1/g)", selD1, "g")),
		// Remove against CreateChildren(overwrite) of the same name.
		// (Only one existing name is overwritten: upstream walks the
		// argument map in Go's random order when detaching.)
		concurrentScenario("conc-remove-createchildren", all,
			cBulkRemove("Remove(d1/g)", selD1, "g"),
			cCreateChildren("CreateChildren(d1,{g/,n},overwrite)", selD1, true, []string{"n"}, []string{"g"}),
			cBulkReads("ReadDir+LookupAllChildren(d1)", selD1)),
		// FilterChildren removing everything while entries move.
		concurrentScenario("conc-filter-rename", all,
			cFilterRemoveAll("FilterChildren(d1,remove-all)", selD1),
			cRename("rename(d1/a->d2/a2)", selD1, "a", selD2, "a2"),
			cRename("rename(d1/e->d2/c)", selD1, "e", selD2, "c")),
		// Same-directory calls, four threads.
		concurrentScenario("conc-same-directory", all,
			cOpenCreate("open(d1/n)", selD1, "n"),
			cMkdir("mkdir(d1/n)", selD1, "n"),
			cRename("rename(d1/a->d1/n)", selD1, "a", selD1, "n"),
			cLink("link(d1/a)", selD1, "a")),
		// Recursive removal against calls entering the subtree.
		concurrentScenario("conc-removeall-enter", p3,
			cRemoveAll("RemoveAll(/d1)", selRoot, "d1"),
			cCreateAndEnter("CreateAndEnter(d1/e/n)+open", selE, "n", "y"),
			cRename("rename(d2/b->d1/e/b)", selD2, "b", selE, "b")),
		concurrentScenario("conc-removeallchildren-root", p3,
			cRemoveAllChildren("RemoveAllChildren(/,self)", selRoot, true),
			cRename("rename(d1/e->d2/c)", selD1, "e", selD2, "c"),
			cCreateAndEnter("CreateAndEnter(d2/c)", selD2, "c", "")),
		// Larger mixes (quick: two preemptions; thorough: everything).
		concurrentScenario("conc-ring-of-renames", scOpt{quick: 2, thorough: 6},
			cRename("rename(d1/a->d2/a)", selD1, "a", selD2, "a"),
			cRename("rename(d2/b->d1/e/b)", selD2, "b", selE, "b"),
			cRename("rename(d1/e/x->d1/x)", selE, "x", selD1, "x"),
			cLookup("lookup(d1/e)", selD1, "e")),
		concurrentScenario("conc-mixed-four", scOpt{quick: 2, c13: true},
			cRemoveAll("RemoveAll(/d1)", selRoot, "d1"),
			cRename("rename(d2/c->d1/g)", selD2, "c", selD1, "g"),
			cReadDir("readdir(d1)", selD1),
			cOpenCreate("open(d1/e/n)", selE, "n")),
		// Lazy directory initialised by several calls at once; the
		// fetcher fails the first time.
		concurrentScenario("conc-lazy-init", scOpt{quick: -1, zFailsOnce: true},
			cLookup("lookup(z/a)", selZ, "a").io(),
			cBulkReads("ReadDir+LookupAllChildren(z)", selZ).io(),
			cRemove("rmdir(/z)", selRoot, "z", true, false).io()),
		concurrentScenario("conc-lazy-rename-over", all,
			cRename("rename(d2/c->/z)", selD2, "c", selRoot, "z"),
			cOpenCreate("open(z/n)", selZ, "n"),
			cRemoveAllChildren("RemoveAllChildren(z)", selZ, false)),
		// Production wiring: pool backed files with named attributes
		// behind the NFS and the FUSE handle allocator.
		prodScenario("prod-xattr-nfs", true),
		prodScenario("prod-xattr-fuse", false),
		// The scenario the coordinator started with (kept): a leaked
		// lock on the error path of a removed directory.
		{
			Name: "enter-removed", Props: []string{"C14"}, Liveness: []string{"C14"}, Panics: []string{"C14"},
			Build: func(x *mc.X) {
				t := buildTree(x, false)
				x.Go("T1", func() {
					t.d1.VirtualRemove(ctx, mk("g"), true, true)
					x.CheckNoLocksHeld("VirtualRemove")
					_, err := t.g.CreateAndEnterPrepopulatedDirectory(mk("x"))
					x.CheckNoLocksHeld("CreateAndEnterPrepopulatedDirectory")
					x.Outcome("err=%v", err)
				})
			},
		},
	}
}
